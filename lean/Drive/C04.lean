import DclabModel.Model.Hier
import DclabModel.DriveUtil
/-! Line-protocol driver for the hierarchy model (C04). Levels are numbered 0 = root … d = youngest.

    new <fixed 0|1> <snap 0|1> <n> <depth>   start a case (features follow)    → ok
    feat <v0> <v1> …                 values of the next box-filterable feature  → ok
    init                             build root and `depth` children            → ok
    set <level> <f> <lo> <hi>        config range of feature f                  → ok
    man <level> <p> <0|1>            filter.manual[p] = b                       → ok | err:index
    rejuv                            youngest.rejuvenate()                      → ok | err:index
    rejuvat <level>                  L_level.rejuvenate() (members below are left alone)
    state <level>                    → `len=… ids=… all=… man=… mr=… pc=0|1 view=0|1 low=0|1 up=0|1 spec=0|1`
       pc   : HierarchyFilter.parent_changed of that member (0 for the root)
       view : ids = sel(parent.all, parent ids) ∧ len = count(parent.all)      (theorem 2)
       low  : gM ∩ ids ⊆ excluded,  up : excluded ⊆ gM                          (theorem 3)
       spec : all = specAll                                                    (theorem 4)
-/
open DclabModel.Hier DclabModel.DriveUtil

structure St where
  fixed : Bool := true
  snap : Bool := true
  D : Data := { n := 0, feats := [] }
  depth : Nat := 0
  s : List Level := []

def pos (st : St) (lvl : Nat) : Option Nat := if lvl ≤ st.depth then some (st.depth - lvl) else none

/-- would numpy raise IndexError inside `retrieve_manual_indices` of some member?
(only the code before the F32 repair, `snap = false`) -/
def retrieveOk (fixed : Bool) : List Level → Bool
  | [] => true
  | c :: anc =>
    (if key fixed anc != c.phash || c.manual.all id then true
     else
       let alls := anc.map (·.all)
       c2rootOk alls (whereIdx (c.manual.map not)) &&
         (let pall := normSet (c2root alls (whereIdx (c.manual.map not)) ++ c.manRoot)
          c2rootOk alls (r2c alls pall)))
    && retrieveOk fixed anc

def showState (st : St) (k : Nat) : String :=
  match st.s.drop k with
  | [] => "bad-op"
  | c :: anc =>
    let view := match anc with
      | [] => decide (c.ev = List.range st.D.n ∧ c.len = st.D.n)
      | p :: _ => decide (c.ev = sel p.all p.ev ∧ c.len = cnt p.all)
    let ex := excl c
    let low := c.gM.all (fun r => !c.ev.contains r || ex.contains r)
    let up := ex.all (fun r => c.gM.contains r)
    let b (x : Bool) : String := if x then "1" else "0"
    s!"len={c.len} ids={showNats c.ev} all={showBools c.all} man={showBools c.manual} " ++
    let pc := match anc with
      | [] => false
      | _ :: _ => key st.fixed anc != c.phash
    s!"mr={showNats c.manRoot} pc={b pc} view={b view} low={b low} up={b up} " ++
    s!"spec={b (c.all == specAll st.D c)}"

def handle (st : St) (line : String) : St × String :=
  match words line with
  | ["new", fx, sn, n, d] =>
    match fx.toNat?, sn.toNat?, n.toNat?, d.toNat? with
    | some fx, some sn, some n, some d =>
      ({ fixed := fx != 0, snap := sn != 0, D := { n := n, feats := [] }, depth := d, s := [] },
       "ok")
    | _, _, _, _ => (st, "bad-op")
  | "feat" :: vs => match parseInts vs with
    | some v => ({ st with D := { st.D with feats := st.D.feats ++ [v] } }, "ok")
    | none => (st, "bad-op")
  | ["init"] => ({ st with s := initChain st.fixed st.snap st.D st.depth }, "ok")
  | ["set", lvl, f, lo, hi] =>
    match lvl.toNat?, f.toNat?, parseInt? lo, parseInt? hi with
    | some lvl, some f, some lo, some hi =>
      match pos st lvl with
      | some k => ({ st with s := step st.fixed st.snap st.D st.s (.setRange k f lo hi) }, "ok")
      | none => (st, "bad-op")
    | _, _, _, _ => (st, "bad-op")
  | ["man", lvl, p, b] =>
    match lvl.toNat?, p.toNat?, b.toNat? with
    | some lvl, some p, some b =>
      match pos st lvl with
      | some k =>
        match st.s.drop k with
        | c :: _ =>
          if p < c.manual.length then
            ({ st with s := step st.fixed st.snap st.D st.s (.manual k p (b != 0)) }, "ok")
          else (st, "err:index")
        | [] => (st, "bad-op")
      | none => (st, "bad-op")
    | _, _, _ => (st, "bad-op")
  | ["rejuv"] =>
    if st.snap || retrieveOk st.fixed st.s then
      ({ st with s := step st.fixed st.snap st.D st.s .rejuv }, "ok")
    else (st, "err:index")
  | ["rejuvat", lvl] =>
    match lvl.toNat? with
    | some lvl => match pos st lvl with
      | some k =>
        if st.snap || retrieveOk st.fixed (st.s.drop k) then
          ({ st with s := step st.fixed st.snap st.D st.s (.rejuvAt k) }, "ok")
        else (st, "err:index")
      | none => (st, "bad-op")
    | none => (st, "bad-op")
  | ["state", lvl] =>
    match lvl.toNat? with
    | some lvl => match pos st lvl with
      | some k => (st, showState st k)
      | none => (st, "bad-op")
    | none => (st, "bad-op")
  | _ => (st, "bad-op")

def main : IO Unit := mainLoop ({} : St) handle
