import DclabModel.Model.CliTasks
import DclabModel.DriveUtil
/-! Line-protocol driver for the crash-safety automaton (C10).

    trace <ins> <outs> <temps> <existing> <ops>
        lists are comma separated path numbers, `-` = empty; ops are comma separated tokens
        u<p> unlink · c<p> create · w<p> write · x<p> close · r<p> openRead · a<p> openAppend ·
        m<p>:<q> rename; the id of a write is its position in the trace.
        Files in <existing> start closed with content [1000000+p].
    → `conforms <n> <states>` | `violates <k> <states>` | `refused <n> <states>` (the roles are not
      well-formed — an output or temporary path coincides with an input — and the trace performs no
      mutating operation: `refused_untouched`)  where <states> has, per output path
      (joined by `|`), one letter per crash point k = 0..n for the state after `fail tr k`:
      u = untouched initial file, a = absent, c = complete (final closed file), p = anything else.
      The last word is `fresh` or `stale:<k>` (operation k looks at a leftover temporary that
      was neither removed nor truncated before, `DclabModel.Cli.freshFrom`).

    tmpl <task> <ins> <outs> <temps> <existing> <params> <ops>
        is the recorded trace <ops> an instance of the task's template (`Model/CliTasks.lean`)?
        <params> (comma separated numbers) per task:
          copy      so,st,n                       (condense, repack)
          compress  so,st,n1,n2
          join      so,st,n0,n1,first,#probes,probe…,(src,a,b)…
          split     #aux,aux…,(n1,n2) per part    (parts = temps zipped with outs)
          tdms      #staleOuts,o…,#staleTemps,t…,(n1,n2) per part
    → `instance|drift:<k> hyp:<0|1> tconf:<0|1> tfresh:<0|1>`  (k = first position at which the
      trace leaves the template; hyp = the hypotheses of the template theorems hold for these
      roles; tconf / tfresh = `Conforms` / `freshFrom` evaluated on the template itself)
-/
open DclabModel.Cli DclabModel.DriveUtil

def parseList (s : String) : Option (List Nat) :=
  if s = "-" then some [] else (s.splitOn ",").mapM (·.toNat?)

def parseOp (k : Nat) (s : String) : Option Op :=
  let body := (s.drop 1).toString
  match s.front with
  | 'u' => body.toNat?.map .unlink
  | 'c' => body.toNat?.map .create
  | 'w' => body.toNat?.map (fun p => .write p k)
  | 'x' => body.toNat?.map .close
  | 'r' => body.toNat?.map .openRead
  | 'a' => body.toNat?.map .openAppend
  | 'm' => match body.splitOn ":" with
    | [a, b] => match a.toNat?, b.toNat? with
      | some a, some b => some (.rename a b)
      | _, _ => none
    | _ => none
  | _ => none

def parseOps (s : String) : Option (List Op) :=
  if s = "-" then some [] else
    ((s.splitOn ",").zipIdx.mapM fun (w, k) => parseOp k w)

def classify (init final v : Option File) : Char :=
  match v with
  | none => 'a'
  | some f =>
    if v = init then 'u'
    else if v = final && !f.openW then 'c' else 'p'

def statesOf (fs0 : FS) (tr : List Op) (o : Path) : String :=
  let final := get (run fs0 tr) o
  let init := get fs0 o
  let (_, acc) := tr.foldl (fun (st : FS × List Char) op =>
      let fs' := step st.1 op
      (fs', classify init final (get (closeAll fs') o) :: st.2)) (fs0, [classify init final (get (closeAll fs0) o)])
  String.ofList acc.reverse

def pairsOf : List Nat → Option (List (Nat × Nat))
  | [] => some []
  | a :: b :: r => (pairsOf r).map ((a, b) :: ·)
  | _ => none

def triplesOf : List Nat → Option (List Seg)
  | [] => some []
  | s :: a :: b :: r => (triplesOf r).map ({ src := s, a := a, b := b } :: ·)
  | _ => none

def mkParts : List Nat → List Nat → List (Nat × Nat) → Option (List Part)
  | [], [], [] => some []
  | t :: ts, o :: os, (a, b) :: ns => (mkParts ts os ns).map ({ t := t, o := o, n1 := a, n2 := b } :: ·)
  | _, _, _ => none

/-- the template of `task` for the given roles and parameters -/
def templateOf (task : String) (ins outs temps ps : List Nat) : Option (List Op) :=
  match task, ins, outs, temps, ps with
  | "copy", [i], [o], [t], [so, st, n] => some (copyTrace i o t (so != 0) (st != 0) n)
  | "compress", [i], [o], [t], [so, st, n1, n2] =>
    some (compressTrace i o t (so != 0) (st != 0) n1 n2)
  | "join", _, [o], [t], so :: st :: n0 :: n1 :: first :: np :: rest =>
    (triplesOf (rest.drop np)).map fun segs =>
      joinTrace (rest.take np) first o t (so != 0) (st != 0) n0 n1 segs
  | "split", [i], _, _, na :: rest =>
    (pairsOf (rest.drop na)).bind (mkParts temps outs) |>.map (splitTrace i (rest.take na))
  | "tdms", _, _, _, nso :: rest =>
    match rest.drop nso with
    | nst :: rest2 =>
      (pairsOf (rest2.drop nst)).bind (mkParts temps outs) |>.map
        (tdmsTrace (rest.take nso) (rest2.take nst))
    | [] => none
  | _, _, _, _, _ => none

def bit (b : Bool) : String := if b then "1" else "0"

def handle (_ : Unit) (line : String) : Unit × String :=
  match words line with
  | ["tmpl", task, ins, outs, temps, ex, ps, ops] =>
    match parseList ins, parseList outs, parseList temps, parseList ex, parseList ps, parseOps ops with
    | some ins, some outs, some temps, some ex, some ps, some tr =>
      match templateOf task ins outs temps ps with
      | none => ((), "bad-op")
      | some tmpl =>
        let r : Roles := { ins := ins, outs := outs, temps := temps }
        let fs0 : FS := ex.eraseDups.map fun p => (p, { content := [1000000 + p], openW := false })
        let all := temps ++ outs
        let hyp := r.wf && all.eraseDups.length == all.length
        let inst := match firstDiff tmpl (eraseIds tr) 0 with
          | none => "instance"
          | some k => s!"drift:{k}"
        let tfresh := freshFrom r.temps (absentTemps r fs0) tmpl
        ((), s!"{inst} hyp:{bit hyp} tconf:{bit (Conforms r fs0 tmpl)} tfresh:{bit tfresh}")
    | _, _, _, _, _, _ => ((), "bad-op")
  | ["trace", ins, outs, temps, ex, ops] =>
    match parseList ins, parseList outs, parseList temps, parseList ex, parseOps ops with
    | some ins, some outs, some temps, some ex, some tr =>
      let r : Roles := { ins := ins, outs := outs, temps := temps }
      let fs0 : FS := ex.eraseDups.map fun p => (p, { content := [1000000 + p], openW := false })
      let states := joinWith "|" (outs.map (statesOf fs0 tr))
      let fresh := match firstStale r.temps (absentTemps r fs0) tr 0 with
        | none => "fresh"
        | some k => s!"stale:{k}"
      if Conforms r fs0 tr then ((), s!"conforms {tr.length} {states} {fresh}")
      else if !r.wf && nonMutating tr then ((), s!"refused {tr.length} {states} {fresh}")
      else if !r.wf then ((), s!"violates {(firstMutating tr 0).getD 0} {states} {fresh}")
      else
        let k := if r.wf then (firstBad r fs0 [] tr 0).getD 0 else 0
        ((), s!"violates {k} {states} {fresh}")
    | _, _, _, _, _ => ((), "bad-op")
  | _ => ((), "bad-op")

def main : IO Unit := mainLoop () handle
