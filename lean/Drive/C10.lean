import DclabModel.Model.Cli
import DclabModel.DriveUtil
/-! Line-protocol driver for the crash-safety automaton (C10).

    trace <ins> <outs> <temps> <existing> <ops>
        lists are comma separated path numbers, `-` = empty; ops are comma separated tokens
        u<p> unlink · c<p> create · w<p> write · x<p> close · r<p> openRead · a<p> openAppend ·
        m<p>:<q> rename; the id of a write is its position in the trace.
        Files in <existing> start closed with content [1000000+p].
    → `conforms <n> <states>` | `violates <k> <states>`  where <states> has, per output path
      (joined by `|`), one letter per crash point k = 0..n for the state after `fail tr k`:
      u = untouched initial file, a = absent, c = complete (final closed file), p = anything else.
      The last word is `fresh` or `stale:<k>` (operation k looks at a leftover temporary that
      was neither removed nor truncated before, `DclabModel.Cli.freshFrom`).
-/
open DclabModel.Cli DclabModel.DriveUtil

def parseList (s : String) : Option (List Nat) :=
  if s = "-" then some [] else (s.splitOn ",").mapM (·.toNat?)

def parseOp (k : Nat) (s : String) : Option Op :=
  let body := (s.drop 1).toString
  match s.front with
  | 'u' => body.toNat?.map .unlink
  | 'c' => body.toNat?.map .create
  | 'w' => body.toNat?.map (fun p => .write p k)
  | 'x' => body.toNat?.map .close
  | 'r' => body.toNat?.map .openRead
  | 'a' => body.toNat?.map .openAppend
  | 'm' => match body.splitOn ":" with
    | [a, b] => match a.toNat?, b.toNat? with
      | some a, some b => some (.rename a b)
      | _, _ => none
    | _ => none
  | _ => none

def parseOps (s : String) : Option (List Op) :=
  if s = "-" then some [] else
    ((s.splitOn ",").zipIdx.mapM fun (w, k) => parseOp k w)

def classify (init final v : Option File) : Char :=
  match v with
  | none => 'a'
  | some f =>
    if v = init then 'u'
    else if v = final && !f.openW then 'c' else 'p'

def statesOf (fs0 : FS) (tr : List Op) (o : Path) : String :=
  let final := get (run fs0 tr) o
  let init := get fs0 o
  let (_, acc) := tr.foldl (fun (st : FS × List Char) op =>
      let fs' := step st.1 op
      (fs', classify init final (get (closeAll fs') o) :: st.2)) (fs0, [classify init final (get (closeAll fs0) o)])
  String.ofList acc.reverse

def handle (_ : Unit) (line : String) : Unit × String :=
  match words line with
  | ["trace", ins, outs, temps, ex, ops] =>
    match parseList ins, parseList outs, parseList temps, parseList ex, parseOps ops with
    | some ins, some outs, some temps, some ex, some tr =>
      let r : Roles := { ins := ins, outs := outs, temps := temps }
      let fs0 : FS := ex.eraseDups.map fun p => (p, { content := [1000000 + p], openW := false })
      let states := joinWith "|" (outs.map (statesOf fs0 tr))
      let fresh := match firstStale r.temps (absentTemps r fs0) tr 0 with
        | none => "fresh"
        | some k => s!"stale:{k}"
      if Conforms r fs0 tr then ((), s!"conforms {tr.length} {states} {fresh}")
      else
        let k := if r.wf then (firstBad r fs0 [] tr 0).getD 0 else 0
        ((), s!"violates {k} {states} {fresh}")
    | _, _, _, _, _ => ((), "bad-op")
  | _ => ((), "bad-op")

def main : IO Unit := mainLoop () handle
