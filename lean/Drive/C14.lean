import DclabModel.Model.Basin
import DclabModel.DriveUtil
/-! Line-protocol driver for the basin resolution model (C14).  Lists comma separated, `-` = empty.

    reset <up>                         new world; <up> = reachable remote protocols, e.g. `http`
    file <dir> <name> <rid|x>          start a local file (identifier = list of numbers, x = none)
    feat <f> <rows>                    innate feature of the current file
    map <k> <list>                     feature basinmap<k> of the current file
    int <f> <rows>                     dataset in the group `basin_events` of the current file
    def <key> <type> <format> <locs> <feats|*> <map|same>
                                       basin definition of the current file; locs separated by `;`:
                                       a<dir>.<name> | r<name> | u<n>
    url <n> <dir> <name>               URL n serves the bytes of the local file
    resolve L <dir> <name> <univ>      open the local file / URL n and observe the features of <univ>
    resolve U <n> <univ>
    resolveold …                       the same without the F14 type guard
        → `feats=<sorted> data=<f>:<rows>|… opened=<loc>;… depth=<k> used=<n>`
    basins L <dir> <name> | basins U <n>
        → `basins=<key>:<format>:<map|same>:<loc|->;…`   the list `ds.basins` in order (`basinOrder`)
    verify <rid|x> <rid|x> <0|1> <ar;ar;…>
        → `res=1,0,…`   answers of a history of `verify_basin(run_identifier=r)` calls on one basin
          object (referrer id, basin id, mapped; per call a = available, r = run_identifier)
-/
open DclabModel.Basin DclabModel.DriveUtil

def parseList (s : String) : Option (List Nat) :=
  if s = "-" then some [] else (s.splitOn ",").mapM (·.toNat?)

def showList (l : List Nat) : String := if l.isEmpty then "-" else showNats l

def parseType : String → Option BType
  | "internal" => some .internal | "file" => some .file | "remote" => some .remote
  | "other" => some .other | _ => none

def parseFormat : String → Option BFormat
  | "h5dataset" => some .h5dataset | "hdf5" => some .hdf5 | "http" => some .http
  | "s3" => some .s3 | "dcor" => some .dcor | "other" => some .other | _ => none

def parseLoc (s : String) : Option Loc :=
  if s.startsWith "a" then
    match ((s.drop 1).toString).splitOn "." with
    | [d, n] => do let d ← d.toNat?; let n ← n.toNat?; pure (.abs d n)
    | _ => none
  else if s.startsWith "r" then ((s.drop 1).toString.toNat?).map .rel
  else if s.startsWith "u" then ((s.drop 1).toString.toNat?).map .url
  else none

def showLoc : Loc → String
  | .abs d n => s!"a{d}.{n}"
  | .rel n => s!"r{n}"
  | .url n => s!"u{n}"

def sortStrings (l : List String) : List String :=
  (l.toArray.qsort (· < ·)).toList

def sortNats (l : List Nat) : List Nat := (l.toArray.qsort (· < ·)).toList

structure D where
  w : World := { files := [], urls := [], up := [] }
  cur : Option (Nat × Nat) := none

def emptyFile (rid : Option Ident) : CFile :=
  { rid := rid, innate := [], maps := [], internal := [], basins := [] }

def D.updCur (d : D) (g : CFile → CFile) : Option D :=
  match d.cur with
  | none => none
  | some k =>
    some { d with w := { d.w with files := d.w.files.map fun p => if p.1 = k then (p.1, g p.2) else p } }

def showRes (univ : List Nat) (r : Res) : String :=
  let feats := sortNats ((r.fbasin.filter univ.contains).eraseDups)
  let data := r.data.map fun p => s!"{p.1}:{showList p.2}"
  let opened := sortStrings ((r.opened.map showLoc).eraseDups)
  s!"feats={showList feats} data={if data.isEmpty then "-" else joinWith "|" data} " ++
  s!"opened={if opened.isEmpty then "-" else joinWith ";" opened} depth={r.depth} used={r.used.length}"

def showFormat : BFormat → String
  | .h5dataset => "h5dataset" | .hdf5 => "hdf5" | .http => "http" | .s3 => "s3" | .dcor => "dcor"
  | .other => "other"

/-- `ds.basins` in order: `<key>:<format>:<map|same>:<loc|->` separated by `;` -/
def showOrder (l : List (Nat × BFormat × Option Nat × Option Loc)) : String :=
  if l.isEmpty then "basins=-" else
  "basins=" ++ joinWith ";" (l.map fun e =>
    s!"{e.1}:{showFormat e.2.1}:{match e.2.2.1 with | none => "same" | some k => toString k}:" ++
    (match e.2.2.2 with | none => "-" | some x => showLoc x))

def handle (d : D) (line : String) : D × String :=
  match words line with
  | ["reset", up] =>
    let ups := if up = "-" then [] else (up.splitOn ",").filterMap parseFormat
    ({ w := { files := [], urls := [], up := ups } }, "ok")
  | ["file", dir, name, rid] =>
    match dir.toNat?, name.toNat? with
    | some dir, some name =>
      let rid : Option (Option Ident) := if rid = "x" then some none else (parseList rid).map some
      match rid with
      | some rid =>
        ({ w := { d.w with files := d.w.files ++ [((dir, name), emptyFile rid)] },
           cur := some (dir, name) }, "ok")
      | none => (d, "bad-op")
    | _, _ => (d, "bad-op")
  | ["feat", f, rows] =>
    match f.toNat?, parseList rows with
    | some f, some rows =>
      match d.updCur fun c => { c with innate := c.innate ++ [(f, rows)] } with
      | some d' => (d', "ok") | none => (d, "err")
    | _, _ => (d, "bad-op")
  | ["map", k, m] =>
    match k.toNat?, parseList m with
    | some k, some m =>
      match d.updCur fun c => { c with maps := c.maps ++ [(k, m)] } with
      | some d' => (d', "ok") | none => (d, "err")
    | _, _ => (d, "bad-op")
  | ["int", f, rows] =>
    match f.toNat?, parseList rows with
    | some f, some rows =>
      match d.updCur fun c => { c with internal := c.internal ++ [(f, rows)] } with
      | some d' => (d', "ok") | none => (d, "err")
    | _, _ => (d, "bad-op")
  | ["def", key, ty, fmt, locs, feats, map] =>
    let locs' : Option (List Loc) := if locs = "-" then some [] else (locs.splitOn ";").mapM parseLoc
    let feats' : Option (Option (List Nat)) := if feats = "*" then some none else (parseList feats).map some
    let map' : Option (Option Nat) := if map = "same" then some none else (map.toNat?).map some
    match key.toNat?, parseType ty, parseFormat fmt, locs', feats', map' with
    | some key, some ty, some fmt, some locs, some feats, some map =>
      match d.updCur fun c => { c with basins := c.basins ++ [⟨key, ty, fmt, locs, feats, map⟩] } with
      | some d' => (d', "ok") | none => (d, "err")
    | _, _, _, _, _, _ => (d, "bad-op")
  | ["url", n, dir, name] =>
    match n.toNat?, dir.toNat?, name.toNat? with
    | some n, some dir, some name =>
      match lk (dir, name) d.w.files with
      | some f => ({ d with w := { d.w with urls := d.w.urls ++ [(n, f)] } }, "ok")
      | none => (d, "err")
    | _, _, _ => (d, "bad-op")
  | [op, "L", dir, name, univ] =>
    if op = "resolve" || op = "resolveold" then
      match dir.toNat?, name.toNat?, parseList univ with
      | some dir, some name, some univ =>
        match lk (dir, name) d.w.files with
        | some f => (d, showRes univ (resolve d.w univ (op = "resolve") ⟨some (.abs dir name), f⟩ []))
        | none => (d, "err")
      | _, _, _ => (d, "bad-op")
    else (d, "bad-op")
  | [op, "U", n, univ] =>
    if op = "resolve" || op = "resolveold" then
      match n.toNat?, parseList univ with
      | some n, some univ =>
        match lk n d.w.urls with
        | some f => (d, showRes univ (resolve d.w univ (op = "resolve") ⟨some (.url n), f⟩ []))
        | none => (d, "err")
      | _, _ => (d, "bad-op")
    else (d, "bad-op")
  | ["basins", "L", dir, name] =>
    match dir.toNat?, name.toNat? with
    | some dir, some name =>
      match lk (dir, name) d.w.files with
      | some f => (d, showOrder (basinOrder d.w true ⟨some (.abs dir name), f⟩ []))
      | none => (d, "err")
    | _, _ => (d, "bad-op")
  | ["basins", "U", n] =>
    match n.toNat? with
    | some n =>
      match lk n d.w.urls with
      | some f => (d, showOrder (basinOrder d.w true ⟨some (.url n), f⟩ []))
      | none => (d, "err")
    | _ => (d, "bad-op")
  | ["verify", r, b, m, calls] =>
    let r' : Option (Option Ident) := if r = "x" then some none else (parseList r).map some
    let b' : Option (Option Ident) := if b = "x" then some none else (parseList b).map some
    let cs : Option (List (Bool × Bool)) := (calls.splitOn ";").mapM fun c =>
      match c.toList with
      | [a, u] => if (a = '0' || a = '1') && (u = '0' || u = '1') then some (a = '1', u = '1') else none
      | _ => none
    match r', b', cs with
    | some r, some b, some cs =>
      if m = "0" || m = "1" then
        (d, "res=" ++ joinWith "," ((runVerifyBasin r b (m = "1") false cs).map fun x =>
          if x then "1" else "0"))
      else (d, "bad-op")
    | _, _, _ => (d, "bad-op")
  | _ => (d, "bad-op")

def main : IO Unit := mainLoop ({} : D) handle
