import DclabModel.Model.Summary
import DclabModel.DriveUtil
/-! Line-protocol driver for the summary model (C20).

    new                       fresh file (no dataset)
    write <v> <v> …           `store_feature` in append mode      replace <v> …   in replace mode
    raw <v> …                 dataset made with raw h5py: these values, no attributes
    poke <k> <v>              attribute k (0 min, 1 max, 2 mean) overwritten with v (raw h5py)
    strip <abc>               remove attributes (bits: min max mean) with raw h5py
    copy                      `rtdc_copy`                         export <bits>   filtered export
    stored                    → `<min> <max> <mean>` as stored (`-` = absent)
    report                    → `<min> <max> <mean> ## <true min> <true max> <true mean> ## <mean under the old rule> ## <n>`
    child <v> …  | cdata <v> … (data change) | mask <bits> | rejuv | query      hierarchy child of a parent with these values
  values: `nan`, `+inf`, `-inf`, `p/q`, `p`
-/
open DclabModel.Summary DclabModel.DriveUtil

structure D where
  fx : Option SDs := none     -- repaired rule
  od : Option SDs := none     -- rule before the repair of F21
  ch : Child := { parent := [], mask := [], arr := none, cache := none }

def parseVal (s : String) : Option Val :=
  if s = "nan" then some .nan
  else if s = "+inf" then some .pinf
  else if s = "-inf" then some .ninf
  else (parseRat? s).map Val.fin

def showVal : Val → String
  | .nan => "nan"
  | .pinf => "+inf"
  | .ninf => "-inf"
  | .fin q => showRat q

def showOpt : Option Val → String
  | none => "-"
  | some v => showVal v

def showSumm (s : Summ) : String := s!"{showVal s.mn} {showVal s.mx} {showVal s.mean}"

def both (d : D) (f : MeanRule → Option SDs → Option SDs) : D × String :=
  ({ d with fx := f .fixed d.fx, od := f .old d.od }, "ok")

def handle (d : D) (line : String) : D × String :=
  match words line with
  | ["new"] => ({ d with fx := none, od := none }, "ok")
  | "write" :: vs => match vs.mapM parseVal with
    | some l => both d (fun r ds => storeFeature r false ds l)
    | none => (d, "bad-op")
  | "replace" :: vs => match vs.mapM parseVal with
    | some l => both d (fun r ds => storeFeature r true ds l)
    | none => (d, "bad-op")
  | ["strip", bits] => match parseBools bits with
    | [a, b, c] => both d (fun _ ds => ds.map (fun s => strip s a b c))
    | _ => (d, "bad-op")
  | "raw" :: vs => match vs.mapM parseVal with
    | some l => both d (fun _ _ => some { data := l, mn := none, mx := none, mean := none })
    | none => (d, "bad-op")
  | ["poke", k, v] => match k.toNat?, parseVal v with
    | some k, some v => both d (fun _ ds => ds.map (fun s => setAttr s k v))
    | _, _ => (d, "bad-op")
  | ["copy"] => both d (fun _ ds => ds.map copyDs)
  | ["export", bits] =>
    both d (fun r ds => match ds with
      | none => none
      | some s => storeFeature r false none (sel (parseBools bits) s.data))
  | ["stored"] => match d.fx with
    | none => (d, "none")
    | some s => (d, s!"{showOpt s.mn} {showOpt s.mx} {showOpt s.mean}")
  | ["report"] => match d.fx, d.od with
    | some s, some o =>
      (d, showSumm (report s) ++ " ## " ++ showSumm (truth s.data) ++ " ## " ++
          showVal (report o).mean ++ s!" ## {s.data.length}")
    | _, _ => (d, "none")
  | "child" :: vs => match vs.mapM parseVal with
    | some l => ({ d with ch := { parent := l, mask := l.map (fun _ => true), arr := none,
                                  cache := none } }, "ok")
    | none => (d, "bad-op")
  | "cdata" :: vs => match vs.mapM parseVal with
    | some l => ({ d with ch := (childStep d.ch (.setData l)).1 }, "ok")
    | none => (d, "bad-op")
  | ["mask", bits] => ({ d with ch := (childStep d.ch (.setMask (parseBools bits))).1 }, "ok")
  | ["rejuv"] => ({ d with ch := (childStep d.ch .rejuvenate).1 }, "ok")
  | ["query"] =>
    let (c, o) := childStep d.ch .query
    ({ d with ch := c }, match o with
      | some s => showSumm s
      | none => "none")
  | _ => (d, "bad-op")

def main : IO Unit := mainLoop ({} : D) handle
