import DclabModel.Model.Summary
import DclabModel.Model.SummaryView
import DclabModel.DriveUtil
/-! Line-protocol driver for the summary model (C20).

    new                       fresh file (no dataset)
    write <v> <v> …           `store_feature` in append mode      replace <v> …   in replace mode
    raw <v> …                 dataset made with raw h5py: these values, no attributes
    poke <k> <v>              attribute k (0 min, 1 max, 2 mean) overwritten with v (raw h5py)
    strip <abc>               remove attributes (bits: min max mean) with raw h5py
    copy                      `rtdc_copy`                         export <bits>   filtered export
    stored                    → `<min> <max> <mean>` as stored (`-` = absent)
    report                    → `<min> <max> <mean> ## <true min> <true max> <true mean> ## <mean under the old rule> ## <n>`
    rcount <c>                → summaries of what a file with event count c hands out (`exposed`: everything) ##
                              report of a reader trimming to c events ## truth of the trimmed values
    child <v> …  | cdata <v> … (data change) | mask <bits> | rejuv | query      hierarchy child of a parent with these values
    cview <bits> <bits> …     after `child`/`cdata`: summaries of the member whose ancestors have these `filter.all`
                              arrays (parent first, root last) = `SummaryView.childReport` (nested C04 views)
    cids <bits> <bits> …      → root indices of that member's events (`Hier.idsOf`)
    chain <bits> <bits> …     refresh of the youngest member: the chain of cached feature objects (parent-first
                              masks as for `cview`), all arrays dropped
    chainq <k>                → summaries reported by the member k levels above the youngest; its array and
                              those of its ancestors stay loaded (`SummaryView.queryAt`)
    cdeleg <bits>             → what a child that delegates to an ndarray parent's own min/max/mean would answer
    pmap <i> <i> …            mapped basin on top of the current dataset (`new`/`write`/`strip`/`poke` lines):
                              `BasinProxyFeature(feat_obj, basinmap)` → `ok <len>` | `index-error`
    pquery                    → summaries computed from the mapped values ## shortcut "equal length = reordering"
    pexport <bits>            the mapped feature exported with this filter (`export.hdf5`): becomes the current
                              dataset (then `stored` / `report`)
    pchild <bits>             → summaries of a hierarchy child of the mapped dataset (parent filter = bits)
  values: `nan`, `+inf`, `-inf`, `p/q`, `p`
-/
open DclabModel.Summary DclabModel.SummaryView DclabModel.DriveUtil

structure D where
  fx : Option SDs := none     -- repaired rule
  od : Option SDs := none     -- rule before the repair of F21
  ch : Child := { parent := [], mask := [], arr := none, cache := none }
  px : Option Proxy := none
  chain : List Member := []

def parseVal (s : String) : Option Val :=
  if s = "nan" then some .nan
  else if s = "+inf" then some .pinf
  else if s = "-inf" then some .ninf
  else (parseRat? s).map Val.fin

def showVal : Val → String
  | .nan => "nan"
  | .pinf => "+inf"
  | .ninf => "-inf"
  | .fin q => showRat q

def showOpt : Option Val → String
  | none => "-"
  | some v => showVal v

def showSumm (s : Summ) : String := s!"{showVal s.mn} {showVal s.mx} {showVal s.mean}"

def both (d : D) (f : MeanRule → Option SDs → Option SDs) : D × String :=
  ({ d with fx := f .fixed d.fx, od := f .old d.od }, "ok")

def handle (d : D) (line : String) : D × String :=
  match words line with
  | ["new"] => ({ d with fx := none, od := none }, "ok")
  | "write" :: vs => match vs.mapM parseVal with
    | some l => both d (fun r ds => storeFeature r false ds l)
    | none => (d, "bad-op")
  | "replace" :: vs => match vs.mapM parseVal with
    | some l => both d (fun r ds => storeFeature r true ds l)
    | none => (d, "bad-op")
  | ["strip", bits] => match parseBools bits with
    | [a, b, c] => both d (fun _ ds => ds.map (fun s => strip s a b c))
    | _ => (d, "bad-op")
  | "raw" :: vs => match vs.mapM parseVal with
    | some l => both d (fun _ _ => some { data := l, mn := none, mx := none, mean := none })
    | none => (d, "bad-op")
  | ["poke", k, v] => match k.toNat?, parseVal v with
    | some k, some v => both d (fun _ ds => ds.map (fun s => setAttr s k v))
    | _, _ => (d, "bad-op")
  | ["copy"] => both d (fun _ ds => ds.map copyDs)
  | ["export", bits] =>
    both d (fun r ds => match ds with
      | none => none
      | some s => storeFeature r false none (sel (parseBools bits) s.data))
  | ["stored"] => match d.fx with
    | none => (d, "none")
    | some s => (d, s!"{showOpt s.mn} {showOpt s.mx} {showOpt s.mean}")
  | ["report"] => match d.fx, d.od with
    | some s, some o =>
      (d, showSumm (report s) ++ " ## " ++ showSumm (truth s.data) ++ " ## " ++
          showVal (report o).mean ++ s!" ## {s.data.length}")
    | _, _ => (d, "none")
  | ["rcount", c] => match d.fx, c.toNat? with
    | some s, some c =>
      (d, showSumm (truth (exposed c s)) ++ " ## " ++ showSumm (reportTrimmed c s) ++ " ## " ++
          showSumm (truth (exposedTrimmed c s)) ++ s!" ## {(exposed c s).length}")
    | _, _ => (d, "none")
  | "child" :: vs => match vs.mapM parseVal with
    | some l => ({ d with ch := { parent := l, mask := l.map (fun _ => true), arr := none,
                                  cache := none } }, "ok")
    | none => (d, "bad-op")
  | "cdata" :: vs => match vs.mapM parseVal with
    | some l => ({ d with ch := (childStep d.ch (.setData l)).1 }, "ok")
    | none => (d, "bad-op")
  | ["mask", bits] => ({ d with ch := (childStep d.ch (.setMask (parseBools bits))).1 }, "ok")
  | ["rejuv"] => ({ d with ch := (childStep d.ch .rejuvenate).1 }, "ok")
  | ["query"] =>
    let (c, o) := childStep d.ch .query
    ({ d with ch := c }, match o with
      | some s => showSumm s
      | none => "none")
  | "cview" :: bs => (d, showSumm (childReport d.ch.parent (bs.map parseBools)))
  | "cids" :: bs =>
    (d, " ".intercalate ((DclabModel.Hier.idsOf d.ch.parent.length (bs.map parseBools)).map toString))
  | "chain" :: bs => ({ d with chain := chainRefresh (bs.map parseBools) }, "ok")
  | ["chainq", k] => match k.toNat? with
    | some k =>
      let r := queryAt d.ch.parent k d.chain
      ({ d with chain := r.1 }, showSumm (truth r.2))
    | none => (d, "bad-op")
  | ["cdeleg", bits] => (d, showSumm (childOfRootDelegating (.nd d.ch.parent) (parseBools bits)))
  | "pmap" :: is => match d.fx, is.mapM String.toNat? with
    | some s, some m =>
      if mapOk s.data.length m then
        ({ d with px := some { origin := s, map := m, cache := none } }, s!"ok {m.length}")
      else ({ d with px := none }, "index-error")
    | _, _ => (d, "bad-op")
  | ["pquery"] => match d.px with
    | some p => ({ d with px := some (proxyArray p).1 },
                 showSumm (proxyReport p) ++ " ## " ++ showSumm (proxyReportShortcut p))
    | none => (d, "none")
  | ["pexport", bits] => match d.px with
    | some p =>
      let (p', a) := proxyArray p
      let d' := (both d (fun r _ => storeFeature r false none (sel (parseBools bits) a))).1
      ({ d' with px := some p' }, "ok")
    | none => (d, "none")
  | ["pchild", bits] => match d.px with
    | some p => ({ d with px := some (proxyArray p).1 }, showSumm (proxyChildReport p (parseBools bits)))
    | none => (d, "none")
  | _ => (d, "bad-op")

def main : IO Unit := mainLoop ({} : D) handle
