import DclabModel.Model.Cli
import DclabModel.DriveUtil
/-! Line-protocol driver for the split/join model (C09).

    reset                                   forget all measurements
    meas <tag> <date> <time> <run> <fr>     new measurement (date/time as in the metadata, fr = p/q)
    innate f,f,…  | avail f,f,…             feature lists of the last measurement (`-` = empty;
                                            `innate` is sorted here like Python's `sorted`)
    col <feat> v,v,…                        column of the last measurement (integers / p/q)
    log <name> tok,tok,…                    a log of the last measurement
    table <name> tok,tok,…                  a table of the last measurement (row tokens)
    cfg k=v,k=v,…                           the remaining metadata of the last measurement (tokens)
    join <tag> <tag> …                      → order … ; offsets … ; feats … ; col f=… ; log n=… ;
                                              table n=… ; cfg k=v,… ; day d ; sec q ; run r ; count n
    split <N> <s> <z0> <zN>                 → parts 0,1|2,3|4
    splitrun <N> <s> <z0> <zN>              → ok 0,1|2,3|4   /  error <temporaries left>
    rt <tag> <N> <s>                        join (split x s) through the model → as `join`
    oldprune a,b,c | b,c                    the unrepaired pruning loop (F10) → a,b
    oldorder <date> <time> <run> <date> <time> <run>   unrepaired key: `le` / `gt`
-/
open DclabModel.Cli DclabModel.DriveUtil

def featOf (s : String) : Feat :=
  if s = "time" then .time else if s = "frame" then .frame else if s = "index" then .index
  else if s = "index_online" then .indexOnline else .plain s

def featName : Feat → String
  | .time => "time" | .frame => "frame" | .index => "index" | .indexOnline => "index_online"
  | .plain n => n

def csv (s : String) : List String := if s = "-" then [] else s.splitOn ","

def insertStr (x : String) : List String → List String
  | [] => [x]
  | y :: r => if x < y then x :: y :: r else y :: insertStr x r

def sortStrs (l : List String) : List String := l.foldr insertStr []

def codes (s : String) : Str := s.toList.map Char.toNat

structure D where
  ms : List (Meas × List (Feat × List Rat)) := []   -- newest first, with column table

def lookupCol (tbl : List (Feat × List Rat)) (f : Feat) : List Rat :=
  match tbl.find? (fun e => e.1 == f) with
  | some e => e.2
  | none => []

def finish (e : Meas × List (Feat × List Rat)) : Meas := { e.1 with col := lookupCol e.2 }

def showRats (l : List Rat) : String := joinWith "," (l.map showRat)

def showJoined (j : Joined) : String :=
  joinWith " ; " (
    ["order " ++ showNats j.order, "offsets " ++ showRats j.offsets,
     "feats " ++ joinWith "," (j.feats.map featName)] ++
    j.feats.map (fun f => "col " ++ featName f ++ "=" ++ showRats (j.col f)) ++
    j.logs.map (fun nl => "log " ++ nl.1 ++ "=" ++ joinWith "," nl.2) ++
    j.tables.map (fun nl => "table " ++ nl.1 ++ "=" ++ joinWith "," nl.2) ++
    ["cfg " ++ joinWith "," (j.cfg.map (fun kv => kv.1 ++ "=" ++ kv.2)),
     "day " ++ toString j.day, "sec " ++ showRat j.sec, "run " ++ toString j.run,
     "count " ++ toString j.count])

def modLast (d : D) (f : Meas × List (Feat × List Rat) → Meas × List (Feat × List Rat)) :
    D × String :=
  match d.ms with
  | [] => (d, "bad-op")
  | e :: r => ({ ms := f e :: r }, "ok")

def findTag (d : D) (t : Nat) : Option Meas := (d.ms.find? (fun e => e.1.tag == t)).map finish

def handle (d : D) (line : String) : D × String :=
  match words line with
  | ["reset"] => ({}, "ok")
  | ["meas", tag, date, time, run, fr] =>
    match tag.toNat?, run.toNat?, parseRat? fr with
    | some tag, some run, some fr =>
      match parseDate? (codes date), parseTime? (codes time) with
      | some day, some sec =>
        ({ ms := ({ tag := tag, day := day, sec := sec, run := run, fr := fr, innate := [],
                    avail := [], col := fun _ => [], logs := [] }, []) :: d.ms }, "ok")
      | _, _ => (d, "err:value")
    | _, _, _ => (d, "bad-op")
  | ["innate", fs] => modLast d fun e => ({ e.1 with innate := (sortStrs (csv fs)).map featOf }, e.2)
  | ["avail", fs] => modLast d fun e => ({ e.1 with avail := (csv fs).map featOf }, e.2)
  | ["col", f, vs] =>
    match (csv vs).mapM parseRat? with
    | some vals => modLast d fun e => (e.1, (featOf f, vals) :: e.2)
    | none => (d, "bad-op")
  | ["log", name, toks] => modLast d fun e => ({ e.1 with logs := e.1.logs ++ [(name, csv toks)] }, e.2)
  | ["table", name, toks] =>
    modLast d fun e => ({ e.1 with tables := e.1.tables ++ [(name, csv toks)] }, e.2)
  | ["cfg", kvs] =>
    modLast d fun e => ({ e.1 with cfg := (csv kvs).map (fun kv =>
      match kv.splitOn "=" with
      | [k, v] => (k, v)
      | _ => (kv, "")) }, e.2)
  | ["splitrun", n, s, z0, zN] =>
    match n.toNat?, s.toNat? with
    | some n, some s =>
      if s = 0 then (d, "err:value") else
      match splitRun n s (z0 == "1") (zN == "1") with
      | .ok parts => (d, "ok " ++ joinWith "|" (parts.map showNats))
      | .error t => (d, "error " ++ toString t)
    | _, _ => (d, "bad-op")
  | "join" :: tags =>
    match tags.mapM (fun t => t.toNat?.bind (findTag d)) with
    | some ms =>
      match join ms with
      | some j => (d, showJoined j)
      | none => (d, "err:value")
    | none => (d, "bad-op")
  | ["split", n, s, z0, zN] =>
    match n.toNat?, s.toNat? with
    | some n, some s =>
      if s = 0 then (d, "err:value") else
      (d, "parts " ++ joinWith "|" ((splitSkip n s (z0 == "1") (zN == "1")).map showNats))
    | _, _ => (d, "bad-op")
  | ["rt", tag, n, s] =>
    match tag.toNat?.bind (findTag d), n.toNat?, s.toNat? with
    | some x, some n, some s =>
      if s = 0 then (d, "err:value") else
      match join (splitMeas x n s) with
      | some j => (d, showJoined j)
      | none => (d, "err:value")
    | _, _, _ => (d, "bad-op")
  | ["oldprune", fs, "|", av] =>
    (d, joinWith "," (oldPruneStep (csv fs) (csv av)))
  | ["oldorder", d1, t1, r1, d2, t2, r2] =>
    (d, if oldKeyLe (codes d1, codes t1, codes r1) (codes d2, codes t2, codes r2) then "le" else "gt")
  | _ => (d, "bad-op")

def main : IO Unit := mainLoop ({} : D) handle
