import DclabModel.Model.Poly
import DclabModel.DriveUtil
/-! Line-protocol driver for the polygon-filter model (C15).  Coordinates are exact rationals.

    poly <x0> <y0> <x1> <y1> …     set the polygon                         → `ok <n>`
    pts <inv 0|1> <x> <y> <x> <y> …   classify points                      → `<filter bits> <near bits> <spec bits>`
          filter bits = `filterPts inv poly pts` (impl loop), near bits = rounding guard,
          spec bits = `pipSpec` (parity over the edge list, not inverted)
    pfclear                         forget the stored filters               → `ok`
    pf <uid> <inv> <xaxis> <yaxis> <name> <x0> <y0> …   append a filter to the file (tokens
          without blanks)                                                   → `ok`
    import <counter> <id,id,…|->    `import_all` of the file (written with 17 significant digits)
          into a registry with these ids
          → `<uid>:<inv>:<xaxis>:<yaxis>:<name>:<x y x y …>;… | <counter> <ids>`
    fmt <digits> <q>                text round trip of a binary64 value with that many
          significant digits                                               → `<p/q>`
-/
open DclabModel.Poly DclabModel.DriveUtil

structure D where
  poly : List (Pt Rat) := []
  file : List PF := []

def parsePts : List String → Option (List (Pt Rat))
  | [] => some []
  | [_] => none
  | x :: y :: r => do
    let x ← parseRat? x
    let y ← parseRat? y
    let rest ← parsePts r
    some (⟨x, y⟩ :: rest)

def showPF (f : PF) : String :=
  s!"{f.uid}:{if f.inverted then 1 else 0}:{f.xaxis}:{f.yaxis}:{f.name}:" ++
    joinWith " " (f.points.map fun p => showRat p.x ++ " " ++ showRat p.y)

def handle (d : D) (line : String) : D × String :=
  match words line with
  | "poly" :: cs => match parsePts cs with
    | some ps => ({ d with poly := ps }, s!"ok {ps.length}")
    | none => (d, "bad-op")
  | "pts" :: inv :: cs => match parsePts cs with
    | some ps =>
      (d, showBools (filterPts (inv == "1") d.poly ps) ++ " " ++
          showBools (ps.map (near d.poly)) ++ " " ++ showBools (ps.map (pipSpec d.poly)))
    | none => (d, "bad-op")
  | ["pfclear"] => ({ d with file := [] }, "ok")
  | "pf" :: uid :: inv :: xa :: ya :: nm :: cs => match uid.toNat?, parsePts cs with
    | some u, some ps =>
      ({ d with file := d.file ++ [{ uid := u, xaxis := xa, yaxis := ya, name := nm,
                                     inverted := inv == "1", points := ps }] }, "ok")
    | _, _ => (d, "bad-op")
  | ["import", counter, ids] =>
    let idl := if ids == "-" then some [] else parseNats (ids.splitOn ",")
    match counter.toNat?, idl with
    | some c, some idl =>
      let (reg, fs) := importAll id (saveAll (fmtDigits 17) d.file) { ids := idl, counter := c }
      (d, joinWith ";" (fs.map showPF) ++ " | " ++ s!"{reg.counter} " ++ showNats reg.ids)
    | _, _ => (d, "bad-op")
  | ["fmt", n, q] => match n.toNat?, parseRat? q with
    | some n, some q => (d, showRat (fmtDigits n q))
    | _, _ => (d, "bad-op")
  | _ => (d, "bad-op")

def main : IO Unit := mainLoop ({} : D) handle
