import DclabModel.Model.Poly
import DclabModel.Model.PolyText
import DclabModel.DriveUtil
/-! Line-protocol driver for the polygon-filter model (C15).  Coordinates are exact rationals.

    poly <x0> <y0> <x1> <y1> …     set the polygon                         → `ok <n>`
    pts <inv 0|1> <x> <y> <x> <y> …   classify points                      → `<filter bits> <near bits> <spec bits>`
          filter bits = `filterPts inv poly pts` (impl loop), near bits = rounding guard,
          spec bits = `pipSpec` (parity over the edge list, not inverted)
    pfclear                         forget the stored filters               → `ok`
    pf <uid> <inv> <xaxis> <yaxis> <name> <x0> <y0> …   append a filter to the file (tokens
          without blanks)                                                   → `ok`
    import <counter> <id,id,…|->    `import_all` of the file (written with 17 significant digits)
          into a registry with these ids
          → `<uid>:<inv>:<xaxis>:<yaxis>:<name>:<x y x y …>;… | <counter> <ids>`
    fmt <digits> <q>                text round trip of a binary64 value with that many
          significant digits                                               → `<p/q>`
    dedup                           `dedupAdj` of the polygon (adjacent repeats removed)
                                                                            → `<x y x y …>` | `-`
    tfclear                         forget the stored text lines            → `ok`
    tl <c,c,c…|->                   append one TEXT line of a .poly file (code points)  → `ok`
    timport <counter> <id,…|->      `importAllT` (text-level `import_all`: header search, split at
          the first '=', strip, keys, `strip("Polygon []")`) of the stored text; same answer
          format as `import` with names/axes as `x<hex utf-8>`, or `raise`
          (the lexer below turns digit runs after `[Polygon `/`point` into integer tokens and the
          words of a point's value into float tokens = decimal value rounded to binary64)
    create <uid|-> <uid|-> …        constructor calls on a cleared registry (`-` = no unique_id
          given: the counter is used)                                      → `<counter> <ids>`
-/
open DclabModel.Poly DclabModel.DriveUtil

structure D where
  poly : List (Pt Rat) := []
  file : List PF := []
  text : List TLine := []

/-! lexer for the text route (driver only, trusted) -/
def digitVal (c : Char) : Nat := c.toNat - '0'.toNat
def natOfDigits (l : List Char) : Nat := l.foldl (fun a c => 10 * a + digitVal c) 0

/-- `[-+]ddd[.ddd][e[-+]dd]` → exact rational -/
def parseDecimal (w : List Char) : Option Rat :=
  let (neg, w) := match w with
    | '-' :: r => (true, r)
    | '+' :: r => (false, r)
    | r => (false, r)
  let ip := w.takeWhile Char.isDigit
  let r1 := w.dropWhile Char.isDigit
  let (fp, r2) := match r1 with
    | '.' :: r => (r.takeWhile Char.isDigit, r.dropWhile Char.isDigit)
    | r => ([], r)
  if ip.isEmpty && fp.isEmpty then none else
  let ex : Option Int := match r2 with
    | [] => some 0
    | e :: r =>
      if e == 'e' || e == 'E' then
        match r with
        | '-' :: d => if d.all Char.isDigit && !d.isEmpty then some (-(natOfDigits d : Int)) else none
        | '+' :: d => if d.all Char.isDigit && !d.isEmpty then some (natOfDigits d : Int) else none
        | d => if d.all Char.isDigit && !d.isEmpty then some (natOfDigits d : Int) else none
      else none
  match ex with
  | none => none
  | some e =>
    let m : Rat := (natOfDigits (ip ++ fp) : Nat)
    let q := m * powI 10 (e - fp.length)
    some (if neg then -q else q)

/-- characters with every maximal digit run turned into an integer token -/
partial def lexDigits : List Char → TLine
  | [] => []
  | c :: r =>
    if c.isDigit then
      let run := (c :: r).takeWhile Char.isDigit
      Sym.nat (natOfDigits run) :: lexDigits ((c :: r).dropWhile Char.isDigit)
    else Sym.ch c :: lexDigits r

def lexWords (l : List Char) : TLine :=
  let ws := (String.ofList l).splitOn " " |>.filter (· ≠ "")
  ws.foldl (fun acc w =>
    acc ++ [Sym.ch ' '] ++ (match parseDecimal w.toList with
      | some q => [Sym.num (toDouble q)]
      | none => cs w.toList)) []

def lexLine (l : List Char) : TLine :=
  let t := l.dropWhile (· == ' ')
  match t with
  | '[' :: _ => lexDigits l
  | _ =>
    let key := l.takeWhile (· ≠ '=')
    let rest := l.dropWhile (· ≠ '=')
    let klow := (key.dropWhile (· == ' ')).map Char.toLower
    if klow.take 5 == kPoint then
      lexDigits key ++ (match rest with
        | '=' :: v => Sym.ch '=' :: lexWords (v.map fun c => if c == '\t' || c == '\n' || c == '\r' then ' ' else c)
        | _ => cs rest)
    else cs l

def hexDigit (n : Nat) : Char := if n < 10 then Char.ofNat (48 + n) else Char.ofNat (87 + n)
def tokHex (s : String) : String :=
  s.toUTF8.toList.foldl (fun acc b => (acc.push (hexDigit (b.toNat / 16))).push (hexDigit (b.toNat % 16))) "x"

def parsePts : List String → Option (List (Pt Rat))
  | [] => some []
  | [_] => none
  | x :: y :: r => do
    let x ← parseRat? x
    let y ← parseRat? y
    let rest ← parsePts r
    some (⟨x, y⟩ :: rest)

def showPF (f : PF) : String :=
  s!"{f.uid}:{if f.inverted then 1 else 0}:{f.xaxis}:{f.yaxis}:{f.name}:" ++
    joinWith " " (f.points.map fun p => showRat p.x ++ " " ++ showRat p.y)

def handle (d : D) (line : String) : D × String :=
  match words line with
  | "poly" :: cs => match parsePts cs with
    | some ps => ({ d with poly := ps }, s!"ok {ps.length}")
    | none => (d, "bad-op")
  | "pts" :: inv :: cs => match parsePts cs with
    | some ps =>
      (d, showBools (filterPts (inv == "1") d.poly ps) ++ " " ++
          showBools (ps.map (near d.poly)) ++ " " ++ showBools (ps.map (pipSpec d.poly)))
    | none => (d, "bad-op")
  | ["pfclear"] => ({ d with file := [] }, "ok")
  | "pf" :: uid :: inv :: xa :: ya :: nm :: cs => match uid.toNat?, parsePts cs with
    | some u, some ps =>
      ({ d with file := d.file ++ [{ uid := u, xaxis := xa, yaxis := ya, name := nm,
                                     inverted := inv == "1", points := ps }] }, "ok")
    | _, _ => (d, "bad-op")
  | ["import", counter, ids] =>
    let idl := if ids == "-" then some [] else parseNats (ids.splitOn ",")
    match counter.toNat?, idl with
    | some c, some idl =>
      let (reg, fs) := importAll id (saveAll (fmtDigits 17) d.file) { ids := idl, counter := c }
      (d, joinWith ";" (fs.map showPF) ++ " | " ++ s!"{reg.counter} " ++ showNats reg.ids)
    | _, _ => (d, "bad-op")
  | ["dedup"] =>
    let r := dedupAdj d.poly
    (d, if r.isEmpty then "-" else joinWith " " (r.map fun p => showRat p.x ++ " " ++ showRat p.y))
  | ["tfclear"] => ({ d with text := [] }, "ok")
  | ["tl", codes] =>
    let l := if codes == "-" then some [] else parseNats (codes.splitOn ",")
    match l with
    | some l => ({ d with text := d.text ++ [lexLine (l.map Char.ofNat)] }, "ok")
    | none => (d, "bad-op")
  | ["timport", counter, ids] =>
    let idl := if ids == "-" then some [] else parseNats (ids.splitOn ",")
    match counter.toNat?, idl with
    | some c, some idl =>
      match importAllT id d.text { ids := idl, counter := c } with
      | some (reg, fs) =>
        let hexed : PF → PF := fun f =>
          { f with xaxis := tokHex f.xaxis, yaxis := tokHex f.yaxis, name := tokHex f.name }
        (d, joinWith ";" (fs.map fun f => showPF (hexed f))
          ++ " | " ++ s!"{reg.counter} " ++ showNats reg.ids)
      | none => (d, "raise")
    | _, _ => (d, "bad-op")
  | "create" :: uids =>
    let step : Option Reg → String → Option Reg := fun r u => match r with
      | none => none
      | some reg => if u == "-" then some (setUniqueId reg reg.counter).1
                    else (u.toNat?).map fun n => (setUniqueId reg n).1
    match uids.foldl step (some {}) with
    | some reg => (d, s!"{reg.counter} " ++ showNats reg.ids)
    | none => (d, "bad-op")
  | ["fmt", n, q] => match n.toNat?, parseRat? q with
    | some n, some q => (d, showRat (fmtDigits n q))
    | _, _ => (d, "bad-op")
  | _ => (d, "bad-op")

def main : IO Unit := mainLoop ({} : D) handle
