import DclabModel.Gen.MetaTable
import DclabModel.Model.MetaWriter
import DclabModel.Model.MetaGuess
import DclabModel.DriveUtil
/-! Line-protocol driver for the metadata model (C11).  Values are tagged and exact:

    s:<cp.cp…> str   y:<cps> bytes   i:<int>  f:<p/q|nan|+inf|-inf>  b:<0|1>
    I:<int> F:<float> B:<0|1> numpy scalars   N None
    L[e;e] list  T[e;e] tuple  L2[e;e|e;e] list of lists
    A0<num>  A1[n;n]  A2[n;n|n;n]  arrays with elements i:/f:/b:

    conv <name> <val>  convold <name> <val>  h5 <val>  eq <val> <val>
    set <sec> <key> <val>      item assignment on an empty section (sec/key as s:<cps>)
    case <sec> <key> <val>     set ## normalise twice ## h5 of the stored value ## re-assigned
    file <sec> <key> <raw>     line `key = raw` of a configuration file (cleanText, conversion, assignment)
    clean <raw>                cleanText
    reg <name> | dereg <name>  register / deregister a scalar feature (state of the driver)
    attr-reset | attr-store <sec> <key> <val> | attr-get <sec> <key>   store_metadata history
    attr-rectify <events> <samples|-> <fl1fl2fl3 as 0/1> <rows>x<cols>|-   rectify_metadata on the attribute map
    guess <text>               keyval_str2typ (value part; `none` when the function returns None)
    typ2str <val> <fmts>       keyval_typ2str; fmts = `-` or `<p/q>=<cps>;…` renderings '{:.12f}' of the floats
    textrt <val> <fmts>        typ2str, then guess of the text
-/
open DclabModel.Meta DclabModel.DriveUtil

structure D where
  reg : List Str := []
  attrs : Attrs := []

def baseTbl : Tbl := DclabModel.Gen.MetaTable.tbl

def parseCps (s : String) : Option Str :=
  if s = "" then some [] else (s.splitOn ".").mapM (·.toNat?)

def parseF? (s : String) : Option F :=
  if s = "nan" then some .nan else if s = "+inf" then some .pinf
  else if s = "-inf" then some .ninf else (parseRat? s).map .fin

def parseBool? (s : String) : Option Bool :=
  if s = "1" then some true else if s = "0" then some false else none

def dropN (s : String) (n : Nat) : String := (s.drop n).toString

def parseScal (s : String) : Option Scal :=
  if s = "N" then some .none
  else if s.startsWith "s:" then (parseCps (dropN s 2)).map .str
  else if s.startsWith "y:" then (parseCps (dropN s 2)).map .bytes
  else if s.startsWith "i:" then (parseInt? (dropN s 2)).map .int
  else if s.startsWith "f:" then (parseF? (dropN s 2)).map .float
  else if s.startsWith "b:" then (parseBool? (dropN s 2)).map .bool
  else if s.startsWith "I:" then (parseInt? (dropN s 2)).map .npInt
  else if s.startsWith "F:" then (parseF? (dropN s 2)).map .npFloat
  else if s.startsWith "B:" then (parseBool? (dropN s 2)).map .npBool
  else none

def parseNum (s : String) : Option Num :=
  if s.startsWith "i:" then (parseInt? (dropN s 2)).map .i
  else if s.startsWith "f:" then (parseF? (dropN s 2)).map .f
  else if s.startsWith "b:" then (parseBool? (dropN s 2)).map .b
  else none

def inner (s : String) (pre : Nat) : String := ((s.drop pre).dropEnd 1).toString

def parseRow {α : Type} (p : String → Option α) (s : String) : Option (List α) :=
  if s = "" then some [] else (s.splitOn ";").mapM p

def parseRows {α : Type} (p : String → Option α) (s : String) : Option (List (List α)) :=
  (s.splitOn "|").mapM (parseRow p)

def parseVal (s : String) : Option PyVal :=
  if s.startsWith "L2[" then (parseRows parseScal (inner s 3)).map .list2
  else if s.startsWith "L[" then (parseRow parseScal (inner s 2)).map .list
  else if s.startsWith "T[" then (parseRow parseScal (inner s 2)).map .tuple
  else if s.startsWith "A0" then (parseNum (dropN s 2)).map .arr0
  else if s.startsWith "A1[" then (parseRow parseNum (inner s 3)).map .arr1
  else if s.startsWith "A2[" then (parseRows parseNum (inner s 3)).map .arr2
  else (parseScal s).map .sc

def showCps (s : Str) : String := joinWith "." (s.map toString)
def showF : F → String
  | .fin q => showRat q | .nan => "nan" | .pinf => "+inf" | .ninf => "-inf"
def showB (b : Bool) : String := if b then "1" else "0"

def showScal : Scal → String
  | .str s => "s:" ++ showCps s
  | .bytes s => "y:" ++ showCps s
  | .int z => s!"i:{z}"
  | .float x => "f:" ++ showF x
  | .bool b => "b:" ++ showB b
  | .npInt z => s!"I:{z}"
  | .npFloat x => "F:" ++ showF x
  | .npBool b => "B:" ++ showB b
  | .none => "N"

def showNum : Num → String
  | .i z => s!"i:{z}"
  | .f x => "f:" ++ showF x
  | .b v => "b:" ++ showB v

def showVal : PyVal → String
  | .sc s => showScal s
  | .list xs => "L[" ++ joinWith ";" (xs.map showScal) ++ "]"
  | .tuple xs => "T[" ++ joinWith ";" (xs.map showScal) ++ "]"
  | .list2 rows => "L2[" ++ joinWith "|" (rows.map fun r => joinWith ";" (r.map showScal)) ++ "]"
  | .arr0 x => "A0" ++ showNum x
  | .arr1 xs => "A1[" ++ joinWith ";" (xs.map showNum) ++ "]"
  | .arr2 rows => "A2[" ++ joinWith "|" (rows.map fun r => joinWith ";" (r.map showNum)) ++ "]"

def showErr : Err → String
  | .value => "err:value" | .type => "err:type" | .other => "err:other"
  | .unmodelled => "unmodelled"

def showRes : Except Err PyVal → String
  | .ok v => showVal v
  | .error e => showErr e

def showWarn : Warn → String
  | .empty => "empty" | .badValue => "badValue" | .unknownKey => "unknownKey"
  | .unknownSection => "unknownSection" | .deprecated => "deprecated"
  | .badUserKey => "badUserKey" | .wrongType => "wrongType"

def showWarns (ws : List Warn) : String :=
  if ws.isEmpty then "-" else joinWith "," (ws.map showWarn)

def showSet (key : Str) : Except Err (Dict × List Warn) → String
  | .error e => showErr e
  | .ok (d, ws) =>
    match d.get? key with
    | some v => "stored " ++ showVal v ++ " " ++ showWarns ws
    | none => "rejected " ++ showWarns ws

def parseStr (s : String) : Option Str :=
  if s.startsWith "s:" then parseCps (dropN s 2) else none

def parseShape (n tr fl img : String) : Option DataShape := do
  let n ← n.toNat?
  let tr ← if tr = "-" then some none else tr.toNat?.map some
  let bits ← fl.toList.mapM (fun c => if c = '1' then some true else if c = '0' then some false else none)
  let img ← if img = "-" then some none else
    match img.splitOn "x" with
    | [r, c] => do some (some ((← r.toNat?), (← c.toNat?)))
    | _ => none
  match bits with
  | [a, b, c] => some ⟨n, tr, a, b, c, img⟩
  | _ => none

def parseFmts (s : String) : Option (List (F × Str)) :=
  if s = "-" then some [] else
  (s.splitOn ";").mapM fun e =>
    match e.splitOn "=" with
    | [q, t] => do some ((← parseF? q), (← parseCps t))
    | _ => none

def fmtOf (tab : List (F × Str)) (x : F) : Str :=
  match tab.find? (·.1 = x) with
  | some e => e.2
  | none => []

def showGuess : Except Err (Option PyVal) → String
  | .ok (some v) => showVal v
  | .ok none => "none"
  | .error e => showErr e

def handle (u : D) (line : String) : D × String :=
  let tbl := baseTbl.withFeats u.reg
  match words line with
  | ["reg", n] =>
    match parseStr n with
    | some n => ({ u with reg := regStep u.reg (.reg n) }, "ok")
    | none => (u, "bad-op")
  | ["dereg", n] =>
    match parseStr n with
    | some n => ({ u with reg := regStep u.reg (.dereg n) }, "ok")
    | none => (u, "bad-op")
  | ["attr-reset"] => ({ u with attrs := [] }, "ok")
  | ["attr-store", sec, key, v] =>
    match parseStr sec, parseStr key, parseVal v with
    | some sec, some key, some v =>
      match tbl.storeMeta u.attrs [(sec, key, v)] with
      | .ok a => ({ u with attrs := a }, "ok")
      | .error e => (u, showErr e)
    | _, _, _ => (u, "bad-op")
  | ["attr-rectify", n, tr, fl, img] =>
    match parseShape n tr fl img with
    | some d => ({ u with attrs := rectify d u.attrs }, "ok")
    | none => (u, "bad-op")
  | ["attr-get", sec, key] =>
    match parseStr sec, parseStr key with
    | some sec, some key =>
      (u, match u.attrs.get? (sec, key) with
          | some v => showVal v
          | none => "missing")
    | _, _ => (u, "bad-op")
  | _ =>
  let ans : String :=
    match words line with
    | ["clean", t] =>
      match parseStr t with
      | some t => "s:" ++ showCps (cleanText t)
      | none => "bad-op"
    | ["guess", t] =>
      match parseStr t with
      | some t => showGuess (tbl.guess t)
      | none => "bad-op"
    | ["typ2str", v, f] =>
      match parseVal v, parseFmts f with
      | some v, some f =>
        match typ2str (fmtOf f) v with
        | .ok s => "s:" ++ showCps s
        | .error e => showErr e
      | _, _ => "bad-op"
    | ["textrt", v, f] =>
      match parseVal v, parseFmts f with
      | some v, some f =>
        match typ2str (fmtOf f) v with
        | .ok s => showGuess (tbl.guess s)
        | .error e => showErr e
      | _, _ => "bad-op"
    | ["conv", c, v] =>
      match Conv.ofName c, parseVal v with
      | some c, some v => showRes (conv c v)
      | _, _ => "bad-op"
    | ["convold", c, v] =>
      match Conv.ofName c, parseVal v with
      | some c, some v => showRes (convOld c v)
      | _, _ => "bad-op"
    | ["h5", v] =>
      match parseVal v with
      | some v => showVal (h5 v)
      | none => "bad-op"
    | ["eq", a, b] =>
      match parseVal a, parseVal b with
      | some a, some b => showB (pyEq a b)
      | _, _ => "bad-op"
    | ["set", sec, key, v] =>
      match parseStr sec, parseStr key, parseVal v with
      | some sec, some key, some v => showSet key (tbl.setitem sec [] key v)
      | _, _, _ => "bad-op"
    | ["file", sec, key, t] =>
      match parseStr sec, parseStr key, parseStr t with
      | some sec, some key, some t => showSet key (tbl.fileLine sec [] key t)
      | _, _, _ => "bad-op"
    | ["case", sec, key, v] =>
      match parseStr sec, parseStr key, parseVal v with
      | some sec, some key, some v =>
        let r := tbl.setitem sec [] key v
        let stored : Option PyVal := match r with
          | .ok (d, _) => d.get? key
          | .error _ => none
        match stored with
        | none => showSet key r
        | some w =>
          showSet key r ++ " ## " ++ showRes (tbl.normalise sec key w) ++ " ## " ++ showVal (h5 w)
            ++ " ## " ++ showSet key (tbl.setitem sec [] key (h5 w))
      | _, _, _ => "bad-op"
    | _ => "bad-op"
  (u, ans)

def main : IO Unit := mainLoop ({} : D) handle
