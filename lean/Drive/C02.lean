import DclabModel.Model.Export
import DclabModel.DriveUtil
/-! Line-protocol driver for the export model (C02).  Rows are token numbers.

    src <n> <hdf5 0|1>                       fresh source (no features, metadata, logs, tables)
    sections <sec,sec,…>                     `dfn.CFG_METADATA + ["user"]`
    feat <name> <scalar|contour|image|trace|other> <sliceable 0|1> <t,t,…|->
    cfg <section> <key> <value-token>        log <name> <token>        table <name> <token>
    export <filtered> <logs> <tables> <skipChecks> <cs> <csw> <fixed> <prefix> <mask bits|-> <feat,feat,…|->
        → `ok count=<n> rid=<0|1> ev=<name>:<t,…>;… cfg=<sec>:<key>=<v>;… logs=<name>=<tok>;… tables=…`
          (events, cfg, logs and tables sorted by name) or `err`
        (`None` as feature list = `features=None`: the list given by `innate <feat,…>`)
    stale <file> <feat|-> <t,…|->            a file in the output directory (left by an earlier export)
    exportat <override> <file> <filtered> … (as `export`)
        → the `export` answer for the file now at <file> + ` dir=<name,…>` (sorted directory
          listing), `err:exists` (OSError, file exists and no override) or `err`
    normfeats <name,…|->                     → `sorted(set(names))`
    tsv <filtered> <mask bits|-> <feat,…>    → `ok hdr=<f,…> rows=<t,…>;…` or `err`
    label <feat> <token>                     `dfn.get_feature_label(feat)`
    tsvtext <filtered> <mask bits|-> <feat,…> → `ok hdr=<f,…> lab=<token,…> rows=<t,…>;…` read from the
                                               modelled text (last two comment lines, data lines) or `err`
    stacks <fast|slow|lazy> <cs> <i,i,…|->   → `<t,…>;<t,…>;…` (data[i] = i)
    write <cs> <dset|-> <data|->             → `<t,…>` or `err:value`
-/
open DclabModel.Export DclabModel.DriveUtil

def parseList (s : String) : Option (List Nat) :=
  if s = "-" then some [] else (s.splitOn ",").mapM (·.toNat?)

def parseNames (s : String) : List String :=
  if s = "-" then [] else s.splitOn ","

def showList (xs : List Nat) : String := if xs.isEmpty then "-" else showNats xs

def parseKind : String → Option Kind
  | "scalar" => some .scalar
  | "contour" => some .contour
  | "image" => some .image
  | "trace" => some .trace
  | "other" => some .other
  | _ => none

def bit (s : String) : Bool := s == "1"

structure D where
  src : Src Nat := { n := 0, feats := [], hdf5 := false, cfg := [], logs := [], tables := [] }
  sections : List String := []
  innate : List String := []
  labels : List (String × String) := []
  dir : Dir Nat := []

def sortStr (xs : List String) : List String := isort (fun a b => decide (a ≤ b)) xs

def showFile (fl : File Nat) : String :=
  let ev := sortStr (fl.events.map fun (n, r) => n ++ ":" ++ showList r)
  let cfg := sortStr (fl.cfg.map fun (s, k, v) => s ++ ":" ++ k ++ "=" ++ v)
  let logs := sortStr (fl.logs.map fun (n, l) => n ++ "=" ++ joinWith "|" l)
  let tabs := sortStr (fl.tables.map fun (n, t) => n ++ "=" ++ t)
  s!"ok count={fl.eventCount} rid={if fl.derivedRunId then 1 else 0} ev={joinWith ";" ev} " ++
    s!"cfg={joinWith ";" cfg} logs={joinWith ";" logs} tables={joinWith ";" tabs}"

def reqOf (d : D) (feats : String) : List String :=
  reqFeats (if feats = "None" then none else some (parseNames feats)) d.innate

def handle (d : D) (line : String) : D × String :=
  match words line with
  | ["src", n, h] =>
    match n.toNat? with
    | some n => ({ d with src := { n := n, feats := [], hdf5 := bit h, cfg := [], logs := [],
                                   tables := [] }, innate := [], dir := [], labels := [] }, "ok")
    | none => (d, "bad-op")
  | ["sections", s] => ({ d with sections := parseNames s }, "ok")
  | ["feat", name, kind, sl, rows] =>
    match parseKind kind, parseList rows with
    | some k, some r =>
      ({ d with src := { d.src with feats := d.src.feats ++ [⟨name, k, r, bit sl⟩] } }, "ok")
    | _, _ => (d, "bad-op")
  | ["cfg", sec, key, v] => ({ d with src := { d.src with cfg := d.src.cfg ++ [(sec, key, v)] } }, "ok")
  | ["log", name, tok] => ({ d with src := { d.src with logs := d.src.logs ++ [(name, [tok])] } }, "ok")
  | ["table", name, tok] =>
    ({ d with src := { d.src with tables := d.src.tables ++ [(name, tok)] } }, "ok")
  | ["export", filt, logs, tabs, skip, cs, csw, fixed, pfx, mask, feats] =>
    match cs.toNat?, csw.toNat? with
    | some cs, some csw =>
      let o : Opts := { filtered := bit filt, logs := bit logs, tables := bit tabs, pfx := pfx,
                        skipChecks := bit skip, cs := cs, csw := csw,
                        cfgSections := d.sections, fixed := bit fixed }
      let m := if mask = "-" then [] else parseBools mask
      match exportHdf5 d.src o m (reqOf d feats) with
      | some fl => (d, showFile fl)
      | none => (d, "err")
    | _, _ => (d, "bad-op")
  | ["innate", fs] => ({ d with innate := parseNames fs }, "ok")
  | ["stale", file, feat, rows] =>
    match parseList rows with
    | some r =>
      let old := (dirGet d.dir file).getD emptyFile
      let fl := if feat = "-" then old else { old with events := setEv old.events feat r }
      ({ d with dir := dirSet d.dir file fl }, "ok")
    | none => (d, "bad-op")
  | ["exportat", ovr, file, filt, logs, tabs, skip, cs, csw, fixed, pfx, mask, feats] =>
    match cs.toNat?, csw.toNat? with
    | some cs, some csw =>
      let o : Opts := { filtered := bit filt, logs := bit logs, tables := bit tabs, pfx := pfx,
                        skipChecks := bit skip, cs := cs, csw := csw,
                        cfgSections := d.sections, fixed := bit fixed }
      let m := if mask = "-" then [] else parseBools mask
      match exportAt d.dir file (bit ovr) d.src o m (reqOf d feats) with
      | .done d' =>
        match dirGet d' file with
        | some fl => (d, showFile fl ++ " dir=" ++ joinWith "," (sortStr (d'.map (·.1))))
        | none => (d, "err")
      | .exists_ => (d, "err:exists")
      | .failed => (d, "err")
    | _, _ => (d, "bad-op")
  | ["normfeats", fs] =>
    let r := normFeats (parseNames fs)
    (d, if r.isEmpty then "-" else joinWith "," r)
  | ["tsv", filt, mask, feats] =>
    let m := if mask = "-" then [] else parseBools mask
    match tsvRows d.src (bit filt) m (parseNames feats) with
    | some (hdr, rows) =>
      (d, s!"ok hdr={joinWith "," hdr} rows={joinWith ";" (rows.map showList)}")
    | none => (d, "err")
  | ["label", f, t] => ({ d with labels := d.labels ++ [(f, t)] }, "ok")
  | ["tsvtext", filt, mask, feats] =>
    let m := if mask = "-" then [] else parseBools mask
    let lab := fun f => ((d.labels.find? (·.1 = f)).map (·.2)).getD "?"
    match tsvText (fun n : Nat => toString n) lab [["meta"], []] d.src (bit filt) m (parseNames feats) with
    | some txt =>
      let cs := commentCells txt
      let hdr := cs.getD (cs.length - 2) []
      let lbl := cs.getD (cs.length - 1) []
      (d, s!"ok hdr={joinWith "," hdr} lab={joinWith "," lbl} rows={joinWith ";" ((dataCells txt).map (joinWith ","))}")
    | none => (d, "err")
  | ["stacks", kind, cs, idx] =>
    match cs.toNat?, parseList idx with
    | some cs, some idx =>
      let st := if kind = "fast" then stacksFast cs idx id
        else if kind = "slow" then stacksSlow cs idx id
        else consumeLazy (List.replicate cs 0) (slowTrace cs id idx 0)
      (d, if st.isEmpty then "-" else joinWith ";" (st.map showList))
    | _, _ => (d, "bad-op")
  | ["write", cs, dset, data] =>
    match cs.toNat?, parseList dset, parseList data with
    | some cs, some a, some b =>
      match writeNd cs a b with
      | some r => (d, showList r)
      | none => (d, "err:value")
    | _, _, _ => (d, "bad-op")
  | _ => (d, "bad-op")

def main : IO Unit := mainLoop ({} : D) handle
