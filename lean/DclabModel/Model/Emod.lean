/-!
# Model of `dclab.features.emodulus.get_emodulus` (property C05)

Exact rational arithmetic (core `Rat`).  Floating point, `exp`/powers (pixelation correction
`δ`, viscosity `η`) and qhull (the triangulation `T`) are *parameters* of the model.

* `bary T pts p`     value at `p` of the piecewise-linear interpolant in the first triangle of
                     `T` that contains `p` (exact orientation tests), `none` outside all
                     triangles (`scipy.interpolate.griddata(method="linear")` → NaN);
* `emodA`            global-viscosity route of `get_emodulus`: pixelation-correct the event,
                     scale the LUT (`scale_feature`, `scale_emodulus`), normalise both axes by
                     the LUT maxima (`normalize`), interpolate;
* `emodB`            per-event-viscosity route: scale the event to the LUT's channel, normalise,
                     interpolate on the unscaled LUT, scale the result back;
* `batchA`/`batchB`  the same computations written the way the code does them – one whole-array
                     statement after the other;
* `runCalls`         a call history against the registry of user LUTs (`EXTERNAL_LUTS`): every
                     call works on a freshly loaded copy (`load_lut`).

Core Lean only.
-/
namespace DclabModel.Emod

abbrev P2 := Rat × Rat
/-- one LUT row: abscissa (area_um or volume), deformation, emodulus -/
abbrev Pt := Rat × Rat × Rat
abbrev LUT := List Pt
abbrev Tri := Nat × Nat × Nat

/-- LUT metadata used by the computation: `channel_width`, `flow_rate`, `fluid_viscosity` and
the exponent of the abscissa's scaling law (`2` = `area_um`, `3` = `volume`) -/
structure Meta where
  L0 : Rat
  Q0 : Rat
  eta0 : Rat
  k : Nat
deriving Repr, DecidableEq

def xy (v : Pt) : P2 := (v.1, v.2.1)
def val (v : Pt) : Rat := v.2.2

/-! ## Barycentric interpolation on a given triangulation -/

/-- twice the signed area of the triangle `a b p` -/
def orient (a b p : P2) : Rat := (b.1 - a.1) * (p.2 - a.2) - (b.2 - a.2) * (p.1 - a.1)

/-- `p` lies in the closed, non-degenerate triangle `a b c` (either orientation) -/
def InTri (a b c p : P2) : Prop :=
  orient a b c ≠ 0 ∧
    ((0 ≤ orient a b p ∧ 0 ≤ orient b c p ∧ 0 ≤ orient c a p) ∨
     (orient a b p ≤ 0 ∧ orient b c p ≤ 0 ∧ orient c a p ≤ 0))

instance (a b c p : P2) : Decidable (InTri a b c p) := by unfold InTri; infer_instance

/-- linear interpolant through the three rows, evaluated at `p` -/
def triVal (a b c : Pt) (p : P2) : Rat :=
  (orient (xy b) (xy c) p * val a + orient (xy c) (xy a) p * val b
    + orient (xy a) (xy b) p * val c) / orient (xy a) (xy b) (xy c)

def triAt (a b c : Pt) (p : P2) : Option Rat :=
  if InTri (xy a) (xy b) (xy c) p then some (triVal a b c p) else none

/-- rows of a triangle given by indices; `none` for an index outside the table -/
def resolve (pts : LUT) (t : Tri) : Option (Pt × Pt × Pt) :=
  match pts[t.1]?, pts[t.2.1]?, pts[t.2.2]? with
  | some a, some b, some c => some (a, b, c)
  | _, _, _ => none

def triAtIdx (pts : LUT) (p : P2) (t : Tri) : Option Rat :=
  match resolve pts t with
  | some (a, b, c) => triAt a b c p
  | none => none

/-- value in the first triangle of `T` containing `p` -/
def bary (T : List Tri) (pts : LUT) (p : P2) : Option Rat :=
  T.findSome? (triAtIdx pts p)

/-- rescaling of the two axes (vertices / query) and of the tabulated values -/
def scaleP (sx sy : Rat) (p : P2) : P2 := (sx * p.1, sy * p.2)
def scalePt (sx sy : Rat) (v : Pt) : Pt := (sx * v.1, sy * v.2.1, v.2.2)
def scaleVal (f : Rat) (v : Pt) : Pt := (v.1, v.2.1, v.2.2 * f)

/-- triangle `t` has table row `i` as a vertex -/
def HasVertex (t : Tri) (i : Nat) : Prop := t.1 = i ∨ t.2.1 = i ∨ t.2.2 = i

/-- `p` lies in no (resolvable, non-degenerate) triangle of `T` -/
def Outside (T : List Tri) (pts : LUT) (p : P2) : Prop :=
  ∀ t ∈ T, ∀ a b c, resolve pts t = some (a, b, c) → ¬ InTri (xy a) (xy b) (xy c) p

/-- every table row lies on the closed non-negative side of the directed line `a → b` -/
def allOnSide (pts : LUT) (a b : P2) : Bool := pts.all fun v => decide (0 ≤ orient a b (xy v))

/-- certificate that `p` is outside the convex hull of the table: the line `a → b` has all rows
on one closed side and `p` strictly on the other -/
def sepLine (pts : LUT) (a b : P2) (p : P2) : Bool := allOnSide pts a b && decide (orient a b p < 0)

/-! ## Scaling laws (`scale_linear.py`), normalisation, pixelation -/

/-- `scale_area_um` / `scale_volume`: multiply by `(out/in)^k` unless the widths coincide -/
def scaleX (k : Nat) (Lin Lout x : Rat) : Rat :=
  if Lin = Lout then x else x * (Lout / Lin) ^ k

/-- the factor of `scale_emodulus` -/
def fE (Lin Lout Qin Qout ein eout : Rat) : Rat :=
  (Qout / Qin) * (eout / ein) * (Lin / Lout) ^ 3

/-- `scale_emodulus`: multiply unless nothing changes (`arr` = the output viscosity is an
array, which the code treats as "changed") -/
def scaleE (Lin Lout Qin Qout ein eout : Rat) (arr : Bool) (e : Rat) : Rat :=
  if Qin ≠ Qout ∨ Lin ≠ Lout ∨ arr = true ∨ ein ≠ eout then e * fE Lin Lout Qin Qout ein eout
  else e

/-- `lut[:, 0].max()`, `lut[:, 1].max()` (0 for the empty table, where numpy raises) -/
def maxX : LUT → Rat
  | [] => 0
  | v :: vs => vs.foldl (fun m w => max m w.1) v.1

def maxY : LUT → Rat
  | [] => 0
  | v :: vs => vs.foldl (fun m w => max m w.2.1) v.2.1

/-- `normalize` applied to the first two columns -/
def normLut (nx ny : Rat) (lut : LUT) : LUT := lut.map fun v => (v.1 / nx, v.2.1 / ny, v.2.2)

/-- `if px_um: deform -= get_pixelation_delta(...)`; `δ x px` is the correction -/
def corr (δ : Rat → Rat → Rat) (px x d : Rat) : Rat := if px = 0 then d else d - δ x px

/-- the one structural fact about the pixelation correction that the code guarantees
(`pxcorr.py`): `δ x px = g (x · (c/px)ᵏ)` with `c = 0.34` and `g` = offset plus three
exponentials -/
def DeltaLaw (k : Nat) (δ : Rat → Rat → Rat) : Prop :=
  ∃ (g : Rat → Rat) (c : Rat), ∀ x px, px ≠ 0 → δ x px = g (x * (c / px) ^ k)

/-- parameters of one call that are shared by all events -/
structure Setup where
  L : Rat      -- channel_width
  Q : Rat      -- flow_rate
  px : Rat     -- px_um
deriving Repr

/-- side conditions under which the scaling laws are meaningful (no division by zero) -/
structure Pos (m : Meta) (s : Setup) : Prop where
  L0 : 0 < m.L0
  L : 0 < s.L
  Q0 : m.Q0 ≠ 0
  eta0 : m.eta0 ≠ 0

/-- the LUT after `scale_feature(lut[:,0])` and `scale_emodulus(lut[:,2])` of the global route -/
def scaleLut (m : Meta) (s : Setup) (η : Rat) (lut : LUT) : LUT :=
  lut.map fun v => (scaleX m.k m.L0 s.L v.1, v.2.1, scaleE m.L0 s.L m.Q0 s.Q m.eta0 η false v.2.2)

/-! ## The two routes, one event -/

/-- global viscosity `η` (the `else` branch of `get_emodulus`) -/
def emodA (m : Meta) (lut : LUT) (T : List Tri) (δ : Rat → Rat → Rat) (s : Setup) (η : Rat)
    (ev : Rat × Rat) : Option Rat :=
  let dc := corr δ s.px ev.1 ev.2
  let lutS := scaleLut m s η lut
  let nx := maxX lutS
  let ny := maxY lutS
  bary T (normLut nx ny lutS) (ev.1 / nx, dc / ny)

/-- per-event viscosity (the `isinstance(visco, np.ndarray)` branch); `ev = (x, deform, η)` -/
def emodB (m : Meta) (lut : LUT) (T : List Tri) (δ : Rat → Rat → Rat) (s : Setup)
    (ev : Rat × Rat × Rat) : Option Rat :=
  let dc := corr δ s.px ev.1 ev.2.1
  let x4 := scaleX m.k s.L m.L0 ev.1
  let nx := maxX lut
  let ny := maxY lut
  (bary T (normLut nx ny lut) (x4 / nx, dc / ny)).map
    (scaleE m.L0 s.L m.Q0 s.Q m.eta0 ev.2.2 true)

/-! ## The two routes, whole arrays (statement by statement as in the code) -/

def batchA (m : Meta) (lut : LUT) (T : List Tri) (δ : Rat → Rat → Rat) (s : Setup) (η : Rat)
    (evs : List (Rat × Rat)) : List (Option Rat) :=
  -- deform -= get_pixelation_delta(...)
  let evs1 := evs.map fun e => (e.1, corr δ s.px e.1 e.2)
  -- scale_feature(lut[:, 0]); scale_emodulus(lut[:, 2])
  let lutS := scaleLut m s η lut
  -- featx_norm = lut[:, 0].max(); normalize(lut[:, 0]); normalize(datax)
  let nx := maxX lutS
  let evs2 := evs1.map fun e => (e.1 / nx, e.2)
  -- defo_norm = lut[:, 1].max(); normalize(lut[:, 1]); normalize(deform)
  let ny := maxY lutS
  let lutN := normLut nx ny lutS
  let evs3 := evs2.map fun e => (e.1, e.2 / ny)
  -- griddata
  evs3.map fun e => bary T lutN e

def batchB (m : Meta) (lut : LUT) (T : List Tri) (δ : Rat → Rat → Rat) (s : Setup)
    (evs : List (Rat × Rat × Rat)) : List (Option Rat) :=
  let evs1 := evs.map fun e => (e.1, corr δ s.px e.1 e.2.1, e.2.2)
  -- datax_4lut = scale_feature(datax, channel_width → LUT's)
  let evs2 := evs1.map fun e => (scaleX m.k s.L m.L0 e.1, e.2.1, e.2.2)
  let nx := maxX lut
  let ny := maxY lut
  let lutN := normLut nx ny lut
  let evs3 := evs2.map fun e => (e.1 / nx, e.2.1 / ny, e.2.2)
  -- griddata, then scale_emodulus(emod, viscosity_out=visco) element-wise
  let em := evs3.map fun e => (bary T lutN (e.1, e.2.1), e.2.2)
  em.map fun r => r.1.map (scaleE m.L0 s.L m.Q0 s.Q m.eta0 r.2 true)

/-! ## Histories over a mutable LUT environment

The environment a call sees: LUT files on disk (`files`, path ↦ content; rewriting a file in
place shadows the old content), the registry `EXTERNAL_LUTS` (`reg`, identifier ↦ path) and the
built-in tables (`internal`, identifier ↦ content, immutable).  `get_lut_path` resolves a path
that exists first, then built-in identifiers, then registered ones; `load_lut` parses the file
*at call time* and hands the computation a fresh copy. -/

/-- how a call names its LUT: a path, an identifier, or an `(array, meta)` tuple -/
inductive LutRef where
  | path (p : Nat)
  | named (id : Nat)
  | tuple (lut : LUT) (m : Meta) (T : List Tri)

structure Entry where
  lut : LUT
  m : Meta
  T : List Tri      -- what qhull returns for this table

structure Call where
  ref : LutRef
  δ : Rat → Rat → Rat
  s : Setup
  /-- `some η`: global route, `none`: per-event route (η in the events) -/
  global : Option Rat
  evs : List (Rat × Rat × Rat)

structure Env where
  files : List (Nat × Entry)
  reg : List (Nat × Nat)
  internal : List (Nat × Entry)

inductive Op where
  | write (p : Nat) (e : Entry)        -- (re)write the LUT file at path `p`
  | register (id p : Nat)              -- `register_lut(path, identifier)`
  | deregister (id : Nat)              -- `EXTERNAL_LUTS.pop(identifier)`
  | call (c : Call)

inductive Out where
  | ok
  | errValue                           -- `ValueError`
  | res (r : List (Option Rat))

/-- `get_lut_path` + `load_mtext` / tuple copy: the table that is current *now* -/
def loadLut (env : Env) : LutRef → Option Entry
  | .path p => env.files.lookup p
  | .named id =>
    match env.internal.lookup id with
    | some e => some e
    | none => (env.reg.lookup id).bind (fun p => env.files.lookup p)
  | .tuple l m T => some ⟨l, m, T⟩

def evalEntry (e : Entry) (c : Call) : List (Option Rat) :=
  match c.global with
  | some η => batchA e.m e.lut e.T c.δ c.s η (c.evs.map fun v => (v.1, v.2.1))
  | none => batchB e.m e.lut e.T c.δ c.s c.evs

/-- **spec**: result of a call in a given environment (`errValue` = unknown path/identifier) -/
def evalCall (env : Env) (c : Call) : Out :=
  match loadLut env c.ref with
  | none => .errValue
  | some e => .res (evalEntry e c)

/-- **spec**: effect of an operation on the environment (calls have none) -/
def applyOp (env : Env) : Op → Env
  | .write p e => { env with files := (p, e) :: env.files }
  | .register id p =>
    if (env.reg.lookup id).isSome || (env.internal.lookup id).isSome then env
    else { env with reg := (id, p) :: env.reg }
  | .deregister id => { env with reg := env.reg.filter (·.1 != id) }
  | .call _ => env

/-- **spec**: answer of an operation -/
def answer (env : Env) : Op → Out
  | .write _ _ => .ok
  | .register id _ =>
    if (env.reg.lookup id).isSome || (env.internal.lookup id).isSome then .errValue else .ok
  | .deregister _ => .ok
  | .call c => evalCall env c

def specOps (env : Env) : List Op → List Out
  | [] => []
  | op :: ops => answer env op :: specOps (applyOp env op) ops

/-- **impl**: one operation as the code performs it.  A call loads the table, scales and
normalises *its copy* in place and drops it; nothing is remembered between calls. -/
def stepOp (env : Env) (op : Op) : Env × Out :=
  match op with
  | .write p e => ({ env with files := (p, e) :: env.files }, .ok)
  | .register id p =>
    if (env.reg.lookup id).isSome then (env, .errValue)
    else if (env.internal.lookup id).isSome then (env, .errValue)
    else ({ env with reg := (id, p) :: env.reg }, .ok)
  | .deregister id => ({ env with reg := env.reg.filter (·.1 != id) }, .ok)
  | .call c =>
    match loadLut env c.ref with
    | none => (env, .errValue)
    | some e =>
      -- `lut` is local to the call: whatever is done to it is dropped here
      let out := match c.global with
        | some η => batchA e.m e.lut e.T c.δ c.s η (c.evs.map fun v => (v.1, v.2.1))
        | none => batchB e.m e.lut e.T c.δ c.s c.evs
      (env, .res out)

def runOps (env : Env) : List Op → Env × List Out
  | [] => (env, [])
  | op :: ops =>
    let (env1, o) := stepOp env op
    let (env2, os) := runOps env1 ops
    (env2, o :: os)

/-- a loader that memoises parsed files by the way the LUT was named and never invalidates
(the behaviour the property excludes): `cache` maps a path / identifier key to the table
parsed at first use -/
def stepOpCached (st : Env × List (Nat × Entry)) (op : Op) : (Env × List (Nat × Entry)) × Out :=
  let (env, cache) := st
  match op with
  | .call c =>
    let key : Option Nat := match c.ref with
      | .path p => some (2 * p)
      | .named id => some (2 * id + 1)
      | .tuple _ _ _ => none
    match key.bind (fun k => cache.lookup k) with
    | some e => ((env, cache), .res (evalEntry e c))
    | none =>
      match loadLut env c.ref with
      | none => ((env, cache), .errValue)
      | some e =>
        let cache' := match key with
          | some k => (k, e) :: cache
          | none => cache
        ((env, cache'), .res (evalEntry e c))
  | op => let (env', o) := stepOp env op; ((env', cache), o)

def runOpsCached (st : Env × List (Nat × Entry)) : List Op → List Out
  | [] => []
  | op :: ops => let (st', o) := stepOpCached st op; o :: runOpsCached st' ops

def Out.toList : Out → Option (List (Option Rat))
  | .res r => some r
  | _ => none

/-! ## A small table used by the non-vacuity examples -/

def exLut : LUT := [(1, 1, 2), (3, 1, 4), (3, 2, 8), (1, 2, 6)]
def exT : List Tri := [(0, 1, 2), (0, 2, 3)]
def exMeta : Meta := { L0 := 20, Q0 := 1/25, eta0 := 15, k := 2 }
def exSetup : Setup := { L := 30, Q := 4/25, px := 17/50 }
/-- a correction obeying `DeltaLaw 2` (`g y = 1/(8 + 8y)`) -/
def exDelta (x px : Rat) : Rat := 1 / (8 + 8 * (x * ((17/50) / px) ^ 2))

end DclabModel.Emod
