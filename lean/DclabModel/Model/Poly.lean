/-!
# Model of dclab's polygon filter (property C15)

Mirrors `dclab/external/skimage/_shared/geometry.pyx:point_in_polygon` (the crossing-number
loop with the half-open edge rule), `_pnpoly.pyx:_points_in_poly` (one call per point),
`polygon_filter.py:PolygonFilter.filter` (inversion) and the text persistence
`PolygonFilter.save / _load / import_all / _set_unique_id`.

Core Lean only.  The geometric definitions are written once, over any type `K` carrying the
arithmetic and order *notation* (`+ - * / ≤ <` with decidable comparisons).  The driver
instantiates them at core `Rat` (exact arithmetic); the theorems in `Properties/C15.lean`
are proved for every linearly ordered field, `Rat` being one instance – it is the same
definition, not a copy.
-/
namespace DclabModel.Poly

structure Pt (K : Type) where
  x : K
  y : K
deriving Repr, DecidableEq

section Geometry
variable {K : Type} [LE K] [LT K] [DecidableLE K] [DecidableLT K]
  [Add K] [Sub K] [Mul K] [Div K]

/-- The literal condition of the C loop body with `(xp[i], yp[i]) = a`, `(xp[j], yp[j]) = b`,
`(x, y) = p`:
`((yi <= y and y < yj) or (yj <= y and y < yi)) and x < (xj - xi) * (y - yi) / (yj - yi) + xi`.
(The `and` short-circuits, so the quotient is only evaluated for `yi ≠ yj`.) -/
def crosses (a b p : Pt K) : Bool :=
  ((decide (a.y ≤ p.y) && decide (p.y < b.y)) || (decide (b.y ≤ p.y) && decide (p.y < a.y)))
    && decide (p.x < (b.x - a.x) * (p.y - a.y) / (b.y - a.y) + a.x)

/-- last element of `d :: l` (`xp[nr_verts - 1]`) -/
def lastD {α : Type} (d : α) : List α → α
  | [] => d
  | v :: rest => lastD v rest

/-- `impl`: the `for i in range(nr_verts)` loop; `prev` is vertex `j`, `c` the parity flag. -/
def pipLoop (p : Pt K) : Pt K → List (Pt K) → Bool → Bool
  | _, [], c => c
  | prev, v :: rest, c => pipLoop p v rest (if crosses v prev p then !c else c)

/-- `point_in_polygon(nr_verts, xp, yp, x, y)`: `j` starts at the last vertex.
(For `nr_verts = 0` the C loop does not run and the answer is 0.) -/
def pip (poly : List (Pt K)) (p : Pt K) : Bool :=
  match poly with
  | [] => false
  | v :: rest => pipLoop p (lastD v rest) poly false

/-- the edges in the order in which the loop visits them: `(v0, v_{n-1}), (v1, v0), …` -/
def edgesFrom : Pt K → List (Pt K) → List (Pt K × Pt K)
  | _, [] => []
  | prev, v :: rest => (v, prev) :: edgesFrom v rest

def edges (poly : List (Pt K)) : List (Pt K × Pt K) :=
  match poly with
  | [] => []
  | v :: rest => edgesFrom (lastD v rest) poly

/-- parity of a list of flags -/
def parity : List Bool → Bool
  | [] => false
  | b :: r => xor b (parity r)

/-- `spec` form of `pip`: parity of the crossing flags of the cyclic edges -/
def pipSpec (poly : List (Pt K)) (p : Pt K) : Bool :=
  parity ((edges poly).map fun e => crosses e.1 e.2 p)

/-- `_points_in_poly` -/
def pointsInPoly (poly : List (Pt K)) (pts : List (Pt K)) : List Bool := pts.map (pip poly)

/-- `PolygonFilter.filter`: `np.invert(f, f)` when `inverted` -/
def filterPts (inverted : Bool) (poly : List (Pt K)) (pts : List (Pt K)) : List Bool :=
  (pointsInPoly poly pts).map fun f => if inverted then !f else f

/-- remove every vertex that equals its predecessor in the list (zero-length edges);
`de-duplication of ADJACENT repeats` – the only kind that is always harmless -/
def dedupAdj [DecidableEq K] : List (Pt K) → List (Pt K)
  | [] => []
  | [v] => [v]
  | v :: w :: r => if v = w then dedupAdj (w :: r) else v :: dedupAdj (w :: r)

/-- remove every later occurrence of a vertex that was seen before (adjacent or not) -/
def dedupAll [DecidableEq K] : List (Pt K) → List (Pt K) → List (Pt K)
  | _, [] => []
  | seen, v :: r => if seen.contains v then dedupAll seen r else v :: dedupAll (v :: seen) r

end Geometry

/-! ## Rounding guard used by the correspondence (driver only)

The C code evaluates the crossing abscissa in binary64.  `near a b p` says (in exact
arithmetic) that `p` is level with the half-open edge and within `2⁻⁴⁰·(|xi| + |xj − xi|)` of
the exact abscissa; such points are skipped (and counted) by the harness for random floats. -/

def rabs (q : Rat) : Rat := if q < 0 then -q else q

def nearEdge (a b p : Pt Rat) : Bool :=
  ((decide (a.y ≤ p.y) && decide (p.y < b.y)) || (decide (b.y ≤ p.y) && decide (p.y < a.y)))
    && decide (rabs (p.x - ((b.x - a.x) * (p.y - a.y) / (b.y - a.y) + a.x))
               ≤ (rabs a.x + rabs (b.x - a.x)) / 1099511627776)

def near (poly : List (Pt Rat)) (p : Pt Rat) : Bool :=
  (edges poly).any fun e => nearEdge e.1 e.2 p

/-! ## Persistence: `.poly` files

A file is a list of lines.  `save` appends one header line and the key lines; `_load`
finds the header lines, cuts out the section number `fileid` and folds over its lines;
`import_all` loads sections 0, 1, … until the section index is out of range.
Coordinates pass through text: `fmt` is the composition `float → "{:.Ne}" → float`
(a parameter of the model; for the repaired code – 17 significant digits – it is the identity
on binary64 values, which the harness checks on the implementation). -/

/-! ### the text representation of a coordinate

`"{:.Ne}".format(x)` writes the decimal number with `N + 1` significant digits that is nearest
to the binary64 value `x` (ties to even); `np.array(text, dtype=float64)` reads the binary64
value nearest to that decimal number.  `fmtDigits n` is the composition for `n` significant
digits (normal range only: no subnormals, no overflow).  The unrepaired code used `n = 16`
(`{:.15e}`), the repaired code uses `n = 17` (`{:.16e}`). -/

def rpow (b : Rat) : Nat → Rat
  | 0 => 1
  | n + 1 => b * rpow b n

def powI (b : Rat) (e : Int) : Rat := if e ≥ 0 then rpow b e.toNat else 1 / rpow b (-e).toNat

/-- round a non-negative rational to the nearest integer, ties to even -/
def roundHalfEven (q : Rat) : Int :=
  let f : Int := q.num / (q.den : Int)
  let r : Rat := q - f
  if r < 1/2 then f else if 1/2 < r then f + 1 else if f % 2 = 0 then f else f + 1

/-- `(m, e)` with `q = m * b^e` and `lo ≤ m < lo * b` (for `q > 0`) -/
def normalize (b lo : Rat) : Nat → Rat → Int → Rat × Int
  | 0, q, e => (q, e)
  | fuel + 1, q, e =>
    if q < lo then normalize b lo fuel (q * b) (e - 1)
    else if lo * b ≤ q then normalize b lo fuel (q / b) (e + 1)
    else (q, e)

def roundTo (b lo : Rat) (q : Rat) : Rat :=
  if q = 0 then 0 else
    let a := if q < 0 then -q else q
    let (m, e) := normalize b lo 1200 a 0
    let r := (roundHalfEven m : Rat) * powI b e
    if q < 0 then -r else r

def roundSig (n : Nat) (q : Rat) : Rat := roundTo 10 (rpow 10 (n - 1)) q
def toDouble (q : Rat) : Rat := roundTo 2 (rpow 2 52) q
def fmtDigits (n : Nat) (q : Rat) : Rat := toDouble (roundSig n q)
structure PF where
  uid      : Nat
  xaxis    : String
  yaxis    : String
  name     : String
  inverted : Bool
  points   : List (Pt Rat)
deriving Repr, DecidableEq

inductive Line where
  | hdr (uid : Nat)                    -- `[Polygon 00000007]`
  | xaxis (s : String)                 -- `X Axis = …`
  | yaxis (s : String)
  | name (s : String)
  | inverted (b : Bool)
  | point (idx : Nat) (x y : Rat)      -- `point00000003 = … …`
deriving Repr, DecidableEq

def Line.isHdr : Line → Bool
  | .hdr _ => true
  | _ => false

def pointLines (fmt : Rat → Rat) : Nat → List (Pt Rat) → List Line
  | _, [] => []
  | i, p :: r => Line.point i (fmt p.x) (fmt p.y) :: pointLines fmt (i + 1) r

/-- `PolygonFilter.save` (the lines appended to the file) -/
def save (fmt : Rat → Rat) (f : PF) : List Line :=
  [Line.hdr f.uid, Line.xaxis f.xaxis, Line.yaxis f.yaxis, Line.name f.name,
   Line.inverted f.inverted] ++ pointLines fmt 0 f.points

/-- `save_all` / successive `save` calls on the same file -/
def saveAll (fmt : Rat → Rat) (fs : List PF) : List Line := fs.flatMap (save fmt)

/-- lines up to (excluding) the next header: `data[start:end]` -/
def sectionBody : List Line → List Line
  | [] => []
  | l :: r => if l.isHdr then [] else l :: sectionBody r

/-- `int_head[fileid]`: the section number `fileid` = (header id, body); `none` = `IndexError` -/
def nthSection : List Line → Nat → Option (Nat × List Line)
  | [], _ => none
  | .hdr u :: r, 0 => some (u, sectionBody r)
  | .hdr _ :: r, k + 1 => nthSection r k
  | _ :: r, k => nthSection r k

/-- insertion of `(idx, pt)` into a list sorted by `idx` (`points.sort()`) -/
def insertPt (e : Nat × Pt Rat) : List (Nat × Pt Rat) → List (Nat × Pt Rat)
  | [] => [e]
  | h :: t => if e.1 ≤ h.1 then e :: h :: t else h :: insertPt e t

def sortPts : List (Nat × Pt Rat) → List (Nat × Pt Rat)
  | [] => []
  | e :: r => insertPt e (sortPts r)

structure Parsed where
  xaxis    : String := ""
  yaxis    : String := ""
  name     : String := ""
  inverted : Bool := false
  pts      : List (Nat × Pt Rat) := []

/-- the `for var, val in subdata` loop of `_load`
(`inverted` is only ever set to `True`; the constructor default is `False`;
`lower` is `str.lower`, applied to the two axis names) -/
def parseBody (lower : String → String) : List Line → Parsed → Parsed
  | [], acc => acc
  | .xaxis s :: r, acc => parseBody lower r { acc with xaxis := lower s }
  | .yaxis s :: r, acc => parseBody lower r { acc with yaxis := lower s }
  | .name s :: r, acc => parseBody lower r { acc with name := s }
  | .inverted b :: r, acc => parseBody lower r (if b then { acc with inverted := true } else acc)
  | .point i x y :: r, acc => parseBody lower r { acc with pts := acc.pts ++ [(i, ⟨x, y⟩)] }
  | .hdr _ :: r, acc => parseBody lower r acc      -- unreachable: bodies contain no header

/-- the global registry: `PolygonFilter.instances` (their ids) and `_instance_counter` -/
structure Reg where
  ids     : List Nat := []
  counter : Nat := 0
deriving Repr, DecidableEq

/-- `_set_unique_id` followed by `instances.append(self)`; returns the id actually given -/
def setUniqueId (reg : Reg) (uid : Nat) : Reg × Nat :=
  let uid' := if reg.ids.contains uid then max reg.counter (uid + 1) else uid
  ({ ids := reg.ids ++ [uid'], counter := max reg.counter (uid' + 1) }, uid')

/-- `PolygonFilter(filename=path, fileid=k)` -/
def load (lower : String → String) (file : List Line) (k : Nat) (reg : Reg) : Option (Reg × PF) :=
  match nthSection file k with
  | none => none
  | some (u, body) =>
    let p := parseBody lower body {}
    let (reg', uid) := setUniqueId reg u
    some (reg', { uid := uid, xaxis := p.xaxis, yaxis := p.yaxis, name := p.name,
                  inverted := p.inverted, points := (sortPts p.pts).map Prod.snd })

/-- `import_all`: `fid = 0, 1, …` until `IndexError`; `fuel` bounds the `while True` -/
def importLoop (lower : String → String) (file : List Line) : Nat → Nat → Reg → List PF → Reg × List PF
  | 0, _, reg, acc => (reg, acc)
  | fuel + 1, k, reg, acc =>
    match load lower file k reg with
    | none => (reg, acc)
    | some (reg', f) => importLoop lower file fuel (k + 1) reg' (acc ++ [f])

def importAll (lower : String → String) (file : List Line) (reg : Reg) : Reg × List PF :=
  importLoop lower file (file.length + 1) 0 reg []

end DclabModel.Poly
