import DclabModel.Model.Meta
/-!
# The writer's completion of metadata from the data (`RTDCWriter.rectify_metadata`)

Every `RTDCWriter` context that holds at least one feature ends with `rectify_metadata`: export,
split, join, condense, tdms2rtdc.  *impl* (`rectify`) mirrors the method branch by branch over the
attribute map `Attrs` of `Model/Meta.lean`; its only other input is what the DATA of the file say
(`DataShape`).  `Tbl.exportMeta` is the metadata route of `export.hdf5`: the source configuration
goes through `store_metadata`, then the completion.  *spec*: see `Properties/C11.lean`
(`rectify_frame`, `rectify_channel_count_kept`, `export_carries`).
-/
namespace DclabModel.Meta
open PyVal Except

/-- what the data of the (output) file say: number of events, samples of the first trace (if the
file has non-empty traces), presence of the three fluorescence maxima, shape (rows, columns) of
the images — else of the masks — if present -/
structure DataShape where
  events : Nat
  trace : Option Nat
  fl1 : Bool
  fl2 : Bool
  fl3 : Bool
  image : Option (Nat × Nat)
  deriving DecidableEq, Repr

def sExperiment : Str := [101, 120, 112, 101, 114, 105, 109, 101, 110, 116]
def sFluorescence : Str := [102, 108, 117, 111, 114, 101, 115, 99, 101, 110, 99, 101]
def sImaging : Str := [105, 109, 97, 103, 105, 110, 103]
/-- `experiment:event count` -/
def kEventCount : Str × Str := (sExperiment, [101, 118, 101, 110, 116, 32, 99, 111, 117, 110, 116])
/-- `fluorescence:samples per event` -/
def kSamples : Str × Str :=
  (sFluorescence, [115, 97, 109, 112, 108, 101, 115, 32, 112, 101, 114, 32, 101, 118, 101, 110, 116])
/-- `fluorescence:channel count` -/
def kChannels : Str × Str :=
  (sFluorescence, [99, 104, 97, 110, 110, 101, 108, 32, 99, 111, 117, 110, 116])
/-- `imaging:roi size x` -/
def kRoiX : Str × Str := (sImaging, [114, 111, 105, 32, 115, 105, 122, 101, 32, 120])
/-- `imaging:roi size y` -/
def kRoiY : Str × Str := (sImaging, [114, 111, 105, 32, 115, 105, 122, 101, 32, 121])

/-- the keys whose value describes the data of the file -/
def dataKeys : List (Str × Str) := [kEventCount, kSamples, kChannels, kRoiX, kRoiY]

/-- a Python `int` written as an HDF5 attribute -/
def npI (n : Nat) : PyVal := sc (.npInt n)

/-- `sum(["fl1_max" in feats, "fl2_max" in feats, "fl3_max" in feats])` -/
def DataShape.flCount (d : DataShape) : Nat := d.fl1.toNat + d.fl2.toNat + d.fl3.toNat

/-- `rectify_metadata` on a file with at least one event: event count always; samples per event
if traces are present; channel count only if fluorescence maxima are present AND the attribute is
absent; roi size if images or masks are present -/
def rectify (d : DataShape) (a : Attrs) : Attrs :=
  let a1 := a.put kEventCount (npI d.events)
  let a2 := match d.trace with
    | some n => a1.put kSamples (npI n)
    | none => a1
  let a3 := if d.flCount ≠ 0 ∧ a2.get? kChannels = none then a2.put kChannels (npI d.flCount)
    else a2
  match d.image with
  | some (r, c) => (a3.put kRoiX (npI c)).put kRoiY (npI r)
  | none => a3

/-- metadata route of `export.hdf5` (and of every tool that writes through `RTDCWriter`): the
source's configuration entries through `store_metadata` into a new file, then the completion -/
def Tbl.exportMeta (t : Tbl) (d : DataShape) (entries : List (Str × Str × PyVal)) :
    Except Err Attrs :=
  (t.storeMeta [] entries).map (rectify d)

end DclabModel.Meta
