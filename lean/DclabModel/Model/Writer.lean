/-!
# `RTDCWriter` as a state machine over an abstract file — model for C01

Core Lean only.  Event payloads are *tokens* (`Tok = Nat`): one token stands for the complete
payload of one event of one feature (the harness maps bytes to tokens exactly).  Log lines are
lists of UTF-8 bytes.

* `impl` layer (`step`, `run`): mirrors `dclab/rtdc_dataset/writer.py` branch by branch —
  `store_feature` (replace-mode deletion, `index` enumeration, dispatch), `write_ndarray`
  (create with `get_best_nd_chunks` / resize, scalar data "in one go", n-d data with the
  chunk-wise populate loop and its remainder branch), `write_ragged` with the per-writer
  `_group_sizes` counter, `write_text` with the string width frozen at creation (after the
  repair of finding F01: re-created wider when needed; `TextRule.old` is the rule before),
  `store_table`, `__exit__`/`rectify_metadata` (event count), the three modes, re-opening.
  `read` mirrors the readers (`fmt_hdf5/events.py`, `logs.py`, `tables.py`): contour events are
  fetched *by name* `str(i)`, logs/tables without rows are hidden.
* `spec` layer (`specStep`, `specOf`): per feature the concatenation of the rows passed in
  (`old ++ new`; `new` alone in replace mode; nothing from before a `reset`), `index = 1..N`,
  logs the concatenation of the lines, tables as stored first.
-/
namespace DclabModel.Writer

abbrev Tok := Nat
abbrev Line := List Nat

/-! ### association lists (HDF5 groups) -/

def lookup {κ α : Type} [DecidableEq κ] (k : κ) : List (κ × α) → Option α
  | [] => none
  | (k', v) :: t => if k' = k then some v else lookup k t

def erase {κ α : Type} [DecidableEq κ] (k : κ) : List (κ × α) → List (κ × α)
  | [] => []
  | (k', v) :: t => if k' = k then erase k t else (k', v) :: erase k t

def put {κ α : Type} [DecidableEq κ] (k : κ) (v : α) : List (κ × α) → List (κ × α)
  | [] => [(k, v)]
  | (k', v') :: t => if k' = k then (k, v) :: t else (k', v') :: put k v t

/-! ### datasets -/

inductive Mode where
  | append | replace | reset
  deriving DecidableEq, Repr

inductive TextRule where
  | fixed | old
  deriving DecidableEq, Repr

structure Dset where
  chunk : Nat
  rows : List Tok
  deriving DecidableEq, Repr

structure Log where
  width : Nat
  lines : List Line
  deriving DecidableEq, Repr

structure Table where
  cols : List String
  cells : List (List Tok)
  deriving DecidableEq, Repr

structure File where
  events : List (String × Dset) := []          -- datasets directly below `events`
  traces : List (String × Dset) := []          -- `events/trace/<name>`
  contour : Option (List (Nat × Tok)) := none  -- group `events/contour`: dataset name ↦ row
  logs : List (String × Log) := []
  tables : List (String × Table) := []
  evcount : Option Nat := none                 -- attribute `experiment:event count`
  deriving Repr

structure WState where
  mode : Mode := .append
  gsize : Option Nat := none                   -- `_group_sizes[events/contour]`
  deriving Repr

structure St where
  w : WState := {}
  f : File := {}
  deriving Repr

inductive CountRule where
  | fixed | old
  deriving DecidableEq, Repr

structure Cfg where
  chunkBytes : Nat            -- `writer.CHUNK_SIZE_BYTES`
  text : TextRule := .fixed   -- `write_text` after / before the repair of F01
  count : CountRule := .fixed -- `rectify_metadata` after / before the repair of F41

inductive Out where
  | ok | err
  deriving DecidableEq, Repr

/-- `get_best_nd_chunks`: `max(10, floor(CHUNK_SIZE_BYTES / event_size))` -/
def bestChunk (chunkBytes esize : Nat) : Nat := max 10 (chunkBytes / esize)

/-- fill value of freshly allocated rows -/
def fill : Tok := 0

/-- `dset.resize(n, axis=0)` -/
def resize (l : List Tok) (n : Nat) : List Tok := l.take n ++ List.replicate (n - l.length) fill

/-- `dset[start : start + len(d)] = d` -/
def setSlice (l : List Tok) (start : Nat) (d : List Tok) : List Tok :=
  l.take start ++ d ++ l.drop (start + d.length)

/-- the first `k` iterations of
`for ii in range(num_chunks): dset[offset+ii*cs : offset+ii*cs+cs] = data[ii*cs : ii*cs+cs]` -/
def chunkLoop (cs off : Nat) (data : List Tok) : Nat → List Tok → List Tok
  | 0, cur => cur
  | k + 1, cur =>
    setSlice (chunkLoop cs off data k cur) (off + k * cs) ((data.drop (k * cs)).take cs)

/-- the n-d branch of `write_ndarray`: full chunks, then the remainder -/
def populateNd (cs off : Nat) (cur data : List Tok) : List Tok :=
  let numChunks := data.length / cs
  let cur1 := chunkLoop cs off data numChunks cur
  let numRemain := data.length % cs
  if numRemain ≠ 0 then
    setSlice cur1 (off + numChunks * cs) ((data.drop (numChunks * cs)).take numRemain)
  else cur1

/-- `write_ndarray` for non-empty `data` -/
def writeNd (cb : Nat) (scalar : Bool) (esize : Nat) (old : Option Dset) (data : List Tok) : Dset :=
  match old with
  | none =>
    -- create_dataset(shape=data.shape, chunks=get_best_nd_chunks(...)), offset = 0
    let cs := bestChunk cb esize
    let cur := List.replicate data.length fill
    { chunk := cs, rows := if scalar then setSlice cur 0 data else populateNd cs 0 cur data }
  | some d =>
    let off := d.rows.length
    let cur := resize d.rows (off + data.length)
    { chunk := d.chunk
      rows := if scalar then setSlice cur off data else populateNd d.chunk off cur data }

/-- `write_ragged`'s loop: `create_dataset(str(curid + ii))`, counter incremented; an existing
name makes h5py raise -/
def addRagged : List (Nat × Tok) → Nat → List Tok → List (Nat × Tok) × Nat × Out
  | grp, cur, [] => (grp, cur, .ok)
  | grp, cur, c :: cs =>
    match lookup cur grp with
    | some _ => (grp, cur, .err)
    | none => addRagged (grp ++ [(cur, c)]) (cur + 1) cs

def maxLen (lines : List Line) : Nat := lines.foldl (fun m l => max m l.length) 100

/-- `write_text` -/
def writeText (rule : TextRule) (mode : Mode) (logs : List (String × Log)) (name : String)
    (lines : List Line) : List (String × Log) :=
  let logs1 := if mode = .replace then erase name logs else logs
  let ml := maxLen lines
  match lookup name logs1 with
  | none => put name { width := ml, lines := lines.map (·.take ml) } logs1
  | some lg =>
    if rule = .fixed ∧ ml > lg.width then
      -- repaired: re-create with the larger width, old lines kept
      put name { width := ml, lines := lg.lines ++ lines.map (·.take ml) } logs1
    else
      put name { width := lg.width, lines := lg.lines ++ lines.map (·.take lg.width) } logs1

inductive Op where
  /-- `RTDCWriter(path, mode)`: a new writer object (`reset` truncates the file) -/
  | openW (m : Mode)
  /-- `store_feature(name, data)` for scalar (`scalar = true`) and image-like features;
  `esize` = bytes of one event of the data handed to `write_ndarray` -/
  | feat (name : String) (scalar : Bool) (esize : Nat) (rows : List Tok)
  /-- one entry of `store_feature("trace", {name: data})` -/
  | trace (name : String) (esize : Nat) (rows : List Tok)
  | contour (rows : List Tok)
  | log (name : String) (lines : List Line)
  | table (name : String) (t : Table)
  /-- `__exit__` -/
  | close
  deriving Repr

/-- smallest key (Python: `sorted(keys)[0]`) -/
def minKey : List String → Option String
  | [] => none
  | k :: t => match minKey t with
    | none => some k
    | some m => if k < m then some k else some m

def topKeys (f : File) : List String :=
  f.events.map Prod.fst ++ (if f.contour.isSome then ["contour"] else []) ++
    (if f.traces.isEmpty then [] else ["trace"])

/-- number of events `rectify_metadata` reads off the object `events/<k>`: `len()` of it; for
the trace group that is the number of trace names (before the repair of F41) resp. the length of
its alphabetically first dataset (after it) -/
def objLen (rule : CountRule) (f : File) (k : String) : Nat :=
  if k = "contour" then (f.contour.getD []).length
  else if k = "trace" then
    match rule with
    | .old => f.traces.length
    | .fixed =>
      match minKey (f.traces.map Prod.fst) with
      | none => 0
      | some n => ((lookup n f.traces).map (·.rows.length)).getD 0
  else ((lookup k f.events).map (·.rows.length)).getD 0

/-- `rectify_metadata`, event count only -/
def rectify (rule : CountRule) (f : File) : File :=
  match minKey (topKeys f) with
  | none => f
  | some k => { f with evcount := some (objLen rule f k) }

def step (cfg : Cfg) (s : St) : Op → St × Out
  | .openW m =>
    ({ w := { mode := m, gsize := none }, f := if m = .reset then {} else s.f }, .ok)
  | .feat name scalar esize rows =>
    -- replace data?
    let ev := if s.w.mode = .replace then erase name s.f.events else s.f.events
    -- the index is enumerated by the writer
    let data := if name = "index" then
        List.range' (((lookup "index" ev).map (·.rows.length)).getD 0 + 1) rows.length
      else rows
    if data.isEmpty then ({ s with f := { s.f with events := ev } }, .err)
    else
      ({ s with f := { s.f with
          events := put name (writeNd cfg.chunkBytes scalar esize (lookup name ev) data) ev } }, .ok)
  | .trace name esize rows =>
    let tr := if s.w.mode = .replace then erase name s.f.traces else s.f.traces
    if rows.isEmpty then ({ s with f := { s.f with traces := tr } }, .err)
    else
      ({ s with f := { s.f with
          traces := put name (writeNd cfg.chunkBytes false esize (lookup name tr) rows) tr } }, .ok)
  | .contour rows =>
    -- replace mode deletes the group; the new group is unknown to `_group_sizes`
    let (grp0, gs0) := if s.w.mode = .replace then (none, none) else (s.f.contour, s.w.gsize)
    let grp := grp0.getD []
    let cur := gs0.getD grp.length
    let (grp', cur', o) := addRagged grp cur rows
    ({ w := { s.w with gsize := some cur' }, f := { s.f with contour := some grp' } }, o)
  | .log name lines =>
    ({ s with f := { s.f with logs := writeText cfg.text s.w.mode s.f.logs name lines } }, .ok)
  | .table name t =>
    match lookup name s.f.tables with
    | some _ => (s, .err)     -- create_dataset: name already exists
    | none => ({ s with f := { s.f with tables := put name t s.f.tables } }, .ok)
  | .close =>
    ({ s with f := rectify cfg.count s.f }, .ok)

def run (cfg : Cfg) (s : St) : List Op → St
  | [] => s
  | op :: ops => run cfg (step cfg s op).1 ops

def outs (cfg : Cfg) (s : St) : List Op → List Out
  | [] => []
  | op :: ops => (step cfg s op).2 :: outs cfg (step cfg s op).1 ops

/-! ### what the readers return -/

structure View where
  feat : String → Option (List Tok)
  trace : String → Option (List Tok)
  /-- `[ds["contour"][i] for i in range(n)]`, each fetched by name `str(i)` (`none` = KeyError) -/
  contour : Option (List (Option Tok))
  /-- log lines; `[]` = not listed (empty logs are hidden) -/
  log : String → List Line
  table : String → Option Table

def read (f : File) : View where
  feat k := (lookup k f.events).map (·.rows)
  trace k := (lookup k f.traces).map (·.rows)
  contour := f.contour.map (fun g => (List.range g.length).map (fun i => lookup i g))
  log k := ((lookup k f.logs).map (·.lines)).getD []
  table k := lookup k f.tables

/-! ### specification -/

structure SpecSt where
  mode : Mode := .append
  feat : String → Option (List Tok) := fun _ => none
  trace : String → Option (List Tok) := fun _ => none
  contour : Option (List Tok) := none
  log : String → List Line := fun _ => []
  table : String → Option Table := fun _ => none

def upd {α : Type} (f : String → α) (k : String) (v : α) : String → α :=
  fun x => if k = x then v else f x

/-- rows of a feature after a call: rejected (empty) calls store nothing — in replace mode the
old data are gone nevertheless; otherwise `old ++ new`, or `new` in replace mode -/
def specRows (mode : Mode) (old : Option (List Tok)) (rows : List Tok) : Option (List Tok) :=
  let old' := if mode = .replace then none else old
  if rows.isEmpty then old' else some (old'.getD [] ++ rows)

def specStep (p : SpecSt) : Op → SpecSt
  | .openW m => if m = .reset then { mode := m } else { p with mode := m }
  | .feat name _ _ rows =>
    if name = "index" then
      let n0 := if p.mode = .replace then 0 else ((p.feat "index").map (·.length)).getD 0
      let v := if rows.isEmpty then (if p.mode = .replace then none else p.feat "index")
        else some (List.range' 1 (n0 + rows.length))
      { p with feat := upd p.feat "index" v }
    else { p with feat := upd p.feat name (specRows p.mode (p.feat name) rows) }
  | .trace name _ rows => { p with trace := upd p.trace name (specRows p.mode (p.trace name) rows) }
  | .contour rows =>
    { p with contour := some ((if p.mode = .replace then [] else p.contour.getD []) ++ rows) }
  | .log name lines =>
    { p with log := upd p.log name ((if p.mode = .replace then [] else p.log name) ++ lines) }
  | .table name t =>
    match p.table name with
    | some _ => p
    | none => { p with table := upd p.table name (some t) }
  | .close => p

def specRun (p : SpecSt) : List Op → SpecSt
  | [] => p
  | op :: ops => specRun (specStep p op) ops

def SpecSt.view (p : SpecSt) : View where
  feat := p.feat
  trace := p.trace
  contour := p.contour.map (·.map some)
  log := p.log
  table := p.table

/-- what a reader must see after the history `ops` on a fresh file -/
def specOf (ops : List Op) : View := (specRun {} ops).view

/-! ### the `setup:software version` chain

`store_metadata` brands the version given by the user — or, if the metadata passed contain no
(non-empty) `setup:software version`, the chain already stored in the file — and always writes the
result; `__exit__` brands the stored chain once more (`version_brand`). -/

/-- `version_brand`: append `dclab X.Y.Z` unless it is already the last entry -/
def brand (dclab : String) (chain : List String) : List String :=
  if chain.getLast? = some dclab then chain else chain ++ [dclab]

inductive VerOp where
  /-- `store_metadata`; `given` = the entries of `meta["setup"]["software version"]`
  (`[]` = key absent or empty, with or without a `setup` section) -/
  | store (given : List String)
  /-- writer exit -/
  | close
  /-- a writer opened in `reset` mode -/
  | reset

def verStep (dclab : String) (chain : List String) : VerOp → List String
  | .store given => brand dclab (if given.isEmpty then chain else given)
  | .close => brand dclab chain
  | .reset => []

def verRun (dclab : String) (chain : List String) : List VerOp → List String
  | [] => chain
  | op :: ops => verRun dclab (verStep dclab chain op) ops

/-! ### the reader's per-feature cache (`H5ScalarEvent._array`)

`__array__(dtype)` reads the dataset once, keeps the array *as stored* and converts a copy for
the caller (`CacheRule.clean`).  `CacheRule.convertFirst` is the tempting variant that lets the
first read convert. -/

inductive CacheRule where
  | clean | convertFirst

/-- one access with conversion `conv` (identity for a plain access); returns the new cache and
what the caller gets -/
def accessStep (rule : CacheRule) (data : List Tok) (cache : Option (List Tok))
    (conv : Tok → Tok) : Option (List Tok) × List Tok :=
  let arr := match cache with
    | some a => a
    | none => match rule with
      | .clean => data
      | .convertFirst => data.map conv
  (some arr, match rule with
    | .clean => arr.map conv
    | .convertFirst => if cache.isSome then arr.map conv else arr)

def accessRun (rule : CacheRule) (data : List Tok) (cache : Option (List Tok)) :
    List (Tok → Tok) → List (List Tok)
  | [] => []
  | c :: cs => (accessStep rule data cache c).2 :: accessRun rule data (accessStep rule data cache c).1 cs

end DclabModel.Writer
