/-!
# Basins (C07, C14) — executable model, core Lean only

Part A (C07, data plane)
* `gather`, `filt`, `whereIdx`, `sel` : numpy fancy / boolean indexing on row-token lists;
* `Proxy`   : the three access routes of `feat_basin.BasinProxyFeature`
              (`getInt`, cached whole-array route `viaCache`, event-wise nd route `viaNd`);
* `RFile`, `resolve1`, `viaBasin` : a world of files `loc ↦ {innate features, basins}` and the
              recursive (fuel-bounded) resolution of a feature through basins;
* `exportFile` : `Export.hdf5(basins=True)` — the three mapping cases (copy / `where mask` /
              `orig[mask]`) and the hierarchy-child case (`fixed = true` composes the upstream
              maps with the child→root map: F08; `fixed = false` is the code before the fix);
* `allocFrom`, `storeBasin` : `RTDCWriter.store_basin` map-feature allocation / reuse loop;
* `getitem` : lookup order of `RTDCBase.__getitem__`.

Part B (C14, resolution) — see `Node`, `resolveStep`, `resolve` below.
-/
namespace DclabModel.Basin

abbrev Row := Nat
abbrev Feat := Nat

/-- association-list lookup (first match) -/
def lk [DecidableEq κ] (k : κ) : List (κ × β) → Option β
  | [] => none
  | (a, b) :: t => if a = k then some b else lk k t

/-- first element on which `g` succeeds (`for … : try … break`) -/
def firstSome (g : α → Option β) : List α → Option β
  | [] => none
  | a :: t => match g a with
    | some b => some b
    | none => firstSome g t

/-! ## A.1 index algebra -/

/-- numpy `o[m]` for an integer index array (IndexError ↦ `none`) -/
def gather (o : List α) : List Nat → Option (List α)
  | [] => some []
  | i :: is =>
    match o[i]?, gather o is with
    | some x, some xs => some (x :: xs)
    | _, _ => none

/-- rows kept by a boolean mask (total; the shorter list decides) -/
def filt : List Bool → List α → List α
  | true :: bs, x :: xs => x :: filt bs xs
  | false :: bs, _ :: xs => filt bs xs
  | _, _ => []

def whereFrom (k : Nat) : List Bool → List Nat
  | [] => []
  | true :: bs => k :: whereFrom (k + 1) bs
  | false :: bs => whereFrom (k + 1) bs

/-- `np.where(mask)[0]` -/
def whereIdx (mask : List Bool) : List Nat := whereFrom 0 mask

/-- numpy `o[mask]` (IndexError when the lengths differ) -/
def sel (mask : List Bool) (o : List α) : Option (List α) :=
  if mask.length = o.length then some (filt mask o) else none

/-- Python index normalisation of a possibly negative integer -/
def normIdx (n : Nat) (i : Int) : Option Nat :=
  if 0 ≤ i then (if i.toNat < n then some i.toNat else none)
  else if (-i).toNat ≤ n then some (n - (-i).toNat) else none

/-- index expressions handed to `BasinProxyFeature.__getitem__` -/
inductive Index where
  | int (i : Int)
  | arr (is : List Int)
  | mask (bs : List Bool)
  | range (start len step : Nat)       -- a slice after `slice.indices(n)` (positive step)
  | all

/-- the index list numpy uses on an array of length `n` (`none` = IndexError) -/
def Index.expand (n : Nat) : Index → Option (List Nat)
  | .int i => (normIdx n i).map ([·])
  | .arr is => is.mapM (normIdx n)
  | .mask bs => if bs.length = n then some (whereIdx bs) else none
  | .range s l st => some ((List.range l).map (fun j => s + st * j))
  | .all => some (List.range n)

/-! ## A.2 the mapping proxy -/

structure Proxy where
  o : List Row          -- the basin's feature data `feat_obj[:]`
  m : List Nat          -- `basinmap`

/-- `feat_obj[basinmap[index]]` -/
def Proxy.getInt (p : Proxy) (i : Int) : Option Row :=
  (normIdx p.m.length i).bind fun k => (p.m[k]?).bind fun j => p.o[j]?

/-- cached whole array `feat_obj[:][basinmap]` -/
def Proxy.getArr (p : Proxy) : Option (List Row) := gather p.o p.m

/-- scalar route: `__array__()[index]` -/
def Proxy.viaCache (p : Proxy) (idx : List Nat) : Option (List Row) :=
  p.getArr.bind fun a => gather a idx

/-- nd route: `indices = basinmap[index]`, then event-wise `feat_obj[idx]` -/
def Proxy.viaNd (p : Proxy) (idx : List Nat) : Option (List Row) :=
  (gather p.m idx).bind fun js => gather p.o js

/-! ## A.3 files, basins, resolution -/

inductive Src where
  | file (loc : Nat)
  | internal (data : List (Feat × List Row))

structure RBasin where
  src : Src
  feats : Option (List Feat)        -- `None` = everything the basin has
  map : Option (List Nat)           -- `none` = "same"

structure RFile where
  innate : List (Feat × List Row)
  basins : List RBasin              -- in priority order

def offers (b : RBasin) (f : Feat) : Bool :=
  match b.feats with
  | none => true
  | some l => l.contains f

/-- mapped access through `BasinProxy`; "same" hands the basin's array through unchanged -/
def applyMap : Option (List Nat) → List Row → Option (List Row)
  | none, r => some r
  | some m, r => gather r m

abbrev Sub := Nat → Feat → Option (List Row)

def srcData (sub : Sub) (b : RBasin) (f : Feat) : Option (List Row) :=
  match b.src with
  | .file loc => sub loc f
  | .internal d => lk f d

/-- `if feat in bn.features: bn.get_feature_data(feat)` (failures fall through to the next basin) -/
def route (sub : Sub) (b : RBasin) (f : Feat) : Option (List Row) :=
  if offers b f then (srcData sub b f).bind (applyMap b.map) else none

/-- one level of `__getitem__`: innate first, then the basins in order -/
def resolve1 (sub : Sub) (file : RFile) (f : Feat) : Option (List Row) :=
  match lk f file.innate with
  | some r => some r
  | none => firstSome (fun b => route sub b f) file.basins

/-- resolution in a world of files with recursion depth `fuel` -/
def viaBasin (w : Nat → Option RFile) : Nat → Sub
  | 0, _, _ => none
  | n + 1, loc, f => (w loc).bind fun g => resolve1 (viaBasin w n) g f

/-! ## A.4 export with basins -/

/-- what is exported: the dataset at `loc` itself (`c2r = none`) or a hierarchy child of it
(`c2r` = root indices of the child's events), optionally filtered by `mask` -/
structure View where
  c2r : Option (List Nat)
  mask : Option (List Bool)

/-- `basinmap[root_indices]`; for "same" the root indices themselves -/
def composeIdx (m : Option (List Nat)) (idx : List Nat) : Option (List Nat) :=
  match m with
  | none => some idx
  | some mm => gather mm idx

/-- `np.where(filter)[0]` for "same", `basinmap[filter]` for mapped basins -/
def composeMask (m : Option (List Nat)) (mask : List Bool) : Option (List Nat) :=
  match m with
  | none => some (whereIdx mask)
  | some mm => sel mask mm

/-- the new mapping of one basin definition (`none` = the export raises).
`isSelf` marks the reference to the exported dataset itself, which the code always maps through
`map_indices_child2root`; the *upstream* basins are mapped only by the fixed code (F08). -/
def stepMap (fixed : Bool) (v : View) (isSelf : Bool) (m : Option (List Nat)) :
    Option (Option (List Nat)) :=
  let m1 : Option (Option (List Nat)) :=
    match v.c2r with
    | none => some m
    | some idx => if fixed || isSelf then (composeIdx m idx).map some else some m
  m1.bind fun m1 =>
    match v.mask with
    | none => some m1
    | some mask => (composeMask m1 mask).map some

/-- the rows of the exported view given the rows of the dataset at `loc` -/
def viewRows (v : View) (rows : List Row) : Option (List Row) :=
  (match v.c2r with
   | none => some rows
   | some idx => gather rows idx).bind fun r =>
    match v.mask with
    | none => some r
    | some mask => sel mask r

def isInternal (b : RBasin) : Bool :=
  match b.src with
  | .internal _ => true
  | .file _ => false

def mapBasins (fixed : Bool) (v : View) : List RBasin → Option (List RBasin)
  | [] => some []
  | b :: t =>
    match stepMap fixed v false b.map, mapBasins fixed v t with
    | some m', some t' => some ({ b with map := m' } :: t')
    | _, _ => none

def innateOf (sub : Sub) (ref : RFile) (v : View) : List Feat → List (Feat × List Row)
  | [] => []
  | g :: t =>
    match (resolve1 sub ref g).bind (viewRows v) with
    | some r => (g, r) :: innateOf sub ref v t
    | none => innateOf sub ref v t

/-- `ds.export.hdf5(path, features=feats, filtered=…, basins=True)` where `ds` is the view `v`
of the dataset stored at `loc` -/
def exportFile (fixed : Bool) (sub : Sub) (loc : Nat) (ref : RFile) (feats : List Feat)
    (v : View) : Option RFile :=
  match mapBasins fixed v (ref.basins.filter (fun b => !isInternal b)),
        stepMap fixed v true none with
  | some up, some ms =>
    some { innate := innateOf sub ref v feats,
           basins := up ++ [{ src := .file loc, feats := none, map := ms }] }
  | _, _ => none

/-! ### chains of exports -/

def chainRows (rows : List Row) : List View → Option (List Row)
  | [] => some rows
  | v :: vs => (viewRows v rows).bind fun r => chainRows r vs

/-- one view applied to an index map into the origin -/
def viewMap (v : View) (m : List Nat) : Option (List Nat) :=
  (match v.c2r with
   | none => some m
   | some idx => gather m idx).bind fun r =>
    match v.mask with
    | none => some r
    | some mask => sel mask r

/-- the composed map origin event ← event of the k-th export -/
def chainMap (m : List Nat) : List View → Option (List Nat)
  | [] => some m
  | v :: vs => (viewMap v m).bind fun r => chainMap r vs

/-! ## A.5 `store_basin`: allocation of `basinmapK` features -/

abbrev Maps := List (Nat × List Nat)

/-- the loop `for ii in range(10)` (candidate list `ks`): reuse an identical map, else take the
first free name; `none` = "You have exhausted the usage of mapped basins" -/
def allocFrom (maps : Maps) (m : List Nat) : List Nat → Option (Nat × Maps)
  | [] => none
  | k :: ks =>
    match lk k maps with
    | some c => if c = m then some (k, maps) else allocFrom maps m ks
    | none => some (k, maps ++ [(k, m)])

def allocMap (maps : Maps) (m : List Nat) : Option (Nat × Maps) :=
  allocFrom maps m (List.range 10)

/-- explicit `(name, array)` form: write if absent, refuse a different existing content -/
def allocNamed (maps : Maps) (k : Nat) (m : List Nat) : Option (Nat × Maps) :=
  match lk k maps with
  | none => some (k, maps ++ [(k, m)])
  | some c => if c = m then some (k, maps) else none

inductive MapReq where
  | same
  | auto (m : List Nat)
  | named (k : Nat) (m : List Nat)

def MapReq.content : MapReq → Option (List Nat)
  | .same => none
  | .auto m => some m
  | .named _ m => some m

/-- a stored definition: the mapping *name* plus (ghost) the content the caller asked for -/
structure SDef where
  tag : Nat
  mapping : Option Nat
  intended : Option (List Nat)

structure SFile where
  maps : Maps
  defs : List SDef

def storeBasin (s : SFile) (tag : Nat) (req : MapReq) : Option SFile :=
  match req with
  | .same => some { s with defs := s.defs ++ [{ tag, mapping := none, intended := none }] }
  | .auto m =>
    (allocMap s.maps m).map fun (k, maps') =>
      { maps := maps', defs := s.defs ++ [{ tag, mapping := some k, intended := some m }] }
  | .named k m =>
    (allocNamed s.maps k m).map fun (k, maps') =>
      { maps := maps', defs := s.defs ++ [{ tag, mapping := some k, intended := some m }] }

def storeAll (s : SFile) : List (Nat × MapReq) → Option SFile
  | [] => some s
  | (t, r) :: rest => (storeBasin s t r).bind fun s' => storeAll s' rest

/-- what a reader of the file gets for a stored definition -/
def SFile.mapOf (s : SFile) (d : SDef) : Option (Option (List Nat)) :=
  match d.mapping with
  | none => some none
  | some k => (lk k s.maps).map some

/-! ## A.6 lookup order of `RTDCBase.__getitem__` -/

inductive BType where
  | internal | file | remote | other
  deriving DecidableEq, Repr

structure DSState where
  innate : List (Feat × List Row)
  temp : List (Feat × List Row)
  ancCached : List (Feat × List Row)
  basins : List (BType × List (Feat × List Row))     -- opened basins and what they deliver
  ancCompute : List (Feat × List Row)

def basinData (d : DSState) (ty : Option BType) (f : Feat) : Option (List Row) :=
  firstSome (fun b => if ty = none ∨ ty = some b.1 then lk f b.2 else none) d.basins

def getitem (d : DSState) (f : Feat) : Option (List Row) :=
  match lk f d.innate with
  | some r => some r
  | none =>
  match lk f d.temp with
  | some r => some r
  | none =>
  match lk f d.ancCached with
  | some r => some r
  | none =>
  match basinData d (some .internal) f with
  | some r => some r
  | none =>
  match basinData d (some .file) f with
  | some r => some r
  | none =>
  match basinData d none f with
  | some r => some r
  | none => lk f d.ancCompute

/-! # Part B (C14): which basins are followed

`resolve w univ tg node ignored` mirrors `RTDCBase.basins_retrieve` (priority sort, ignored keys,
class lookup by format, the type guard — `tg = true` is the code after the F14 fix —, the
`file`-type guard `_local_basins_allowed`, path resolution, `Basin.verify_basin` after the F22
fix), `features_basin`, `_get_basin_feature_data` and `Basin.ds` (nested datasets ignore
`keys(referrer) ∪ ignored`).  The recursion is well-founded on the number of distinct basin keys
of the world that are not yet ignored.
-/

inductive BFormat where
  | h5dataset | hdf5 | http | s3 | dcor | other
  deriving DecidableEq, Repr

inductive Loc where
  | abs (dir name : Nat)       -- absolute local path
  | rel (name : Nat)           -- path relative to the referrer's directory
  | url (n : Nat)
  deriving DecidableEq, Repr

abbrev Ident := List Nat

structure BDef where
  key : Nat
  type : BType
  format : BFormat
  locs : List Loc
  feats : Option (List Feat)
  mapping : Option Nat          -- `none` = "same", `some k` = "basinmap<k>"

structure CFile where
  rid : Option Ident            -- `get_measurement_identifier()`; `none` = no identifier
  innate : List (Feat × List Row)
  maps : Maps
  internal : List (Feat × List Row)      -- group `basin_events`
  basins : List BDef            -- storage order

structure World where
  files : List ((Nat × Nat) × CFile)
  urls : List (Nat × CFile)
  up : List BFormat             -- remote protocols that can be reached at all

/-- an opened dataset: where it came from and its content -/
structure Node where
  at_ : Option Loc              -- `abs d n` (RTDC_HDF5), `url n` (remote formats), none = RTDC_Dict
  file : CFile

def Node.isLocal (n : Node) : Bool :=
  match n.at_ with
  | some (.abs _ _) => true
  | _ => false

def isLocalLoc : Loc → Bool
  | .abs _ _ => true
  | _ => false

/-- `get_basin_classes()[format].basin_type` -/
def classType : BFormat → Option BType
  | .h5dataset => some .internal
  | .hdf5 => some .file
  | .http => some .remote
  | .s3 => some .remote
  | .dcor => some .remote
  | .other => none

def typeRank : BType → Nat
  | .internal => 0 | .file => 1 | .remote => 2 | .other => 25
def formatRank : BFormat → Nat
  | .h5dataset => 0 | .hdf5 => 1 | .http => 2 | .s3 => 3 | .dcor => 4 | .other => 25
def mapRank : Option Nat → Nat
  | none => 0 | some k => k + 1

/-- `basin_priority_sorted_key` compared lexicographically -/
def prioLe (a b : BDef) : Bool :=
  typeRank a.type < typeRank b.type ||
  (typeRank a.type == typeRank b.type &&
    (formatRank a.format < formatRank b.format ||
     (formatRank a.format == formatRank b.format && mapRank a.mapping ≤ mapRank b.mapping)))

/-- insert `x` in front of the first element that is not smaller (`x` came earlier) -/
def insertBy (le : α → α → Bool) (x : α) : List α → List α
  | [] => [x]
  | y :: t => if le x y then x :: y :: t else y :: insertBy le x t

/-- stable insertion sort (Python's `sorted`): equal elements keep their order -/
def sortBy (le : α → α → Bool) : List α → List α
  | [] => []
  | x :: t => insertBy le x (sortBy le t)

/-- `Basin.verify_basin(run_identifier=True)` for an available basin, after the F22 fix -/
def idMatch (refRid basRid : Option Ident) (mapped : Bool) : Bool :=
  match refRid, basRid with
  | none, _ => true                      -- the referrer presents no identifier: no check
  | some _, none => false                -- F22: a basin without identifier is not verified
  | some r, some b => if mapped then b.isPrefixOf r else r == b

inductive VR where
  | ok | no | raise
  deriving DecidableEq, Repr

/-- the same before the fix: `str.__eq__(r, None)` is `NotImplemented` (truthy),
`str.startswith(r, None)` raises `TypeError` -/
def idMatchOld (refRid basRid : Option Ident) (mapped : Bool) : VR :=
  match refRid, basRid with
  | none, _ => .ok
  | some _, none => if mapped then .raise else .ok
  | some r, some b => if (if mapped then b.isPrefixOf r else r == b) then .ok else .no

/-- what the basin class registered for `fmt` opens for location `l` (availability check
included); relative paths only resolve against a local referrer -/
def openAt (w : World) (ref : Node) (fmt : BFormat) (l : Loc) : Option Node :=
  match fmt, l with
  | .hdf5, .abs d n => (lk (d, n) w.files).map fun f => ⟨some (.abs d n), f⟩
  | .hdf5, .rel n =>
    match ref.at_ with
    | some (.abs d _) => (lk (d, n) w.files).map fun f => ⟨some (.abs d n), f⟩
    | _ => none
  | .http, .url n => if w.up.contains .http then (lk n w.urls).map fun f => ⟨some (.url n), f⟩ else none
  | .s3, .url n => if w.up.contains .s3 then (lk n w.urls).map fun f => ⟨some (.url n), f⟩ else none
  | .dcor, .url n => if w.up.contains .dcor then (lk n w.urls).map fun f => ⟨some (.url n), f⟩ else none
  | _, _ => none

/-- one use of a basin's data: identifiers of referrer and basin, mapped or not -/
structure Use where
  refRid : Option Ident
  basRid : Option Ident
  mapped : Bool
  deriving DecidableEq, Repr

structure Res where
  feats : List Feat                       -- `features_innate + features_basin`
  fbasin : List Feat                      -- `features_basin`
  data : List (Feat × List Row)           -- `ds[f][:]` for the features of the universe
  opened : List Loc                       -- datasets that may be opened below this one
  used : List Use                         -- every basin whose data was handed out
  depth : Nat

def Res.empty : Res := ⟨[], [], [], [], [], 0⟩

/-- an instantiated basin (element of `ds.basins`) -/
structure OB where
  d : BDef
  cls : BType
  node : Option Node          -- the basin dataset, `none` = not available
  sub : Res                   -- its resolution (with the extended ignore list)
  tried : List Loc            -- datasets opened while verifying candidates

def allKeys (w : World) : List Nat :=
  (w.files.flatMap fun p => p.2.basins.map (·.key)) ++
  (w.urls.flatMap fun p => p.2.basins.map (·.key))

/-- number of distinct basin keys of the world that are not ignored yet -/
def budget (w : World) (ign : List Nat) : Nat :=
  ((allKeys w).eraseDups.filter fun k => !ign.contains k).length

def nextIgnored (node : Node) (ign : List Nat) : List Nat :=
  (sortBy prioLe node.file.basins).map (·.key) ++ ign

/-- the first candidate of a `file`-type definition that exists and verifies;
also returns every candidate that was opened on the way -/
def pickFile (w : World) (ref : Node) (b : BDef) : List Loc → Option Node × List Loc
  | [] => (none, [])
  | l :: ls =>
    match openAt w ref b.format l with
    | none => pickFile w ref b ls
    | some c =>
      if idMatch ref.file.rid c.file.rid b.mapping.isSome then (some c, c.at_.toList)
      else
        let (r, t) := pickFile w ref b ls
        (r, c.at_.toList ++ t)

def internalNode (ref : Node) (feats : List Feat) : Node :=
  ⟨none, { rid := none, innate := ref.file.internal.filter (fun p => feats.contains p.1),
           maps := [], internal := [], basins := [] }⟩

/-- `basins_retrieve` for one definition (`rec` resolves a nested dataset) -/
def instantiate (w : World) (tg : Bool) (ref : Node) (ign : List Nat) (rec : Node → Res)
    (b : BDef) : List OB :=
  match classType b.format with
  | none => []                                        -- unsupported format
  | some cls =>
    if tg && (b.type != .other) && (cls != b.type) then []      -- F14 guard
    else if ign.contains b.key then []                -- cyclic dependency
    else
      match b.type with
      | .internal =>
        match cls, b.mapping, b.feats with
        | .internal, some _, some fs =>
          let n := internalNode ref fs
          [⟨b, cls, some n, rec n, []⟩]
        | .internal, _, _ => []                       -- ValueError in the real code (not generated)
        | _, _, _ =>                                  -- only without the type guard
          match b.locs with
          | l :: _ =>
            let c := openAt w ref b.format l
            [⟨b, cls, c, (c.map rec).getD Res.empty, []⟩]
          | [] => []
      | .file =>
        if !ref.isLocal then []                       -- `_local_basins_allowed`
        else if cls == .internal then []
        else
          match pickFile w ref b b.locs with
          | (some c, t) => [⟨b, cls, some c, rec c, t⟩]
          | (none, t) => [⟨b, cls, none, Res.empty, t⟩]  -- not in `ds.basins`, but files were opened
      | .remote =>
        if cls == .internal then []
        else b.locs.map fun l =>
          let c := openAt w ref b.format l
          ⟨b, cls, c, (c.map rec).getD Res.empty, []⟩
      | .other => []

/-- is the OB an element of `ds.basins`? (file-type definitions without verified candidate are not) -/
def OB.listed (o : OB) : Bool := o.d.type != .file || o.node.isSome

/-- a genuine internal basin (`InternalH5DatasetBasin` declared as such) -/
def OB.isInt (o : OB) : Bool := o.cls == .internal && o.d.type == .internal

/-- `bn.features` -/
def OB.features (o : OB) : List Feat :=
  match o.d.feats with
  | some l => if o.isInt then
                l.filter (fun f => (o.node.map fun n => (n.file.innate.map (·.1)).contains f).getD false)
              else l
  | none => if o.node.isSome then o.sub.feats else []

def OB.available (o : OB) : Bool :=
  if o.isInt then !o.features.isEmpty else o.node.isSome

/-- contribution to `features_basin` -/
def OB.offered (o : OB) : List Feat := if o.listed && o.available then o.features else []

/-- `_assert_measurement_identifier` (internal basins are never verified) -/
def OB.idok (ref : Node) (o : OB) (c : Node) : Bool :=
  o.isInt || idMatch ref.file.rid c.file.rid o.d.mapping.isSome

def OB.uses (ref : Node) (o : OB) (c : Node) : List Use :=
  if o.isInt then [] else [⟨ref.file.rid, c.file.rid, o.d.mapping.isSome⟩]

/-- `BasinProxy` for mapped basins -/
def OB.mapRows (ref : Node) (o : OB) (rows : List Row) : Option (List Row) :=
  match o.d.mapping with
  | none => some rows
  | some k => (lk k ref.file.maps).bind fun m => gather rows m

/-- `bn.get_feature_data(f)` followed by reading the array -/
def OB.data (ref : Node) (o : OB) (f : Feat) : Option (List Row × List Use) :=
  if o.listed && o.features.contains f then
    match o.node with
    | none => none
    | some c =>
      if o.idok ref c then
        ((lk f o.sub.data).bind (o.mapRows ref)).map fun r => (r, o.uses ref c)
      else none
  else none

def dedup (l : List Nat) : List Nat := l.eraseDups

/-- the three passes of `__getitem__` over `ds.basins` -/
def passes (obs : List OB) : List OB :=
  obs.filter (fun o => o.cls == .internal) ++ obs.filter (fun o => o.cls == .file) ++ obs

def getData (ref : Node) (obs : List OB) (f : Feat) : Option (List Row × List Use) :=
  match lk f ref.file.innate with
  | some r => some (r, [])
  | none => firstSome (fun o => OB.data ref o f) (passes obs)

def maxDepth : List OB → Nat
  | [] => 0
  | o :: t => max o.sub.depth (maxDepth t)

/-- everything observable about one opened dataset, given the resolver for nested datasets -/
def resolveStep (w : World) (univ : List Feat) (tg : Bool) (node : Node) (ign : List Nat)
    (rec : Node → Res) : Res :=
  let defs := sortBy prioLe node.file.basins
  let obs := defs.flatMap (instantiate w tg node ign rec)
  let got := univ.filterMap fun f => (getData node obs f).map fun p => (f, p)
  { feats := node.file.innate.map (·.1) ++ obs.flatMap OB.offered,
    fbasin := obs.flatMap OB.offered,
    data := got.map fun p => (p.1, p.2.1),
    opened := obs.flatMap fun o => o.tried ++ (o.node.bind (·.at_)).toList ++ o.sub.opened,
    used := got.flatMap (fun p => p.2.2) ++ obs.flatMap (fun o => o.sub.used),
    depth := 1 + maxDepth obs }

/-- the resolution of a dataset with ignored basin keys `ign`.  Nested datasets are resolved with
`nextIgnored node ign`; the guard `budget … < budget …` is what makes the recursion well-founded,
and `Lemmas.Basin.guard_true` shows it is always true when a nested dataset is reached (the
followed definition's key is not ignored before and ignored afterwards). -/
def resolve (w : World) (univ : List Feat) (tg : Bool) (node : Node) (ign : List Nat) : Res :=
  resolveStep w univ tg node ign fun c =>
    if _h : budget w (nextIgnored node ign) < budget w ign then
      resolve w univ tg c (nextIgnored node ign)
    else Res.empty
termination_by budget w ign

/-! ## B.2 spellings of relative locations

A basin location may spell the same file in many ways (`./x`, `sub/../x`, `../dir/x`).  dclab
never compares path strings when it cuts cycles (only basin keys, see `nextIgnored`), so
`resolution_terminates` holds for every spelling; the harness resolves spellings physically
(`os.path.realpath`).  `normalize` is the lexical normal form (valid without symlinked
directories) used to state that a cycle test on *normalised* locations cannot be fooled by
re-spelling. -/

inductive Seg where
  | up | cur | nm (n : Nat)
  deriving DecidableEq, Repr

/-- lexical normalisation with an explicit stack (`acc` = reversed prefix already normalised) -/
def normAcc : List Seg → List Seg → List Seg
  | acc, [] => acc.reverse
  | acc, .cur :: t => normAcc acc t
  | acc, .nm n :: t => normAcc (.nm n :: acc) t
  | .nm _ :: acc, .up :: t => normAcc acc t
  | [], .up :: t => normAcc [.up] t
  | .up :: acc, .up :: t => normAcc (.up :: .up :: acc) t
  | .cur :: acc, .up :: t => normAcc (.up :: .cur :: acc) t

def normalize (p : List Seg) : List Seg := normAcc [] p

/-! ## B.3 the verification decision and caches of it

`idMatch` is a pure function of (referrer identifier, basin identifier, mapping mode): what was
opened before cannot influence it.  `cachedVerify key` models a process-wide cache of successful
verifications in front of it. -/

structure VQ where
  loc : Nat                     -- basin file (location and modification stamp)
  refRid : Option Ident
  basRid : Option Ident         -- determined by `loc`
  mapped : Bool

def VQ.decide (q : VQ) : Bool := idMatch q.refRid q.basRid q.mapped

def cachedVerify [DecidableEq κ] (key : VQ → κ) (cache : List κ) (q : VQ) : Bool × List κ :=
  if cache.contains (key q) then (true, cache)
  else if q.decide then (true, key q :: cache) else (false, cache)

def runVerify [DecidableEq κ] (key : VQ → κ) : List κ → List VQ → List Bool
  | _, [] => []
  | cache, q :: t => (cachedVerify key cache q).1 :: runVerify key (cachedVerify key cache q).2 t

/-! ## B.4 `Basin.verify_basin`, statement by statement

One `Basin` object carries the referrer's identifier (`measurement_identifier`, fixed at
construction), its mapping mode, the dataset it loads (identifier `basRid`, loaded once) and the
flag `_measurement_identifier_verified`.  `verifyBasin` is one call of
`verify_basin(run_identifier=runId)` (availability check requested, the default): it returns the
answer and the new flag.  `isAvail` is what `is_available()` answers at that moment. -/

def verifyBasin (refRid basRid : Option Ident) (mapped : Bool) (isAvail runId verified : Bool) :
    Bool × Bool :=
  if runId && isAvail then
    let verified' :=
      if verified then true                       -- `if not self._measurement_identifier_verified`
      else match refRid with
        | none => true                            -- nothing presented: no check
        | some r =>
          match basRid with
          | none => false                         -- F22
          | some b => if mapped then b.isPrefixOf r    -- `str.startswith(r, b)`
                      else r == b                      -- `str.__eq__(r, b)`
    (verified' && isAvail, verified')
  else (isAvail, verified)                        -- `check_rid = True`

/-- a history of calls `(isAvail, runId)` on one `Basin` object -/
def runVerifyBasin (refRid basRid : Option Ident) (mapped : Bool) : Bool → List (Bool × Bool) → List Bool
  | _, [] => []
  | v, c :: t =>
    (verifyBasin refRid basRid mapped c.1 c.2 v).1 ::
      runVerifyBasin refRid basRid mapped (verifyBasin refRid basRid mapped c.1 c.2 v).2 t

/-! ## B.5 the order of `ds.basins`

`basinOrder` is the list `ds.basins` of an opened dataset in order: definitions sorted by
`basin_priority_sorted_key` (stable), filtered by `basins_retrieve`, one entry per remote URL, the
first verified candidate for file-type definitions.  Entry = (key, format, mapping, location of
the dataset behind it if it can be opened). -/

def basinOrder (w : World) (tg : Bool) (node : Node) (ign : List Nat) :
    List (Nat × BFormat × Option Nat × Option Loc) :=
  (((sortBy prioLe node.file.basins).flatMap
      (instantiate w tg node ign fun _ => Res.empty)).filter OB.listed).map
    fun o => (o.d.key, o.d.format, o.d.mapping, o.node.bind (·.at_))

end DclabModel.Basin
