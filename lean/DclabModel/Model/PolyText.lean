import DclabModel.Model.Poly
/-!
# The text layer of `.poly` files (property C15)

`Model/Poly.lean` treats a file as a list of *structured* lines (`Line`).  This module models
the characters: `PolygonFilter.save` prints each line as text, `PolygonFilter._load` finds the
header lines with `li.strip().startswith("[")`, cuts out the section, splits every body line at
the FIRST `=` (`li.split("=", 1)`, the F15b repair), strips both halves, dispatches on the
lower-cased key and reads the identifier from the header with `.strip().strip("Polygon []")`.

A line is a list of symbols: characters and two kinds of atomic *number tokens* (the decimal
rendering of integers, `{:08d}`, and of floats, `{:.16e}`, is not modelled character by
character; the float codec is the parameter `fmt` of `save`, see `fmtDigits`).  Core Lean only.
-/
namespace DclabModel.Poly

inductive Sym where
  | ch (c : Char)
  | nat (n : Nat)      -- `{:08d}` (identifier in the header, index of a point)
  | num (q : Rat)      -- a float literal
deriving DecidableEq, Repr

abbrev TLine := List Sym

/-- characters → symbols -/
def cs (l : List Char) : TLine := l.map Sym.ch

/-- `str.isspace` on the characters that can occur (number tokens are never blank) -/
def Sym.isBlank : Sym → Bool
  | .ch c => c == ' ' || c == '\t' || c == '\n' || c == '\r'
  | _ => false

def stripL (l : TLine) : TLine := l.dropWhile Sym.isBlank
def stripR (l : TLine) : TLine := (l.reverse.dropWhile Sym.isBlank).reverse
/-- `str.strip()` -/
def strip (l : TLine) : TLine := stripR (stripL l)

def Sym.inSet (set : List Char) : Sym → Bool
  | .ch c => set.contains c
  | _ => false

/-- `str.strip(chars)` -/
def stripChars (set : List Char) (l : TLine) : TLine :=
  (((l.dropWhile (Sym.inSet set)).reverse).dropWhile (Sym.inSet set)).reverse

/-- `li.strip().startswith("[")` -/
def isHeadT (l : TLine) : Bool := (stripL l).head? == some (Sym.ch '[')

/-- `li.split("=", 1)`; `none`: no `=` in the line (the unpacking `for var, val in …` raises) -/
def splitEq : TLine → Option (TLine × TLine)
  | [] => none
  | s :: r => if s = Sym.ch '=' then some ([], r) else (splitEq r).map fun ab => (s :: ab.1, ab.2)

def lowerSym : Sym → Sym
  | .ch c => .ch c.toLower
  | s => s

/-- `str.lower()` (ASCII) -/
def lowerT (l : TLine) : TLine := l.map lowerSym

/-- `str.split()`: maximal runs of non-blank symbols; `cur` is the word being read -/
def wordsAux : TLine → TLine → List TLine
  | [], cur => if cur.isEmpty then [] else [cur]
  | s :: r, cur =>
    if s.isBlank then (if cur.isEmpty then wordsAux r [] else cur :: wordsAux r [])
    else wordsAux r (cur ++ [s])

def splitWords (l : TLine) : List TLine := wordsAux l []

/-- a run of character symbols back to characters (`none`: a number token inside) -/
def unchars : TLine → Option (List Char)
  | [] => some []
  | .ch c :: r => (unchars r).map (c :: ·)
  | _ :: _ => none

def kXAxis : List Char := ['x', ' ', 'a', 'x', 'i', 's']
def kYAxis : List Char := ['y', ' ', 'a', 'x', 'i', 's']
def kName : List Char := ['n', 'a', 'm', 'e']
def kInverted : List Char := ['i', 'n', 'v', 'e', 'r', 't', 'e', 'd']
def kPoint : List Char := ['p', 'o', 'i', 'n', 't']
def kTrue : List Char := ['T', 'r', 'u', 'e']
def kFalse : List Char := ['F', 'a', 'l', 's', 'e']

/-- one iteration of `for var, val in subdata` up to the structured line it means;
`none` = the iteration raises (`ValueError` no `=`, `KeyError` unknown variable, a value that is
not two numbers, a point index that is not an integer) -/
def parseLineT (l : TLine) : Option Line :=
  match splitEq l with
  | none => none
  | some (a, b) =>
    let var := strip a
    let val := strip b
    let low := lowerT var
    if low = cs kXAxis then (unchars val).map fun v => Line.xaxis (String.ofList v)
    else if low = cs kYAxis then (unchars val).map fun v => Line.yaxis (String.ofList v)
    else if low = cs kName then (unchars val).map fun v => Line.name (String.ofList v)
    else if low = cs kInverted then some (Line.inverted (val == cs kTrue))
    else if low.take 5 = cs kPoint then
      match var.drop 5, splitWords (stripChars ['[', ']'] val) with
      | [.nat i], [[.num x], [.num y]] => some (Line.point i x y)
      | _, _ => none
    else none

/-- `int(data[start-1].strip().strip("Polygon []"))` -/
def hdrIdT (l : TLine) : Option Nat :=
  match stripChars ['P', 'o', 'l', 'y', 'g', 'o', 'n', ' ', '[', ']'] (strip l) with
  | [.nat u] => some u
  | _ => none

/-- `PolygonFilter.save`: the text of one structured line -/
def renderLine : Line → TLine
  | .hdr u => cs ['[', 'P', 'o', 'l', 'y', 'g', 'o', 'n', ' '] ++ [Sym.nat u] ++ cs [']']
  | .xaxis s => cs ['X', ' ', 'A', 'x', 'i', 's', ' ', '=', ' '] ++ cs s.toList
  | .yaxis s => cs ['Y', ' ', 'A', 'x', 'i', 's', ' ', '=', ' '] ++ cs s.toList
  | .name s => cs ['N', 'a', 'm', 'e', ' ', '=', ' '] ++ cs s.toList
  | .inverted b => cs ['I', 'n', 'v', 'e', 'r', 't', 'e', 'd', ' ', '=', ' ']
      ++ cs (if b then kTrue else kFalse)
  | .point i x y => cs kPoint ++ [Sym.nat i] ++ cs [' ', '=', ' '] ++ [Sym.num x, Sym.ch ' ', Sym.num y]

def saveT (fmt : Rat → Rat) (f : PF) : List TLine := (save fmt f).map renderLine
def saveAllT (fmt : Rat → Rat) (fs : List PF) : List TLine := (saveAll fmt fs).map renderLine

/-- `data[start:end]`: the lines up to the next header line -/
def sectionBodyT : List TLine → List TLine
  | [] => []
  | l :: r => if isHeadT l then [] else l :: sectionBodyT r

/-- header line and body of section number `k`; `none` = `IndexError` -/
def nthSectionT : List TLine → Nat → Option (TLine × List TLine)
  | [], _ => none
  | l :: r, k =>
    if isHeadT l then
      match k with
      | 0 => some (l, sectionBodyT r)
      | k + 1 => nthSectionT r k
    else nthSectionT r k

inductive LoadRes where
  | indexError                 -- no such section: ends `import_all`
  | fail                       -- any other exception: propagates out of `import_all`
  | ok (reg : Reg) (f : PF)
deriving Repr, DecidableEq

/-- `mapM` written out (all body lines must parse) -/
def parseLinesT : List TLine → Option (List Line)
  | [] => some []
  | l :: r => match parseLineT l, parseLinesT r with
    | some a, some b => some (a :: b)
    | _, _ => none

/-- `PolygonFilter(filename=path, fileid=k)` on the text -/
def loadT (lower : String → String) (file : List TLine) (k : Nat) (reg : Reg) : LoadRes :=
  match nthSectionT file k with
  | none => .indexError
  | some (h, body) =>
    match parseLinesT body, hdrIdT h with
    | some ls, some u =>
      let p := parseBody lower ls {}
      let (reg', uid) := setUniqueId reg u
      .ok reg' { uid := uid, xaxis := p.xaxis, yaxis := p.yaxis, name := p.name,
                 inverted := p.inverted, points := (sortPts p.pts).map Prod.snd }
    | _, _ => .fail

/-- `import_all` on the text; `none` = an exception other than `IndexError` escapes -/
def importLoopT (lower : String → String) (file : List TLine) :
    Nat → Nat → Reg → List PF → Option (Reg × List PF)
  | 0, _, reg, acc => some (reg, acc)
  | fuel + 1, k, reg, acc =>
    match loadT lower file k reg with
    | .indexError => some (reg, acc)
    | .fail => none
    | .ok reg' f => importLoopT lower file fuel (k + 1) reg' (acc ++ [f])

def importAllT (lower : String → String) (file : List TLine) (reg : Reg) : Option (Reg × List PF) :=
  importLoopT lower file (file.length + 1) 0 reg []

end DclabModel.Poly
