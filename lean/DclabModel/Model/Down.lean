/-!
# Model of `dclab/downsampling.pyx` (property C16; `rand` is also used by C03's event limit)

Mirrors, branch by branch, `downsample_rand`, `downsample_grid`, `populate_grid`, `norm` of
`/repo/dclab/downsampling.pyx` and the mask translation of
`RTDCBase.get_downsampled_scatter` (`/repo/dclab/rtdc_dataset/core.py`).

* numpy arrays are lists; boolean masks are `List Bool`; `a[mask]` is `sel mask a`;
  `full[mask] = part` (on a zero array) is `scatter mask part`.
* feature values are `Val` (`nan`, `±inf`, exact rationals) – floats never enter the model.
* `np.random.choice(pool, size=k, replace=False)` after re-seeding with 47 is the *parameter*
  `choice : List Nat → Nat → List Nat`; the theorems assume `ChoiceOK` (distinct members of
  the pool, exactly `k` of them) and the harness checks it on every observed draw.
* `norm`/the `uint32` cast are exact rational arithmetic + floor; a zero range (0/0 = NaN cast
  to `uint32`, then an out-of-bounds buffer access) of ≥ 4 valid points is `Err.index` (open
  finding F17; with fewer than 4 points the cast yields cell 0 and the call succeeds);
  a draw of more invalid points than exist is `Err.value` (open finding F16).
Core Lean only.
-/
namespace DclabModel.Down

/-- one feature value -/
inductive Val where
  | nan | ninf | pinf
  | fin (q : Rat)
deriving DecidableEq, Repr

/-- `~(isnan | isinf)` -/
def Val.isValid : Val → Bool
  | .fin _ => true
  | _ => false

def Val.rat : Val → Rat
  | .fin q => q
  | _ => 0

/-- numpy `xs[m]` for a boolean mask `m` -/
def sel {α : Type} : List Bool → List α → List α
  | true :: m, x :: xs => x :: sel m xs
  | false :: m, _ :: xs => sel m xs
  | _, _ => []

/-- numpy `full = zeros(len(m)); full[m] = s` -/
def scatter : List Bool → List Bool → List Bool
  | [], _ => []
  | false :: m, s => false :: scatter m s
  | true :: m, [] => false :: scatter m []
  | true :: m, b :: s => b :: scatter m s

/-- number of `True` entries (`np.sum(mask)`) -/
def cnt (m : List Bool) : Nat := m.count true

def ofFn (n : Nat) (f : Nat → Bool) : List Bool := (List.range n).map f

/-- `keep = zeros(n, bool); keep[ids] = True` -/
def maskOf (n : Nat) (ids : List Nat) : List Bool := ofFn n (fun i => ids.contains i)

/-- `m[ids] = True` -/
def setAt (m : List Bool) (ids : List Nat) : List Bool :=
  ofFn m.length (fun i => m.getD i false || ids.contains i)

/-- `m[ids] = False` -/
def clearAt (m : List Bool) (ids : List Nat) : List Bool :=
  ofFn m.length (fun i => m.getD i false && !ids.contains i)

/-- `np.where(m)[0]` -/
def whereT (m : List Bool) : List Nat := (List.range m.length).filter (fun i => m.getD i false)

/-- `np.where(~m)[0]` -/
def whereF (m : List Bool) : List Nat := (List.range m.length).filter (fun i => !m.getD i false)

/-- what the theorems assume about `np.random.choice(pool, size=k, replace=False)` -/
structure ChoiceOK (choice : List Nat → Nat → List Nat) : Prop where
  nodup : ∀ pool k, pool.Nodup → k ≤ pool.length → (choice pool k).Nodup
  length : ∀ pool k, k ≤ pool.length → (choice pool k).length = k
  mem : ∀ pool k, k ≤ pool.length → ∀ x ∈ choice pool k, x ∈ pool

inductive Err where
  | value   -- `ValueError` of `np.random.choice` (sample larger than population)
  | index   -- `IndexError` "Out of bounds on buffer access" in `populate_grid`
deriving DecidableEq, Repr

/-- result of a call that may raise -/
inductive Res (α : Type) where
  | error (e : Err)
  | ok (v : α)
deriving DecidableEq, Repr

/-! ## `downsample_rand` -/

/-- `downsample_rand(a, samples=k, remove_invalid=ri, ret_idx=True)`; `valid x` is
`~(isnan(x) | isinf(x))`.  Returns `(dsa, idx)`. -/
def rand {α : Type} (choice : List Nat → Nat → List Nat) (valid : α → Bool)
    (a : List α) (k : Nat) (ri : Bool) : List α × List Bool :=
  let notBad := a.map valid
  let pool := if ri then sel notBad a else a
  let thin : Bool := k ≠ 0 ∧ k < pool.length
  let keep := if thin then maskOf pool.length (choice (List.range pool.length) k)
              else List.replicate pool.length true
  let dsa := if thin then sel keep pool else pool
  let idx := if ri then scatter notBad keep else keep
  (dsa, idx)

/-! ## `downsample_grid` -/

def lmin : List Rat → Rat
  | [] => 0
  | x :: xs => xs.foldl min x

def lmax : List Rat → Rat
  | [] => 0
  | x :: xs => xs.foldl max x

def gridSize : Nat := 300

/-- `uint32(norm(a) * (grid_size - 1))` for one element, `lo = a.min()`, `hi = a.max()` -/
def cellOf (lo hi x : Rat) : Nat := (((x - lo) / (hi - lo)) * ((gridSize - 1 : Nat) : Rat)).floor.toNat

def cells1 (ad : List Rat) : List Nat := ad.map (cellOf (lmin ad) (lmax ad))

/-- `populate_grid`: an event is kept iff its cell has not been taken by an earlier event;
`seen` = the cells whose `toproc` entry is already 0 -/
def populate : List (Nat × Nat) → List (Nat × Nat) → List Bool
  | _, [] => []
  | seen, c :: cs =>
    if seen.contains c then false :: populate seen cs
    else true :: populate (c :: seen) cs

/-- step 2 of `downsample_grid`: remove / add random events until `k` are kept -/
def adjust (choice : List Nat → Nat → List Nat) (keepd : List Bool) (k : Nat) : List Bool :=
  let s := cnt keepd
  if s > k then clearAt keepd (choice (whereT keepd) (s - k))
  else if s < k then setAt keepd (choice (whereF keepd) (k - s))
  else keepd

def goodMask (a b : List Val) : List Bool :=
  List.zipWith (fun x y => x.isValid && y.isValid) a b

/-- the `keep` array after the grid stage (before padding with invalid points) -/
def gridKeep (choice : List Nat → Nat → List Nat) (a b : List Val) (k : Nat) :
    Res (List Bool) :=
  let good := goodMask a b
  let ad := (sel good a).map Val.rat
  let bd := (sel good b).map Val.rat
  if k ≠ 0 ∧ k < ad.length then
    -- F17: 0/0 = NaN, cast to uint32.  Observed (x86-64 NumPy): arrays of ≥ 4 elements are
    -- converted with SIMD and give 2^31 → out-of-bounds; shorter arrays give 0 (as `x / 0 = 0` in ℚ)
    if (lmax ad - lmin ad = 0 ∨ lmax bd - lmin bd = 0) ∧ 4 ≤ ad.length then .error .index
    else
      let keepd := populate [] (List.zip (cells1 ad) (cells1 bd))
      .ok (scatter good (adjust choice keepd k))
  else .ok good

/-- padding with invalid points (`if not remove_invalid:` block) -/
def padBad (choice : List Nat → Nat → List Nat) (good keep : List Bool) (k : Nat) :
    Res (List Bool) :=
  let target := if k = 0 then keep.length else k
  if target > cnt keep then
    let need := target - cnt keep
    let bad := whereF good
    if need > bad.length then .error .value                                  -- F16
    else .ok (setAt keep (choice bad need))
  else .ok keep

/-- `downsample_grid(a, b, samples=k, remove_invalid=ri, ret_idx=True)` → `(asd, bsd, keep)` -/
def grid (choice : List Nat → Nat → List Nat) (a b : List Val) (k : Nat) (ri : Bool) :
    Res (List Val × List Val × List Bool) :=
  match gridKeep choice a b k with
  | .error e => .error e
  | .ok keep =>
    if ri then .ok (sel keep a, sel keep b, keep)
    else match padBad choice (goodMask a b) keep k with
      | .error e => .error e
      | .ok keep' => .ok (sel keep' a, sel keep' b, keep')

/-- `RTDCBase.get_downsampled_scatter(..., ret_mask=True)`: `xs`, `ys` are the (scaled)
feature columns of the whole dataset, `all` is `ds.filter.all`; result: the mask of
length `len(ds)` -/
def dsScatter (choice : List Nat → Nat → List Nat) (all : List Bool) (xs ys : List Val)
    (k : Nat) (ri : Bool) : Res (List Bool) :=
  match grid choice (sel all xs) (sel all ys) k ri with
  | .error e => .error e
  | .ok (_, _, idx) => .ok (scatter all idx)

/-- number of events that may be returned -/
def eligible (a b : List Val) (ri : Bool) : Nat :=
  if ri then cnt (goodMask a b) else a.length

/-! ## `get_downsampled_scatter`: filter → scale → validity → downsample → mask composition -/

/-- `np.log` on one value.  `lg` stands for the float logarithm on positive finite numbers
(a parameter: the theorems hold for every `lg`, the driver gets the observed values). -/
def logV (lg : Rat → Rat) : Val → Val
  | .fin q => if 0 < q then .fin (lg q) else if q = 0 then .ninf else .nan
  | .pinf => .pinf
  | _ => .nan

/-- `RTDCBase._apply_scale(a, scale, feat)`: `"log"` ↦ `np.log(a)`, `"linear"` ↦ `a` -/
def applyScale (lg : Rat → Rat) (log : Bool) (col : List Val) : List Val :=
  if log then col.map (logV lg) else col

/-- `RTDCBase.get_downsampled_scatter(xax, yax, downsample=k, xscale, yscale,
remove_invalid=ri, ret_mask=retMask)` branch by branch.  `xcol`, `ycol` are the two feature
columns of the whole dataset (`self[xax]`, `self[yax]`), `all` is `self.filter.all`.
`idx` refers to the FILTERED events (length `cnt all`), the returned mask to ALL events
(`mask = zeros(len(self)); mask[np.where(all)[0]] = idx`); validity is decided on the
SCALED values, the returned values are the UNSCALED ones. -/
def getScatter (choice : List Nat → Nat → List Nat) (lg : Rat → Rat) (all : List Bool)
    (xcol ycol : List Val) (xlog ylog : Bool) (k : Nat) (ri retMask : Bool) :
    Res (List Val × List Val × Option (List Bool)) :=
  let x := sel all xcol
  let y := sel all ycol
  let xs := applyScale lg xlog x
  let ys := applyScale lg ylog y
  match grid choice xs ys k ri with
  | .error e => .error e
  | .ok (_, _, idx) =>
    if retMask then .ok (sel idx x, sel idx y, some (scatter all idx))
    else .ok (sel idx x, sel idx y, none)

/-- events that may be returned by `getScatter`: filtered events, with `remove_invalid` only
those whose SCALED x and y are valid -/
def scatterEligible (lg : Rat → Rat) (all : List Bool) (xcol ycol : List Val)
    (xlog ylog : Bool) (ri : Bool) : Nat :=
  eligible (applyScale lg xlog (sel all xcol)) (applyScale lg ylog (sel all ycol)) ri

/-! ## "limit events" on top of the other filters (`Filter.update`, last stage) -/

/-- `Filter.update`, last stage: `all = box & invalid & polygon & manual` (here `qual` = the
conjunction of everything but `manual`), THEN the event limit thins `all` with
`downsample_rand` (`limit = 0`: no limit) -/
def limitSel (choice : List Nat → Nat → List Nat) (limit : Nat) (qual manual : List Bool) :
    List Bool :=
  let pre := List.zipWith (fun q m => q && m) qual manual
  if limit > 0 then
    scatter pre (rand choice (fun _ => true) (List.replicate (cnt pre) true) limit false).2
  else pre

/-- the WRONG order (a seeded change): the limit thins the other filters, the manual
exclusions are applied afterwards -/
def limitThenManual (choice : List Nat → Nat → List Nat) (limit : Nat) (qual manual : List Bool) :
    List Bool :=
  List.zipWith (fun q m => q && m)
    (limitSel choice limit qual (List.replicate qual.length true)) manual

end DclabModel.Down
