import DclabModel.Model.Basin
/-!
# Basin definitions as records, streamed map features (C07, session 4)

Core Lean only.  Extends `Model/Basin.lean` Part A (which stays untouched, it is shared with C14):

* **S. streamed map features** — `RTDCWriter.store_feature("basinmapK", chunk)` on an existing
  feature *appends* (`write_ndarray` resizes the HDF5 dataset and assigns the tail); a streaming
  pipeline defines its mapped basin with the first chunk (`store_basin`) and appends the rest of
  the map alongside the other features.  `WOp` = one writer call, `runOps` = a history.
* **D. definition records of an export** — `Export.hdf5` hands every entry of its `basin_list`
  to `store_basin`, which allocates / reuses `basinmapK` names in the fresh file: `exportStore`.
* **K. record keys** — identical definitions are written once (`records`).
* **C. copies** — `rtdc_copy` with a feature selection and `basin_definition_copy`: `copyFile`.
-/
namespace DclabModel.Basin

/-! ## S. `store_feature("basinmapK", chunk)` in append mode -/

/-- `store_feature(basinmapK, c)`: creates the feature, or appends to the existing one -/
def appendOne (maps : Maps) (k : Nat) (c : List Nat) : Maps :=
  match lk k maps with
  | none => maps ++ [(k, c)]
  | some _ => maps.map fun p => if p.1 = k then (p.1, p.2 ++ c) else p

/-- one round of a streaming writer: a chunk for each named map feature, in order -/
def appendMaps (maps : Maps) : Maps → Maps
  | [] => maps
  | (k, c) :: rest => appendMaps (appendOne maps k c) rest

/-- the ghost content of a definition follows the chunks written to the feature it names -/
def SDef.grow (d : SDef) (k : Nat) (c : List Nat) : SDef :=
  if d.mapping = some k then { d with intended := d.intended.map (· ++ c) } else d

def SFile.append1 (s : SFile) (k : Nat) (c : List Nat) : SFile :=
  { maps := appendOne s.maps k c, defs := s.defs.map (·.grow k c) }

def SFile.append (s : SFile) : Maps → SFile
  | [] => s
  | (k, c) :: rest => SFile.append (s.append1 k c) rest

/-- one call into the writer -/
inductive WOp where
  | store (tag : Nat) (r : MapReq)      -- `store_basin(..., basin_map=…)`
  | append (chunks : Maps)              -- `store_feature("basinmapK", chunk)` for each entry

/-- a history of writer calls; a refused `store_basin` (ValueError) leaves the file as it is -/
def runOps (s : SFile) : List WOp → SFile
  | [] => s
  | .store t r :: rest => runOps ((storeBasin s t r).getD s) rest
  | .append ch :: rest => runOps (s.append ch) rest

/-! ## D. the definition records written by `Export.hdf5(basins=True)` -/

/-- `hw.store_basin(**bn_dict)`: a definition with a map goes through the automatic allocation of
a `basinmapK` name, one without is stored as "same" -/
def reqOf (b : RBasin) : MapReq :=
  match b.map with
  | none => .same
  | some m => .auto m

/-- the `store_basin` calls of the loop `for bn_dict in basin_list`, tagged by position -/
def defReqsFrom (i : Nat) : List RBasin → List (Nat × MapReq)
  | [] => []
  | b :: t => (i, reqOf b) :: defReqsFrom (i + 1) t

/-- the bookkeeping of the written file: map features and definition records (mapping *names*)
of the export `out` (`exportFile`); `none` = "You have exhausted the usage of mapped basins" -/
def exportStore (out : RFile) : Option SFile :=
  storeAll ⟨[], []⟩ (defReqsFrom 0 out.basins)

/-- the same when the feature loop of `Export.hdf5` has already written map features `pre` to the
file (the feature list of the call names `basinmapN` features of the exported dataset — the default
list of a referrer does): the `store_basin` calls reuse a written feature with equal content and
never touch one with different content -/
def exportStoreFrom (pre : Maps) (out : RFile) : Option SFile :=
  storeAll ⟨pre, []⟩ (defReqsFrom 0 out.basins)

/-! ## K. record keys: `key = hashobj(b_lines); if key not in basins: write_text(...)` -/

/-- what distinguishes two definition records of one file in this model: the textual content
(name, type, format, locations, features, description — abstracted to the caller's `tag`) and the
mapping *name*; the hash is trusted to be injective on the JSON lines -/
abbrev RecKey := Nat × Option Nat

def SDef.key (d : SDef) : RecKey := (d.tag, d.mapping)

/-- `if key not in basins: self.write_text(basins, key, b_lines)` -/
def addRec (recs : List RecKey) (d : SDef) : List RecKey :=
  if recs.contains d.key then recs else recs ++ [d.key]

/-- the records in the `basins` group after the definitions `defs` were stored in this order -/
def recsFrom (recs : List RecKey) : List SDef → List RecKey
  | [] => recs
  | d :: t => recsFrom (addRec recs d) t

def SFile.records (s : SFile) : List RecKey := recsFrom [] s.defs

/-! ## C. `rtdc_copy` with a feature selection / `copier.basin_definition_copy` -/

/-- one definition under `basin_definition_copy(features_iter = sel)`: file basins are copied
verbatim (`h5ds_copy` of the record; their `basinmapK` features are always added to the
selection); an internal basin keeps `feat_used = [f for f in bn["features"] if f in sel]`, is
rewritten when that changes its list and is not written at all when nothing remains; of its
data (`basin_events`) only the selected features are copied -/
def copyBasin (sel : Feat → Bool) (b : RBasin) : Option RBasin :=
  match b.src with
  | .file _ => some b
  | .internal d =>
    let d' := d.filter fun p => sel p.1
    match b.feats with
    | none => some { b with src := .internal d' }
    | some l =>
      if (l.filter sel).isEmpty then none
      else some { b with src := .internal d', feats := some (l.filter sel) }

/-- `rtdc_copy(src, dst, features=…, include_basins=True)`; `sel f` = "f is in `feature_iter`" -/
def copyFile (src : RFile) (sel : Feat → Bool) : RFile :=
  { innate := src.innate.filter fun p => sel p.1,
    basins := src.basins.filterMap (copyBasin sel) }

end DclabModel.Basin
