import DclabModel.Gen.CheckTable
/-!
# Model of the integrity checker `dclab.rtdc_dataset.check` (C13)

Core Lean only.  `D` is an abstract description of an `.rtdc` file (what the `check_*` methods
look at); `violations D` mirrors every violation-level branch of `IntegrityChecker`
(after the repair of F13).  The key tables come from the regenerated `Gen/CheckTable.lean`.
`copyD` / `rectifyD` / `compressD` describe the file after `rtdc_copy` and after the exit hook
of `RTDCWriter` (`rectify_metadata`), `writerD` the file produced by the writer.
Alert- and info-level cues are not modelled.
-/
namespace DclabModel.Check
open DclabModel.Gen.CheckTable

abbrev Key := String × String
/-- a metadata value: exact fraction `p/q` (`q > 0`) for numbers, `none` for text / arrays -/
abbrev Val := Option (Int × Nat)
abbrev Cfg := List (Key × Val)

def cfgGet : Cfg → Key → Option Val
  | [], _ => none
  | (k, v) :: rest, k' => if k' = k then some v else cfgGet rest k'

/-- `cfg[k] = v` (delete + append) -/
def cfgSet (c : Cfg) (k : Key) (v : Val) : Cfg := (c.filter fun kv => kv.1 != k) ++ [(k, v)]

def natVal (n : Nat) : Val := some ((n : Int), 1)

/-- `value == n` for a natural number `n` -/
def isNat (v : Val) (n : Nat) : Bool :=
  match v with
  | some (p, q) => p == (n : Int) * (q : Int)
  | none => false

/-- `value <= 0` -/
def leZero (v : Val) : Bool :=
  match v with
  | some (p, _) => decide (p ≤ 0)
  | none => false

/-- `value != 0` -/
def neZero (v : Val) : Bool :=
  match v with
  | some (p, _) => p != 0
  | none => true

def toNat (v : Val) : Nat :=
  match v with
  | some (p, q) => p.toNat / q
  | none => 0

structure BasinD where
  commonPath : Bool            -- `bn["paths"] == ["basin_events"]`
  feats : List String
  deriving DecidableEq, Repr

/-- abstract description of a file -/
structure D where
  cfg : Cfg := []
  /-- `len(ds[k]) for k in sorted(ds._events)` (used when `event count` is missing) -/
  lenOrder : List Nat := []
  /-- `features_innate` other than `trace` with `len(ds[feat])` -/
  events : List (String × Nat) := []
  /-- members of `trace`: name, `len`, samples of the first event -/
  traces : List (String × Nat × Nat) := []
  /-- `image`, `image_bg`, `mask` as far as in the dataset: `shape[1]`, `shape[2]` -/
  images : List (String × Nat × Nat) := []
  /-- every name in `/events` with `dfn.feature_exists(name)` -/
  h5events : List (String × Bool) := []
  /-- values of a stored `index` feature -/
  index : Option (List Nat) := none
  external : Bool := false
  /-- `[online_filter]: … polygon points` with their array shape -/
  polygons : List (String × Nat × Nat) := []
  /-- internal basins -/
  basins : List BasinD := []
  /-- names in `/basin_events` (`none`: no such group) -/
  basinEvents : Option (List String) := none
  mlClassError : Bool := false          -- `ds["ml_class"]` raises ValueError
  tempZeroZmd : Bool := false           -- ZMD device and an all-zero `temp` feature
  /-- what `rectify_metadata` reads: length of the first (sorted) member of `/events`,
      width of the first trace, shape of `image` (else `mask`), stored `fl?_max` features -/
  firstLen : Option Nat := none
  firstTraceWidth : Option Nat := none
  roiSource : Option (Nat × Nat) := none
  deriving DecidableEq, Repr

inductive Cue where
  | basinGroupMissing
  | basinFeatMissing (f : String)
  | externalLink
  | indexNotEnumerated
  | featSize (f : String)
  | traceSize (t : String)
  | unknownFeature (f : String)
  | channelCount
  | laserCount
  | samplesPerEvent (t : String)
  | roiMismatch (roi feat : String)
  | nonPositive (sec key : String)
  | polygonShape (key : String)
  | missingSection (sec : String)
  | missingKey (sec key : String)
  | mlClass
  | tempZero
  deriving DecidableEq, Repr

abbrev Get := Key → Option Val

def hasEvent (d : D) (f : String) : Bool := (d.events.map (·.1)).contains f

/-- `IntegrityChecker.has_fluorescence` -/
def hasFl (d : D) : Bool := hasEvent d "fl1_max" || hasEvent d "fl2_max" || hasEvent d "fl3_max"

def firstNonzero : List Nat → Nat
  | [] => 0
  | x :: xs => if x != 0 then x else firstNonzero xs

/-- `len(ds)` -/
def lends (get : Get) (d : D) : Nat :=
  match get ("experiment", "event count") with
  | some v => toNat v
  | none => firstNonzero d.lenOrder

/-- F36 (open): without `event count` and without a non-empty feature `len(ds)` raises
    `ValueError` ("Could not determine size of dataset"), so the checker reports nothing -/
def sizeUndetermined (get : Get) (d : D) : Bool :=
  (get ("experiment", "event count")).isNone && firstNonzero d.lenOrder == 0

/-- `check_basin_features_internal` -/
def vBasin (d : D) : List Cue :=
  d.basins.flatMap fun b =>
    if !b.commonPath then []                                   -- alert only
    else match d.basinEvents with
      | none => [.basinGroupMissing]
      | some names => (b.feats.filter fun f => !names.contains f).map .basinFeatMissing

/-- `check_external_links` -/
def vExternal (d : D) : List Cue := if d.external then [.externalLink] else []

/-- `check_feat_index` (F13 repaired: a length mismatch is a cue, not an exception) -/
def vIndex (get : Get) (d : D) : List Cue :=
  match d.index with
  | none => []                                                  -- computed on the fly
  | some xs => if xs = List.range' 1 (lends get d) then [] else [.indexNotEnumerated]

/-- before F13 was repaired the comparison of arrays of different length raised -/
def indexCheckRaisedOld (get : Get) (d : D) : Bool :=
  match d.index with
  | none => false
  | some xs => xs.length != lends get d

/-- `check_feature_size` -/
def vSize (get : Get) (d : D) : List Cue :=
  (d.events.filter fun fl => fl.2 != lends get d).map (fun fl => .featSize fl.1) ++
  (d.traces.filter fun t => t.2.1 != lends get d).map (fun t => .traceSize t.1)

/-- `check_features_unknown_hdf5` -/
def vUnknown (d : D) : List Cue :=
  (d.h5events.filter fun fk => !fk.2 && fk.1 != "def").map fun fk => .unknownFeature fk.1

def chanKeys : List (String × String) :=
  [("channel 1 name", "fl1_max"), ("channel 2 name", "fl2_max"), ("channel 3 name", "fl3_max")]

def laserKeys : List (String × String) :=
  [("laser 1 lambda", "laser 1 power"), ("laser 2 lambda", "laser 2 power"),
   ("laser 3 lambda", "laser 3 power")]

def channelsFound (get : Get) (d : D) : Nat :=
  (chanKeys.filter fun ce => (get ("fluorescence", ce.1)).isSome && hasEvent d ce.2).length

def lasersFound (get : Get) : Nat :=
  (laserKeys.filter fun lp => (get ("fluorescence", lp.1)).isSome &&
    (match get ("fluorescence", lp.2) with | some v => neZero v | none => false)).length

/-- `check_fl_num_channels`, `check_fl_num_lasers`, `check_fl_samples_per_event`
    (skipped without fluorescence) -/
def vFl (get : Get) (d : D) : List Cue :=
  if !hasFl d then [] else
  (match get ("fluorescence", "channel count") with
    | some v => if isNat v (channelsFound get d) then [] else [.channelCount]
    | none => []) ++
  (match get ("fluorescence", "laser count") with
    | some v => if isNat v (lasersFound get) then [] else [.laserCount]
    | none => []) ++
  (match get ("fluorescence", "samples per event") with
    | some v => (d.traces.filter fun t => !isNat v t.2.2).map fun t => .samplesPerEvent t.1
    | none => [])

/-- `check_metadata_bad` -/
def vRoi (get : Get) (d : D) : List Cue :=
  match get ("imaging", "roi size x"), get ("imaging", "roi size y") with
  | some vx, some vy =>
    (d.images.filter fun i => !isNat vy i.2.1).map (fun i => .roiMismatch "roi size y" i.1) ++
    (d.images.filter fun i => !isNat vx i.2.2).map (fun i => .roiMismatch "roi size x" i.1)
  | _, _ => []

/-- the variant that stops at the first image-like feature present ("one cue per key") -/
def vRoiFirstOnly (get : Get) (d : D) : List Cue :=
  match get ("imaging", "roi size x"), get ("imaging", "roi size y") with
  | some vx, some vy =>
    ((d.images.take 1).filter fun i => !isNat vy i.2.1).map (fun i => .roiMismatch "roi size y" i.1) ++
    ((d.images.take 1).filter fun i => !isNat vx i.2.2).map (fun i => .roiMismatch "roi size x" i.1)
  | _, _ => []

def positiveKeys : List Key :=
  [("imaging", "frame rate"), ("imaging", "pixel size"), ("setup", "channel width"),
   ("setup", "flow rate")]

/-- `check_metadata_bad_greater_zero` -/
def vPositive (get : Get) : List Cue :=
  (positiveKeys.filter fun k => match get k with | some v => leZero v | none => false).map
    fun k => .nonPositive k.1 k.2

/-- `check_metadata_online_filter_polygon_points_shape` -/
def vPolygon (d : D) : List Cue :=
  (d.polygons.filter fun p => p.2.2 != 2 || decide (p.2.1 < 3)).map fun p => .polygonShape p.1

/-- `important = copy(IMPORTANT_KEYS); important.update(IMPORTANT_KEYS_FL)` -/
def important (fl : Bool) : List (String × List String) :=
  (if fl then importantKeysFl else []) ++ importantKeys

def dedupS : List String → List String
  | [] => []
  | x :: xs => if xs.contains x then dedupS xs else x :: dedupS xs

def secsInvestigated (fl : Bool) : List String :=
  dedupS ((important fl).map (·.1) ++ desirableSections)

def keysOf (t : List (String × List String)) (sec : String) : List String := (t.lookup sec).getD []

/-- Sections exist in `ds.config` once they hold a key or were touched before
    `check_metadata_missing` runs: `len(ds)` touches `experiment`, opening the file `setup`,
    the `check_fl_*` methods `fluorescence`. -/
def alwaysTouched : List String := ["experiment", "setup", "fluorescence"]

def sectionPresent (get : Get) (sec : String) : Bool :=
  alwaysTouched.contains sec || (keysOf configKeys sec).any fun k => (get (sec, k)).isSome

/-- `check_metadata_missing(expand_section=False)`, violation level only -/
def vMissing (get : Get) (d : D) : List Cue :=
  (secsInvestigated (hasFl d)).flatMap fun sec =>
    if !sectionPresent get sec then
      (if ((important (hasFl d)).map (·.1)).contains sec then [.missingSection sec] else [])
    else
      ((keysOf configKeys sec).filter fun key =>
          (get (sec, key)).isNone && !(keysOf optionalKeys sec).contains key &&
          (keysOf (important (hasFl d)) sec).contains key).map fun key => .missingKey sec key

/-- `check_ml_class`, `check_temperature_zero_zmd` -/
def vData (d : D) : List Cue :=
  (if d.mlClassError then [.mlClass] else []) ++ (if d.tempZeroZmd then [.tempZero] else [])

def violationsWith (get : Get) (d : D) : List Cue :=
  vBasin d ++ vExternal d ++ vIndex get d ++ vSize get d ++ vUnknown d ++ vFl get d ++
  vRoi get d ++ vPositive get ++ vPolygon d ++ vMissing get d ++ vData d

/-- the violation-level cues of `check_dataset` -/
def violations (d : D) : List Cue := violationsWith (cfgGet d.cfg) d

/-! ## copies -/

/-- the description of the output of `rtdc_copy(features="all")`: features unknown to dclab are
    gone (F23), external links are resolved into the copy -/
def copyD (d : D) : D :=
  { d with h5events := d.h5events.filter (·.2), external := false }

def nFl (d : D) : Nat := (["fl1_max", "fl2_max", "fl3_max"].filter (hasEvent d)).length

def setIf (c : Cfg) (k : Key) (v : Option Nat) : Cfg :=
  match v with
  | some n => cfgSet c k (natVal n)
  | none => c

/-- "added if not present" -/
def setDefault (c : Cfg) (k : Key) (v : Val) : Cfg :=
  if (cfgGet c k).isNone then cfgSet c k v else c

def kEventCount : Key := ("experiment", "event count")
def kSamples : Key := ("fluorescence", "samples per event")
def kChannels : Key := ("fluorescence", "channel count")
def kRoiX : Key := ("imaging", "roi size x")
def kRoiY : Key := ("imaging", "roi size y")

def chanDefault (d : D) (c : Cfg) : Cfg :=
  if nFl d != 0 then setDefault c kChannels (natVal (nFl d)) else c

/-- `RTDCWriter.rectify_metadata`: event count, samples per event, channel count (if absent),
    roi size x / y -/
def rectifyCfg (d : D) : Cfg :=
  setIf (setIf (chanDefault d (setIf (setIf d.cfg kEventCount d.firstLen) kSamples
    d.firstTraceWidth)) kRoiX (d.roiSource.map (·.2))) kRoiY (d.roiSource.map (·.1))

def rectifyD (d : D) : D := { d with cfg := rectifyCfg d }

/-- `dclab-compress`: copy, then the writer's exit hook -/
def compressD (d : D) : D := rectifyD (copyD d)

/-! ## the writer -/

/-- what was handed to `RTDCWriter` -/
structure Written where
  n : Nat                                   -- events stored for every feature
  scalars : List String                     -- scalar features written (known to dclab)
  storeIndex : Bool := false
  image : Option (Nat × Nat) := none        -- shape of the stored `image` events
  traces : List String := []
  traceWidth : Nat := 0
  userCfg : Cfg := []                       -- `store_metadata`
  deriving DecidableEq, Repr

def writtenEvents (w : Written) : List (String × Nat) :=
  w.scalars.map (fun f => (f, w.n)) ++ (if w.storeIndex then [("index", w.n)] else []) ++
  (match w.image with | some _ => [("image", w.n)] | none => [])

/-- description of the file the writer leaves behind (before `rectify_metadata`) -/
def writtenRaw (w : Written) : D :=
  { cfg := w.userCfg
    lenOrder := (writtenEvents w).map (·.2)
    events := writtenEvents w
    traces := w.traces.map fun t => (t, w.n, w.traceWidth)
    images := match w.image with | some s => [("image", s.1, s.2)] | none => []
    h5events := (writtenEvents w).map (fun e => (e.1, true)) ++
                (if w.traces.isEmpty then [] else [("trace", true)])
    index := if w.storeIndex then some (List.range' 1 w.n) else none
    firstLen := some w.n
    firstTraceWidth := if w.traces.isEmpty then none else some w.traceWidth
    roiSource := w.image }

/-- … and after the exit hook -/
def writerD (w : Written) : D := rectifyD (writtenRaw w)

/-! ### writer histories with `mode="replace"` -/

inductive WOp where
  | append (k : Nat)      -- `store_feature` of `k` more events for every feature
  | replace (k : Nat)     -- `RTDCWriter(mode="replace")`: every feature stored again, `k` events
  deriving DecidableEq, Repr

/-- `(events per feature, stored index)`; the offset of the enforced index enumeration is the
    length of `events/index` *after* the replace-mode deletion -/
def stepHist (st : Nat × List Nat) : WOp → Nat × List Nat
  | .append k => (st.1 + k, st.2 ++ List.range' (st.2.length + 1) k)
  | .replace k => (k, List.range' 1 k)

def runHist (h : List WOp) : Nat × List Nat := h.foldl stepHist (0, [])

/-- the variant that reads the offset before deleting the old data -/
def stepHistStale (st : Nat × List Nat) : WOp → Nat × List Nat
  | .append k => (st.1 + k, st.2 ++ List.range' (st.2.length + 1) k)
  | .replace k => (k, List.range' (st.2.length + 1) k)

/-- the file after a writer history (index stored in every step) -/
def histD (w : Written) (h : List WOp) : D :=
  { writerD { w with n := (runHist h).1, storeIndex := true } with index := some (runHist h).2 }

/-! ### exports of a feature subset -/

/-- `export.hdf5(features=subset, filtered=False)`: metadata copied, only the kept features -/
def subsetD (d : D) (keep : String → Bool) : D :=
  { d with
    events := d.events.filter fun e => keep e.1
    traces := if keep "trace" then d.traces else []
    images := d.images.filter fun i => keep i.1
    h5events := d.h5events.filter fun e => keep e.1
    index := if keep "index" then d.index else none
    lenOrder := (d.events.filter fun e => keep e.1).map (·.2) }

/-! ## `dclab-verify-dataset` -/

/-- exit status for (number of alerts, number of violations) -/
def exitCode (alerts viols : Nat) : Nat :=
  if alerts != 0 && viols != 0 then 3
  else if alerts != 0 then 1
  else if viols != 0 then 2
  else 0

end DclabModel.Check
