import DclabModel.Model.Meta
/-!
# Type guessing for keys unknown to dclab (`keyval_str2typ`) and text rendering (`keyval_typ2str`)

`load_from_file` sends the cleaned text of every key that `config_key_exists` does not know (all
`user` keys, keys of foreign sections) through `keyval_str2typ`; `Configuration.tostring` renders
every value with `keyval_typ2str`.  *impl*: `Tbl.guess` / `typ2str` mirror the two functions branch
by branch.  Floats are exact rationals; the rendering `'{:.12f}'.format(x)` of a float is a
parameter `fmt` (decimal rendering is outside the model — the harness hands the rendered text in).
-/
namespace DclabModel.Meta
open PyVal Except

/-- `.strip("[],")` -/
def isListEdge (c : Nat) : Bool := c = 91 || c = 93 || c = 44
def isQuote (c : Nat) : Bool := c = 39 || c = 34
/-- `.replace(",", ".")` -/
def replaceComma (s : Str) : Str := s.map (fun c => if c = 44 then 46 else c)

def wTrue : Str := [116, 114, 117, 101]
def wFalse : Str := [102, 97, 108, 115, 101]

/-- `val.lower() in ["true", "y"]` / `["false", "n"]` -/
def boolWord? (s : Str) : Option Bool :=
  let l := lower s
  if l = wTrue ∨ l = [121] then some true
  else if l = wFalse ∨ l = [110] then some false
  else none

/-- `[float(v) for v in values]` -/
def guessFloats : List Str → Except Err (List Scal)
  | [] => ok []
  | s :: r =>
    match parseFloat s with
    | .none => error .value
    | some x => (guessFloats r).map (Scal.float x :: ·)

def listLike (val : Str) : Bool := val.head? = some 91 && val.getLast? = some 93
def quoted (val : Str) : Bool :=
  (val.head?.map isQuote).getD false && (val.getLast?.map isQuote).getD false

/-- `val.strip("'").strip('"').strip()` -/
def unquote (val : Str) : Str := strip (stripBy (· == 34) (stripBy (· == 39) val))

/-- value of `keyval_str2typ(var, val)` for a non-empty `var` and a `str` value; `none`: the
function falls off its end (blank value) and returns `None` -/
def Tbl.guess (t : Tbl) (raw : Str) : Except Err (Option PyVal) :=
  let val := strip raw
  if val = [] then ok .none
  else if listLike val then
    let inner := stripBy isListEdge val
    if inner = [] then ok (some (list []))
    else (guessFloats (splitOn 44 inner)).map (fun xs => some (list xs))
  else match boolWord? val with
    | some b => ok (some (sc (.bool b)))
    | .none =>
      if quoted val then ok (some (sc (.str (unquote val))))
      else if t.featExists val then ok (some (sc (.str val)))
      else match parseFloat (replaceComma val) with
        | some x => ok (some (sc (.float x)))
        | .none => ok (some (sc (.str val)))

/-- `"{}".format(x)` / `'{:.12f}'.format(x)` of one item -/
def typ2strScal (fmt : F → Str) : Scal → Except Err Str
  | .float x => ok (fmt x)
  | .npFloat x => ok (fmt x)          -- numpy.float64 is a `float`
  | .str s => ok s
  | .bool b => ok (if b then [84, 114, 117, 101] else [70, 97, 108, 115, 101])
  | .npBool b => ok (if b then [84, 114, 117, 101] else [70, 97, 108, 115, 101])
  | .int z => ok (intStr z)
  | .npInt z => ok (intStr z)
  | .none => ok [78, 111, 110, 101]
  | .bytes _ => error .unmodelled

def joinCS : List Str → Str
  | [] => []
  | [s] => s
  | s :: r => s ++ [44, 32] ++ joinCS r

def typ2strItems (fmt : F → Str) : List Scal → Except Err (List Str)
  | [] => ok []
  | x :: r =>
    match typ2strScal fmt x with
    | error e => error e
    | ok s => (typ2strItems fmt r).map (s :: ·)

/-- value text of `keyval_typ2str`: lists item by item in brackets, floats with 12 decimals,
everything else `"{}".format` (tuples and arrays: numpy/tuple repr, not modelled) -/
def typ2str (fmt : F → Str) : PyVal → Except Err Str
  | sc s => typ2strScal fmt s
  | list xs => (typ2strItems fmt xs).map (fun ss => [91] ++ joinCS ss ++ [93])
  | _ => error .unmodelled

/-- strings that `tostring` → `load_from_file` → `keyval_str2typ` gives back verbatim -/
def StrGuard (t : Tbl) (s : Str) : Bool :=
  s ≠ [] && strip s == s && !listLike s && (boolWord? s).isNone && !quoted s &&
    (t.featExists s || (parseFloat (replaceComma s)).isNone)

end DclabModel.Meta
