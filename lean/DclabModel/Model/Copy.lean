/-!
# Model of `dclab.rtdc_dataset.copier` and of the copy-based command-line tasks (C08)

Core Lean only.  Two layers:

* `impl`  — `h5dsCopy`, `rtdcCopy`, `compress`, `repack`, `condense*` mirror the Python code
            branch by branch (`copier.py`, `cli/task_compress.py`, `task_repack.py`,
            `task_condense.py`, `task_tdms2rtdc.py` + `cli/common.py:skip_empty_image_events`);
* `spec`  — `view`: what a user of dclab sees of a file (features dclab exposes, logs, tables
            incl. attributes, metadata, basin definitions, internal basin data).

Payloads are *rows of natural numbers*: one token for a numeric event row, the byte string for
a text line.  HDF5 groups are name-indexed maps; the model keeps them as association lists in
source order (h5py lists members by name whatever the creation order, so only membership and
absence of duplicates matter).  HDF5 filters and `h5o.copy` are not modelled (trusted).
-/
namespace DclabModel.Copy

abbrev Row := List Nat
abbrev Attrs := List (String × Nat)

inductive StrKind where
  | num                 -- not a string dataset
  | fixed (w : Nat)     -- `S<w>`
  | vlen                -- variable-length strings (`dtype.kind == "O"`)
  deriving DecidableEq, Repr

/-- an HDF5 dataset with the parts of its storage layout that `h5ds_copy` looks at -/
structure Dset where
  rows : List Row
  chunks : Option Nat := none      -- `src.chunks[0]`; may exceed `rows.length`
  compressed : Bool := false       -- `is_properly_compressed` (Zstd, level ≥ 5)
  str : StrKind := .num
  attrs : Attrs := []
  deriving DecidableEq, Repr

/-! ## strings -/

/-- `numpy.astype("S<w>")`: pad with NUL, cut at `w` -/
def toFixed (w : Nat) (s : Row) : Row := (s ++ List.replicate (w - s.length) 0).take w

/-- reading an `S<w>` element strips trailing NULs -/
def rstrip (s : Row) : Row := (s.reverse.dropWhile (· == 0)).reverse

def maxLen : List Row → Nat
  | [] => 0
  | r :: rs => max r.length (maxLen rs)

/-- `max([len(ii) for ii in src] + [100])` -/
def fixedWidth (rows : List Row) : Nat := max 100 (maxLen rows)

/-- what h5py hands out for the dataset -/
def readRows (d : Dset) : List Row :=
  match d.str with
  | .fixed _ => d.rows.map rstrip
  | _ => d.rows

/-! ## the chunk-wise copy loop -/

/-- `dst[s:e] = src[s:e]` -/
def assign (dst src : List Row) (s e : Nat) : List Row :=
  dst.mapIdx fun i d => if s ≤ i ∧ i < e then src.getD i d else d

/-- `for chunk in src.iter_chunks(): dst[chunk] = src[chunk]` -/
def copyChunks (grid : List (Nat × Nat)) (src dst : List Row) : List Row :=
  grid.foldl (fun acc c => assign acc src c.1 c.2) dst

/-- the freshly created destination (fill value) -/
def blank (n : Nat) : List Row := List.replicate n []

/-- the assumption on `iter_chunks`: every row index lies in some yielded slice
    (any order, overlaps allowed) -/
def Covers (grid : List (Nat × Nat)) (n : Nat) : Prop :=
  ∀ i, i < n → ∃ c, c ∈ grid ∧ c.1 ≤ i ∧ i < c.2

/-- the grid h5py yields for a 1-d chunk length `c` (clipped at the end of the data) -/
def stdGrid (n c : Nat) : List (Nat × Nat) :=
  (List.range ((n + c - 1) / c)).map fun k => (k * c, min ((k + 1) * c) n)

/-- copying a contiguous dataset in slabs of `s` rows is the chunk loop over `stdGrid n s` -/
def slabGrid (n s : Nat) : List (Nat × Nat) := stdGrid n s

/-- the slab rule "`k` slabs of `n / k` rows" (floor division) -/
def floorSlabs (n k : Nat) : List (Nat × Nat) :=
  (List.range k).map fun i => (i * (n / k), (i + 1) * (n / k))

/-- attributes are written key by key -/
def copyAttrs (a : Attrs) : Attrs := a.foldl (fun acc kv => acc ++ [kv]) []

/-- `h5ds_copy` for a dataset (`ensure_compression=True`); `none` = nothing written -/
def h5dsCopy (grid : List (Nat × Nat)) (src : Dset) : Option Dset :=
  if src.compressed then some src                         -- `h5py.h5o.copy`
  else if src.rows.length = 0 then none                   -- empty datasets are ignored
  else
    let n := src.rows.length
    let chunks' := src.chunks.map fun c => if c > n then n else c
    match src.str with
    | .vlen =>
      let w := fixedWidth src.rows
      some { rows := src.rows.map (toFixed w), chunks := chunks', compressed := true,
             str := .fixed w, attrs := copyAttrs src.attrs }
    | k =>
      let rows' := match chunks' with
        | none => src.rows                                 -- `dst[:] = src[:]`
        | some _ => copyChunks grid src.rows (blank n)
      some { rows := rows', chunks := chunks', compressed := true, str := k,
             attrs := copyAttrs src.attrs }

/-! ## files -/

inductive Node where
  | ds (d : Dset)
  | grp (members : List (String × Dset))     -- e.g. `trace`
  deriving DecidableEq, Repr

structure Feat where
  name : String
  node : Node
  deriving DecidableEq, Repr

structure BasinDef where
  key : String              -- name of the dataset in `/basins`
  internal : Bool           -- `bn["type"] == "internal"`
  feats : List String       -- `bn["features"]`
  rest : Nat                -- token for every other field of the definition
  body : Dset               -- the stored JSON lines
  deriving DecidableEq, Repr

structure File where
  attrs : Attrs := []
  events : List Feat := []
  basinEvents : Option (List Feat) := none
  logs : Option (List (String × Dset)) := none
  tables : Option (List (String × Dset)) := none
  basins : Option (List BasinDef) := none
  deriving DecidableEq, Repr

/-- everything `rtdc_copy` asks the rest of dclab / h5py -/
structure Env where
  known : String → Bool                      -- `dfn.feature_exists`
  scalar : String → Bool                     -- `dfn.scalar_feature_exists`
  basinmap : String → Bool                   -- `^basinmap[0-9]*$`
  defective : String → Bool                  -- `DEFECTIVE_FEATURES[f](src_h5file)`
  grid : Dset → List (Nat × Nat)             -- `src.iter_chunks()`
  summary : String → List Row → Nat          -- value token of `np.nanmin/nanmax/nanmean`
  rekey : String → List String → String      -- `hashobj` of a rewritten basin definition
  rebody : String → List String → Dset       -- its JSON lines

inductive Sel where
  | all | scalar | none
  | list (fs : List String)

structure Opts where
  features : Sel := .all
  includeBasins : Bool := true
  includeLogs : Bool := true
  includeTables : Bool := true
  metaPrefix : String := ""
  fixF09 : Bool := true          -- false: behaviour before the repair of F09

def dedup : List String → List String
  | [] => []
  | x :: xs => if x ∈ xs then dedup xs else x :: dedup xs

def names (fs : List Feat) : List String := fs.map (·.name)

/-- `events_src` -/
def eventsSrc (o : Opts) (src : File) : List String :=
  match o.includeBasins, src.basinEvents with
  | true, some be => dedup (names src.events ++ names be)      -- `sorted(set(...))`
  | _, _ => names src.events

/-- `feature_iter` after the basinmap adjustment -/
def featureIter (env : Env) (o : Opts) (src : File) : List String :=
  let es := eventsSrc o src
  let base := match o.features with
    | .all => es
    | .scalar => es.filter env.scalar
    | .none => []
    | .list fs => fs
  let bm := es.filter env.basinmap
  if o.includeBasins then base ++ bm.filter (fun f => !base.contains f)
  else base.filter (fun f => !bm.contains f)

def copyPair (env : Env) (g : String → String) (kd : String × Dset) : Option (String × Dset) :=
  (h5dsCopy (env.grid kd.2) kd.2).map fun d => (g kd.1, d)

def copyNode (env : Env) : Node → Option Node
  | .ds d => (h5dsCopy (env.grid d) d).map .ds
  | .grp ms => some (.grp (ms.filterMap (copyPair env id)))

/-- "complement min/max values for all scalar features" -/
def completeSummary (env : Env) : Node → Node
  | .ds d => .ds { d with attrs := d.attrs ++
      ((["min", "max", "mean"].filter fun a => (d.attrs.lookup a).isNone).map
        fun a => (a, env.summary a d.rows)) }
  | n => n

/-- does the feature loop reach the copy of `f` -/
def selected (env : Env) (it : List String) (f : Feat) : Bool :=
  it.contains f.name && env.known f.name && !env.defective f.name

def copyEntry (env : Env) (it : List String) (f : Feat) : Option Feat :=
  if selected env it f then
    (copyNode env f.node).map fun n =>
      ⟨f.name, if env.scalar f.name then completeSummary env n else n⟩
  else none

def copyEvents (env : Env) (it : List String) (src : File) : List Feat :=
  src.events.filterMap (copyEntry env it)

/-- F27 (open): `h5ds_copy` returns `None` for an empty uncompressed dataset and the summary
    completion of a scalar feature then raises `AttributeError` -/
def copyRaises (env : Env) (o : Opts) (src : File) : Bool :=
  src.events.any fun f =>
    selected env (featureIter env o src) f && env.scalar f.name && (copyNode env f.node).isNone

def copyDataEntry (env : Env) (it : List String) (src : File) (f : Feat) : Option Feat :=
  if it.contains f.name && env.known f.name && !(names src.events).contains f.name then
    (copyNode env f.node).map fun n => ⟨f.name, n⟩
  else none

def copyBasinEvents (env : Env) (o : Opts) (it : List String) (src : File) : Option (List Feat) :=
  match o.includeBasins, src.basinEvents with
  | true, some be =>
    let l := be.filterMap (copyDataEntry env it src)
    if l.isEmpty then none else some l
  | _, _ => none

/-- `basin_definition_copy` (after the repair of F26: each definition is handled once) -/
def basinEntry (env : Env) (it : List String) (b : BasinDef) : Option BasinDef :=
  if b.internal then
    let used := b.feats.filter fun f => it.contains f
    if used.isEmpty then none                              -- nothing internal left
    else if used ≠ b.feats then                            -- rewrite
      some { key := env.rekey b.key used, internal := true, feats := used, rest := b.rest,
             body := env.rebody b.key used }
    else (h5dsCopy (env.grid b.body) b.body).map fun bd => { b with body := bd }
  else (h5dsCopy (env.grid b.body) b.body).map fun bd => { b with body := bd }

def basinDefCopy (env : Env) (it : List String) (defs : List BasinDef) : List BasinDef :=
  defs.filterMap (basinEntry env it)

/-- before F26: the inner loop ran over *all* definitions for every key, so the second
    definition that is copied as-is hits "name already exists" -/
def basinDefCopyOldRaises (it : List String) (defs : List BasinDef) : Bool :=
  let asIs := defs.filter fun b =>
    !b.internal || (b.feats.filter fun f => it.contains f) == b.feats && !b.feats.isEmpty
  decide (2 ≤ asIs.length)

/-- tables are re-created from `[:]` (HDF5 issue 3214); since F09 with attributes and prefix -/
def tableCopy (o : Opts) (kd : String × Dset) : String × Dset :=
  if o.fixF09 then
    (o.metaPrefix ++ kd.1, { rows := kd.2.rows, chunks := none, compressed := true,
                             str := kd.2.str, attrs := copyAttrs kd.2.attrs })
  else
    (kd.1, { rows := kd.2.rows, chunks := none, compressed := true, str := kd.2.str, attrs := [] })

def copyLogs (env : Env) (o : Opts) (ls : List (String × Dset)) : List (String × Dset) :=
  ls.filterMap (copyPair env (o.metaPrefix ++ ·))

/-- `rtdc_copy` -/
def rtdcCopy (env : Env) (o : Opts) (src : File) : File :=
  let it := featureIter env o src
  { attrs := copyAttrs src.attrs
    events := copyEvents env it src
    basinEvents := copyBasinEvents env o it src
    logs := if o.includeLogs then src.logs.map (copyLogs env o) else none
    tables := if o.includeTables then src.tables.map (List.map (tableCopy o)) else none
    basins := if o.includeBasins then src.basins.map (basinDefCopy env it) else none }

/-- before F33: the `events` group was created only `if feature_iter:` -/
def eventsGroupCreated (env : Env) (o : Opts) (src : File) : Bool :=
  !(featureIter env o src).isEmpty

/-- since F33 (source has an `events` group): also for an empty feature list, unless
    `features="none"` was requested — dclab cannot open a file without the group -/
def eventsGroupCreatedFixed (env : Env) (o : Opts) (src : File) : Bool :=
  !(featureIter env o src).isEmpty || (match o.features with | .none => false | _ => true)

/-! ## what dclab shows of a file -/

/-- a named dataset as shown to the user; empty datasets carry no content -/
def pairEntry (kd : String × Dset) : Option (String × List Row) :=
  if kd.2.rows.isEmpty then none else some (kd.1, readRows kd.2)

def nodeRows : Node → List (String × List Row)
  | .ds d => if d.rows.isEmpty then [] else [("", readRows d)]
  | .grp ms => ms.filterMap pairEntry

def featEntry (env : Env) (keep : String → Bool) (f : Feat) :
    Option (String × List (String × List Row)) :=
  if !env.defective f.name && keep f.name then
    let r := nodeRows f.node
    if r.isEmpty then none else some (f.name, r)
  else none

/-- stored features that are not flagged defective (O6) -/
def featsView (env : Env) (keep : String → Bool) (evs : List Feat) :
    List (String × List (String × List Row)) :=
  evs.filterMap (featEntry env keep)

def dataEntry (f : Feat) : Option (String × List (String × List Row)) :=
  let r := nodeRows f.node
  if r.isEmpty then none else some (f.name, r)

def dataView (fs : Option (List Feat)) : List (String × List (String × List Row)) :=
  (fs.getD []).filterMap dataEntry

def logsView (ls : Option (List (String × Dset))) : List (String × List Row) :=
  (ls.getD []).filterMap pairEntry

def tablesView (ts : Option (List (String × Dset))) : List (String × List Row × Attrs) :=
  (ts.getD []).map fun kd => (kd.1, readRows kd.2, kd.2.attrs)

def basinShow (b : BasinDef) : Bool × List String × Nat := (b.internal, b.feats, b.rest)

def basinsView (bs : Option (List BasinDef)) : List (Bool × List String × Nat) :=
  (bs.getD []).map basinShow

structure View where
  metaAttrs : Attrs
  feats : List (String × List (String × List Row))
  logs : List (String × List Row)
  tables : List (String × List Row × Attrs)
  basins : List (Bool × List String × Nat)
  basinData : List (String × List (String × List Row))
  deriving DecidableEq, Repr

/-- `keep` selects the features compared (all of them, or all but the `basinmap*` features when
    basins are stripped) -/
def viewWith (env : Env) (keep : String → Bool) (f : File) : View :=
  { metaAttrs := f.attrs, feats := featsView env keep f.events, logs := logsView f.logs,
    tables := tablesView f.tables, basins := basinsView f.basins,
    basinData := dataView f.basinEvents }

def view (env : Env) (f : File) : View := viewWith env (fun _ => true) f

/-! ## tasks -/

/-- `dclab-repack` -/
def repack (env : Env) (stripBasins stripLogs : Bool) (src : File) : File :=
  rtdcCopy env { includeBasins := !stripBasins, includeLogs := !stripLogs } src

def cmdLogNames : List String := ["dclab-compress", "dclab-compress-warnings"]

/-- rename the command logs of an earlier run (`<name>_<md5 of the input>`) -/
def renameOldLogs (suffix : String) (ls : List (String × Dset)) : List (String × Dset) :=
  ls.map fun kd => if cmdLogNames.contains kd.1 then (kd.1 ++ "_" ++ suffix, kd.2) else kd

/-- `dclab-compress`: copy everything, move old command logs away, append the new command log
    (`newLogs`, written compressed by `RTDCWriter`), whose exit hook `hook` completes derived
    metadata and brands the version (O8) -/
def compress (env : Env) (hook : Attrs → Attrs) (suffix : String)
    (newLogs : List (String × Dset)) (src : File) : File :=
  let c := rtdcCopy env {} src
  { c with attrs := hook c.attrs
           logs := some (renameOldLogs suffix (c.logs.getD []) ++ newLogs) }

/-- the logs group after one `dclab-compress` run as a function of the input's logs: copy, move the
    old command logs away, append the new ones -/
def logStep (env : Env) (suffix : String) (newLogs : List (String × Dset))
    (ls : List (String × Dset)) : List (String × Dset) :=
  renameOldLogs suffix (copyLogs env {} ls) ++ newLogs

/-- `hc["logs"][f"{lkey}_{md5}"] = hc["logs"][lkey]` needs a free target name: h5py refuses to
    create a link under a name that exists (the task aborts, no output is produced) -/
def renameCollides (suffix : String) (ls : List (String × Dset)) : Bool :=
  cmdLogNames.any fun n =>
    (ls.map (·.1)).contains n && (ls.map (·.1)).contains (n ++ "_" ++ suffix)

/-- `n` successive `dclab-compress` runs; run `k` sees an input with hash `sfx k` and writes the
    command log `cmd k` -/
def compressGen (env : Env) (hook : Attrs → Attrs) (sfx : Nat → String) (cmd : Nat → Dset) :
    Nat → File → File
  | 0, x => x
  | k + 1, x =>
    compress env hook (sfx k) [("dclab-compress", cmd k)] (compressGen env hook sfx cmd k x)

/-- the command logs a file carries after `n` runs, oldest first: run `j`'s log was renamed by run
    `j + 1` (whose input had hash `sfx (j+1)`); the last run's log has the plain name -/
def cmdHistory (sfx : Nat → String) (cmd : Nat → Dset) : Nat → List (String × Dset)
  | 0 => []
  | n + 1 => ((List.range n).map fun j => ("dclab-compress" ++ "_" ++ sfx (j + 1), cmd j)) ++
      [("dclab-compress", cmd n)]

/-- the part of a file that compress / repack must never change: everything but the metadata
    touched by the writer hook and the command logs -/
def dataPart (env : Env) (isCmdLog : String → Bool) (f : File) : View :=
  { view env f with metaAttrs := [], logs := (logsView f.logs).filter fun kl => !isCmdLog kl.1 }

/-! ### condense -/

structure CondIn where
  src : File
  featsScalar : List String      -- `ds.features_scalar`
  loaded : List String           -- `ds.features_loaded`
  basin : List String            -- `ds.features_basin`
  ancillary : List String        -- `ds.features_ancillary`
  storeBasin : Bool := true
  storeAnc : Bool := true

def condCopy (env : Env) (c : CondIn) : File := rtdcCopy env { features := .scalar } c.src

def scLoaded (c : CondIn) : List String := c.loaded.filter fun f => c.featsScalar.contains f
def scBasInt (env : Env) (c : CondIn) : List String := names ((condCopy env c).basinEvents.getD [])
def exclude (env : Env) (c : CondIn) : List String := scLoaded c ++ scBasInt env c

def scBasin (env : Env) (c : CondIn) : List String :=
  if c.storeBasin then
    c.basin.filter fun f => c.featsScalar.contains f && !(exclude env c).contains f
  else []

def scAnc (env : Env) (c : CondIn) : List String :=
  if c.storeAnc then
    c.ancillary.filter fun f => c.featsScalar.contains f && !(exclude env c).contains f
  else []

/-- the Python `set` `features` -/
def condFeatures (env : Env) (c : CondIn) : List String :=
  dedup (scLoaded c ++ scBasin env c ++ scAnc env c)

/-- features written by `hw.store_feature(feat, ds[feat])` -/
def condAdded (env : Env) (c : CondIn) : List String :=
  (condFeatures env c).filter fun f => !(names (condCopy env c).events).contains f

/-- names of the scalar features in `/events` of the condensed file -/
def condOut (env : Env) (c : CondIn) : List String :=
  names (condCopy env c).events ++ condAdded env c

/-- `dclab-condense` on an HDF5 input; `dsVal f` = `ds[f]` of the input -/
def condense (env : Env) (dsVal : String → List Row) (c : CondIn) : File :=
  let cp := condCopy env c
  { cp with events := cp.events ++
      (condAdded env c).map fun f => ⟨f, .ds { rows := dsVal f, compressed := true }⟩ }

/-- F28 (before the repair): `h5_cond["events"]` does not exist when `rtdc_copy` had nothing to
    copy, and the membership test raises `KeyError` as soon as a feature is to be added -/
def condenseOldRaises (env : Env) (c : CondIn) : Bool :=
  !eventsGroupCreated env { features := .scalar } c.src && !(condFeatures env c).isEmpty

/-! ### tdms2rtdc -/

/-- `skip_empty_image_events`: manual filter that drops an empty first / last image event -/
def skipMask (n : Nat) (firstEmpty lastEmpty : Bool) : List Bool :=
  (List.range n).map fun i => !((firstEmpty && i == 0) || (lastEmpty && i + 1 == n))

def sel : List Bool → List α → List α
  | true :: m, x :: xs => x :: sel m xs
  | false :: m, _ :: xs => sel m xs
  | _, _ => []

/-- exported rows of one feature (`export.hdf5(filtered=True)`, C02) -/
def tdms2rtdcRows (firstEmpty lastEmpty : Bool) (rows : List α) : List α :=
  sel (skipMask rows.length firstEmpty lastEmpty) rows

/-- the two flags `skip_empty_image_events` derives from the dataset and the task options:
    `initial ∧ (video frame offset ≠ 0 ∨ first contour all zero ∨ first image all zero)` and
    `final ∧ has image ∧ (last frame corrupt (tdms) / last image all zero)` -/
def skipFlags (initial final hasImage frameOffset contour0 image0 lastBad : Bool) : Bool × Bool :=
  (initial && (hasImage && frameOffset || contour0 || hasImage && image0),
   final && hasImage && lastBad)

/-- spec: the kept events in closed form -/
def tdmsKept (firstEmpty lastEmpty : Bool) (rows : List α) : List α :=
  let r := if firstEmpty then rows.drop 1 else rows
  if lastEmpty then r.dropLast else r

/-- bulk conversion of a directory: the feature list is determined per measurement
    (`ds.features_innate` of that measurement) -/
def bulkFeatures (measurements : List (List String)) : List (List String) := measurements

/-- the tempting "speed-up": candidates determined once for the first measurement -/
def bulkFeaturesShared : List (List String) → List (List String)
  | [] => []
  | first :: rest => first :: rest.map fun m => first.filter fun f => m.contains f

/-! ### task paths (`cli/common.py:setup_task_paths`) -/

/-- a resolved path: directory and the file name split at its dots
    (`x.compressed` = `["x", "compressed"]`) -/
structure Path where
  dir : List String
  parts : List String
  deriving DecidableEq, Repr

/-- `pathlib.PurePath.suffix` (without the dot): the last dotted part, unless the last dot is
    the first or the last character of the name -/
def Path.suffix (p : Path) : Option String :=
  match p.parts.reverse with
  | [] => none
  | last :: restRev => if last = "" ∨ restRev = [] ∨ restRev = [""] then none else some last

/-- "make sure the output has the suffix": `po.with_name(po.name + ".rtdc")` -/
def correctedOut (o : Path) : Path :=
  if o.suffix = some "rtdc" then o else { o with parts := o.parts ++ ["rtdc"] }

/-- `po.with_suffix(".rtdc~")` for a path that ends in `.rtdc` -/
def tempOf (o : Path) : Path := { o with parts := o.parts.dropLast ++ ["rtdc~"] }

structure TaskPaths where
  out : Path
  temp : Path
  unlinked : List Path        -- files removed before the task starts
  deriving DecidableEq, Repr

/-- `setup_task_paths` for one output (after the repairs of F29 and F64: an output *or its
    temporary path* that resolves to an input is refused before anything is unlinked);
    `ex` = which paths exist -/
def setupPaths (ins : List Path) (out : Path) (ex : Path → Bool) : Option TaskPaths :=
  let o := correctedOut out
  if ins.contains o || ins.contains (tempOf o) then none       -- `ValueError`
  else some { out := o, temp := tempOf o,
              unlinked := (if ex o then [o] else []) ++ (if ex (tempOf o) then [tempOf o] else []) }

/-- after F29 but before F64: only the output path is compared with the inputs -/
def setupPathsF29 (ins : List Path) (out : Path) (ex : Path → Bool) : Option TaskPaths :=
  let o := correctedOut out
  if ins.contains o then none
  else some { out := o, temp := tempOf o,
              unlinked := (if ex o then [o] else []) ++ (if ex (tempOf o) then [tempOf o] else []) }

/-- before F29: no comparison with the inputs -/
def setupPathsOld (out : Path) (ex : Path → Bool) : TaskPaths :=
  let o := correctedOut out
  { out := o, temp := tempOf o,
    unlinked := (if ex o then [o] else []) ++ (if ex (tempOf o) then [tempOf o] else []) }

/-- the variant that *replaces* the last dotted part (`po.with_suffix(".rtdc")`) -/
def correctedOutReplacing (o : Path) : Path :=
  if o.suffix = some "rtdc" then o
  else match o.suffix with
    | some _ => { o with parts := o.parts.dropLast ++ ["rtdc"] }
    | none => { o with parts := o.parts ++ ["rtdc"] }

end DclabModel.Copy
