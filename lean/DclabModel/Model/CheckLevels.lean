import DclabModel.Model.Check
/-!
# Integrity checker (C13), part 2: cue levels, size-exact array comparisons, export

Core Lean only.
* `alerts D` mirrors the metadata-related **alert**-level branches of `IntegrityChecker`
  (`check_metadata_missing` for non-mandatory keys / desirable sections and the `temp` rule,
  `check_fl_metadata_channel_names`, `check_empty`, `check_flow_rate`, the uncommon-path branch of
  `check_basin_features_internal`); `infoFl` the info cue `Fluorescence: …`.
  Not modelled (alert level): `check_fmt_hdf5` (image attributes, log line lengths),
  `check_metadata_hdf5_type`, `check_fl_max*_positive`, `check_shapein_issue3_bad_medium`, warnings
  recorded while opening the file.
* `indexOk` is the comparison the code performs (shape, then element-wise equality);
  `indexOkTol` is the tolerant variant (`np.allclose`) that a well-meant change might use.
* `exportD` describes the output of `export.hdf5(features=…, filtered=True)` of `m` selected events.
-/
namespace DclabModel.Check
open DclabModel.Gen.CheckTable

/-! ## alert level -/

inductive ACue where
  | missingSection (sec : String)
  | missingKey (sec key : String)
  | unusedKey (key : String)           -- `channel i name` without the feature `fli_max`
  | tempKey                            -- `temp` feature without `[setup] temperature`
  | empty                              -- the dataset does not contain any events
  | uncommonBasinPath
  | flowRates                          -- one cue per key (flow rate, sheath, sample)
  deriving DecidableEq, Repr

/-- alert-level part of `check_metadata_missing(expand_section=False)` -/
def aMissing (get : Get) (d : D) : List ACue :=
  ((secsInvestigated (hasFl d)).flatMap fun sec =>
    if !sectionPresent get sec then
      (if ((important (hasFl d)).map (·.1)).contains sec then [] else [.missingSection sec])
    else
      ((keysOf configKeys sec).filter fun key =>
          (get (sec, key)).isNone && !(keysOf optionalKeys sec).contains key &&
          !(keysOf (important (hasFl d)) sec).contains key).map fun key => .missingKey sec key) ++
  (if hasEvent d "temp" && (get ("setup", "temperature")).isNone then [.tempKey] else [])

/-- `check_fl_metadata_channel_names` (skipped without fluorescence) -/
def aChannelNames (get : Get) (d : D) : List ACue :=
  if !hasFl d then [] else
  chanKeys.flatMap fun ce =>
    if hasEvent d ce.2 && (get ("fluorescence", ce.1)).isNone then
      [.missingKey "fluorescence" ce.1]
    else if !hasEvent d ce.2 && (get ("fluorescence", ce.1)).isSome then [.unusedKey ce.1]
    else []

/-- `check_empty` -/
def aEmpty (get : Get) (d : D) : List ACue := if lends get d == 0 then [.empty] else []

/-- alert branch of `check_basin_features_internal` -/
def aBasin (d : D) : List ACue :=
  d.basins.flatMap fun b => if !b.commonPath then [.uncommonBasinPath] else []

def ratAdd (a b : Int × Nat) : Int × Nat := (a.1 * b.2 + b.1 * a.2, a.2 * b.2)

/-- `np.allclose(a, b)` for exact fractions: `|a - b| ≤ 1e-8 + 1e-5·|b|` -/
def closeTo (a b : Int × Nat) : Bool :=
  decide ((a.1 * b.2 - b.1 * a.2).natAbs * 100000000 ≤ a.2 * b.2 + 1000 * b.1.natAbs * a.2)

/-- `check_flow_rate` -/
def aFlow (get : Get) : List ACue :=
  match get ("setup", "flow rate"), get ("setup", "flow rate sample"),
        get ("setup", "flow rate sheath") with
  | some (some s), some (some a), some (some h) =>
    if closeTo s (ratAdd a h) then [] else [.flowRates, .flowRates, .flowRates]
  | _, _, _ => []

def alertsWith (get : Get) (d : D) : List ACue :=
  aBasin d ++ aEmpty get d ++ aChannelNames get d ++ aFlow get ++ aMissing get d

/-- the modelled alert-level cues of `check_dataset` -/
def alerts (d : D) : List ACue := alertsWith (cfgGet d.cfg) d

/-- info cue `Fluorescence: True|False` -/
def infoFl (d : D) : Bool := hasFl d

/-- exit status of `dclab-verify-dataset` when `extra` further (unmodelled) alerts are present -/
def exitOf (d : D) (extra : Nat) : Nat := exitCode ((alerts d).length + extra) (violations d).length

/-! ## size-exact comparison of the index -/

/-- element-wise `index == arange(k, …)` -/
def enumFrom : Nat → List Nat → Bool
  | _, [] => true
  | k, x :: xs => x == k && enumFrom (k + 1) xs

/-- what `check_feat_index` computes: shape equal, then all elements equal -/
def indexOk (xs : List Nat) (n : Nat) : Bool := xs.length == n && enumFrom 1 xs

/-- `|a - b| ≤ 1e-8 + 1e-5·b` for natural numbers -/
def closeNat (a b : Nat) : Bool :=
  decide ((if a ≤ b then b - a else a - b) * 100000000 ≤ 1 + 1000 * b)

def enumFromTol : Nat → List Nat → Bool
  | _, [] => true
  | k, x :: xs => closeNat x k && enumFromTol (k + 1) xs

/-- the tolerant variant: `index.shape == (n,) and np.allclose(index, arange(1, n+1))` -/
def indexOkTol (xs : List Nat) (n : Nat) : Bool := xs.length == n && enumFromTol 1 xs

/-- a stored index of `n` entries in which the event number `p+1` was skipped -/
def skipIndex (p n : Nat) : List Nat := List.range' 1 p ++ List.range' (p + 2) (n - p)

/-- variant of `len(ds)` that takes an event count of 0 for "unknown" -/
def lendsLenient (get : Get) (d : D) : Nat :=
  match get ("experiment", "event count") with
  | some v => if toNat v == 0 then firstNonzero d.lenOrder else toNat v
  | none => firstNonzero d.lenOrder

/-! ## export -/

/-- something is stored in `/events` -/
def stored (s : D) : Bool := !s.events.isEmpty || !s.traces.isEmpty

/-- the writer stores `m` rows of every feature of `s` in a new file: metadata copied, the index
    re-enumerated by the writer, unknown features, links and internal basins not carried over,
    event count set by `rectify_metadata` (the other derived keys keep their values: the shapes
    of the rows do not change) -/
def resizeD (s : D) (m : Nat) : D :=
  { s with
    cfg := setIf s.cfg kEventCount (if stored s then some m else none)
    events := s.events.map fun e => (e.1, m)
    traces := s.traces.map fun t => (t.1, m, t.2.2)
    lenOrder := (s.events.map fun _ => m) ++ (if s.traces.isEmpty then [] else [m])
    index := if hasEvent s "index" then some (List.range' 1 m) else none
    h5events := s.h5events.filter (·.2)
    external := false
    basins := []
    basinEvents := none
    firstLen := if stored s then some m else none }

/-- `export.hdf5(features=keep, filtered=True, basins=False)` with `m` selected events -/
def exportD (d : D) (keep : String → Bool) (m : Nat) : D := resizeD (subsetD d keep) m

end DclabModel.Check
