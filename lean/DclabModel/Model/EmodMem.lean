import DclabModel.Model.Emod
/-!
# Memory model of the scaling laws (`scale_linear.py`) and of `get_emodulus` (property C05)

`Model/Emod.lean` is purely functional: it cannot even *say* "the caller's array is not
modified".  This file adds the missing layer: numpy arrays are objects in a heap, and every
statement of the code is a state-passing function on that heap.

* `Arr`/`Heap`        an array = dtype class (`float64`, another float type that needs a
                      conversion, integer) + values; the heap = list of arrays, a reference =
                      index.  Objects are never freed (garbage is irrelevant for the property).
* `npArray`           `np.array(a, copy=copy)` (no dtype): a new object when `copy`, the very
                      same object otherwise;
* `imul`              `a *= factor` (scalar or per-element factor): in place, `UFuncTypeError`
                      (`TypeError`) for integer arrays;
* `mulMem`            the common body of all `scale_*` functions: `np.array(data, copy=not
                      inplace)` followed by an optional `*=`;
* `scaleAreaMem`, `scaleVolumeMem`, `scaleEmodMem`, `scaleFeatureMem`
                      `scale_area_um` (with its "integer in place" check), `scale_volume`,
                      `scale_emodulus` (with `has_changes`), `scale_feature` (dispatch);
* `MOp`/`runM`        straight-line programs of allocations (`copyOf`) and in-place updates;
                      `emodProg` = the statements of `get_emodulus` (both routes, `copy`
                      on/off, pixelation on/off) in the order of the code.

Core Lean only.
-/
namespace DclabModel.Emod

/-- dtype classes: `float64`; another floating type (in-place arithmetic works, `dtype=float`
needs a converting copy); integer (in-place multiplication by a float raises) -/
inductive DT where
  | f64 | f32 | int
deriving DecidableEq, Repr

structure Arr where
  dt : DT
  data : List Rat
deriving DecidableEq, Repr

abbrev Heap := List Arr

inductive MErr where
  | value      -- ValueError
  | type       -- TypeError (numpy's UFuncTypeError)
  | key        -- KeyError / dangling reference
deriving DecidableEq, Repr

/-- `np.array(a, copy=copy)` without dtype: a fresh object holding the same values, or `a`
itself -/
def npArray (H : Heap) (r : Nat) (copy : Bool) : Except MErr (Heap × Nat) :=
  match H[r]? with
  | none => .error .key
  | some a => if copy then .ok (H ++ [a], H.length) else .ok (H, r)

/-- element-wise product with a per-index factor (a scalar factor is a constant function; a
per-event viscosity array gives a proper function) -/
def mulFrom (f : Nat → Rat) : Nat → List Rat → List Rat
  | _, [] => []
  | i, v :: vs => v * f i :: mulFrom f (i + 1) vs

/-- `a *= factor` -/
def imul (H : Heap) (r : Nat) (f : Nat → Rat) : Except MErr Heap :=
  match H[r]? with
  | none => .error .key
  | some a =>
    if a.dt = .int then .error .type
    else .ok (H.set r { a with data := mulFrom f 0 a.data })

/-- `out = np.array(data, copy=not inplace); if f: out *= f; return out` -/
def mulMem (H : Heap) (r : Nat) (inplace : Bool) (f : Option (Nat → Rat)) :
    Except MErr (Heap × Nat) :=
  match npArray H r (!inplace) with
  | .error e => .error e
  | .ok (H1, r1) =>
    match f with
    | none => .ok (H1, r1)
    | some f =>
      match imul H1 r1 f with
      | .error e => .error e
      | .ok H2 => .ok (H2, r1)

/-- the factor of `scale_area_um` (k = 2) / `scale_volume` (k = 3): none if the widths
coincide -/
def facX (k : Nat) (Lin Lout : Rat) : Option (Nat → Rat) :=
  if Lin = Lout then none else some fun _ => (Lout / Lin) ^ k

/-- `scale_area_um`: refuses integer arrays in place *before* doing anything -/
def scaleAreaMem (H : Heap) (r : Nat) (Lin Lout : Rat) (inplace : Bool) :
    Except MErr (Heap × Nat) :=
  match H[r]? with
  | none => .error .key
  | some a =>
    if a.dt = .int ∧ inplace = true then .error .value
    else mulMem H r inplace (facX 2 Lin Lout)

/-- `scale_volume` (no integer check) -/
def scaleVolumeMem (H : Heap) (r : Nat) (Lin Lout : Rat) (inplace : Bool) :
    Except MErr (Heap × Nat) :=
  mulMem H r inplace (facX 3 Lin Lout)

/-- output viscosity of `scale_emodulus`: a number or one number per event -/
inductive EtaOut where
  | scalar (η : Rat)
  | perEvent (ηs : List Rat)

def EtaOut.isArr : EtaOut → Bool
  | .scalar _ => false
  | .perEvent _ => true

def EtaOut.at : EtaOut → Nat → Rat
  | .scalar η, _ => η
  | .perEvent ηs, i => ηs.getD i 0

/-- the factor of `scale_emodulus` incl. the `has_changes` shortcut (same condition as
`Emod.scaleE`) -/
def facE (Lin Lout Qin Qout ein : Rat) (eout : EtaOut) : Option (Nat → Rat) :=
  if Qin ≠ Qout ∨ Lin ≠ Lout ∨ eout.isArr = true ∨ ein ≠ eout.at 0 then
    some fun i => fE Lin Lout Qin Qout ein (eout.at i)
  else none

def scaleEmodMem (H : Heap) (r : Nat) (Lin Lout Qin Qout ein : Rat) (eout : EtaOut)
    (inplace : Bool) : Except MErr (Heap × Nat) :=
  mulMem H r inplace (facE Lin Lout Qin Qout ein eout)

inductive Feat where
  | areaUm | deform | circ | emodulus | volume | other
deriving DecidableEq, Repr

/-- `scale_feature`: dispatch on the feature name (`deform`/`circ`: a plain `np.array`) -/
def scaleFeatureMem (ft : Feat) (H : Heap) (r : Nat) (Lin Lout Qin Qout ein : Rat)
    (eout : EtaOut) (inplace : Bool) : Except MErr (Heap × Nat) :=
  match ft with
  | .areaUm => scaleAreaMem H r Lin Lout inplace
  | .deform => mulMem H r inplace none
  | .circ => mulMem H r inplace none
  | .emodulus => scaleEmodMem H r Lin Lout Qin Qout ein eout inplace
  | .volume => scaleVolumeMem H r Lin Lout inplace
  | .other => .error .key

/-- the values `scale_feature` must return, according to the functional model -/
def scaleFeatureVals (ft : Feat) (Lin Lout Qin Qout ein : Rat) (eout : EtaOut)
    (data : List Rat) : List Rat :=
  match ft with
  | .areaUm => data.map (scaleX 2 Lin Lout)
  | .volume => data.map (scaleX 3 Lin Lout)
  | .emodulus =>
    match facE Lin Lout Qin Qout ein eout with
    | none => data
    | some f => mulFrom f 0 data
  | _ => data

/-! ## Straight-line programs over the heap -/

inductive MOp where
  /-- allocate a new array initialised from `src` (`np.array(src, copy=True)`, the result of
  `griddata`, …) -/
  | copyOf (src : Nat)
  /-- overwrite the values of array `r` in place (`-=`, `*=`, `/=`) -/
  | update (r : Nat) (g : List Rat → List Rat)

def stepM (H : Heap) : MOp → Heap
  | .copyOf src => match H[src]? with
    | some a => H ++ [a]
    | none => H ++ [⟨.f64, []⟩]
  | .update r g => match H[r]? with
    | some a => H.set r { a with data := g a.data }
    | none => H

def runM (H : Heap) (prog : List MOp) : Heap := prog.foldl stepM H

/-- the program updates only arrays it allocated itself (references `≥ n0`) -/
def Owned (n0 : Nat) : List MOp → Prop
  | [] => True
  | .copyOf _ :: rest => Owned n0 rest
  | .update r _ :: rest => n0 ≤ r ∧ Owned n0 rest

instance (n0 : Nat) : (prog : List MOp) → Decidable (Owned n0 prog)
  | [] => isTrue trivial
  | .copyOf _ :: rest => by unfold Owned; exact instDecidableOwned n0 rest
  | .update _ _ :: rest =>
    by unfold Owned; exact @instDecidableAnd _ _ _ (instDecidableOwned n0 rest)

/-- references updated by the program that the caller can see (`< n0`) -/
def callerVisibleUpdates (n0 : Nat) (prog : List MOp) : List Nat :=
  (prog.filterMap fun op => match op with
    | .update r _ => if r < n0 then some r else none
    | .copyOf _ => none).eraseDups

/-- The statements of `get_emodulus` that touch arrays, in the order of the code.  Initial heap
`[area_um|volume, deform, lut array]` (references 0, 1, 2; float64).  `copy` = the `copy`
argument, `px` = pixelation correction enabled, `routeB` = per-event viscosity.  `g i` is the
arithmetic of the i-th in-place statement (irrelevant for who owns what). -/
def emodProg (copy px routeB : Bool) (g : Nat → List Rat → List Rat) : List MOp :=
  -- lut = np.array(lut, copy=True)  (load_lut; a file is parsed into a new array)  → ref 3
  let lut := 3
  -- datax = np.array(area_um, dtype=float, copy=copy); deform = np.array(deform, …, copy=copy)
  let datax := if copy then 4 else 0
  let deform := if copy then 5 else 1
  let nxt := if copy then 6 else 4
  let head : List MOp := [.copyOf 2] ++ (if copy then [.copyOf 0, .copyOf 1] else [])
    -- deform -= get_pixelation_delta(...)
    ++ (if px then [.update deform (g 0)] else [])
  if routeB then
    -- datax_4lut = scale_feature(datax, inplace=False); deform_4lut = np.array(deform, copy=copy)
    let datax4 := nxt
    let deform4 := if copy then nxt + 1 else deform
    let emod := if copy then nxt + 2 else nxt + 1
    head ++ [.copyOf datax, .update datax4 (g 1)] ++ (if copy then [.copyOf deform] else [])
      -- normalize(lut[:,0]); normalize(datax_4lut); normalize(lut[:,1]); normalize(deform_4lut)
      ++ [.update lut (g 2), .update datax4 (g 3), .update lut (g 4), .update deform4 (g 5),
          -- emod = griddata(...)  (a new array); back-scaling in place
          .copyOf datax4, .update datax4 (g 6), .update emod (g 7)]
  else
    let emod := nxt
    -- scale_feature(lut[:,0], inplace=True); scale_emodulus(lut[:,2], inplace=True); normalize ×4
    head ++ [.update lut (g 1), .update lut (g 2), .update lut (g 3), .update datax (g 4),
             .update lut (g 5), .update deform (g 6), .copyOf datax, .update emod (g 7)]

end DclabModel.Emod
