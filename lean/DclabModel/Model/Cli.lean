/-!
# Model of the command-line tasks (properties C09 and C10)

Part A mirrors `dclab/cli/task_split.py:split`, `dclab/cli/common.py:skip_empty_image_events`
and `dclab/cli/task_join.py:join` (with the repairs F10 and F11 applied; the rules of the
unrepaired code are kept as `oldPass` / `oldKeyLe` for the witness theorems).

Part B is the file-system automaton behind "write to `<name>.rtdc~`, close, rename" used by
`setup_task_paths` and the six task modules.

Core Lean only.  Strings that take part in `decide` witnesses are lists of code points.
-/
namespace DclabModel.Cli

/-! ## A.1  split -/

/-- `num_files = len(ds) // split_events; if len(ds) % split_events: num_files += 1` -/
def numFiles (N s : Nat) : Nat := N / s + (if N % s = 0 then 0 else 1)

/-- events selected by `manual[:] = False; manual[i*s:(i+1)*s] = True` followed by the filtered
export (numpy slices clip at the end of the array) -/
def window (N s i : Nat) : List Nat := ((List.range N).drop (i * s)).take s

/-- the index windows of the parts written by `split` (no boundary skipping) -/
def split (N s : Nat) : List (List Nat) := (List.range (numFiles N s)).map (window N s)

/-- `skip_empty_image_events`: `manual[0] = False` when the first image/contour is all-zero
(`z0`), `manual[N-1] = False` when the last image is all-zero (`zN`) -/
def keepEvent (N : Nat) (z0 zN : Bool) (j : Nat) : Bool :=
  !(z0 && j == 0) && !(zN && j + 1 == N)

def splitSkip (N s : Nat) (z0 zN : Bool) : List (List Nat) :=
  (split N s).map (fun w => w.filter (keepEvent N z0 zN))

/-- the rows of a column picked by an index list (filtered export, property C02) -/
def sel (col : List Rat) (idx : List Nat) : List Rat := idx.map (fun j => col.getD j 0)

/-! ## A.2  join: date/time parsing and the chronological key -/

abbrev Str := List Nat   -- code points

def digitVal? (c : Nat) : Option Nat := if 48 ≤ c ∧ c ≤ 57 then some (c - 48) else none

def natOfDigits? : Str → Option Nat
  | [] => none
  | cs => cs.foldl (fun acc c => match acc, digitVal? c with
      | some a, some d => some (10 * a + d)
      | _, _ => none) (some 0)

def splitOn (sep : Nat) : Str → List Str
  | [] => [[]]
  | c :: cs =>
    match splitOn sep cs with
    | [] => [[]]      -- unreachable
    | w :: ws => if c = sep then [] :: w :: ws else (c :: w) :: ws

/-- days since 1970-01-01 of a proleptic Gregorian date (years ≥ 1) -/
def daysFromCivil (y m d : Nat) : Int :=
  let y' : Int := if m ≤ 2 then (y : Int) - 1 else y
  let era : Int := y' / 400
  let yoe : Int := y' - era * 400
  let mp : Int := if m > 2 then (m : Int) - 3 else (m : Int) + 9
  let doy : Int := (153 * mp + 2) / 5 + (d : Int) - 1
  let doe : Int := yoe * 365 + yoe / 4 - yoe / 100 + doy
  era * 146097 + doe - 719468

/-- `"%Y-%m-%d"` -/
def parseDate? (s : Str) : Option Int :=
  match (splitOn 45 s).map natOfDigits? with
  | [some y, some m, some d] =>
    if 1 ≤ y ∧ 1 ≤ m ∧ m ≤ 12 ∧ 1 ≤ d ∧ d ≤ 31 then some (daysFromCivil y m d) else none
  | _ => none

/-- seconds since midnight: `strptime(etime[:8], "%H:%M:%S")` plus `float(etime[8:])` -/
def parseTime? (s : Str) : Option Rat :=
  match (splitOn 58 (s.take 8)).map natOfDigits? with
  | [some h, some m, some sec] =>
    if h < 24 ∧ m < 60 ∧ sec < 62 then
      let base : Rat := ((h * 3600 + m * 60 + sec : Nat) : Rat)
      match s.drop 8 with
      | [] => some base
      | 46 :: frac =>
        match natOfDigits? frac with
        | some n => some (base + (n : Rat) / ((10 ^ frac.length : Nat) : Rat))
        | none => none
      | _ => none
    else none
  | _ => none

/-- a feature name; the four features `join` treats specially are constructors -/
inductive Feat where
  | time | frame | index | indexOnline
  | plain (name : String)
deriving DecidableEq, Repr

/-- one input measurement as far as `join`/`split` look at it -/
structure Meas where
  tag    : Nat := 0                -- position in the list given by the caller
  day    : Int                     -- parsed `experiment:date`
  sec    : Rat                     -- parsed `experiment:time`
  run    : Nat                     -- `experiment:run index`
  fr     : Rat                     -- `imaging:frame rate`
  innate : List Feat               -- `sorted(ds.features_innate)`
  avail  : List Feat               -- `ds.features` (innate and computable)
  col    : Feat → List Rat         -- event data (tokens / exact values)
  logs   : List (String × List String)
  tables : List (String × List String) := []   -- `ds.tables`: name, row tokens
  cfg    : List (String × String) := []        -- every other metadata key with its value

/-- acquisition time stamp in seconds (`time.mktime(...) + fraction`, no DST jump assumed) -/
def Meas.ts (m : Meas) : Rat := (m.day : Rat) * 86400 + m.sec

/-- repaired sorting key `(timestamp, run index)` compared like a Python tuple -/
def keyLe (a b : Meas) : Bool :=
  decide (a.ts < b.ts) || (decide (a.ts = b.ts) && decide (a.run ≤ b.run))

/-- `sorted(key_paths, key=…)` — Python's sort is stable; so is `mergeSort` -/
def sortInputs (ms : List Meas) : List Meas := ms.mergeSort keyLe

/-- `t_offsets -= t_offsets[0]` -/
def offsets (sorted : List Meas) : List Rat :=
  match sorted with
  | [] => []
  | m0 :: _ => sorted.map (fun m => m.ts - m0.ts)

/-! ### the unrepaired key (F11) -/

def lexLt : Str → Str → Bool
  | [], [] => false
  | [], _ :: _ => true
  | _ :: _, [] => false
  | a :: as, b :: bs => if a < b then true else if b < a then false else lexLt as bs

/-- `"_".join([date, time, str(run index)])` -/
def oldKey (date time run : Str) : Str := date ++ [95] ++ time ++ [95] ++ run

/-- `sorted` by the string key puts `a` before `b` (given in the order a, b) iff not key b < key a -/
def oldKeyLe (a b : Str × Str × Str) : Bool :=
  !(lexLt (oldKey b.1 b.2.1 b.2.2) (oldKey a.1 a.2.1 a.2.2))

/-! ## A.3  join: feature pruning -/

/-- repaired loop: `for feat in list(features): if feat not in ds.features: features.remove(feat)` -/
def pruneStep {α : Type} [DecidableEq α] (feats avail : List α) : List α :=
  feats.filter (fun f => decide (f ∈ avail))

/-- features of the joined file: innate features of the first file, pruned by every other file -/
def joinFeatures (first : Meas) (rest : List Meas) : List Feat :=
  rest.foldl (fun fs m => pruneStep fs m.avail) first.innate

/-- unrepaired loop (F10): `for feat in features: if bad(feat): features.remove(feat)` on a list
without duplicates — removing the element under the cursor makes the iterator skip the next
one, which is therefore kept unchecked. -/
def oldPass {α : Type} (bad : α → Bool) : List α → List α
  | [] => []
  | [x] => if bad x then [] else [x]
  | x :: y :: r => if bad x then y :: oldPass bad r else x :: oldPass bad (y :: r)

def oldPruneStep {α : Type} [DecidableEq α] (feats avail : List α) : List α :=
  oldPass (fun f => !decide (f ∈ avail)) feats

/-! ## A.4  join: event data -/

/-- Python's `round` on an exact rational: half to even -/
def roundHalfEven (q : Rat) : Int :=
  let f := q.floor
  let d := q - (f : Rat)
  if d < 1 / 2 then f else if 1 / 2 < d then f + 1 else if f % 2 = 0 then f else f + 1

/-- `1, 2, …` written by `RTDCWriter.store_feature("index", …)` after `base` events -/
def enumFrom (base cnt : Nat) : List Rat :=
  List.map (fun k : Nat => (k : Rat)) (List.range' (base + 1) cnt)

/-- what `join` appends to column `f` (currently holding `acc`) for input `m` with offset `ti` -/
def shiftCol (acc : List Rat) (m : Meas) (ti : Rat) : Feat → List Rat
  | .time => (m.col .time).map (· + ti)
  | .frame => (m.col .frame).map (· + ((roundHalfEven (ti * m.fr) : Int) : Rat))
  | .indexOnline =>
    (m.col .indexOnline).map (· + (match acc.getLast? with | some l => l + 1 | none => 0))
  | .index => enumFrom acc.length (m.col .index).length
  | .plain n => m.col (.plain n)

/-- the initial `ds0.export.hdf5(features=features, filtered=False)` -/
def firstCols (feats : List Feat) (m0 : Meas) : Feat → List Rat := fun f =>
  if f ∈ feats then
    (match f with
     | .index => enumFrom 0 (m0.col .index).length
     | _ => m0.col f)
  else []

/-- one round of the `for pi, ti in zip(sorted_paths[1:], t_offsets[1:])` loop -/
def appendMeas (feats : List Feat) (t0 : Rat) (out : Feat → List Rat) (m : Meas) :
    Feat → List Rat := fun f =>
  if f ∈ feats then out f ++ shiftCol (out f) m (m.ts - t0) f else out f

def srcPrefix (i : Nat) : String := "src-#" ++ toString i ++ "_"

/-- logs of source `i` (1-based) under their prefix -/
def prefixedLogs (i : Nat) (m : Meas) : List (String × List String) :=
  m.logs.map (fun nl => (srcPrefix i ++ nl.1, nl.2))

def joinLogsFrom : Nat → List Meas → List (String × List String)
  | _, [] => []
  | i, m :: r => prefixedLogs i m ++ joinLogsFrom (i + 1) r

/-- a measurement seen through its tables (so that everything proved about the prefixed logs
applies to the prefixed tables) -/
def Meas.asTables (m : Meas) : Meas := { m with logs := m.tables }

/-- tables: source #1 through `export.hdf5(tables=True, meta_prefix="src-#1_")`, the others through
`hw.store_table(name=meta_prefix + tab, …)` -/
def joinTablesFrom (i : Nat) (ms : List Meas) : List (String × List String) :=
  joinLogsFrom i (ms.map Meas.asTables)

/-- `index_online` of one more input: `dsi["index_online"] + (last value written so far + 1)`
(0 when nothing has been written yet) — observation O4 -/
def rebaseBase (acc : List Rat) : Rat := match acc.getLast? with | some l => l + 1 | none => 0

def rebaseStep (acc c : List Rat) : List Rat := acc ++ c.map (· + rebaseBase acc)

def rebaseAll (first : List Rat) (blocks : List (List Rat)) : List Rat :=
  blocks.foldl rebaseStep first

/-- total number of events of the inputs -/
def totalEvents (ms : List Meas) : Nat := (ms.map (fun m => (m.col .index).length)).sum

structure Joined where
  order   : List Nat                      -- tags of the inputs in processing order
  offsets : List Rat
  feats   : List Feat
  col     : Feat → List Rat
  logs    : List (String × List String)   -- source logs (cfg/command logs are not modelled)
  tables  : List (String × List String) := []
  /-- metadata: the export of the first input copies its configuration, then
  `hw.store_metadata({"experiment": {"run index": 1}})`; the writer keeps `event count` current -/
  cfg     : List (String × String) := []
  day     : Int := 0                      -- `experiment:date`
  sec     : Rat := 0                      -- `experiment:time`
  run     : Nat := 1                      -- `experiment:run index`
  count   : Nat := 0                      -- `experiment:event count`

/-- `join` on inputs that are already in processing order -/
def joinSorted : List Meas → Option Joined
  | [] => none
  | m0 :: rest =>
    let feats := joinFeatures m0 rest
    some { order := (m0 :: rest).map (·.tag)
           offsets := offsets (m0 :: rest)
           feats := feats
           col := rest.foldl (appendMeas feats m0.ts) (firstCols feats m0)
           logs := joinLogsFrom 1 (m0 :: rest)
           tables := joinTablesFrom 1 (m0 :: rest)
           cfg := m0.cfg, day := m0.day, sec := m0.sec, run := 1
           count := totalEvents (m0 :: rest) }

/-- `dclab.cli.join(paths_in, path_out)`; `none` = `ValueError` (fewer than two inputs) -/
def join (ms : List Meas) : Option Joined :=
  if ms.length < 2 then none else joinSorted (sortInputs ms)

/-- `export.hdf5(logs=True, tables=True)` without `meta_prefix`: logs and tables of the source are
kept under `src_<name>` -/
def exportPrefixed (l : List (String × List String)) : List (String × List String) :=
  l.map (fun nl => ("src_" ++ nl.1, nl.2))

/-- part `i` of `split x s` as a measurement (same metadata except the sample name, rows of
window `i`, source logs and tables under `src_<name>`) -/
def partOf (x : Meas) (N s i : Nat) : Meas :=
  { x with tag := i, col := fun f => sel (x.col f) (window N s i),
           logs := exportPrefixed x.logs, tables := exportPrefixed x.tables }

def splitMeas (x : Meas) (N s : Nat) : List Meas :=
  (List.range (numFiles N s)).map (partOf x N s)

/-! ### split when a part becomes empty

`split` exports the parts one after the other to `<stem>_%04d.rtdc~`; only after the last export
are the command log / sample name added and the temporaries renamed.  The export of a part without
any event raises `ValueError("Empty data object …")` after the temporary of that part has been
created: nothing is renamed and the temporaries of the parts `1 … k+1` stay behind. -/

/-- index of the first empty part -/
def firstEmpty : List (List Nat) → Option Nat
  | [] => none
  | p :: r => if p.isEmpty then some 0 else (firstEmpty r).map (· + 1)

inductive SplitOutcome where
  | ok (parts : List (List Nat))      -- final files `1 … parts.length`, no temporary left
  | error (temps : Nat)               -- `ValueError`; no final file, `temps` temporaries left
deriving DecidableEq, Repr

def splitRun (N s : Nat) (z0 zN : Bool) : SplitOutcome :=
  match firstEmpty (splitSkip N s z0 zN) with
  | none => .ok (splitSkip N s z0 zN)
  | some k => .error (k + 1)

/-! ## B  crash-safety automaton (C10) -/

abbrev Path := Nat

inductive Op where
  | unlink (p : Path)
  | create (p : Path)            -- `h5py.File(p, "w")`
  | write (p : Path) (id : Nat)  -- any dataset/group/attribute write or object copy into `p`
  | close (p : Path)
  | rename (p q : Path)
  | openRead (p : Path)
  | openAppend (p : Path)        -- `h5py.File(p, "a")` (creates the file when absent)
deriving DecidableEq, Repr

structure File where
  content : List Nat             -- ids of the writes the file has received
  openW   : Bool                 -- a writing handle is open
deriving DecidableEq, Repr

/-- the file system: an association list (at most one entry per path) -/
abbrev FS := List (Path × File)

def get : FS → Path → Option File
  | [], _ => none
  | (q, f) :: r, p => if q = p then some f else get r p

def upd (fs : FS) (p : Path) (v : Option File) : FS :=
  let rest := fs.filter (fun e => !decide (e.1 = p))
  match v with
  | some f => (p, f) :: rest
  | none => rest

def step (fs : FS) : Op → FS
  | .unlink p => upd fs p none
  | .create p => upd fs p (some { content := [], openW := true })
  | .write p id =>
    match get fs p with
    | some f => upd fs p (some { f with content := f.content ++ [id] })
    | none => fs
  | .close p =>
    match get fs p with
    | some f => upd fs p (some { f with openW := false })
    | none => fs
  | .rename p q =>
    match get fs p with
    | some f => upd (upd fs p none) q (some f)
    | none => fs
  | .openRead _ => fs
  | .openAppend p =>
    match get fs p with
    | some f => upd fs p (some { f with openW := true })
    | none => upd fs p (some { content := [], openW := true })

def run (fs : FS) (tr : List Op) : FS := tr.foldl step fs

/-- roles of the paths of one task invocation -/
structure Roles where
  ins   : List Path
  outs  : List Path
  temps : List Path

def Roles.wf (r : Roles) : Bool :=
  r.temps.all (fun t => !r.outs.contains t && !r.ins.contains t) &&
  r.outs.all (fun o => !r.ins.contains o)

/-- no writing handle (absent, or closed) -/
def quiet : Option File → Bool
  | none => true
  | some f => !f.openW

/-- paths whose existence, content or writing handle an operation may change -/
def mutated : Op → List Path
  | .unlink p => [p]
  | .create p => [p]
  | .write p _ => [p]
  | .openAppend p => [p]
  | .rename p q => [p, q]
  | .close _ => []
  | .openRead _ => []

/-- is `op` allowed in state `fs` when the paths in `dead` were already source or target of a
rename? -/
def okOp (r : Roles) (fs : FS) (dead : List Path) (op : Op) : Bool :=
  (mutated op).all (fun p => !r.ins.contains p && !dead.contains p) &&
  (match op with
   | .create p => r.temps.contains p
   | .write p _ => r.temps.contains p
   | .openAppend p => r.temps.contains p
   | .unlink p => r.temps.contains p || r.outs.contains p
   | .rename t o =>
     r.temps.contains t && r.outs.contains o &&
     (match get fs t with | some f => !f.openW | none => false)
   | .close _ => true
   | .openRead _ => true)

def deadAfter (dead : List Path) : Op → List Path
  | .rename p q => p :: q :: dead
  | _ => dead

/-- the protocol check, scanning the trace with the automaton state -/
def conformsFrom (r : Roles) : FS → List Path → List Op → Bool
  | _, _, [] => true
  | fs, dead, op :: rest =>
    okOp r fs dead op && conformsFrom r (step fs op) (deadAfter dead op) rest

/-- `Conforms tr ins outs temps` of DESIGN.md, relative to the initial file system -/
def Conforms (r : Roles) (fs0 : FS) (tr : List Op) : Bool := r.wf && conformsFrom r fs0 [] tr

/-- index of the first operation that breaks the protocol -/
def firstBad (r : Roles) : FS → List Path → List Op → Nat → Option Nat
  | _, _, [], _ => none
  | fs, dead, op :: rest, k =>
    if okOp r fs dead op then firstBad r (step fs op) (deadAfter dead op) rest (k + 1) else some k

/-- state after a crash at operation `k` (the first `k` operations were performed) -/
def crash (fs0 : FS) (tr : List Op) (k : Nat) : FS := run fs0 (tr.take k)

/-- what the `with` blocks / `finally` clauses do when operation `k` raises: close handles -/
def closeAll (fs : FS) : FS := fs.map (fun e => (e.1, { e.2 with openW := false }))

def fail (fs0 : FS) (tr : List Op) (k : Nat) : FS := closeAll (crash fs0 tr k)

/-- `o` holds exactly what the successful run leaves there, with no handle open -/
def Complete (fs0 : FS) (tr : List Op) (v : Option File) (o : Path) : Prop :=
  v = get (run fs0 tr) o ∧ ∃ f, v = some f ∧ f.openW = false

/-! ### two-run histories: leftovers of a failed run -/

/-- temporaries of `r` that do not exist in `fs` -/
def absentTemps (r : Roles) (fs : FS) : List Path := r.temps.filter (fun t => (get fs t).isNone)

/-- the file system without any (leftover) temporary -/
def eraseTemps (r : Roles) (fs : FS) : FS := fs.filter (fun e => !r.temps.contains e.1)

/-- paths whose current state an operation looks at (its effect, or what the program learns,
depends on them) -/
def reads : Op → List Path
  | .unlink _ => []
  | .create _ => []
  | .write p _ => [p]
  | .close p => [p]
  | .rename p _ => [p]
  | .openRead p => [p]
  | .openAppend p => [p]

/-- paths whose state after the operation no longer depends on what was there before -/
def resets : Op → List Path
  | .unlink p => [p]
  | .create p => [p]
  | _ => []

/-- "fresh temporaries": the run never looks at a temporary before it has removed or truncated
it (`known` = temporaries whose state is already independent of leftovers) -/
def freshFrom (temps : List Path) : List Path → List Op → Bool
  | _, [] => true
  | known, op :: rest =>
    (reads op).all (fun p => !temps.contains p || known.contains p) &&
    freshFrom temps (known ++ resets op) rest

/-- index of the first operation that looks at a leftover temporary -/
def firstStale (temps : List Path) : List Path → List Op → Nat → Option Nat
  | _, [], _ => none
  | known, op :: rest, k =>
    if (reads op).all (fun p => !temps.contains p || known.contains p)
    then firstStale temps (known ++ resets op) rest (k + 1) else some k

end DclabModel.Cli
