import DclabModel.Model.Hier
/-!
# Lazily filled caches of hierarchy children (property C04, session 4) — core Lean only

Layer on top of `Model/Hier.lean` (which keeps one eagerly refreshed identity array `ev` per
member).  Here the caches are modelled the way the code fills them — on first use:

* `events.py`  `ChildScalar.__array__`: `_array` is computed as
               `hparent[feat][hparent.filter.all]` at the **first read** and then kept for the
               lifetime of the object (`FC.arr`); reading the parent's feature is itself a cached
               read one level up (`readArr` recurses to the root);
               `ChildScalar._fetch_ufunc_attr`: `min`/`max`/`mean` are computed from
               `self.__array__()` on first use and kept in `_ufunc_attrs` (`FC.uf`, `summArr`);
* `base.py`    `RTDC_Hierarchy.apply_filter`: `self._events.clear()` drops all `ChildScalar`
               objects of the member (after the parent has been refreshed) and `_update_config`
               copies `config["calculation"]` from the parent (`auxApply`, same recursion as
               `Hier.applyFilter`); a refresh of an intermediate member leaves the members below
               it alone (`xstep (.base (.rejuvAt k))`);
* the root    is not a hierarchy child: its scalar features are plain arrays (`cols`), read and
               summarised without cache; they may change (`set_temporary_feature` on the root, a
               configuration change that recomputes an ancillary feature): `XOp.setCol`.

Chains are stored youngest first like in `Hier`; `a : List Aux` runs parallel to `s : List Level`.
Feature values are integers (NaN-free features); `ufn 2` is the numerator of `mean` (the
denominator is the length of the array).
-/
namespace DclabModel.HierCache
open DclabModel.Hier

/-- the cache of one scalar feature of one member: `ChildScalar._array`, `_ufunc_attrs` -/
structure FC where
  arr : Option (List Int) := none
  uf : List (Nat × Int) := []
deriving DecidableEq, Repr

/-- per-member state outside `Hier.Level`: `_events[feat]` for every cache-modelled scalar feature
and the `config["calculation"]` section (an opaque token) -/
structure Aux where
  fc : Nat → FC
  ccfg : Int

def emptyFC : FC := {}

/-- `np.nanmin` (0), `np.nanmax` (1) — `none` is numpy's ValueError on an empty array —,
numerator of `np.nanmean` (2) -/
def ufn : Nat → List Int → Option Int
  | 0, v => v.min?
  | 1, v => v.max?
  | _, v => some v.sum

def Aux.setArr (a : Aux) (f : Nat) (v : List Int) : Aux :=
  { a with fc := fun g => if g = f then { a.fc g with arr := some v } else a.fc g }

def Aux.addUf (a : Aux) (f u : Nat) (x : Int) : Aux :=
  { a with fc := fun g => if g = f then { a.fc g with uf := (u, x) :: (a.fc g).uf } else a.fc g }

/-- `np.asarray(L[feat])` for the head of the chain.  `alls` = `filter.all` of parent, grandparent,
…, root (as in `Hier.c2root`), `as` = caches of the member, its parent, …; `col` = the root's
data.  Returns the data and the caches afterwards. -/
def readArr (col : List Int) (f : Nat) : List (List Bool) → List Aux → List Int × List Aux
  | pf :: alls, a :: as =>
    match (a.fc f).arr with
    | some v => (v, a :: as)                    -- `_array` is not None
    | none =>
      let r := readArr col f alls as            -- hparent[feat]  (cached one level up)
      let v := sel pf r.1                       -- [hparent.filter.all]
      (v, a.setArr f v :: r.2)
  | _, as => (col, as)                          -- the root: the data themselves

/-- numpy raises `IndexError` ("boolean index did not match") inside `readArr` when this is
false: a member below a partial refresh whose `filter.all` has another length (other than 0) than
the array its parent reports now.  (`sel` truncates instead; `readArr` is only meaningful under this guard.
After a refresh from the youngest member the lengths agree: `Synced` of `Lemmas/Hier.lean`.) -/
def readOk (col : List Int) (f : Nat) : List (List Bool) → List Aux → Bool
  | pf :: alls, a :: as =>
    match (a.fc f).arr with
    | some _ => true
    | none =>
      -- (numpy accepts a boolean index of length 0 on an array of any length: the result is empty,
      -- which is also what `sel [] _` gives)
      readOk col f alls as && ((readArr col f alls as).1.length == pf.length || pf.length == 0)
  | _, _ => true

def modHead (g : Aux → Aux) : List Aux → List Aux
  | [] => []
  | a :: as => g a :: as

/-- `L[feat].min()/.max()/.mean()` (`_fetch_ufunc_attr`) for the head of the chain -/
def summArr (col : List Int) (f u : Nat) : List (List Bool) → List Aux → Option Int × List Aux
  | pf :: alls, a :: as =>
    match (a.fc f).uf.lookup u with
    | some x => (some x, a :: as)               -- cached "permanently"
    | none =>
      let r := readArr col f (pf :: alls) (a :: as)   -- ufunc(self.__array__())
      match ufn u r.1 with
      | some x => (some x, modHead (fun b => b.addUf f u x) r.2)
      | none => (none, r.2)                     -- the ufunc raised: nothing stored
  | _, as => (ufn u col, as)                    -- the root: a plain array

def headCalc : List Aux → Int
  | a :: _ => a.ccfg
  | [] => 0

/-- the cache part of `RTDC_Hierarchy.apply_filter`, in the order of the code: the parent is
refreshed first, then `_events.clear()` and `_update_config` (calculation := the parent's) -/
def auxApply : List Aux → List Aux
  | [] => []
  | [r] => [r]
  | _ :: p :: rest =>
    let ps := auxApply (p :: rest)
    { fc := fun _ => emptyFC, ccfg := headCalc ps } :: ps

structure X where
  s : List Level
  a : List Aux
  /-- root data of the cache-modelled scalar features -/
  cols : List (List Int)

inductive XOp where
  /-- an operation of `Hier` (range edit, manual edit, refresh of the youngest / of member `k`) -/
  | base (op : Op)
  /-- the root's data of feature `f` change -/
  | setCol (f : Nat) (v : List Int)
  /-- `root.config["calculation"]` changes -/
  | setCalc (v : Int)
  /-- `np.asarray(L_k[f])` -/
  | read (k f : Nat)
  /-- `L_k[f].min() / .max() / .mean()` (`u` = 0, 1, 2) -/
  | summ (k f u : Nat)

def refreshPos : Op → Option Nat
  | .rejuv => some 0
  | .rejuvAt k => some k
  | _ => none

def allsFrom (s : List Level) (k : Nat) : List (List Bool) := (s.drop (k + 1)).map (·.all)

def col (x : X) (f : Nat) : List Int := x.cols.getD f []

def readAt (x : X) (k f : Nat) : List Int × List Aux :=
  readArr (col x f) f (allsFrom x.s k) (x.a.drop k)

def summAt (x : X) (k f u : Nat) : Option Int × List Aux :=
  summArr (col x f) f u (allsFrom x.s k) (x.a.drop k)

/-- what `np.asarray(L_k[f])` returns in state `x` -/
def readVal (x : X) (k f : Nat) : List Int := (readAt x k f).1

/-- what `L_k[f].min()` … returns in state `x` -/
def summVal (x : X) (k f u : Nat) : Option Int := (summAt x k f u).1

def setLastCalc (v : Int) : List Aux → List Aux
  | [] => []
  | [r] => [{ r with ccfg := v }]
  | a :: as => a :: setLastCalc v as

def xstep (D : Data) (x : X) : XOp → X
  | .base op =>
    { x with
      s := step true true D x.s op
      a := match refreshPos op with
        | some k => x.a.take k ++ auxApply (x.a.drop k)
        | none => x.a }
  | .setCol f v => { x with cols := x.cols.set f v }
  | .setCalc v => { x with a := setLastCalc v x.a }
  | .read k f => { x with a := x.a.take k ++ (readAt x k f).2 }
  | .summ k f u => { x with a := x.a.take k ++ (summAt x k f u).2 }

def xrun (D : Data) (x : X) (h : List XOp) : X := h.foldl (xstep D) x

def emptyAux (cc : Int) : Aux := { fc := fun _ => emptyFC, ccfg := cc }

/-- root + `d` children, all caches empty, every member's calculation section = the root's -/
def xinit (D : Data) (d : Nat) (cols : List (List Int)) (cc : Int) : X :=
  { s := initChain true true D d, a := List.replicate (d + 1) (emptyAux cc), cols := cols }

end DclabModel.HierCache
