import DclabModel.Model.Filter
/-!
# `Filter.update`: error paths, ignored settings keys, the global random state (property C03)

Extends `Model/Filter.lean` (which stops at `Out.unmodelled` when a polygon filter's axes are
missing and assumes that forced names are valid):

* `updateX pk known …` mirrors **all** exits of `Filter.update`
  (`/repo/dclab/rtdc_dataset/filter.py`):
  1. `_init_rtdc_ds` (cache pruning) and step 1 (`arr_invalid`) always run (`pruned`);
  2. `for f in force:` raises `ValueError` for a name that is no scalar feature
     (`known f = dfn.scalar_feature_exists(name of f)`) – nothing else has happened;
  3. a half-set range raises `ValueError` before any box filter is recomputed (`fix-F25`);
  4. a polygon filter of the settings whose axes are not in the dataset raises `KeyError`
     (`rtdc_ds[pf.axes[i]]`).  `pk = false` is the code as found: the `KeyError` comes out of the
     polygon loop, *after* the box filters of the changed features were recomputed and
     `arr_box` was stored, and after the polygon filters in front of the offending one were
     cached; `_old_config` is not updated.  `pk = true` is the code after `fix-F73`: polygon axes
     are validated together with the ranges, before anything is recomputed;
* `OpX.setParent` is an assignment to `config["filtering"]["hierarchy parent"]`, the one key of
  the section that `update` puts into `newkeys` and then ignores
  (`dfn.scalar_feature_exists(k[:-4]) and k.endswith(" min"/" max")` is false for it); keys that
  are no valid `[filtering]` keys never reach the settings (`ConfigurationDict.__setitem__`
  drops them), so there is nothing to model for them;
* `Rng`, `limitG`: `downsample_rand` works on NumPy's *global* generator and re-seeds it with
  `RandomState(47)` on every call.
Core Lean only.
-/
namespace DclabModel.Filter
open DclabModel.Down (Val sel scatter cnt rand)

/-- the state after `_init_rtdc_ds` and step 1 of `update` only: caches of vanished features /
polygon filters dropped, `arr_invalid` refreshed -/
def pruned (d : Data) (cfg : Cfg) (reg : Nat → Poly) (st : FState) : FState :=
  { st with box := st.box.filter (fun e => d.has e.1),
            poly := st.poly.filter (fun e => cfg.polys.contains e.1 && d.has (reg e.1).ax
                                             && d.has (reg e.1).ay),
            aInv := toList d.n (invalidMask d cfg.removeInvalid) }

/-- both axes of polygon filter `id` are features of the dataset -/
def axesOK (d : Data) (reg : Nat → Poly) (id : Nat) : Bool :=
  d.has (reg id).ax && d.has (reg id).ay

/-- `Filter.update(rtdc_ds, force)` with all its exits -/
def updateX (pk : Bool) (known : Feat → Bool) (choice : List Nat → Nat → List Nat)
    (pip : Nat → Val → Val → Bool) (d : Data) (cfg : Cfg) (reg : Nat → Poly)
    (force : List Feat) (st : FState) : FState × Out :=
  if force.all known then
    if polysOK d reg cfg.polys then update .f25 choice pip d cfg reg force st
    else
      let p := pruned d cfg reg st
      let fs := feat2filter true cfg.ranges st.old force
      if pk then
        -- validation of ranges, then of polygon axes; nothing recomputed
        (p, if fs.any (halfSet cfg.ranges) then .errValue else .errKey)
      else if fs.any (halfSet cfg.ranges) then (p, .errValue)
      else
        -- box filters recomputed and stored, polygon loop runs up to the offending filter
        let box1 := boxFold cfg.ranges d fs p.box
        ({ p with box := box1,
                  poly := (cfg.polys.takeWhile (axesOK d reg)).foldl (polyStep pip d reg) p.poly,
                  aBox := toList d.n (fun i => box1.all (fun e => e.2 i)) }, .errKey)
  else (pruned d cfg reg st, .errValue)

/-- settings-side state plus the ignored key -/
structure SysX where
  sys : Sys
  parent : Nat            -- token of `cfg["hierarchy parent"]`; `0` = `"none"`

inductive OpX where
  | base (op : Op)
  | setParent (v : Nat)   -- `cfg["hierarchy parent"] = …`

def SysX.init (n : Nat) : SysX := { sys := Sys.init n, parent := 0 }

def stepX (pk : Bool) (known : Feat → Bool) (choice : List Nat → Nat → List Nat)
    (pip : Nat → Val → Val → Bool) (d : Data) (s : SysX) (op : OpX) : SysX × Out :=
  match op with
  | .setParent v => ({ s with parent := v }, .ok)
  | .base (.apply force) =>
    let r := updateX pk known choice pip d s.sys.cfg s.sys.reg force s.sys.st
    ({ s with sys := { s.sys with st := r.1 } }, r.2)
  | .base bop =>
    let r := step .f25 choice pip d s.sys bop
    -- `reset_filter` (`_init_default_filter_values`) also re-assigns `hierarchy parent = "none"`
    ({ sys := r.1, parent := match bop with | .reset => 0 | _ => s.parent }, r.2)

/-- for every `apply` of the history: `some ds.filter.all` if it succeeded, `none` if it raised -/
def runAllX (pk : Bool) (known : Feat → Bool) (choice : List Nat → Nat → List Nat)
    (pip : Nat → Val → Val → Bool) (d : Data) : SysX → List OpX → List (Option (List Bool))
  | _, [] => []
  | s, op :: ops =>
    let r := stepX pk known choice pip d s op
    match op with
    | .base (.apply _) =>
      (if r.2 = .ok then some r.1.sys.st.aAll else none) :: runAllX pk known choice pip d r.1 ops
    | _ => runAllX pk known choice pip d r.1 ops

def runX (pk : Bool) (known : Feat → Bool) (choice : List Nat → Nat → List Nat)
    (pip : Nat → Val → Val → Bool) (d : Data) : SysX → List OpX → SysX
  | s, [] => s
  | s, op :: ops => runX pk known choice pip d (stepX pk known choice pip d s op).1 ops

/-- **Stateless** criterion: does `apply_filter(force)` raise at these settings? -/
def applyRaises (known : Feat → Bool) (d : Data) (cfg : Cfg) (reg : Nat → Poly)
    (force : List Feat) : Bool :=
  !(force.all known) || anyHalf cfg.ranges || !(polysOK d reg cfg.polys)

/-- which exception: `ValueError` for an unknown forced name or a half-set range, otherwise
`KeyError` for a polygon filter without its axes -/
def applyOut (known : Feat → Bool) (d : Data) (cfg : Cfg) (reg : Nat → Poly)
    (force : List Feat) : Out :=
  if !(force.all known) || anyHalf cfg.ranges then .errValue
  else if polysOK d reg cfg.polys then .ok else .errKey

def specApplyX (known : Feat → Bool) (choice : List Nat → Nat → List Nat)
    (pip : Nat → Val → Val → Bool) (d : Data) (cfg : Cfg) (reg : Nat → Poly) (manual : Mask)
    (force : List Feat) : Option (List Bool) :=
  if applyRaises known d cfg reg force then none else some (spec choice pip d cfg reg manual)

/-- the specification run over extended histories: tracks settings, registry, manual array;
`hierarchy parent` is not even stored -/
def specAllX (known : Feat → Bool) (choice : List Nat → Nat → List Nat)
    (pip : Nat → Val → Val → Bool) (d : Data) :
    Cfg → (Nat → Poly) → Mask → List OpX → List (Option (List Bool))
  | _, _, _, [] => []
  | cfg, reg, manual, .setParent _ :: ops => specAllX known choice pip d cfg reg manual ops
  | cfg, reg, manual, .base op :: ops =>
    let r := cfgStep cfg reg manual op
    match op with
    | .apply force =>
      specApplyX known choice pip d cfg reg manual force ::
        specAllX known choice pip d r.1 r.2.1 r.2.2.1 ops
    | _ => specAllX known choice pip d r.1 r.2.1 r.2.2.1 ops

/-- the guard needed for the code as found (`pk = false`): polygon filters in the settings
have their axes in the dataset at every `apply` (unknown forced names and half-set ranges are
allowed) -/
def ValidHistX (pk : Bool) (known : Feat → Bool) (choice : List Nat → Nat → List Nat)
    (pip : Nat → Val → Val → Bool) (d : Data) : SysX → List OpX → Prop
  | _, [] => True
  | s, op :: ops =>
    (match op with
     | .base (.apply _) => ValidAt d s.sys
     | _ => True) ∧ ValidHistX pk known choice pip d (stepX pk known choice pip d s op).1 ops

/-- erase the assignments to the ignored key -/
def dropParent : List OpX → List OpX
  | [] => []
  | .setParent _ :: ops => dropParent ops
  | .base op :: ops => .base op :: dropParent ops

/-! ## the global random state -/

/-- NumPy's global generator: `draw g n k` is `np.random.choice(np.arange(n), k, replace=False)`
started in state `g` (drawn positions, state afterwards); `seed47` is the state of
`RandomState(seed=47)` -/
structure Rng (G : Type) where
  seed47 : G
  draw : G → Nat → Nat → List Nat × G

/-- the `choice` a call of `downsample_rand` sees when the global state is `g` on entry;
`reseed` = the two lines `rs = RandomState(47).get_state(); np.random.set_state(rs)` -/
def Rng.choiceAt {G : Type} (R : Rng G) (reseed : Bool) (g : G) : List Nat → Nat → List Nat :=
  fun pool k => (R.draw (if reseed then R.seed47 else g) pool.length k).1

/-- the pure function the re-seeding turns the draw into -/
def Rng.pick {G : Type} (R : Rng G) : List Nat → Nat → List Nat :=
  fun pool k => (R.draw R.seed47 pool.length k).1

/-- "limit events" on the global generator -/
def limitG {G : Type} (R : Rng G) (reseed : Bool) (g : G) (limit : Nat) (pre : List Bool) :
    List Bool := limitL (R.choiceAt reseed g) limit pre

/-- a history in which the global generator is in an arbitrary state `env i` when the `i`-th
operation starts (other code – and earlier applies – may have drawn from it or re-seeded it) -/
def runAllG {G : Type} (R : Rng G) (reseed : Bool) (pk : Bool) (known : Feat → Bool)
    (pip : Nat → Val → Val → Bool) (d : Data) :
    (Nat → G) → SysX → List OpX → List (Option (List Bool))
  | _, _, [] => []
  | env, s, op :: ops =>
    let r := stepX pk known (R.choiceAt reseed (env 0)) pip d s op
    match op with
    | .base (.apply _) =>
      (if r.2 = .ok then some r.1.sys.st.aAll else none) ::
        runAllG R reseed pk known pip d (fun i => env (i + 1)) r.1 ops
    | _ => runAllG R reseed pk known pip d (fun i => env (i + 1)) r.1 ops

end DclabModel.Filter
