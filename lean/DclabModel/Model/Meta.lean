/-!
# Model of dclab's metadata normalisation (property C11) — core Lean only

Mirrors, branch by branch,
* `dclab/definitions/meta_parse.py` (the converters `fbool, fint, fintlist, f1dfloatduple,
  f2dfloatarray, fboolorfloat, lcstr` and the builtins `float`, `str` used as converters),
* `dclab/definitions/meta_logic.py` (`config_key_exists`, `get_config_value_func/type`),
* `dclab/rtdc_dataset/config.py` (`ConfigurationDict.__setitem__/update`, `verify_section_key`,
  the conversion step of `load_from_file`),
* the type map of the HDF5 attribute layer (`h5`; measured with h5py by the harness at start-up
  and compared with this definition).

Conventions.  Python strings are lists of code points (`Str = List Nat`, kernel-friendly); `str.lower()` is
ASCII lower-casing ( the
harness only uses caseless non-ASCII characters).  Floats are exact rationals or `nan/±inf`
(no rounding: DESIGN section 5) — `float("0.1")` is the rational 1/10, so the correspondence uses
numeric strings that denote doubles exactly.  Errors are the enum of `harness.common.err_class`
(`value`, `type`, `other` = AttributeError/OverflowError) plus `unmodelled`.

The key table itself is **data** and lives in the regenerated `Gen/MetaTable.lean`; everything
here takes it as the parameter `Tbl`.
-/
namespace DclabModel.Meta

abbrev Str := List Nat

/-- literal -/
def lit (s : String) : Str := s.toList.map Char.toNat

/-- a Python float -/
inductive F where
  | fin (q : Rat) | nan | pinf | ninf
  deriving DecidableEq, Repr

inductive Err where
  | value | type | other | unmodelled
  deriving DecidableEq, Repr

/-- scalar Python values -/
inductive Scal where
  | str (s : Str) | bytes (s : Str) | int (z : Int) | float (x : F) | bool (b : Bool)
  | npInt (z : Int) | npFloat (x : F) | npBool (b : Bool) | none
  deriving DecidableEq, Repr

/-- element of a numeric numpy array (dtype kind per element; real arrays are homogeneous) -/
inductive Num where
  | i (z : Int) | f (x : F) | b (v : Bool)
  deriving DecidableEq, Repr

/-- the Python values that can be assigned to a configuration key -/
inductive PyVal where
  | sc (s : Scal)
  | list (xs : List Scal) | tuple (xs : List Scal)
  | list2 (rows : List (List Scal))
  | arr0 (x : Num) | arr1 (xs : List Num) | arr2 (rows : List (List Num))
  deriving DecidableEq, Repr

open PyVal Except

deriving instance DecidableEq for Except

/-! ## strings -/

/-- `chr(c).lower()` for ASCII -/
def lowerC (c : Nat) : Nat := if 65 ≤ c ∧ c ≤ 90 then c + 32 else c
def upperC (c : Nat) : Nat := if 97 ≤ c ∧ c ≤ 122 then c - 32 else c
def lower (s : Str) : Str := s.map lowerC
def upper (s : Str) : Str := s.map upperC

def isSpace (c : Nat) : Bool :=
  c = 32 || c = 9 || c = 10 || c = 13 || c = 11 || c = 12

def stripBy (p : Nat → Bool) (s : Str) : Str :=
  ((s.dropWhile p).reverse.dropWhile p).reverse

/-- `str.strip()` -/
def strip (s : Str) : Str := stripBy isSpace s

/-- `str.split(sep)` for a one-character separator -/
def splitOn (sep : Nat) : Str → List Str
  | [] => [[]]
  | c :: cs =>
    if c = sep then [] :: splitOn sep cs
    else match splitOn sep cs with
      | [] => [[c]]
      | h :: t => (c :: h) :: t

/-- `s.split(" ", 1)[0]` -/
def firstWord (s : Str) : Str := s.takeWhile (· ≠ 32)

def endsWith (s suf : Str) : Bool := suf.isSuffixOf s
def startsWith (s pre : Str) : Bool := pre.isPrefixOf s

/-! ## numbers -/

def F.ofInt (z : Int) : F := .fin (Rat.ofInt z)
def F.ofBool (b : Bool) : F := .fin (Rat.ofInt (if b then 1 else 0))

/-- `x == 0` -/
def F.isZero : F → Bool
  | .fin q => q.num == 0
  | _ => false

/-- `bool(x)` -/
def F.truth (x : F) : Bool := !x.isZero

def F.neg : F → F
  | .fin q => .fin (-q) | .nan => .nan | .pinf => .ninf | .ninf => .pinf

/-- `int(x)` for a float: truncation towards zero -/
def F.toInt : F → Except Err Int
  | .fin q => ok (Int.tdiv q.num q.den)
  | .nan => error .value          -- ValueError: cannot convert float NaN to integer
  | _ => error .other             -- OverflowError

def digit? (c : Nat) : Option Nat :=
  if 48 ≤ c ∧ c ≤ 57 then some (c - 48) else none

/-- consume decimal digits: (accumulated value, number of digits, rest) -/
def digits : Str → Nat → Nat → Nat × Nat × Str
  | [], acc, n => (acc, n, [])
  | c :: cs, acc, n =>
    match digit? c with
    | some d => digits cs (acc * 10 + d) (n + 1)
    | .none => (acc, n, c :: cs)

def parseUnsigned (s : Str) : Option F :=
  let l := lower s
  if l = [105,110,102] ∨ l = [105,110,102,105,110,105,116,121] then some .pinf
  else if l = [110,97,110] then some .nan
  else
    let (ip, ni, r1) := digits s 0 0
    let (m, nf, r2) := match r1 with
      | 46 :: r => digits r ip 0
      | _ => (ip, 0, r1)
    if ni + nf = 0 then none else
    match r2 with
    | [] => some (.fin (mkRat m (10 ^ nf)))
    | e :: r3 =>
      if e = 101 ∨ e = 69 then
        let (neg, r4) := match r3 with
          | 45 :: r => (true, r)
          | 43 :: r => (false, r)
          | _ => (false, r3)
        let (ex, ne, r5) := digits r4 0 0
        if ne = 0 ∨ r5 ≠ [] then none
        else some (.fin (if neg then mkRat m (10 ^ (nf + ex)) else mkRat (m * 10 ^ ex) (10 ^ nf)))
      else none

/-- Python's `float(str)` grammar (without digit-group underscores), exact value -/
def parseFloat (s : Str) : Option F :=
  match strip s with
  | 45 :: r => (parseUnsigned r).map F.neg
  | 43 :: r => parseUnsigned r
  | t => parseUnsigned t

def parseF (s : Str) : Except Err F :=
  match parseFloat s with
  | some x => ok x
  | .none => error .value

def Num.toF : Num → F
  | .i z => F.ofInt z | .f x => x | .b v => F.ofBool v

def Num.isZero (x : Num) : Bool := x.toF.isZero

/-- the numpy scalar `a[i]` -/
def Num.toScal : Num → Scal
  | .i z => .npInt z | .f x => .npFloat x | .b v => .npBool v

/-- `float(x)` for scalars -/
def Scal.toF : Scal → Except Err F
  | .str s => parseF s
  | .bytes s => parseF s
  | .int z => ok (F.ofInt z)
  | .float x => ok x
  | .bool b => ok (F.ofBool b)
  | .npInt z => ok (F.ofInt z)
  | .npFloat x => ok x
  | .npBool b => ok (F.ofBool b)
  | .none => error .type

/-- `float(value)`; numpy ≥ 2 refuses arrays with ndim > 0 (measured at start-up) -/
def pyFloat : PyVal → Except Err F
  | sc s => s.toF
  | arr0 x => ok x.toF
  | _ => error .type

/-- `bool(x)` of a scalar -/
def Scal.truthy : Scal → Bool
  | .str s => s ≠ []
  | .bytes s => s ≠ []
  | .int z => z ≠ 0
  | .float x => x.truth
  | .bool b => b
  | .npInt z => z ≠ 0
  | .npFloat x => x.truth
  | .npBool b => b
  | .none => false

/-- `x == 0` of a scalar -/
def Scal.eqZero : Scal → Bool
  | .int z => z == 0
  | .float x => x.isZero
  | .bool b => !b
  | .npInt z => z == 0
  | .npFloat x => x.isZero
  | .npBool b => !b
  | _ => false

/-! ## the converters of `meta_parse.py` -/

/-- `fbool` -/
def fboolCore : PyVal → Except Err Bool
  | sc (.str s) =>
    let l := lower s
    if l = [102,97,108,115,101] then ok false
    else if l = [116,114,117,101] then ok true
    else if l ≠ [] then (parseF l).map F.truth
    else error .value
  | v => (pyFloat v).map F.truth

/-- `fint` -/
def fintCore : PyVal → Except Err Int
  | sc (.str s) =>
    let l := lower s
    if l = [102,97,108,115,101] then ok 0
    else if l = [116,114,117,101] then ok 1
    else if l ≠ [] then parseF l >>= F.toInt
    else error .value
  | v => pyFloat v >>= F.toInt

/-- loop of `fintlist`; `keep` is the guard of the `if` in the loop body -/
def fintItems (keep : Scal → Bool) : List Scal → Except Err (List Int)
  | [] => ok []
  | it :: r =>
    if keep it then
      match fintCore (sc it) with
      | ok z => (fintItems keep r).map (z :: ·)
      | error e => error e
    else fintItems keep r

/-- guard after fix F34: `if it or it == 0` (zeros are integers, not empty entries) -/
def keepFixed (it : Scal) : Bool := it.truthy || it.eqZero
/-- guard before fix F34: `if it` (drops 0, 0.0, False) -/
def keepOld (it : Scal) : Bool := it.truthy

def isListChar (c : Nat) : Bool := c = 91 || c = 93 || c = 32

def fintlistWith (keep : Scal → Bool) : PyVal → Except Err (List Int)
  | list xs => fintItems keep xs
  | tuple xs => fintItems keep xs
  | list2 rows => if rows.all List.isEmpty then ok [] else error .type   -- `fint([..])`
  | sc (.str s) => fintItems keep ((splitOn 44 (stripBy isListChar (strip s))).map Scal.str)
  | sc (.bytes _) => error .type        -- bytes.strip("[] ")
  | _ => error .other                  -- AttributeError: no attribute 'strip'

def fintlistCore := fintlistWith keepFixed

def rectangular {α : Type} : List (List α) → Bool
  | [] => true
  | r :: rs => rs.all (fun x => x.length == r.length)

/-- `np.array(value).ndim` -/
def ndim : PyVal → Except Err Nat
  | sc _ => ok 0
  | arr0 _ => ok 0
  | list _ => ok 1
  | tuple _ => ok 1
  | arr1 _ => ok 1
  | arr2 _ => ok 2
  | list2 rows => if rectangular rows then ok 2 else error .value

def floatItems : List Scal → Except Err (List F)
  | [] => ok []
  | it :: r =>
    match it.toF with
    | ok x => (floatItems r).map (x :: ·)
    | error e => error e

/-- `f1dfloatduple` -/
def f1dCore (v : PyVal) : Except Err (F × F) :=
  match ndim v with
  | error e => error e
  | ok n =>
    if n ≠ 1 then error .value else
    let items : List Scal := match v with
      | list xs => xs
      | tuple xs => xs
      | arr1 xs => xs.map Num.toScal
      | _ => []
    match floatItems items with
    | error e => error e
    | ok [a, b] => ok (a, b)
    | ok _ => error .value

/-- result of `np.array(value, dtype=np.float64)` -/
inductive ArrF where
  | a0 (x : F) | a1 (xs : List F) | a2 (rows : List (List F))
  deriving DecidableEq, Repr

/-- numpy's element conversion to float64 (`None` becomes nan) -/
def Scal.npF : Scal → Except Err F
  | .none => ok .nan
  | s => s.toF

def npItems : List Scal → Except Err (List F)
  | [] => ok []
  | it :: r =>
    match it.npF with
    | ok x => (npItems r).map (x :: ·)
    | error e => error e

def npRows : List (List Scal) → Except Err (List (List F))
  | [] => ok []
  | row :: r =>
    match npItems row with
    | ok x => (npRows r).map (x :: ·)
    | error e => error e

/-- `f2dfloatarray` (note: the code does not check that the result is 2-dimensional) -/
def f2dCore : PyVal → Except Err ArrF
  | sc s => s.npF.map .a0
  | list xs => (npItems xs).map .a1
  | tuple xs => (npItems xs).map .a1
  | list2 rows => if rectangular rows then (npRows rows).map .a2 else error .value
  | arr0 x => ok (.a0 x.toF)
  | arr1 xs => ok (.a1 (xs.map Num.toF))
  | arr2 rows => ok (.a2 (rows.map (·.map Num.toF)))

inductive BF where
  | b (v : Bool) | f (x : F)
  deriving DecidableEq, Repr

/-- truth value of `value == 0` -/
def eqZero : PyVal → Except Err Bool
  | sc s => ok s.eqZero
  | arr0 x => ok x.isZero
  | arr1 [x] => ok x.isZero
  | arr1 _ => error .value            -- truth value of an array is ambiguous
  | arr2 [[x]] => ok x.isZero
  | arr2 _ => error .value
  | _ => ok false

def isStrOrBool : PyVal → Bool
  | sc (.str _) => true | sc (.bool _) => true | _ => false
def isNpBool : PyVal → Bool
  | sc (.npBool _) => true | _ => false
/-- `isinstance(value, (int, float))`; numpy's float64 derives from `float` -/
def isPyIntFloat : PyVal → Bool
  | sc (.int _) => true | sc (.float _) => true | sc (.npFloat _) => true | _ => false
/-- `isinstance(value, (int, float, np.integer, np.floating))` -/
def isRealScalar : PyVal → Bool
  | sc (.int _) => true | sc (.float _) => true | sc (.npFloat _) => true | sc (.npInt _) => true
  | _ => false

/-- `fboolorfloat` after fix F12: numpy booleans count as booleans, numpy integers/floats as
numbers -/
def fbofCore (v : PyVal) : Except Err BF :=
  if isStrOrBool v || isNpBool v then (fboolCore v).map .b
  else match eqZero v with
    | error e => error e
    | ok true => (fboolCore v).map .b
    | ok false =>
      if isRealScalar v then (pyFloat v).map .f
      else error .value

/-- `fboolorfloat` before fix F12 -/
def fbofOld (v : PyVal) : Except Err BF :=
  if isStrOrBool v then (fboolCore v).map .b
  else match eqZero v with
    | error e => error e
    | ok true => (fboolCore v).map .b
    | ok false =>
      if isPyIntFloat v then (pyFloat v).map .f
      else error .value

/-- `lcstr` (`astr.lower()`: works for `str` and — returning `bytes` — for `bytes`) -/
def lcstrCore : PyVal → Except Err Scal
  | sc (.str s) => ok (.str (lower s))
  | sc (.bytes s) => ok (.bytes (lower s))
  | _ => error .other

/-! ### `str(value)` -/

def natDigits (n : Nat) : Str := lit (toString n)

/-- smallest `k ≤ fuel` with `d ∣ 10^k` -/
def decExp (d : Nat) : Nat → Nat → Option Nat
  | 0, k => if 10 ^ k % d = 0 then some k else none
  | fuel + 1, k => if 10 ^ k % d = 0 then some k else decExp d fuel (k + 1)

/-- `repr(float)` for values with a short terminating decimal expansion inside
`[1e-4, 1e16)`; everything else is not modelled -/
def reprF : F → Except Err Str
  | .nan => ok ([110,97,110])
  | .pinf => ok ([105,110,102])
  | .ninf => ok (lit "-inf")
  | .fin q =>
    match decExp q.den 15 0 with
    | .none => error .unmodelled
    | some k =>
      let a := q.num.natAbs * (10 ^ k / q.den)       -- |q| = a / 10^k
      let ip := a / 10 ^ k
      let fp := a % 10 ^ k
      let fd := natDigits fp
      let frac := List.replicate (k - fd.length) 48 ++ fd
      let sign : Str := if q.num < 0 then [45] else []
      if a ≠ 0 ∧ (a < 10 ^ k / 10000 ∨ ip ≥ 10 ^ 16) then error .unmodelled
      else if (natDigits a).length > 15 then error .unmodelled
      else ok (sign ++ natDigits ip ++ [46] ++ (if k = 0 then [48] else frac))

def intStr (z : Int) : Str := lit (toString z)

/-- printable ASCII without quote and backslash: `repr(bytes)` is then `b8230` -/
def plainAscii (s : Str) : Bool := s.all (fun c => 32 ≤ c ∧ c ≤ 126 ∧ c ≠ 39 ∧ c ≠ 92)

def strCore : PyVal → Except Err Str
  | sc (.str s) => ok s
  | sc (.bytes s) => if plainAscii s then ok (lit "b'" ++ s ++ lit "'") else error .unmodelled
  | sc (.int z) => ok (intStr z)
  | sc (.npInt z) => ok (intStr z)
  | sc (.bool b) => ok (lit (if b then "True" else "False"))
  | sc (.npBool b) => ok (lit (if b then "True" else "False"))
  | sc (.float x) => reprF x
  | sc (.npFloat x) => reprF x
  | sc .none => ok (lit "None")
  | arr0 (.i z) => ok (intStr z)
  | arr0 (.b b) => ok (lit (if b then "True" else "False"))
  | arr0 (.f x) => reprF x
  | _ => error .unmodelled            -- repr of sequences / numpy array formatting

/-! ## the nine converters as functions `PyVal → Except Err PyVal` -/

inductive Conv where
  | fbool | fint | fintlist | f1dfloatduple | f2dfloatarray | fboolorfloat | lcstr | float | str
  deriving DecidableEq, Repr

def ArrF.wrap : ArrF → PyVal
  | .a0 x => arr0 (.f x)
  | .a1 xs => arr1 (xs.map .f)
  | .a2 rows => arr2 (rows.map (·.map .f))

def BF.wrap : BF → PyVal
  | .b v => sc (.bool v)
  | .f x => sc (.float x)

def wrapInts (zs : List Int) : PyVal := list (zs.map Scal.int)
def wrapPair (p : F × F) : PyVal := tuple [.float p.1, .float p.2]

def conv : Conv → PyVal → Except Err PyVal
  | .fbool, v => (fboolCore v).map (fun b => sc (.bool b))
  | .fint, v => (fintCore v).map (fun z => sc (.int z))
  | .fintlist, v => (fintlistCore v).map wrapInts
  | .f1dfloatduple, v => (f1dCore v).map wrapPair
  | .f2dfloatarray, v => (f2dCore v).map ArrF.wrap
  | .fboolorfloat, v => (fbofCore v).map BF.wrap
  | .lcstr, v => (lcstrCore v).map sc
  | .float, v => (pyFloat v).map (fun x => sc (.float x))
  | .str, v => (strCore v).map (fun s => sc (.str s))

/-- the converters of the unrepaired code (F12: `fboolorfloat`, F34: `fintlist`) -/
def convOld : Conv → PyVal → Except Err PyVal
  | .fboolorfloat, v => (fbofOld v).map BF.wrap
  | .fintlist, v => (fintlistWith keepOld v).map wrapInts
  | c, v => conv c v

def Conv.ofName (s : String) : Option Conv :=
  if s = "fbool" then some .fbool else if s = "fint" then some .fint
  else if s = "fintlist" then some .fintlist
  else if s = "f1dfloatduple" then some .f1dfloatduple
  else if s = "f2dfloatarray" then some .f2dfloatarray
  else if s = "fboolorfloat" then some .fboolorfloat
  else if s = "lcstr" then some .lcstr else if s = "float" then some .float
  else if s = "str" then some .str else none

/-! ## documented types (`meta_parse.func_types`, `isinstance`) -/

inductive Ty where
  | str | tupleOrArray | ndarray | bool | boolOrFloat | integral | list | number
  deriving DecidableEq, Repr

/-- names as rendered by the translator: `module.qualname` joined with `|` -/
def Ty.ofName (s : String) : Option Ty :=
  if s = "builtins.str" then some .str
  else if s = "builtins.tuple|numpy.ndarray" then some .tupleOrArray
  else if s = "numpy.ndarray" then some .ndarray
  else if s = "builtins.bool|numpy.bool" then some .bool
  else if s = "builtins.bool|numpy.bool|builtins.float" then some .boolOrFloat
  else if s = "numbers.Integral" then some .integral
  else if s = "builtins.list" then some .list
  else if s = "numbers.Number" then some .number
  else none

/-- `func_types[c]`; `str` is its own type and `float` is documented as `numbers.Number` -/
def Conv.doc : Conv → Ty
  | .fbool => .bool | .fint => .integral | .fintlist => .list
  | .f1dfloatduple => .tupleOrArray | .f2dfloatarray => .ndarray
  | .fboolorfloat => .boolOrFloat | .lcstr => .str | .float => .number | .str => .str

/-- `isinstance(v, T)` (an `npFloat` is a float64, which derives from `float`) -/
def hasType : PyVal → Ty → Bool
  | sc (.str _), .str => true
  | tuple _, .tupleOrArray => true
  | arr0 _, .tupleOrArray => true
  | arr1 _, .tupleOrArray => true
  | arr2 _, .tupleOrArray => true
  | arr0 _, .ndarray => true
  | arr1 _, .ndarray => true
  | arr2 _, .ndarray => true
  | sc (.bool _), .bool => true
  | sc (.npBool _), .bool => true
  | sc (.bool _), .boolOrFloat => true
  | sc (.npBool _), .boolOrFloat => true
  | sc (.float _), .boolOrFloat => true
  | sc (.npFloat _), .boolOrFloat => true
  | sc (.int _), .integral => true
  | sc (.bool _), .integral => true
  | sc (.npInt _), .integral => true
  | list _, .list => true
  | list2 _, .list => true
  | sc (.int _), .number => true
  | sc (.bool _), .number => true
  | sc (.float _), .number => true
  | sc (.npInt _), .number => true
  | sc (.npFloat _), .number => true
  | _, _ => false

/-! ## the HDF5 attribute layer -/

inductive Kind where
  | kb | ki | kf | bad
  deriving DecidableEq, Repr

def Scal.kind : Scal → Kind
  | .bool _ => .kb | .npBool _ => .kb
  | .int _ => .ki | .npInt _ => .ki
  | .float _ => .kf | .npFloat _ => .kf
  | _ => .bad

def Kind.join : Kind → Kind → Kind
  | .bad, _ => .bad | _, .bad => .bad
  | .kf, _ => .kf | _, .kf => .kf
  | .ki, _ => .ki | _, .ki => .ki
  | .kb, .kb => .kb

/-- common dtype of a sequence (numpy promotion: bool < int < float; `[]` is float64) -/
def kindOf (xs : List Scal) : Kind :=
  match xs with
  | [] => .kf
  | x :: r => r.foldl (fun k y => k.join y.kind) x.kind

/-- element cast to the promoted dtype -/
def Scal.cast (k : Kind) (s : Scal) : Num :=
  match k, s with
  | .kb, .bool b => .b b
  | .kb, .npBool b => .b b
  | .ki, .bool b => .i (if b then 1 else 0)
  | .ki, .npBool b => .i (if b then 1 else 0)
  | .ki, .int z => .i z
  | .ki, .npInt z => .i z
  | _, s => match s.toF with
    | ok x => .f x
    | error _ => .f .nan

/-- **HDF5 attribute type map**: what `h5file.attrs[k] = v; h5file.attrs[k]` returns
(`store_metadata` decodes `bytes` before writing).  Sequences of strings are outside the table. -/
def h5 : PyVal → PyVal
  | sc (.bool b) => sc (.npBool b)
  | sc (.int z) => sc (.npInt z)
  | sc (.float x) => sc (.npFloat x)
  | sc (.bytes s) => sc (.str s)
  | sc s => sc s
  | list xs => if kindOf xs = .bad then list xs else arr1 (xs.map (Scal.cast (kindOf xs)))
  | tuple xs => if kindOf xs = .bad then tuple xs else arr1 (xs.map (Scal.cast (kindOf xs)))
  | list2 rows =>
    if kindOf rows.flatten = .bad ∨ !rectangular rows then list2 rows
    else arr2 (rows.map (·.map (Scal.cast (kindOf rows.flatten))))
  | arr0 x => sc x.toScal
  | arr1 xs => arr1 xs
  | arr2 rows => arr2 rows

/-! ## Python equality `≃` (`==`, element-wise for sequences/arrays, `nan ≃ nan`) -/

/-- numeric value of a scalar, if it is a number -/
def Scal.num? : Scal → Option F
  | .int z => some (F.ofInt z) | .float x => some x | .bool b => some (F.ofBool b)
  | .npInt z => some (F.ofInt z) | .npFloat x => some x | .npBool b => some (F.ofBool b)
  | _ => Option.none

def Scal.eqv (a b : Scal) : Bool :=
  match a.num?, b.num? with
  | some x, some y => x == y
  | Option.none, Option.none => a == b
  | _, _ => false

def eqvList : List Scal → List Scal → Bool
  | [], [] => true
  | a :: r, b :: s => a.eqv b && eqvList r s
  | _, _ => false

def eqvRows : List (List Scal) → List (List Scal) → Bool
  | [], [] => true
  | a :: r, b :: s => eqvList a b && eqvRows r s
  | _, _ => false

/-- (ndim, rows) view of a value -/
def shape : PyVal → Nat × List (List Scal)
  | sc s => (0, [[s]])
  | arr0 x => (0, [[x.toScal]])
  | list xs => (1, [xs])
  | tuple xs => (1, [xs])
  | arr1 xs => (1, [xs.map Num.toScal])
  | list2 rows => (2, rows)
  | arr2 rows => (2, rows.map (·.map Num.toScal))

def pyEq (a b : PyVal) : Bool :=
  (shape a).1 == (shape b).1 && eqvRows (shape a).2 (shape b).2

infix:50 " ≃ " => fun a b => pyEq a b = true

/-! ## key table logic (`meta_logic.py`) -/

/-- a row of the regenerated table: section, key, converter name, documented type name -/
structure Row where
  sec : Str
  key : Str
  conv : String
  typ : String
  deriving DecidableEq, Repr

/-- the data regenerated from `dclab.definitions` -/
structure Tbl where
  rows : List Row
  /-- `dfn.scalar_feature_names` -/
  feats : List Str
  /-- `dfn.config_keys` (all sections) -/
  sections : List Str
  /-- sections of `CFG_METADATA` (the ones `store_metadata` writes) -/
  stored : List Str

def Tbl.find (t : Tbl) (sec key : Str) : Option Row :=
  t.rows.find? (fun r => r.sec == sec && r.key == key)

def mlChars : Str := [48,49,50,51,52,53,54,55,56,57,97,98,99,100,101,102,103,104,105,106,107,108,109,110,111,112,113,114,115,116,117,118,119,120,121,122]

/-- `scalar_feature_exists` -/
def Tbl.featExists (t : Tbl) (name : Str) : Bool :=
  t.feats.contains name ||
  (startsWith name ([109,108,95,115,99,111,114,101,95]) && name.length == 12 &&
    (name.drop 9).all (fun c => mlChars.contains c))

def Tbl.isSection (t : Tbl) (sec : Str) : Bool := t.sections.contains sec

def sUser := [117,115,101,114]
def sOnline := [111,110,108,105,110,101,95,102,105,108,116,101,114]
def sFiltering := [102,105,108,116,101,114,105,110,103]
def kSoft := [115,111,102,116,32,108,105,109,105,116]
def kPoly := [112,111,108,121,103,111,110,32,112,111,105,110,116,115]

/-- `config_key_exists`; the tuple unpacking `f1, f2 = …` raises ValueError -/
def Tbl.keyExists (t : Tbl) (sec key : Str) : Except Err Bool :=
  if sec = sUser then ok (strip key ≠ [])
  else if (t.find sec key).isSome then ok true
  else if sec = sOnline then
    if key.contains 44 ∧ (endsWith key kSoft ∨ endsWith key kPoly) then
      match splitOn 44 (firstWord key) with
      | [f1, f2] => ok (t.featExists f1 && t.featExists f2)
      | _ => error .value
    else ok (t.featExists (firstWord key))
  else ok false

/-- `get_config_value_func`: `none` is the identity -/
def Tbl.func (t : Tbl) (sec key : Str) : Option Conv :=
  if sec = sUser then none
  else match t.find sec key with
    | some r => Conv.ofName r.conv
    | .none =>
      if sec = sOnline then
        if endsWith key kSoft then some .fbool
        else if endsWith key kPoly then some .f2dfloatarray
        else none
      else none

/-- `get_config_value_type` -/
def Tbl.type (t : Tbl) (sec key : Str) : Option Ty :=
  if sec = sUser then none
  else match t.find sec key with
    | some r => Ty.ofName r.typ
    | .none =>
      if sec = sOnline then
        if endsWith key kSoft then some .bool
        else if endsWith key kPoly then some .ndarray
        else if endsWith key ([109,105,110]) ∨ endsWith key ([109,97,120]) then some .number
        else none
      else none

/-- conversion of a key: its converter or the identity -/
def Tbl.convert (t : Tbl) (sec key : Str) (v : PyVal) : Except Err PyVal :=
  match t.func sec key with
  | some c => conv c v
  | .none => ok v

/-! ## `ConfigurationDict` -/

inductive Warn where
  | empty | badValue | unknownKey | unknownSection | deprecated | badUserKey | wrongType
  deriving DecidableEq, Repr

/-- `verify_section_key`: validity and the warnings it raises -/
def Tbl.verify (t : Tbl) (sec key : Str) : Except Err (Bool × List Warn) :=
  match t.keyExists sec key with
  | error e => error e
  | ok true => ok (true, [])
  | ok false =>
    if sec = [112,108,111,116,116,105,110,103] ∨ sec = [97,110,97,108,121,115,105,115] then ok (false, [.deprecated])
    else if sec = sFiltering then
      if endsWith key ([32,109,105,110]) ∨ endsWith key ([32,109,97,120]) then
        if t.featExists (key.take (key.length - 4)) then ok (true, [])
        else ok (false, [.unknownKey])
      else if key = [108,105,109,105,116,32,101,118,101,110,116,115,32,97,117,116,111] then ok (false, [.deprecated])
      else ok (false, [.unknownKey])
    else if sec = sUser then ok (false, [.badUserKey])
    else if !t.isSection sec then ok (false, [.unknownSection])
    else ok (false, [.unknownKey])

/-- one section of a configuration: lower-case key ↦ value (insertion order irrelevant) -/
abbrev Dict := List (Str × PyVal)

def Dict.get? (d : Dict) (k : Str) : Option PyVal := (d.find? (·.1 = lower k)).map (·.2)

def Dict.put (d : Dict) (k : Str) (v : PyVal) : Dict := (k, v) :: d.filter (fun e => e.1 ≠ k)

/-- `ConfigurationDict(section=sec).__setitem__(key, value)`.
`error` = the converter raised (nothing stored). -/
def Tbl.setitem (t : Tbl) (sec : Str) (d : Dict) (key : Str) (v : PyVal) :
    Except Err (Dict × List Warn) :=
  let k := lower key
  match t.verify sec k with
  | error e => error e
  | ok (valid0, w0) =>
    let (valid1, w1) :=
      if valid0 ∧ v = sc (.str []) then (false, w0 ++ [Warn.empty]) else (valid0, w0)
    let (valid2, w2) :=
      if v = sc .none then (false, w1 ++ [Warn.badValue]) else (valid1, w1)
    if valid2 then
      let w3 := match t.type sec k with
        | some ty => if hasType v ty then w2 else w2 ++ [Warn.wrongType]
        | .none => w2
      match t.convert sec k v with
      | error e => error e
      | ok w => ok (d.put k w, w3)
    else ok (d, w2)

/-- `ConfigurationDict.update` / `_convert_keys` / `Configuration(cfg=…)`: item by item -/
def Tbl.update (t : Tbl) (sec : Str) : Dict → List (Str × PyVal) → Except Err (Dict × List Warn)
  | d, [] => ok (d, [])
  | d, (k, v) :: r =>
    match t.setitem sec d k v with
    | error e => error e
    | ok (d', w) => match t.update sec d' r with
      | error e => error e
      | ok (d'', w') => ok (d'', w ++ w')

/-- **spec**: what the user relies on — the normalised value of a valid assignment -/
def Tbl.normalise (t : Tbl) (sec key : Str) (v : PyVal) : Except Err PyVal :=
  t.convert sec (lower key) v

/-- value parsing of `load_from_file` for a *known* key (`config_key_exists`): the stripped text
goes through the key's converter; the result is then assigned (`Configuration.update`) -/
def Tbl.fileRoute (t : Tbl) (sec : Str) (d : Dict) (key text : Str) :
    Except Err (Dict × List Warn) :=
  match t.convert sec (lower key) (sc (.str text)) with
  | error e => error e
  | ok w => t.setitem sec d key w

/-- `store_metadata` followed by `parse_config` for one key: convert, write attribute, read
attribute, assign -/
def Tbl.storeLoad (t : Tbl) (sec key : Str) (v : PyVal) : Except Err PyVal :=
  match t.convert sec key (match v with | sc (.bytes s) => sc (.str s) | v => v) with
  | error e => error e
  | ok w => t.convert sec key (h5 w)

end DclabModel.Meta

namespace DclabModel.Meta

/-- a key probed by the translator through `dfn.config_key_exists`,
`dfn.get_config_value_func` (`"identity"` when it returns the identity lambda) and
`dfn.get_config_value_type` (`"none"` when it returns `None`) -/
structure Probe where
  sec : Str
  key : Str
  known : Bool
  conv : String
  typ : String
  deriving DecidableEq, Repr

/-- the model's key logic answers like the probed code -/
def Probe.agrees (t : Tbl) (p : Probe) : Bool :=
  (match t.keyExists p.sec p.key with
   | .ok b => b == p.known
   | .error _ => false) &&
  (match t.func p.sec p.key with
   | some c => Conv.ofName p.conv == some c
   | none => p.conv == "identity") &&
  (match t.type p.sec p.key with
   | some ty => Ty.ofName p.typ == some ty
   | none => p.typ == "none")

end DclabModel.Meta

namespace DclabModel.Meta
open PyVal Except

/-! ## feature registry (temporary and plug-in features) as a history -/

/-- the table with additionally registered scalar features -/
def Tbl.withFeats (t : Tbl) (extra : List Str) : Tbl := { t with feats := t.feats ++ extra }

inductive RegOp where
  | reg (name : Str)      -- `register_temporary_feature` / `PlugInFeature(...)`
  | dereg (name : Str)    -- `deregister_temporary_feature` / `remove_plugin_feature`
  deriving DecidableEq, Repr

def regStep (r : List Str) : RegOp → List Str
  | .reg n => if r.contains n then r else r ++ [n]
  | .dereg n => r.filter (· ≠ n)

/-- registered features after a history of registry operations -/
def registry (ops : List RegOp) : List Str := ops.foldl regStep []

/-- a history: registry operations interleaved with assignments (queries) -/
inductive HOp where
  | r (op : RegOp)
  | q (sec key : Str) (v : PyVal)
  deriving DecidableEq, Repr

/-- answers of the queries of a history; the only state is the registry -/
def Tbl.runHist (t : Tbl) : List Str → List HOp → List (Except Err (Dict × List Warn))
  | _, [] => []
  | reg, .r op :: rest => t.runHist (regStep reg op) rest
  | reg, .q sec key v :: rest => (t.withFeats reg).setitem sec [] key v :: t.runHist reg rest

def regOps : List HOp → List RegOp
  | [] => []
  | .r op :: rest => op :: regOps rest
  | .q .. :: rest => regOps rest

/-! ## the line codec of `load_from_file` -/

def isSQ (c : Nat) : Bool := c = 39 || c = 32       -- `.strip("' ")`
def isDQ (c : Nat) : Bool := c = 34 || c = 32       -- `.strip('" ')`

/-- text right of `=` as `load_from_file` sees it: cut at the first `#`, `line.strip()`,
`val.strip("' ").strip('" ').strip()` -/
def cleanText (raw : Str) : Str :=
  strip (stripBy isDQ (stripBy isSQ (strip (raw.takeWhile (· ≠ 35)))))

/-- one line `key = raw` of a configuration file (known key): empty values are skipped -/
def Tbl.fileLine (t : Tbl) (sec : Str) (d : Dict) (key raw : Str) :
    Except Err (Dict × List Warn) :=
  if cleanText raw = [] then ok (d, []) else t.fileRoute sec d key (cleanText raw)

/-- characters removed at the ends of a value by the loader -/
def edgeChar (c : Nat) : Bool := isSpace c || c = 39 || c = 34

/-- strings the configuration-file route reproduces exactly: no `#`, no blank/quote at the ends -/
def Plain (s : Str) : Prop :=
  (∀ c ∈ s, c ≠ 35) ∧ (∀ c, s.head? = some c → edgeChar c = false) ∧
  (∀ c, s.reverse.head? = some c → edgeChar c = false)

/-! ## HDF5 attributes as a map; `store_metadata` histories -/

abbrev Attrs := List ((Str × Str) × PyVal)

def Attrs.get? (a : Attrs) (k : Str × Str) : Option PyVal := (a.find? (·.1 = k)).map (·.2)
def Attrs.put (a : Attrs) (k : Str × Str) (v : PyVal) : Attrs :=
  (k, v) :: a.filter (fun e => e.1 ≠ k)

def decodeBytes : PyVal → PyVal
  | sc (.bytes s) => sc (.str s)
  | v => v

/-- the attribute value `store_metadata` writes for one entry -/
def Tbl.storedValue (t : Tbl) (sec key : Str) (v : PyVal) : Except Err PyVal :=
  (t.convert sec key (decodeBytes v)).map h5

/-- `store_metadata` (one or several calls: see `storeMeta_append`): entries in order, every
attribute is overwritten; a converter error aborts -/
def Tbl.storeMeta (t : Tbl) : Attrs → List (Str × Str × PyVal) → Except Err Attrs
  | a, [] => ok a
  | a, (sec, key, v) :: r =>
    match t.storedValue sec key v with
    | error e => error e
    | ok w => t.storeMeta (a.put (sec, key) w) r

/-- the value most recently written for a key -/
def lastWrite : List (Str × Str × PyVal) → Str × Str → Option PyVal
  | [], _ => none
  | (s, k, v) :: r, K =>
    match lastWrite r K with
    | some x => some x
    | none => if (s, k) = K then some v else none

end DclabModel.Meta
