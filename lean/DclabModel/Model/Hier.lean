/-!
# Model of dclab's hierarchy children (property C04) — core Lean only

Code mirrored (dclab/rtdc_dataset/fmt_hierarchy):
* `mapper.py`   the four index maps `map_indices_child2parent / parent2child / child2root /
                root2child` (`c2p`, `p2c`, `c2root`, `r2c`);
* `hfilter.py`  `HierarchyFilter.parent_changed` (`key`), `retrieve_manual_indices`
                (`retrieveSnap`; `retrieveOld` = the three branches before the F32 repair),
                `apply_manual_indices` + re-creation of the filter (`recreate`), `update_parent`;
* `base.py`     `RTDC_Hierarchy.apply_filter` **in its actual order** (`applyFilter`/`refresh`):
                retrieve manual indices, recurse into the parent, clear caches and `_length`,
                `_check_parent_filter`, `Filter.update`;
* `events.py`   `ChildScalar._array` — the cached child data; every feature of a child is
                `parent[feat][parent.filter.all]`, so one cached array per level, the *identity
                feature* `ev` (root index of every event), stands for all feature kinds
                (the n-d kinds go through `c2p`, which theorem `c2p_eq_sel` ties to `sel`);
* `filter.py`   `Filter.update` reduced to box ranges on integer-valued features + `manual`
                (`filterUpdate`: only features whose min/max changed since the last update are
                recomputed — this is what makes a missed parent change visible as a stale box).

A hierarchy is a chain, stored **youngest first**: `[L_d, …, L_1, L_0]`, `L_0` = root.

`fixed : Bool` selects the comparison used by `parent_changed`:
`false` = the code before F04 (hash of the parent's boolean `filter.all` only),
`true`  = the repaired code (hashes of the `filter.all` arrays of the parent and all its
ancestors, i.e. pattern *and* identity of the parent's events).

`snap : Bool` selects `retrieve_manual_indices`:
`false` = the code before F32 (maps `manual` through the *current* filter arrays of all
          ancestors; skipped when the parent changed),
`true`  = the repaired code (uses `_root_ids`, the root indices of the filter's own events
          remembered when the filter was created; independent of the state of the parents).
-/
namespace DclabModel.Hier

/-! ## masks and selections -/

/-- `xs[m]` for a boolean mask `m` (numpy boolean indexing) -/
def sel {α : Type} : List Bool → List α → List α
  | true :: m, x :: xs => x :: sel m xs
  | false :: m, _ :: xs => sel m xs
  | _, _ => []

/-- `np.where(m)[0]` -/
def whereIdx : List Bool → List Nat
  | [] => []
  | b :: m => if b then 0 :: (whereIdx m).map (· + 1) else (whereIdx m).map (· + 1)

/-- `np.sum(m)` -/
def cnt (m : List Bool) : Nat := m.count true

/-! ## mapper.py -/

/-- `map_indices_child2parent`: `np.where(pf)[0][child_indices]` -/
def c2p (pf : List Bool) (I : List Nat) : List Nat := I.map (fun i => (whereIdx pf).getD i 0)

/-- numpy raises `IndexError` when this is false -/
def c2pOk (pf : List Bool) (I : List Nat) : Bool := I.all (fun i => decide (i < cnt pf))

/-- `map_indices_parent2child`: `np.where(np.isin(np.where(pf)[0], parent_indices))[0]` -/
def p2c (pf : List Bool) (J : List Nat) : List Nat :=
  whereIdx ((whereIdx pf).map (fun q => J.contains q))

/-- `map_indices_child2root`; the argument lists `filter.all` of parent, grandparent, …, root -/
def c2root : List (List Bool) → List Nat → List Nat
  | [], I => I
  | pf :: rest, I => c2root rest (c2p pf I)

def c2rootOk : List (List Bool) → List Nat → Bool
  | [], _ => true
  | pf :: rest, I => c2pOk pf I && c2rootOk rest (c2p pf I)

/-- `map_indices_root2child` (walks the hierarchy from the root downwards) -/
def r2c : List (List Bool) → List Nat → List Nat
  | [], R => R
  | pf :: rest, R => p2c pf (r2c rest R)

/-! ## data and levels -/

/-- root dataset: `n` events, integer-valued scalar features that may carry box filters -/
structure Data where
  n : Nat
  feats : List (List Int)

def Data.val (D : Data) (f r : Nat) : Int := (D.feats.getD f []).getD r 0

/-- `"<feat> min"`, `"<feat> max"` of `config["filtering"]`; `none` = keys absent -/
abbrev Rng := Option (Int × Int)

/-- box filter of one event (`Filter.update`, step 2): inactive when min = max, bounds swapped
when reversed, both bounds inclusive -/
def inR (r : Rng) (x : Int) : Bool :=
  match r with
  | none => true
  | some (lo, hi) =>
    if lo = hi then true
    else if lo ≤ hi then decide (lo ≤ x ∧ x ≤ hi) else decide (hi ≤ x ∧ x ≤ lo)

structure Level where
  /-- current `config["filtering"]` ranges, one entry per feature -/
  cfg : List Rng
  /-- `Filter._old_config` -/
  old : List Rng
  /-- `Filter._box_filters` -/
  box : List (List Bool)
  /-- `Filter.manual` -/
  manual : List Bool
  /-- `Filter.all` -/
  all : List Bool
  /-- `HierarchyFilter._man_root_ids` -/
  manRoot : List Nat
  /-- what `HierarchyFilter._parent_hash` was computed from; `[]` = no filter object yet -/
  phash : List (List Bool)
  /-- `RTDC_Hierarchy._length` -/
  len : Nat
  /-- cached identity feature (`ChildScalar._array`): root index of every event -/
  ev : List Nat
  /-- `HierarchyFilter._root_ids` (F32 repair): root indices of the events `manual` refers to,
  determined when the filter object was created -/
  rootIds : List Nat
  /-- GHOST (never read by the functions below): root ids excluded by the user at this level
  and not re-included since -/
  gM : List Nat
deriving DecidableEq, Repr

/-! ## Filter.update (ranges + manual) -/

def boxOf (D : Data) (ev : List Nat) (f : Nat) (r : Rng) : List Bool :=
  ev.map (fun e => inR r (D.val f e))

/-- recompute the box filter of exactly those features whose range differs from `_old_config` -/
def updBox (D : Data) (c : Level) : List (List Bool) :=
  (List.range c.cfg.length).map (fun f =>
    if c.cfg.getD f none != c.old.getD f none then boxOf D c.ev f (c.cfg.getD f none)
    else c.box.getD f (List.replicate c.len true))

/-- `arr_all[:] = arr_box & arr_manual` -/
def combine (len : Nat) (box : List (List Bool)) (manual : List Bool) : List Bool :=
  (List.range len).map (fun p => manual.getD p true && box.all (fun b => b.getD p true))

def filterUpdate (D : Data) (c : Level) : Level :=
  let bx := updBox D c
  { c with box := bx, old := c.cfg, all := combine c.len bx c.manual }

/-! ## hfilter.py -/

def insSorted (x : Nat) : List Nat → List Nat
  | [] => [x]
  | y :: ys => if x < y then x :: y :: ys else if x = y then y :: ys else y :: insSorted x ys

/-- `sorted(set(xs))` -/
def normSet (xs : List Nat) : List Nat := xs.foldr insSorted []

/-- the object hashed by `update_parent` / compared by `parent_changed` -/
def key (fixed : Bool) (anc : List Level) : List (List Bool) :=
  if fixed then anc.map (·.all) else (anc.take 1).map (·.all)

/-- `HierarchyFilter.retrieve_manual_indices` before the F32 repair -/
def retrieveOld (fixed : Bool) (c : Level) (anc : List Level) : Level :=
  if key fixed anc != c.phash then c            -- parent changed (or no filter yet): ignore
  else if c.manual.all id then c                 -- nothing excluded: remember hidden ones
  else
    let alls := anc.map (·.all)
    let pbool := c2root alls (whereIdx (c.manual.map not))
    let pold := c.manRoot
    let pall := normSet (pbool ++ pold)
    let pvisC := r2c alls pall
    let pvisP := c2root alls pvisC
    let phid := pall.filter (fun r => !pvisP.contains r)
    { c with manRoot := normSet (pbool ++ phid) }

/-- `HierarchyFilter.retrieve_manual_indices` (F32 repair): `pbool = _root_ids[~manual]`,
hidden = remembered ids that are not among the filter's events, result `sorted(pbool ∪ hidden)` -/
def retrieveSnap (c : Level) : Level :=
  let pbool := sel (c.manual.map not) c.rootIds
  let phid := c.manRoot.filter (fun r => !c.rootIds.contains r)
  { c with manRoot := normSet (pbool ++ phid) }

def retrieve (fixed snap : Bool) (c : Level) (anc : List Level) : Level :=
  -- (a member without filter object has empty `manual`, `_root_ids`: `retrieveSnap` is the identity)
  if snap then retrieveSnap c else retrieveOld fixed c anc

/-- `_check_parent_filter` when the parent changed: new `HierarchyFilter` (all caches empty,
`manual` all true, `update_parent`) followed by `apply_manual_indices(_man_root_ids)` -/
def recreate (fixed : Bool) (c : Level) (anc : List Level) : Level :=
  let cidx := r2c (anc.map (·.all)) c.manRoot
  { c with
    box := c.cfg.map (fun _ => List.replicate c.len true)
    old := c.cfg.map (fun _ => none)
    manual := (List.range c.len).map (fun p => !cidx.contains p)
    all := List.replicate c.len true
    phash := key fixed anc
    rootIds := c2root (anc.map (·.all)) (List.range c.len) }

/-! ## base.py -/

def headAll : List Level → List Bool
  | p :: _ => p.all
  | [] => []

def headEv : List Level → List Nat
  | p :: _ => p.ev
  | [] => []

/-- the part of `RTDC_Hierarchy.apply_filter` after the parent has been refreshed:
clear `_length`/`_events` (re-read from the parent), `_check_parent_filter`, `Filter.update` -/
def refresh (fixed : Bool) (D : Data) (c : Level) (ps : List Level) : Level :=
  let c2 := { c with len := cnt (headAll ps), ev := sel (headAll ps) (headEv ps) }
  let c3 := if key fixed ps != c2.phash then recreate fixed c2 ps else c2
  filterUpdate D c3

/-- `apply_filter` / `rejuvenate` of the head of the chain -/
def applyFilter (fixed snap : Bool) (D : Data) : List Level → List Level
  | [] => []
  | [r] => [filterUpdate D r]
  | c :: p :: rest =>
    let ps := applyFilter fixed snap D (p :: rest)
    refresh fixed D (retrieve fixed snap c (p :: rest)) ps :: ps

/-- rejuvenate the member at position `k` (0 = youngest); members below are left alone -/
def rejuvAt (fixed snap : Bool) (D : Data) (k : Nat) (s : List Level) : List Level :=
  s.take k ++ applyFilter fixed snap D (s.drop k)

/-! ## construction -/

def freshLevel (nf : Nat) : Level :=
  { cfg := List.replicate nf none, old := List.replicate nf none, box := [], manual := [],
    all := [], manRoot := [], phash := [], len := 0, ev := [], rootIds := [], gM := [] }

def rootLevel (D : Data) : Level :=
  { freshLevel D.feats.length with
    box := List.replicate D.feats.length (List.replicate D.n true)
    manual := List.replicate D.n true
    all := List.replicate D.n true
    len := D.n
    ev := List.range D.n }

/-- `RTDC_Hierarchy(parent)`: the constructor calls `apply_filter` -/
def addChild (fixed snap : Bool) (D : Data) (s : List Level) : List Level :=
  applyFilter fixed snap D (freshLevel D.feats.length :: s)

def initChain (fixed snap : Bool) (D : Data) : Nat → List Level
  | 0 => [rootLevel D]
  | d + 1 => addChild fixed snap D (initChain fixed snap D d)

/-! ## histories -/

def modAt (k : Nat) (f : Level → Level) : List Level → List Level
  | [] => []
  | c :: s => match k with
    | 0 => f c :: s
    | k + 1 => c :: modAt k f s

/-- the user writes `filter.manual[p] = b`, looking at event `p` of that level -/
def manualEdit (p : Nat) (b : Bool) (c : Level) : Level :=
  match c.ev[p]? with
  | none => c
  | some r =>
    if p < c.manual.length then
      { c with manual := c.manual.set p b
               gM := if b then c.gM.filter (· != r) else r :: c.gM }
    else c

inductive Op where
  /-- `L.config["filtering"]["<f> min/max"] = lo, hi` at position `k` -/
  | setRange (k f : Nat) (lo hi : Int)
  /-- `L.filter.manual[p] = b` at position `k` -/
  | manual (k p : Nat) (b : Bool)
  /-- `youngest.rejuvenate()` -/
  | rejuv
  /-- `L.rejuvenate()` of the member at position `k` (also what `set_temporary_feature(L, …)`
  does): only that member and its ancestors are refreshed -/
  | rejuvAt (k : Nat)
deriving DecidableEq, Repr

def step (fixed snap : Bool) (D : Data) (s : List Level) : Op → List Level
  | .setRange k f lo hi => modAt k (fun c => { c with cfg := c.cfg.set f (some (lo, hi)) }) s
  | .manual k p b => modAt k (manualEdit p b) s
  | .rejuv => applyFilter fixed snap D s
  | .rejuvAt k => rejuvAt fixed snap D k s

def run (fixed snap : Bool) (D : Data) (s : List Level) (h : List Op) : List Level :=
  h.foldl (step fixed snap D) s

/-! ## spec layer -/

/-- root ids that are currently excluded by `manual` at a level -/
def excl (c : Level) : List Nat := sel (c.manual.map not) c.ev

/-- root ids of the events of a child, given the `filter.all` arrays of its ancestors -/
def idsOf (n : Nat) : List (List Bool) → List Nat
  | [] => List.range n
  | pf :: rest => sel pf (idsOf n rest)

/-- the filter the user asked for at a level: all ranges of the current configuration,
evaluated on the level's current events, and `manual` -/
def specAll (D : Data) (c : Level) : List Bool :=
  (List.range c.len).map (fun p =>
    c.manual.getD p true &&
      (List.range c.cfg.length).all (fun f => inR (c.cfg.getD f none) (D.val f (c.ev.getD p 0))))

end DclabModel.Hier
