import DclabModel.Model.Writer
/-!
# `store_table` with a dict: column-wise fill, record-wise storage (observation O10) — model

`RTDCWriter.store_table(name, dict)` allocates `tab_data = zeros((tabsize, ncols))` with
`tabsize = len(first column)`, assigns `tab_data[:, ii] = column ii` and re-interprets every ROW of
`tab_data` as one compound record (`np.rec.array(tab_data, dtype=[(col, f8) …])`), which gives the
stored dataset the shape `(tabsize, 1)`; a `np.recarray` passed in is stored as it is, shape
`(rows,)`.  `dictRecords` is that transposition, `tableShape` the shape the reader sees,
`column` is `table[col].flatten()`.  Core Lean only.
-/
namespace DclabModel.Writer

/-- record `r` of the compound array built from a dict: the `r`-th entry of every column -/
def dictRecords (colvals : List (List Tok)) : List (List Tok) :=
  match colvals with
  | [] => []
  | c0 :: _ => (List.range c0.length).map fun r => colvals.map fun c => c.getD r fill

/-- `table[col]` flattened: entry `i` of every record -/
def column (recs : List (List Tok)) (i : Nat) : List Tok := recs.map (·.getD i fill)

inductive TableShape where
  /-- `(rows,)` — a recarray stored as given -/
  | flat (rows : Nat)
  /-- `(rows, 1)` — built from a dict -/
  | column1 (rows : Nat)
  deriving DecidableEq, Repr

def tableShape (fromDict : Bool) (recs : List (List Tok)) : TableShape :=
  if fromDict then .column1 recs.length else .flat recs.length

end DclabModel.Writer
