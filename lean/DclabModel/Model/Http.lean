/-!
# Model of `dclab.http_utils.HTTPFile` (property C19)

Mirrors, branch by branch, `HTTPFile.get_cache_chunk`, `read_range_cached`, `read`,
`seek`, `tell` of `/repo/dclab/http_utils.py`.  Bytes are natural numbers, the remote
resource is a list, the `dict` cache is an insertion-ordered association list.
Core Lean only (no Mathlib) so that the driver starts fast.
-/
namespace DclabModel.Http

abbrev Bytes := List Nat

/-- The remote side.  `oob` is the body of the reply to a range request that cannot be
satisfied (start beyond the resource, or an empty/inverted range) – for a real server a
416 error page or, for a syntactically invalid range, the whole resource.  The theorems hold
for every `oob`. -/
structure Server where
  blob : Bytes
  oob  : Bytes

def Server.len (s : Server) : Nat := s.blob.length

/-- reply to `download_range(start, stop)`, i.e. `Range: bytes=start-(stop-1)` -/
def Server.serve (s : Server) (start stop : Nat) : Bytes :=
  if start < s.len ∧ start < stop then (s.blob.drop start).take (stop - start) else s.oob

structure Cfg where
  cs   : Nat   -- `chunk_size`
  keep : Nat   -- `keep_chunks`

structure St where
  pos   : Int
  cache : List (Nat × Bytes)
  reqs  : List (Nat × Nat)      -- range downloads issued so far, newest last
deriving Repr

def St.init : St := { pos := 0, cache := [], reqs := [] }

def lookup (i : Nat) : List (Nat × Bytes) → Option Bytes
  | [] => none
  | (k, v) :: r => if k = i then some v else lookup i r

/-- `for kk in cache.keys(): if kk != 0: cache.pop(kk); break` -/
def popFirstNonzero : List (Nat × Bytes) → List (Nat × Bytes)
  | [] => []
  | (k, v) :: r => if k ≠ 0 then r else (k, v) :: popFirstNonzero r

/-- `HTTPFile.get_cache_chunk(index)`; `none` = the `KeyError` of `self.cache[index]` -/
def getChunk (sv : Server) (cfg : Cfg) (st : St) (i : Nat) : St × Option Bytes :=
  let start := i * cfg.cs
  let stop := min ((i + 1) * cfg.cs) sv.len
  let miss := (lookup i st.cache).isNone
  let cache1 := if miss then st.cache ++ [(i, sv.serve start stop)] else st.cache
  let reqs1 := if miss then st.reqs ++ [(start, stop)] else st.reqs
  let cache2 := if cache1.length > cfg.keep then popFirstNonzero cache1 else cache1
  ({ st with cache := cache2, reqs := reqs1 }, lookup i cache2)

inductive Out where
  | data (b : Bytes)
  | pos (p : Int)
  | unit
  | keyError
  | ioError       -- an exception of `download_range` (network) propagating out of `read`
  | unmodelled
deriving Repr, DecidableEq

/-- the `for chunk_index in range(chunk_start, chunk_stop)` loop of `read_range_cached`;
`count` = number of remaining iterations, `idx` = `chunk_index`. -/
def readLoop (sv : Server) (cfg : Cfg) (stop : Nat) :
    (count idx pos toread : Nat) → St → Bytes → St × Option Bytes
  | 0, _, _, _, st, data => (st, some data)
  | c + 1, idx, pos, toread, st, data =>
    match getChunk sv cfg st idx with
    | (st', none) => (st', none)
    | (st', some chunk) =>
      let cstart := pos % cfg.cs
      if toread = 0 then (st', some data)
      else if cstart + toread ≥ cfg.cs then
        readLoop sv cfg stop c (idx + 1) (pos + (cfg.cs - cstart)) (toread - (cfg.cs - cstart))
          st' (data ++ chunk.drop cstart)
      else
        let cend := stop % cfg.cs
        readLoop sv cfg stop c (idx + 1) (pos + (cend - cstart)) (toread - (cend - cstart))
          st' (data ++ (chunk.take cend).drop cstart)

/-- `read_range_cached(start, stop)` for `0 ≤ start ≤ stop` -/
def readRange (sv : Server) (cfg : Cfg) (st : St) (start stop : Nat) : St × Option Bytes :=
  let cstart := start / cfg.cs
  let cstop := stop / cfg.cs + 1
  readLoop sv cfg stop (cstop - cstart) cstart start (stop - start) st []

inductive Op where
  | read (n : Int)
  | seek (off : Int) (whence : Nat)
  | tell
deriving Repr, DecidableEq

/-- one file-object operation -/
def step (sv : Server) (cfg : Cfg) (st : St) : Op → St × Out
  | .tell => (st, .pos st.pos)
  | .seek off w =>
    if w = 0 then ({ st with pos := off }, .unit)
    else if w = 1 then ({ st with pos := st.pos + off }, .unit)
    else if w = 2 then ({ st with pos := (sv.len : Int) + off }, .unit)
    else (st, .unit)
  | .read n =>
    if st.pos < 0 ∨ n < 0 then (st, .unmodelled)
    else
      let p := st.pos.toNat
      match readRange sv cfg st p (p + n.toNat) with
      | (st', none) => (st', .keyError)
      | (st', some d) =>
        let newpos : Int := if n > 0 then st.pos + n else sv.len
        ({ st' with pos := newpos }, .data d)

def run (sv : Server) (cfg : Cfg) : St → List Op → St × List Out
  | st, [] => (st, [])
  | st, op :: ops =>
    let (st1, o) := step sv cfg st op
    let (st2, os) := run sv cfg st1 ops
    (st2, o :: os)

/-! ## Specification: a position and the blob, nothing else -/

def specStep (sv : Server) (pos : Int) : Op → Int × Out
  | .tell => (pos, .pos pos)
  | .seek off w =>
    if w = 0 then (off, .unit)
    else if w = 1 then (pos + off, .unit)
    else if w = 2 then ((sv.len : Int) + off, .unit)
    else (pos, .unit)
  | .read n =>
    if pos < 0 ∨ n < 0 then (pos, .unmodelled)
    else
      (if n > 0 then pos + n else sv.len, .data ((sv.blob.drop pos.toNat).take n.toNat))

def specRun (sv : Server) : Int → List Op → Int × List Out
  | pos, [] => (pos, [])
  | pos, op :: ops =>
    let (p1, o) := specStep sv pos op
    let (p2, os) := specRun sv p1 ops
    (p2, o :: os)

/-- every read of the history lies inside the resource -/
def ValidFrom (sv : Server) : Int → List Op → Prop
  | _, [] => True
  | pos, op :: ops =>
    (match op with
     | .read n => 0 ≤ pos ∧ 0 ≤ n ∧ pos + n ≤ sv.len
     | _ => True) ∧ ValidFrom sv (specStep sv pos op).1 ops

instance decValidFrom (sv : Server) :
    (pos : Int) → (ops : List Op) → Decidable (ValidFrom sv pos ops)
  | _, [] => isTrue trivial
  | pos, op :: ops =>
    have := decValidFrom sv (specStep sv pos op).1 ops
    by unfold ValidFrom; cases op <;> exact inferInstance

end DclabModel.Http
