import DclabModel.Model.Http
/-!
# `HTTPFile` under transient download failures (property C19)

`download_range` is a network call; `requests` may raise (time-out, connection reset) in the
middle of a `read` that spans several chunks.  This file mirrors what the code does then:

* `self.cache[index] = self.download_range(start, stop)` — the exception leaves
  `get_cache_chunk` *before* the assignment: nothing is stored, nothing is evicted (the request
  was issued and is logged);
* `read_range_cached` has no handler: chunks downloaded earlier in the same loop stay cached;
* `read` updates `self._pos` only *after* `read_range_cached` returned: a failed read leaves
  the position where it was.

A faulty read is `readF n budget`: the next `budget` downloads succeed, the one after raises.
Core Lean only.
-/
namespace DclabModel.Http

/-- result of one `get_cache_chunk` / `read_range_cached` under faults -/
inductive Res where
  | ok (b : Bytes)
  | keyError
  | ioError
deriving Repr, DecidableEq

def Res.ofOpt : Option Bytes → Res
  | some b => .ok b
  | none => .keyError

/-- `get_cache_chunk(index)` when only `budget` further downloads succeed.  Returns the new
state, the result and the remaining budget. -/
def getChunkF (sv : Server) (cfg : Cfg) (st : St) (i : Nat) (budget : Nat) : St × Res × Nat :=
  if (lookup i st.cache).isNone then
    if budget = 0 then
      ({ st with reqs := st.reqs ++ [(i * cfg.cs, min ((i + 1) * cfg.cs) sv.len)] }, .ioError, 0)
    else ((getChunk sv cfg st i).1, Res.ofOpt (getChunk sv cfg st i).2, budget - 1)
  else ((getChunk sv cfg st i).1, Res.ofOpt (getChunk sv cfg st i).2, budget)

/-- the loop of `read_range_cached` under faults (same branches as `readLoop`) -/
def readLoopF (sv : Server) (cfg : Cfg) (stop : Nat) :
    (count idx pos toread budget : Nat) → St → Bytes → St × Res
  | 0, _, _, _, _, st, data => (st, .ok data)
  | c + 1, idx, pos, toread, budget, st, data =>
    match getChunkF sv cfg st idx budget with
    | (st', .ioError, _) => (st', .ioError)
    | (st', .keyError, _) => (st', .keyError)
    | (st', .ok chunk, b') =>
      let cstart := pos % cfg.cs
      if toread = 0 then (st', .ok data)
      else if cstart + toread ≥ cfg.cs then
        readLoopF sv cfg stop c (idx + 1) (pos + (cfg.cs - cstart)) (toread - (cfg.cs - cstart)) b'
          st' (data ++ chunk.drop cstart)
      else
        let cend := stop % cfg.cs
        readLoopF sv cfg stop c (idx + 1) (pos + (cend - cstart)) (toread - (cend - cstart)) b'
          st' (data ++ (chunk.take cend).drop cstart)

def readRangeF (sv : Server) (cfg : Cfg) (st : St) (start stop budget : Nat) : St × Res :=
  let cstart := start / cfg.cs
  let cstop := stop / cfg.cs + 1
  readLoopF sv cfg stop (cstop - cstart) cstart start (stop - start) budget st []

/-- operations of a history with faults -/
inductive OpF where
  | plain (op : Op)
  | readF (n : Int) (budget : Nat)
deriving Repr, DecidableEq

/-- one file-object operation; `read` sets `_pos` only after `read_range_cached` returned -/
def stepF (sv : Server) (cfg : Cfg) (st : St) : OpF → St × Out
  | .plain op => step sv cfg st op
  | .readF n budget =>
    if st.pos < 0 ∨ n < 0 then (st, .unmodelled)
    else
      let p := st.pos.toNat
      match readRangeF sv cfg st p (p + n.toNat) budget with
      | (st', .ioError) => (st', .ioError)
      | (st', .keyError) => (st', .keyError)
      | (st', .ok d) =>
        let newpos : Int := if n > 0 then st.pos + n else sv.len
        ({ st' with pos := newpos }, .data d)

def runF (sv : Server) (cfg : Cfg) : St → List OpF → St × List Out
  | st, [] => (st, [])
  | st, op :: ops =>
    let (st1, o) := stepF sv cfg st op
    let (st2, os) := runF sv cfg st1 ops
    (st2, o :: os)

/-! ## Specification with faults: a failed read is a no-op that reports the failure -/

/-- `failed` says whether this operation raised the injected I/O error -/
def specStepF (sv : Server) (pos : Int) (op : OpF) (failed : Bool) : Int × Out :=
  match op with
  | .plain op => specStep sv pos op
  | .readF n _ => if failed then (pos, .ioError) else specStep sv pos (.read n)

def specRunF (sv : Server) : Int → List OpF → List Bool → Int × List Out
  | pos, [], _ => (pos, [])
  | pos, op :: ops, fl =>
    let (p1, o) := specStepF sv pos op (fl.headD false)
    let (p2, os) := specRunF sv p1 ops fl.tail
    (p2, o :: os)

/-- which operations of a run raised the injected I/O error -/
def failedFlags (outs : List Out) : List Bool := outs.map (fun o => decide (o = .ioError))

def OpF.readLen : OpF → Option Int
  | .plain (.read n) => some n
  | .readF n _ => some n
  | _ => none

/-- every read of the history lies inside the resource (positions follow the specification,
failed reads do not move) -/
def ValidFromF (sv : Server) : Int → List OpF → List Bool → Prop
  | _, [], _ => True
  | pos, op :: ops, fl =>
    (match op.readLen with
     | some n => 0 ≤ pos ∧ 0 ≤ n ∧ pos + n ≤ sv.len
     | none => True) ∧ ValidFromF sv (specStepF sv pos op (fl.headD false)).1 ops fl.tail

instance decValidFromF (sv : Server) :
    (pos : Int) → (ops : List OpF) → (fl : List Bool) → Decidable (ValidFromF sv pos ops fl)
  | _, [], _ => isTrue trivial
  | pos, op :: ops, fl =>
    have := decValidFromF sv (specStepF sv pos op (fl.headD false)).1 ops fl.tail
    by unfold ValidFromF; cases h : op.readLen <;> exact inferInstance

end DclabModel.Http
