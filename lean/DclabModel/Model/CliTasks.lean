import DclabModel.Model.Cli
/-!
# Trace templates of the command-line tasks (property C10)

The operation sequence every task of `dclab/cli/` is expected to perform, as a *function of its
parameters*: stale output / stale temporary present (`setup_task_paths` unlinks them), number of
writes per phase, number of parts (split), inputs probed and appended (join), files converted
(tdms2rtdc).  Write ids are erased (`0`).  `Lemmas/CliTasks.lean` proves, for **all** parameter
values and every initial file system, that each template satisfies the protocol `Conforms` and is
independent of leftover temporaries (`freshFrom`); the harness checks that every recorded trace of
the real tasks is an instance of its template (`instanceOf`).

Core Lean only.
-/
namespace DclabModel.Cli

/-- `n` consecutive writes into `p` (ids erased) -/
def writes (p : Path) (n : Nat) : List Op := List.replicate n (.write p 0)

/-- abstraction of a recorded operation / trace: write ids erased -/
def eraseId : Op → Op
  | .write p _ => .write p 0
  | o => o

def eraseIds (tr : List Op) : List Op := tr.map eraseId

/-- index of the first position at which the abstraction of `tr` leaves the template
(`none` = `tr` is an instance of the template) -/
def firstDiff : List Op → List Op → Nat → Option Nat
  | [], [], _ => none
  | a :: as, b :: bs, k => if a = b then firstDiff as bs (k + 1) else some k
  | _, _, k => some k

def instanceOf (tmpl tr : List Op) : Bool := (firstDiff tmpl (eraseIds tr) 0).isNone

/-- `setup_task_paths`: `[po.unlink() for po in paths_out if po.exists()]`, then the same for the
temporary paths -/
def setupOps (staleOuts staleTemps : List Path) : List Op :=
  staleOuts.map .unlink ++ staleTemps.map .unlink

/-- the same for a task with one output (`so`/`st`: a stale output / temporary exists) -/
def setup1 (so st : Bool) (o t : Path) : List Op :=
  setupOps (if so then [o] else []) (if st then [t] else [])

def roles1 (ins : List Path) (o t : Path) : Roles := { ins := ins, outs := [o], temps := [t] }

/-- one writing session on `t`: open (`create` / `openAppend`), `mid`, close -/
def session (opn : Op) (t : Path) (mid : List Op) : List Op := opn :: mid ++ [.close t]

/-- `dclab-condense`, `dclab-repack`: `with open(in), h5py.File(temp, "w"): …n writes…`, rename -/
def copyTrace (i o t : Path) (so st : Bool) (n : Nat) : List Op :=
  (setup1 so st o t ++ [.openRead i]) ++ session (.create t) t (writes t n) ++ [.close i] ++
    [.rename t o]

/-- `dclab-compress`: copy (`n1` writes), re-open the temporary for the logs (`n2` writes), rename -/
def compressTrace (i o t : Path) (so st : Bool) (n1 n2 : Nat) : List Op :=
  (setup1 so st o t ++ [.openRead i] ++ session (.create t) t (writes t n1) ++ [.close i]) ++
    session (.openAppend t) t (writes t n2) ++ [.rename t o]

/-- one further input of `dclab-join`: opened, `a` writes while it is open, `b` writes after -/
structure Seg where
  src : Path
  a : Nat
  b : Nat
deriving DecidableEq, Repr

def segOps (t : Path) (s : Seg) : List Op :=
  .openRead s.src :: writes t s.a ++ .close s.src :: writes t s.b

/-- `dclab-join`: every path in `probes` is opened and closed (metadata, sorting, feature
pruning), the chronologically first input is exported (`n0` writes), the temporary is re-opened
(`n1` writes) and the data of every further input appended, close, rename -/
def joinTrace (probes : List Path) (first o t : Path) (so st : Bool) (n0 n1 : Nat)
    (segs : List Seg) : List Op :=
  (setup1 so st o t ++ probes.flatMap (fun p => [.openRead p, .close p]) ++ [.openRead first] ++
      session (.openAppend t) t (writes t n0) ++ [.close first]) ++
    session (.openAppend t) t (writes t n1 ++ segs.flatMap (segOps t)) ++ [.rename t o]

/-- one output of a task with several outputs -/
structure Part where
  t : Path
  o : Path
  n1 : Nat
  n2 : Nat
deriving DecidableEq, Repr

def rolesParts (ins : List Path) (parts : List Part) : Roles :=
  { ins := ins, outs := parts.map (·.o), temps := parts.map (·.t) }

def exportBlock (pt : Part) : List Op := session (.openAppend pt.t) pt.t (writes pt.t pt.n1)
def logBlock (pt : Part) : List Op := session (.openAppend pt.t) pt.t (writes pt.t pt.n2)

/-- `dclab-split` into `parts.length` files: with the input (and the files `aux` it refers to)
open, every part is exported to its temporary; then every temporary is re-opened for the logs;
then all renames -/
def splitTrace (i : Path) (aux : List Path) (parts : List Part) : List Op :=
  ((.openRead i :: aux.map .openRead) ++ parts.flatMap exportBlock ++
      (aux.reverse.map .close ++ [.close i]) ++ parts.flatMap logBlock) ++
    parts.map (fun pt => .rename pt.t pt.o)

/-- `dclab-tdms2rtdc`: file after file — export, logs, rename -/
def tdmsFile (pt : Part) : List Op := exportBlock pt ++ logBlock pt ++ [.rename pt.t pt.o]

def tdmsTrace (staleOuts staleTemps : List Path) (parts : List Part) : List Op :=
  setupOps staleOuts staleTemps ++ parts.flatMap tdmsFile

/-! ### refused invocations

`setup_task_paths` refuses (ValueError, before anything is unlinked) an output path or a temporary
path that resolves to an input (F29, F64).  Such role assignments are not `Roles.wf`; the expected
trace performs no mutating operation at all. -/

/-- no operation of the trace changes the file system -/
def nonMutating (tr : List Op) : Bool := tr.all (fun op => (mutated op).isEmpty)

def firstMutating : List Op → Nat → Option Nat
  | [], _ => none
  | op :: rest, k => if (mutated op).isEmpty then firstMutating rest (k + 1) else some k

end DclabModel.Cli
