/-!
# Model of the contour-, image- and fluorescence-derived features (C18)

Executable model over core `Rat` (no imports) of

* `dclab/features/inert_ratio.py:cont_moments_cv`   → `moments`
* `dclab/features/volume.py:vol_revolve/get_volume` → `volRevolve`, `getVolume` (π is a parameter)
* `dclab/features/bright.py, bright_bc.py, bright_perc.py` → `brightAvg`, `brightVar`, `percentile`,
  `brightPerc`, `brightPercOld` (the pre-fix `if bg_off:` test, F19)
* `dclab/features/fl_crosstalk.py`                  → `spill`, `compensate`, `compMatrix`
* `dclab/features/contour.py:remove_duplicates`     → `removeDuplicates`

Every definition follows the Python text term by term (the names of the Python variables are
kept); floating point is replaced by exact rationals, `sqrt`/`atan2` do not occur (the inertia
ratio is modelled by its square `mu20/mu02`).
-/
namespace DclabModel.Feat

/-- a contour point `(x, y)` -/
abbrev Pt := Rat × Rat

def rsum : List Rat → Rat
  | [] => 0
  | a :: r => a + rsum r

def rabs (x : Rat) : Rat := if x < 0 then -x else x

/-- `np.roll(a, -1)` -/
def roll : List α → List α
  | [] => []
  | a :: r => r ++ [a]

/-- `np.sum(f(cont, np.roll(cont, -1)))`: sum over all contour points `p = (xi, yi)` and their
cyclic successors `q = (xi_1, yi_1)` -/
def cyc (f : Pt → Pt → Rat) (c : List Pt) : Rat :=
  rsum (List.zipWith f c (roll c))

/-! ## 1. contour moments (`cont_moments_cv`) -/

/-- `dxy = xi_1 * yi - xi * yi_1` -/
def dxy (p q : Pt) : Rat := q.1 * p.2 - p.1 * q.2

def t00 (p q : Pt) : Rat := dxy p q
def t10 (p q : Pt) : Rat := dxy p q * (q.1 + p.1)
def t01 (p q : Pt) : Rat := dxy p q * (q.2 + p.2)
def t20 (p q : Pt) : Rat := dxy p q * (q.1 * (q.1 + p.1) + p.1 * p.1)
def t11 (p q : Pt) : Rat :=
  dxy p q * (q.1 * ((q.2 + p.2) + q.2) + p.1 * ((q.2 + p.2) + p.2))
def t02 (p q : Pt) : Rat := dxy p q * (q.2 * (q.2 + p.2) + p.2 * p.2)
def t30 (p q : Pt) : Rat := dxy p q * (q.1 + p.1) * (q.1 * q.1 + p.1 * p.1)
def t03 (p q : Pt) : Rat := dxy p q * (q.2 + p.2) * (q.2 * q.2 + p.2 * p.2)
def t21 (p q : Pt) : Rat :=
  dxy p q * (q.1 * q.1 * (3 * q.2 + p.2) + 2 * p.1 * q.1 * (q.2 + p.2)
             + p.1 * p.1 * (q.2 + 3 * p.2))
def t12 (p q : Pt) : Rat :=
  dxy p q * (q.2 * q.2 * (3 * q.1 + p.1) + 2 * p.2 * q.2 * (q.1 + p.1)
             + p.2 * p.2 * (q.1 + 3 * p.1))

def a00 (c : List Pt) : Rat := cyc t00 c
def a10 (c : List Pt) : Rat := cyc t10 c
def a01 (c : List Pt) : Rat := cyc t01 c
def a20 (c : List Pt) : Rat := cyc t20 c
def a11 (c : List Pt) : Rat := cyc t11 c
def a02 (c : List Pt) : Rat := cyc t02 c
def a30 (c : List Pt) : Rat := cyc t30 c
def a03 (c : List Pt) : Rat := cyc t03 c
def a21 (c : List Pt) : Rat := cyc t21 c
def a12 (c : List Pt) : Rat := cyc t12 c

structure Moments where
  m00 : Rat
  m10 : Rat
  m01 : Rat
  m20 : Rat
  m11 : Rat
  m02 : Rat
  m30 : Rat
  m21 : Rat
  m12 : Rat
  m03 : Rat
  mu20 : Rat
  mu11 : Rat
  mu02 : Rat
  mu30 : Rat
  mu21 : Rat
  mu12 : Rat
  mu03 : Rat
deriving Repr, DecidableEq

/-- the sign flip `if a00 < 0: db1_2 *= -1 …` -/
def sgn (a : Rat) : Rat := if a < 0 then -1 else 1

/-- the raw spatial moments: the first ten entries of the dictionary `m` -/
structure Raw where
  m00 : Rat
  m10 : Rat
  m01 : Rat
  m20 : Rat
  m11 : Rat
  m02 : Rat
  m30 : Rat
  m21 : Rat
  m12 : Rat
  m03 : Rat
deriving Repr, DecidableEq

/-- `m = dict(m00=a00 * db1_2, …)` with the sign-flipped constants -/
def rawMoments (c : List Pt) : Raw :=
  let s := sgn (a00 c)
  { m00 := a00 c * (s * (1/2))
    m10 := a10 c * (s * (1/6))
    m01 := a01 c * (s * (1/6))
    m20 := a20 c * (s * (1/12))
    m11 := a11 c * (s * (1/24))
    m02 := a02 c * (s * (1/12))
    m30 := a30 c * (s * (1/20))
    m21 := a21 c * (s * (1/60))
    m12 := a12 c * (s * (1/60))
    m03 := a03 c * (s * (1/20)) }

/-- centre of gravity and central moments; `dblEps` is `DBL_EPSILON` (the `else: cx = cy = 0`
branch is kept although it is dead for `fltEps / 2 ≥ dblEps`) -/
def central (dblEps : Rat) (m : Raw) : Moments :=
  let cx := if m.m00 > dblEps then m.m10 / m.m00 else 0
  let cy := if m.m00 > dblEps then m.m01 / m.m00 else 0
  let mu20 := m.m20 - m.m10 * cx
  let mu11 := m.m11 - m.m10 * cy
  let mu02 := m.m02 - m.m01 * cy
  { m00 := m.m00, m10 := m.m10, m01 := m.m01, m20 := m.m20, m11 := m.m11, m02 := m.m02,
    m30 := m.m30, m21 := m.m21, m12 := m.m12, m03 := m.m03, mu20, mu11, mu02,
    mu30 := m.m30 - cx * (3 * mu20 + cx * m.m10),
    mu21 := m.m21 - cx * (2 * mu11 + cx * m.m01) - cy * mu20,
    mu12 := m.m12 - cy * (2 * mu11 + cy * m.m10) - cx * mu02,
    mu03 := m.m03 - cy * (3 * mu02 + cy * m.m01) }

/-- the body of `cont_moments_cv` after the `abs(a00) > flt_epsilon` test -/
def momentsCore (dblEps : Rat) (c : List Pt) : Moments := central dblEps (rawMoments c)

/-- `cont_moments_cv(cont, flt_epsilon, dbl_epsilon)`; `none` = Python `None` -/
def moments (fltEps dblEps : Rat) (c : List Pt) : Option Moments :=
  if rabs (a00 c) > fltEps then some (momentsCore dblEps c) else none

/-- square of `get_inert_ratio_raw` (`sqrt(mu20/mu02)`) -/
def inertRatioSq (m : Moments) : Rat := m.mu20 / m.mu02

/-- the textbook shoelace area (signed, counter-clockwise positive in a right-handed frame) -/
def shoelace (c : List Pt) : Rat :=
  (1/2) * cyc (fun p q => p.1 * q.2 - q.1 * p.2) c

def translate (t s : Rat) (p : Pt) : Pt := (p.1 + t, p.2 + s)
def swapXY (p : Pt) : Pt := (p.2, p.1)

/-! ## 2. volume of revolution (`vol_revolve`, `get_volume`) -/

/-- `a1 + a2 + a3` with `rp = r[:-1]`, `dr = np.diff(r)` for one segment from `(r, z)` = `p`
to `q` -/
def coneTerm (p q : Pt) : Rat :=
  let rp := p.1
  let dr := q.1 - p.1
  let dz := q.2 - p.2
  dz * rabs (3 * (rp * rp) + 3 * (rp * dr) + dr * dr)

/-- sum of `coneTerm` over the consecutive pairs of an (open) point list: `np.sum` over
`r[:-1]`/`np.diff` -/
def pathSum (f : Pt → Pt → Rat) : List Pt → Rat
  | [] => 0
  | [_] => 0
  | p :: q :: r => f p q + pathSum f (q :: r)

/-- "make sure we have a closed contour": `np.resize(r, len(r) + 1)` appends the first point
when last ≠ first -/
def close (l : List Pt) : List Pt :=
  match l.head?, l.getLast? with
  | some a, some b => if b ≠ a then l ++ [a] else l
  | _, _ => l

/-- `vol_revolve(r, z, point_scale)` for points `(r, z)` without the sanity assertions:
`np.sum(np.pi / 3 * dz * np.abs(a1 + a2 + a3)) * point_scale ** 3` -/
def volRevolve (pi : Rat) (rz : List Pt) (scale : Rat) : Rat :=
  (pi / 3) * pathSum coneTerm (close rz) * (scale * scale * scale)

/-- `vol_revolve` with its assertions (`len(r) >= 3`, `np.all(r >= 0)`); `none` = AssertionError -/
def volRevolveChecked (pi : Rat) (rz : List Pt) (scale : Rat) : Option Rat :=
  if rz.length ≥ 3 ∧ rz.all (fun p => decide (0 ≤ p.1)) then some (volRevolve pi rz scale) else none

/-- the body of `get_volume` after centring: the upper half (`contour_right`, negative radii
moved onto the axis) and the mirrored, reversed lower half are revolved and averaged; `cr` are the
radii, `cz` the axial coordinates handed to `vol_revolve` -/
def halves (pi : Rat) (cr cz : List Rat) (pix : Rat) : Rat :=
  let right := cr.map (fun r => if r < 0 then 0 else r)
  let left := cr.map (fun r => -(if r > 0 then 0 else r))
  let volRight := volRevolve pi (List.zip right cz) pix
  let volLeft := volRevolve pi (List.zip left.reverse cz.reverse) pix
  (volRight + volLeft) / 2

/-- `get_volume(cont, pos_x, pos_y, pix)` for one contour (list of `(x, y)` in pixels);
`none` = NaN (fewer than four points). `fix_orientation=False`. -/
def getVolume (pi : Rat) (cont : List Pt) (posx posy pix : Rat) : Option Rat :=
  if cont.length ≥ 4 then
    let cx := cont.map (fun p => p.1 - posx / pix)      -- contour_x  (= z)
    let cr := cont.map (fun p => p.2 - posy / pix)      -- contour_y  (= r)
    some (halves pi cr cx pix)
  else none

/-- `get_volume(…, fix_orientation=True)` after F35. `cw` is the outcome of the orientation test
of `counter_clockwise` (`np.average(np.diff(np.unwrap(np.arctan2(z, r)))) < 0`, a parameter of
the model): a clockwise contour is traversed backwards, radii *and* axial coordinates. -/
def getVolumeFix (pi : Rat) (cont : List Pt) (posx posy pix : Rat) (cw : Bool) : Option Rat :=
  if cont.length ≥ 4 then
    let cx := cont.map (fun p => p.1 - posx / pix)
    let cr := cont.map (fun p => p.2 - posy / pix)
    let rz := if cw then (cr.reverse, cx.reverse) else (cr, cx)     -- counter_clockwise(r, z)
    some (halves pi rz.1 rz.2 pix)
  else none

/-- `get_volume(…, fix_orientation=True)` before F35: the reversed radii were revolved along the
*un-reversed* `contour_x` -/
def getVolumeFixOld (pi : Rat) (cont : List Pt) (posx posy pix : Rat) (cw : Bool) : Option Rat :=
  if cont.length ≥ 4 then
    let cx := cont.map (fun p => p.1 - posx / pix)
    let cr := cont.map (fun p => p.2 - posy / pix)
    let rz := if cw then (cr.reverse, cx.reverse) else (cr, cx)
    some (halves pi rz.1 cx pix)
  else none

/-! ## 3. brightness (`get_bright`, `get_bright_bc`, `get_bright_perc`) -/

/-- one pixel: mask bit, image value, background value -/
structure Px where
  m : Bool
  img : Rat
  bg : Rat

/-- `imgi[mski]` with `imgi = image - image_bg` -/
def masked (px : List Px) : List Rat := (px.filter (·.m)).map (fun p => p.img - p.bg)

/-- adding `d` to every background pixel -/
def bgShift (d : Rat) (px : List Px) : List Px := px.map (fun p => { p with bg := p.bg + d })

def mean (v : List Rat) : Rat := rsum v / v.length

/-- `np.std(v)**2` (population variance) -/
def variance (v : List Rat) : Rat :=
  let mu := mean v
  rsum (v.map (fun x => (x - mu) * (x - mu))) / v.length

/-- `bright_bc_avg`: `np.mean(imgi[mski])`, then `avg -= bg_off` when an offset is given -/
def brightAvg (px : List Px) (off : Option Rat) : Rat :=
  match off with
  | none => mean (masked px)
  | some o => mean (masked px) - o

/-- `bright_bc_sd` squared; the offset does not enter -/
def brightVar (px : List Px) : Rat := variance (masked px)

/-- index with clamping to the valid range (default 0 for the empty list) -/
def nth (s : List Rat) (i : Nat) : Rat := s.getD (min i (s.length - 1)) 0

/-- `np.percentile(v, q)` with the default (`linear`) method:
`pos = q/100·(n−1)`, `lo = floor pos`, `γ = pos − lo`, result `s[lo] + (s[lo+1] − s[lo])·γ` -/
def percentile (q : Rat) (v : List Rat) : Rat :=
  let s := v.mergeSort (fun a b => decide (a ≤ b))
  let pos := q / 100 * ((s.length : Rat) - 1)
  let lo := pos.floor.toNat
  let g := pos - (lo : Rat)
  nth s lo + (nth s (lo + 1) - nth s lo) * g

/-- `get_bright_perc` after F19: `if bg_off is not None: p -= bg_off` -/
def brightPerc (q : Rat) (px : List Px) (off : Option Rat) : Rat :=
  match off with
  | none => percentile q (masked px)
  | some o => percentile q (masked px) - o

/-- Python truthiness of the `bg_off` argument as it reaches `if bg_off:` -/
inductive Truth where
  | isTrue | isFalse | raises
deriving DecidableEq, Repr

/-- container kinds of `bg_off`: number / Python list / numpy array with `n` elements;
`nz` = "the first element is non-zero" -/
def truthOf (isArray : Bool) (n : Nat) (nz : Bool) : Truth :=
  if isArray then
    (if n = 0 then .isFalse else if n = 1 then (if nz then .isTrue else .isFalse) else .raises)
  else (if n = 0 then .isFalse else .isTrue)   -- list: non-empty ⇒ True

/-- `get_bright_perc` before the fix: `if bg_off:`; `none` = `ValueError` (truth value of an
array with more than one element is ambiguous) -/
def brightPercOld (q : Rat) (px : List Px) (off : Rat) (t : Truth) : Option Rat :=
  match t with
  | .raises => none
  | .isTrue => some (percentile q (masked px) - off)
  | .isFalse => some (percentile q (masked px))

/-! ## 4. crosstalk (`get_compensation_matrix`, `correct_crosstalk`) -/

structure Mat3 where
  c11 : Rat
  c12 : Rat
  c13 : Rat
  c21 : Rat
  c22 : Rat
  c23 : Rat
  c31 : Rat
  c32 : Rat
  c33 : Rat
deriving DecidableEq, Repr

abbrev Vec3 := Rat × Rat × Rat

def det (c : Mat3) : Rat :=
  c.c11 * (c.c22 * c.c33 - c.c23 * c.c32) - c.c12 * (c.c21 * c.c33 - c.c23 * c.c31)
    + c.c13 * (c.c21 * c.c32 - c.c22 * c.c31)

/-- adjugate (transpose of the cofactor matrix) -/
def adj (c : Mat3) : Mat3 :=
  { c11 := c.c22 * c.c33 - c.c23 * c.c32
    c12 := c.c13 * c.c32 - c.c12 * c.c33
    c13 := c.c12 * c.c23 - c.c13 * c.c22
    c21 := c.c23 * c.c31 - c.c21 * c.c33
    c22 := c.c11 * c.c33 - c.c13 * c.c31
    c23 := c.c13 * c.c21 - c.c11 * c.c23
    c31 := c.c21 * c.c32 - c.c22 * c.c31
    c32 := c.c12 * c.c31 - c.c11 * c.c32
    c33 := c.c11 * c.c22 - c.c12 * c.c21 }

/-- row vector times matrix: `out_j = Σ_i x_i · c_ij` (spill *from* channel i *to* channel j) -/
def vecMul (x : Vec3) (c : Mat3) : Vec3 :=
  (x.1 * c.c11 + x.2.1 * c.c21 + x.2.2 * c.c31,
   x.1 * c.c12 + x.2.1 * c.c22 + x.2.2 * c.c32,
   x.1 * c.c13 + x.2.1 * c.c23 + x.2.2 * c.c33)

/-- the measured signals of true signals `x` under the spill-over matrix `c` -/
def spill (c : Mat3) (x : Vec3) : Vec3 := vecMul x c

/-- `np.linalg.inv(crosstalk)` as adjugate / determinant -/
def inv (c : Mat3) : Mat3 :=
  let a := adj c
  let d := det c
  { c11 := a.c11 / d, c12 := a.c12 / d, c13 := a.c13 / d
    c21 := a.c21 / d, c22 := a.c22 / d, c23 := a.c23 / d
    c31 := a.c31 / d, c32 := a.c32 / d, c33 := a.c33 / d }

/-- `correct_crosstalk` for all three channels: `flout_k = Σ_i minv[i][k] · fl_i` -/
def compensate (c : Mat3) (y : Vec3) : Vec3 := vecMul y (inv c)

inductive CtErr where
  | negative | singular
deriving DecidableEq, Repr

/-- `get_compensation_matrix(ct21, ct31, ct12, ct32, ct13, ct23)`: unit diagonal, negative
elements rejected (`ValueError`), singular matrices rejected by `np.linalg.inv` -/
def crosstalkMatrix (ct21 ct31 ct12 ct32 ct13 ct23 : Rat) : Mat3 :=
  { c11 := 1, c12 := ct12, c13 := ct13, c21 := ct21, c22 := 1, c23 := ct23,
    c31 := ct31, c32 := ct32, c33 := 1 }

def compMatrix (ct21 ct31 ct12 ct32 ct13 ct23 : Rat) : Except CtErr Mat3 :=
  if ct21 < 0 ∨ ct31 < 0 ∨ ct12 < 0 ∨ ct32 < 0 ∨ ct13 < 0 ∨ ct23 < 0 then .error .negative
  else
    let c := crosstalkMatrix ct21 ct31 ct12 ct32 ct13 ct23
    if det c = 0 then .error .singular else .ok (inv c)

/-- `correct_crosstalk(fl1, fl2, fl3, k, …)` for k = 1, 2, 3 at once -/
def correctCrosstalk (ct21 ct31 ct12 ct32 ct13 ct23 : Rat) (y : Vec3) : Except CtErr Vec3 :=
  match compMatrix ct21 ct31 ct12 ct32 ct13 ct23 with
  | .error e => .error e
  | .ok m => .ok (vecMul y m)

/-! ## 5. duplicate removal of `get_contour` (`remove_duplicates`) -/

/-- `selection[i] = (x[i] ≠ x[i-1])` for i ≥ 1: walk along `x` remembering the previous point -/
def compressFrom [DecidableEq α] (prev : α) : List α → List α
  | [] => []
  | b :: r => if b = prev then compressFrom b r else b :: compressFrom b r

/-- `x[selection]` with `selection[0] = True`: keep the first element of every run -/
def compress [DecidableEq α] : List α → List α
  | [] => []
  | a :: r => a :: compressFrom a r

/-- `remove_duplicates(cont)`: `x = np.resize(cont, (len + 1, 2))` (the first point appended),
selection as above, `x[selection][:-1]` -/
def removeDuplicates [DecidableEq α] (cont : List α) : List α :=
  match cont with
  | [] => []
  | a :: _ => (compress (cont ++ [a])).dropLast

end DclabModel.Feat
