/-!
# Model of the contour-, image- and fluorescence-derived features (C18)

Executable model over core `Rat` (no imports) of

* `dclab/features/inert_ratio.py:cont_moments_cv`   → `moments`
* `dclab/features/volume.py:vol_revolve/get_volume` → `volRevolve`, `getVolume` (π is a parameter)
* `dclab/features/bright.py, bright_bc.py, bright_perc.py` → `brightAvg`, `brightVar`, `percentile`,
  `brightPerc`, `brightPercOld` (the pre-fix `if bg_off:` test, F19)
* `dclab/features/fl_crosstalk.py`                  → `spill`, `compensate`, `compMatrix`
* `dclab/features/contour.py:remove_duplicates`     → `removeDuplicates`
* `dclab/features/fl_crosstalk.py:correct_crosstalk` (one channel) → `correctChannel`, `twoChannel`
* batch calls of `get_bright_bc` / `get_bright_perc` with `bg_off` containers and `ret_data`
  → `BgOff`, `subOff`, `brightBcBatch`, `brightPercBatch`
* `dclab/features/contour.py:LazyContourList.__getitem__` with events whose `get_contour` raises
  → `lclGet`, `lclRun` (and the faulty early-registration variant `lclGetEarly`)
* the rotation inside `get_inert_ratio_prnc` → `rot`, `rotatedSecond`, `prncSq` (cosine and sine
  of the angle are parameters)

Every definition follows the Python text term by term (the names of the Python variables are
kept); floating point is replaced by exact rationals, `sqrt`/`atan2` do not occur (the inertia
ratio is modelled by its square `mu20/mu02`).
-/
namespace DclabModel.Feat

/-- a contour point `(x, y)` -/
abbrev Pt := Rat × Rat

def rsum : List Rat → Rat
  | [] => 0
  | a :: r => a + rsum r

def rabs (x : Rat) : Rat := if x < 0 then -x else x

/-- `np.roll(a, -1)` -/
def roll : List α → List α
  | [] => []
  | a :: r => r ++ [a]

/-- `np.sum(f(cont, np.roll(cont, -1)))`: sum over all contour points `p = (xi, yi)` and their
cyclic successors `q = (xi_1, yi_1)` -/
def cyc (f : Pt → Pt → Rat) (c : List Pt) : Rat :=
  rsum (List.zipWith f c (roll c))

/-! ## 1. contour moments (`cont_moments_cv`) -/

/-- `dxy = xi_1 * yi - xi * yi_1` -/
def dxy (p q : Pt) : Rat := q.1 * p.2 - p.1 * q.2

def t00 (p q : Pt) : Rat := dxy p q
def t10 (p q : Pt) : Rat := dxy p q * (q.1 + p.1)
def t01 (p q : Pt) : Rat := dxy p q * (q.2 + p.2)
def t20 (p q : Pt) : Rat := dxy p q * (q.1 * (q.1 + p.1) + p.1 * p.1)
def t11 (p q : Pt) : Rat :=
  dxy p q * (q.1 * ((q.2 + p.2) + q.2) + p.1 * ((q.2 + p.2) + p.2))
def t02 (p q : Pt) : Rat := dxy p q * (q.2 * (q.2 + p.2) + p.2 * p.2)
def t30 (p q : Pt) : Rat := dxy p q * (q.1 + p.1) * (q.1 * q.1 + p.1 * p.1)
def t03 (p q : Pt) : Rat := dxy p q * (q.2 + p.2) * (q.2 * q.2 + p.2 * p.2)
def t21 (p q : Pt) : Rat :=
  dxy p q * (q.1 * q.1 * (3 * q.2 + p.2) + 2 * p.1 * q.1 * (q.2 + p.2)
             + p.1 * p.1 * (q.2 + 3 * p.2))
def t12 (p q : Pt) : Rat :=
  dxy p q * (q.2 * q.2 * (3 * q.1 + p.1) + 2 * p.2 * q.2 * (q.1 + p.1)
             + p.2 * p.2 * (q.1 + 3 * p.1))

def a00 (c : List Pt) : Rat := cyc t00 c
def a10 (c : List Pt) : Rat := cyc t10 c
def a01 (c : List Pt) : Rat := cyc t01 c
def a20 (c : List Pt) : Rat := cyc t20 c
def a11 (c : List Pt) : Rat := cyc t11 c
def a02 (c : List Pt) : Rat := cyc t02 c
def a30 (c : List Pt) : Rat := cyc t30 c
def a03 (c : List Pt) : Rat := cyc t03 c
def a21 (c : List Pt) : Rat := cyc t21 c
def a12 (c : List Pt) : Rat := cyc t12 c

structure Moments where
  m00 : Rat
  m10 : Rat
  m01 : Rat
  m20 : Rat
  m11 : Rat
  m02 : Rat
  m30 : Rat
  m21 : Rat
  m12 : Rat
  m03 : Rat
  mu20 : Rat
  mu11 : Rat
  mu02 : Rat
  mu30 : Rat
  mu21 : Rat
  mu12 : Rat
  mu03 : Rat
deriving Repr, DecidableEq

/-- the sign flip `if a00 < 0: db1_2 *= -1 …` -/
def sgn (a : Rat) : Rat := if a < 0 then -1 else 1

/-- the raw spatial moments: the first ten entries of the dictionary `m` -/
structure Raw where
  m00 : Rat
  m10 : Rat
  m01 : Rat
  m20 : Rat
  m11 : Rat
  m02 : Rat
  m30 : Rat
  m21 : Rat
  m12 : Rat
  m03 : Rat
deriving Repr, DecidableEq

/-- `m = dict(m00=a00 * db1_2, …)` with the sign-flipped constants -/
def rawMoments (c : List Pt) : Raw :=
  let s := sgn (a00 c)
  { m00 := a00 c * (s * (1/2))
    m10 := a10 c * (s * (1/6))
    m01 := a01 c * (s * (1/6))
    m20 := a20 c * (s * (1/12))
    m11 := a11 c * (s * (1/24))
    m02 := a02 c * (s * (1/12))
    m30 := a30 c * (s * (1/20))
    m21 := a21 c * (s * (1/60))
    m12 := a12 c * (s * (1/60))
    m03 := a03 c * (s * (1/20)) }

/-- centre of gravity and central moments; `dblEps` is `DBL_EPSILON` (the `else: cx = cy = 0`
branch is kept although it is dead for `fltEps / 2 ≥ dblEps`) -/
def central (dblEps : Rat) (m : Raw) : Moments :=
  let cx := if m.m00 > dblEps then m.m10 / m.m00 else 0
  let cy := if m.m00 > dblEps then m.m01 / m.m00 else 0
  let mu20 := m.m20 - m.m10 * cx
  let mu11 := m.m11 - m.m10 * cy
  let mu02 := m.m02 - m.m01 * cy
  { m00 := m.m00, m10 := m.m10, m01 := m.m01, m20 := m.m20, m11 := m.m11, m02 := m.m02,
    m30 := m.m30, m21 := m.m21, m12 := m.m12, m03 := m.m03, mu20, mu11, mu02,
    mu30 := m.m30 - cx * (3 * mu20 + cx * m.m10),
    mu21 := m.m21 - cx * (2 * mu11 + cx * m.m01) - cy * mu20,
    mu12 := m.m12 - cy * (2 * mu11 + cy * m.m10) - cx * mu02,
    mu03 := m.m03 - cy * (3 * mu02 + cy * m.m01) }

/-- the body of `cont_moments_cv` after the `abs(a00) > flt_epsilon` test -/
def momentsCore (dblEps : Rat) (c : List Pt) : Moments := central dblEps (rawMoments c)

/-- `cont_moments_cv(cont, flt_epsilon, dbl_epsilon)`; `none` = Python `None` -/
def moments (fltEps dblEps : Rat) (c : List Pt) : Option Moments :=
  if rabs (a00 c) > fltEps then some (momentsCore dblEps c) else none

/-- square of `get_inert_ratio_raw` (`sqrt(mu20/mu02)`) -/
def inertRatioSq (m : Moments) : Rat := m.mu20 / m.mu02

/-- the textbook shoelace area (signed, counter-clockwise positive in a right-handed frame) -/
def shoelace (c : List Pt) : Rat :=
  (1/2) * cyc (fun p q => p.1 * q.2 - q.1 * p.2) c

def translate (t s : Rat) (p : Pt) : Pt := (p.1 + t, p.2 + s)
def swapXY (p : Pt) : Pt := (p.2, p.1)

/-! ## 2. volume of revolution (`vol_revolve`, `get_volume`) -/

/-- `a1 + a2 + a3` with `rp = r[:-1]`, `dr = np.diff(r)` for one segment from `(r, z)` = `p`
to `q` -/
def coneTerm (p q : Pt) : Rat :=
  let rp := p.1
  let dr := q.1 - p.1
  let dz := q.2 - p.2
  dz * rabs (3 * (rp * rp) + 3 * (rp * dr) + dr * dr)

/-- sum of `coneTerm` over the consecutive pairs of an (open) point list: `np.sum` over
`r[:-1]`/`np.diff` -/
def pathSum (f : Pt → Pt → Rat) : List Pt → Rat
  | [] => 0
  | [_] => 0
  | p :: q :: r => f p q + pathSum f (q :: r)

/-- "make sure we have a closed contour": `np.resize(r, len(r) + 1)` appends the first point
when last ≠ first -/
def close (l : List Pt) : List Pt :=
  match l.head?, l.getLast? with
  | some a, some b => if b ≠ a then l ++ [a] else l
  | _, _ => l

/-- `vol_revolve(r, z, point_scale)` for points `(r, z)` without the sanity assertions:
`np.sum(np.pi / 3 * dz * np.abs(a1 + a2 + a3)) * point_scale ** 3` -/
def volRevolve (pi : Rat) (rz : List Pt) (scale : Rat) : Rat :=
  (pi / 3) * pathSum coneTerm (close rz) * (scale * scale * scale)

/-- `vol_revolve` with its assertions (`len(r) >= 3`, `np.all(r >= 0)`); `none` = AssertionError -/
def volRevolveChecked (pi : Rat) (rz : List Pt) (scale : Rat) : Option Rat :=
  if rz.length ≥ 3 ∧ rz.all (fun p => decide (0 ≤ p.1)) then some (volRevolve pi rz scale) else none

/-- the body of `get_volume` after centring: the upper half (`contour_right`, negative radii
moved onto the axis) and the mirrored, reversed lower half are revolved and averaged; `cr` are the
radii, `cz` the axial coordinates handed to `vol_revolve` -/
def halves (pi : Rat) (cr cz : List Rat) (pix : Rat) : Rat :=
  let right := cr.map (fun r => if r < 0 then 0 else r)
  let left := cr.map (fun r => -(if r > 0 then 0 else r))
  let volRight := volRevolve pi (List.zip right cz) pix
  let volLeft := volRevolve pi (List.zip left.reverse cz.reverse) pix
  (volRight + volLeft) / 2

/-- `get_volume(cont, pos_x, pos_y, pix)` for one contour (list of `(x, y)` in pixels);
`none` = NaN (fewer than four points). `fix_orientation=False`. -/
def getVolume (pi : Rat) (cont : List Pt) (posx posy pix : Rat) : Option Rat :=
  if cont.length ≥ 4 then
    let cx := cont.map (fun p => p.1 - posx / pix)      -- contour_x  (= z)
    let cr := cont.map (fun p => p.2 - posy / pix)      -- contour_y  (= r)
    some (halves pi cr cx pix)
  else none

/-- `get_volume(…, fix_orientation=True)` after F35. `cw` is the outcome of the orientation test
of `counter_clockwise` (`np.average(np.diff(np.unwrap(np.arctan2(z, r)))) < 0`, a parameter of
the model): a clockwise contour is traversed backwards, radii *and* axial coordinates. -/
def getVolumeFix (pi : Rat) (cont : List Pt) (posx posy pix : Rat) (cw : Bool) : Option Rat :=
  if cont.length ≥ 4 then
    let cx := cont.map (fun p => p.1 - posx / pix)
    let cr := cont.map (fun p => p.2 - posy / pix)
    let rz := if cw then (cr.reverse, cx.reverse) else (cr, cx)     -- counter_clockwise(r, z)
    some (halves pi rz.1 rz.2 pix)
  else none

/-- `get_volume(…, fix_orientation=True)` before F35: the reversed radii were revolved along the
*un-reversed* `contour_x` -/
def getVolumeFixOld (pi : Rat) (cont : List Pt) (posx posy pix : Rat) (cw : Bool) : Option Rat :=
  if cont.length ≥ 4 then
    let cx := cont.map (fun p => p.1 - posx / pix)
    let cr := cont.map (fun p => p.2 - posy / pix)
    let rz := if cw then (cr.reverse, cx.reverse) else (cr, cx)
    some (halves pi rz.1 cx pix)
  else none

/-! ## 3. brightness (`get_bright`, `get_bright_bc`, `get_bright_perc`) -/

/-- one pixel: mask bit, image value, background value -/
structure Px where
  m : Bool
  img : Rat
  bg : Rat

/-- `imgi[mski]` with `imgi = image - image_bg` -/
def masked (px : List Px) : List Rat := (px.filter (·.m)).map (fun p => p.img - p.bg)

/-- adding `d` to every background pixel -/
def bgShift (d : Rat) (px : List Px) : List Px := px.map (fun p => { p with bg := p.bg + d })

def mean (v : List Rat) : Rat := rsum v / v.length

/-- `np.std(v)**2` (population variance) -/
def variance (v : List Rat) : Rat :=
  let mu := mean v
  rsum (v.map (fun x => (x - mu) * (x - mu))) / v.length

/-- `bright_bc_avg`: `np.mean(imgi[mski])`, then `avg -= bg_off` when an offset is given -/
def brightAvg (px : List Px) (off : Option Rat) : Rat :=
  match off with
  | none => mean (masked px)
  | some o => mean (masked px) - o

/-- `bright_bc_sd` squared; the offset does not enter -/
def brightVar (px : List Px) : Rat := variance (masked px)

/-- index with clamping to the valid range (default 0 for the empty list) -/
def nth (s : List Rat) (i : Nat) : Rat := s.getD (min i (s.length - 1)) 0

/-- `np.percentile(v, q)` with the default (`linear`) method:
`pos = q/100·(n−1)`, `lo = floor pos`, `γ = pos − lo`, result `s[lo] + (s[lo+1] − s[lo])·γ` -/
def percentile (q : Rat) (v : List Rat) : Rat :=
  let s := v.mergeSort (fun a b => decide (a ≤ b))
  let pos := q / 100 * ((s.length : Rat) - 1)
  let lo := pos.floor.toNat
  let g := pos - (lo : Rat)
  nth s lo + (nth s (lo + 1) - nth s lo) * g

/-- `get_bright_perc` after F19: `if bg_off is not None: p -= bg_off` -/
def brightPerc (q : Rat) (px : List Px) (off : Option Rat) : Rat :=
  match off with
  | none => percentile q (masked px)
  | some o => percentile q (masked px) - o

/-- Python truthiness of the `bg_off` argument as it reaches `if bg_off:` -/
inductive Truth where
  | isTrue | isFalse | raises
deriving DecidableEq, Repr

/-- container kinds of `bg_off`: number / Python list / numpy array with `n` elements;
`nz` = "the first element is non-zero" -/
def truthOf (isArray : Bool) (n : Nat) (nz : Bool) : Truth :=
  if isArray then
    (if n = 0 then .isFalse else if n = 1 then (if nz then .isTrue else .isFalse) else .raises)
  else (if n = 0 then .isFalse else .isTrue)   -- list: non-empty ⇒ True

/-- `get_bright_perc` before the fix: `if bg_off:`; `none` = `ValueError` (truth value of an
array with more than one element is ambiguous) -/
def brightPercOld (q : Rat) (px : List Px) (off : Rat) (t : Truth) : Option Rat :=
  match t with
  | .raises => none
  | .isTrue => some (percentile q (masked px) - off)
  | .isFalse => some (percentile q (masked px))

/-! ## 4. crosstalk (`get_compensation_matrix`, `correct_crosstalk`) -/

structure Mat3 where
  c11 : Rat
  c12 : Rat
  c13 : Rat
  c21 : Rat
  c22 : Rat
  c23 : Rat
  c31 : Rat
  c32 : Rat
  c33 : Rat
deriving DecidableEq, Repr

abbrev Vec3 := Rat × Rat × Rat

def det (c : Mat3) : Rat :=
  c.c11 * (c.c22 * c.c33 - c.c23 * c.c32) - c.c12 * (c.c21 * c.c33 - c.c23 * c.c31)
    + c.c13 * (c.c21 * c.c32 - c.c22 * c.c31)

/-- adjugate (transpose of the cofactor matrix) -/
def adj (c : Mat3) : Mat3 :=
  { c11 := c.c22 * c.c33 - c.c23 * c.c32
    c12 := c.c13 * c.c32 - c.c12 * c.c33
    c13 := c.c12 * c.c23 - c.c13 * c.c22
    c21 := c.c23 * c.c31 - c.c21 * c.c33
    c22 := c.c11 * c.c33 - c.c13 * c.c31
    c23 := c.c13 * c.c21 - c.c11 * c.c23
    c31 := c.c21 * c.c32 - c.c22 * c.c31
    c32 := c.c12 * c.c31 - c.c11 * c.c32
    c33 := c.c11 * c.c22 - c.c12 * c.c21 }

/-- row vector times matrix: `out_j = Σ_i x_i · c_ij` (spill *from* channel i *to* channel j) -/
def vecMul (x : Vec3) (c : Mat3) : Vec3 :=
  (x.1 * c.c11 + x.2.1 * c.c21 + x.2.2 * c.c31,
   x.1 * c.c12 + x.2.1 * c.c22 + x.2.2 * c.c32,
   x.1 * c.c13 + x.2.1 * c.c23 + x.2.2 * c.c33)

/-- the measured signals of true signals `x` under the spill-over matrix `c` -/
def spill (c : Mat3) (x : Vec3) : Vec3 := vecMul x c

/-- `np.linalg.inv(crosstalk)` as adjugate / determinant -/
def inv (c : Mat3) : Mat3 :=
  let a := adj c
  let d := det c
  { c11 := a.c11 / d, c12 := a.c12 / d, c13 := a.c13 / d
    c21 := a.c21 / d, c22 := a.c22 / d, c23 := a.c23 / d
    c31 := a.c31 / d, c32 := a.c32 / d, c33 := a.c33 / d }

/-- `correct_crosstalk` for all three channels: `flout_k = Σ_i minv[i][k] · fl_i` -/
def compensate (c : Mat3) (y : Vec3) : Vec3 := vecMul y (inv c)

inductive CtErr where
  | negative | singular
deriving DecidableEq, Repr

/-- `get_compensation_matrix(ct21, ct31, ct12, ct32, ct13, ct23)`: unit diagonal, negative
elements rejected (`ValueError`), singular matrices rejected by `np.linalg.inv` -/
def crosstalkMatrix (ct21 ct31 ct12 ct32 ct13 ct23 : Rat) : Mat3 :=
  { c11 := 1, c12 := ct12, c13 := ct13, c21 := ct21, c22 := 1, c23 := ct23,
    c31 := ct31, c32 := ct32, c33 := 1 }

def compMatrix (ct21 ct31 ct12 ct32 ct13 ct23 : Rat) : Except CtErr Mat3 :=
  if ct21 < 0 ∨ ct31 < 0 ∨ ct12 < 0 ∨ ct32 < 0 ∨ ct13 < 0 ∨ ct23 < 0 then .error .negative
  else
    let c := crosstalkMatrix ct21 ct31 ct12 ct32 ct13 ct23
    if det c = 0 then .error .singular else .ok (inv c)

/-- `correct_crosstalk(fl1, fl2, fl3, k, …)` for k = 1, 2, 3 at once -/
def correctCrosstalk (ct21 ct31 ct12 ct32 ct13 ct23 : Rat) (y : Vec3) : Except CtErr Vec3 :=
  match compMatrix ct21 ct31 ct12 ct32 ct13 ct23 with
  | .error e => .error e
  | .ok m => .ok (vecMul y m)

/-! ## 5. duplicate removal of `get_contour` (`remove_duplicates`) -/

/-- `selection[i] = (x[i] ≠ x[i-1])` for i ≥ 1: walk along `x` remembering the previous point -/
def compressFrom [DecidableEq α] (prev : α) : List α → List α
  | [] => []
  | b :: r => if b = prev then compressFrom b r else b :: compressFrom b r

/-- `x[selection]` with `selection[0] = True`: keep the first element of every run -/
def compress [DecidableEq α] : List α → List α
  | [] => []
  | a :: r => a :: compressFrom a r

/-- `remove_duplicates(cont)`: `x = np.resize(cont, (len + 1, 2))` (the first point appended),
selection as above, `x[selection][:-1]` -/
def removeDuplicates [DecidableEq α] (cont : List α) : List α :=
  match cont with
  | [] => []
  | a :: _ => (compress (cont ++ [a])).dropLast

/-! ## 4b. single-channel correction and the closed forms of the sub-cases -/

/-- column `k-1` of a 3×3 matrix (`minv[:, fl_channel - 1]`) -/
def column (m : Mat3) (k : Nat) : Option Vec3 :=
  match k with
  | 1 => some (m.c11, m.c21, m.c31)
  | 2 => some (m.c12, m.c22, m.c32)
  | 3 => some (m.c13, m.c23, m.c33)
  | _ => none

/-- component `k` (1-based) of a signal triple -/
def channel (x : Vec3) (k : Nat) : Option Rat :=
  match k with
  | 1 => some x.1
  | 2 => some x.2.1
  | 3 => some x.2.2
  | _ => none

inductive CorrErr where
  | channel | negative | singular
deriving DecidableEq, Repr

/-- `correct_crosstalk(fl1, fl2, fl3, fl_channel, ct21, …)`: the channel test comes first
(`ValueError`), then `get_compensation_matrix`, then `col[0]*fl1 + col[1]*fl2 + col[2]*fl3` -/
def correctChannel (k : Nat) (ct21 ct31 ct12 ct32 ct13 ct23 : Rat) (y : Vec3) : Except CorrErr Rat :=
  if k ≠ 1 ∧ k ≠ 2 ∧ k ≠ 3 then .error .channel
  else
    match compMatrix ct21 ct31 ct12 ct32 ct13 ct23 with
    | .error .negative => .error .negative
    | .error .singular => .error .singular
    | .ok m =>
      match column m k with
      | none => .error .channel
      | some col => .ok (col.1 * y.1 + col.2.1 * y.2.1 + col.2.2 * y.2.2)

/-- closed form for two channels `a`, `b` that exchange spill (`cab` from a to b, `cba` from b
to a): true signals from the measured `(u, v)` -/
def twoChannel (cab cba u v : Rat) : Rat × Rat :=
  ((u - cba * v) / (1 - cab * cba), (v - cab * u) / (1 - cab * cba))

/-! ## 3b. batch calls of `get_bright_bc` / `get_bright_perc` with per-event offsets -/

/-- the `bg_off` argument of a batch call -/
inductive BgOff where
  | none
  | scalar (o : Rat)
  | array (os : List Rat)      -- 1-D array / list / tuple / the `bg_off` feature
deriving Repr

/-- `v -= bg_off` (NumPy in-place broadcasting: equal length or length one, else `ValueError`) -/
def subOff (v : List Rat) (off : BgOff) : Option (List Rat) :=
  match off with
  | .none => some v
  | .scalar o => some (v.map (· - o))
  | .array os =>
    if os.length = v.length then some (List.zipWith (· - ·) v os)
    else match os with
      | [o] => some (v.map (· - o))
      | _ => none

/-- `get_bright_bc(mask, image, image_bg, bg_off, ret_data)` for a list of events.
`retAvg = ("avg" in ret_data)`, `retSd = ("sd" in ret_data)`; result = the selected metrics in
the order avg, sd (`sd` as variance), `none` = `ValueError` (nothing selected / broadcasting) -/
def brightBcBatch (ev : List (List Px)) (off : BgOff) (retAvg retSd : Bool) :
    Option (List (List Rat)) :=
  if !retAvg && !retSd then none
  else
    let avg := ev.map (fun px => mean (masked px))
    let var := ev.map (fun px => variance (masked px))
    if retAvg then
      match subOff avg off with
      | none => none
      | some a => some (if retSd then [a, var] else [a])
    else some [var]

/-- `get_bright_perc(mask, image, image_bg, bg_off)` for a list of events: `(p10, p90)` -/
def brightPercBatch (ev : List (List Px)) (off : BgOff) : Option (List Rat × List Rat) :=
  let p10 := ev.map (fun px => percentile 10 (masked px))
  let p90 := ev.map (fun px => percentile 90 (masked px))
  match subOff p10 off, subOff p90 off with
  | some a, some b => some (a, b)
  | _, _ => none

/-- per-event background shift -/
def bgShiftEach (os : List Rat) (ev : List (List Px)) : List (List Px) :=
  List.zipWith bgShift os ev

/-! ## 6. `LazyContourList.__getitem__` with events whose contour computation fails -/

/-- the two parallel deques of `LazyContourList` -/
structure Lcl (C : Type) where
  indices  : List Nat
  contours : List C
deriving Repr

/-- `self.indices.index(idx)` (`none` = `ValueError`) -/
def lclFind (i : Nat) : List Nat → Option Nat
  | [] => none
  | j :: r => if j = i then some 0 else (lclFind i r).map (· + 1)

/-- `deque(maxlen=m).append(x)`; `m = 0` ⇒ unbounded (`max_events or None`) -/
def lclPush (m : Nat) (l : List α) (x : α) : List α :=
  let l' := l ++ [x]
  if m ≠ 0 ∧ l'.length > m then l'.drop (l'.length - m) else l'

/-- what one integer access does -/
inductive LclOut (E C : Type) where
  | hit (c : C)          -- taken from the deque
  | computed (c : C)     -- `get_contour(self.masks[idx])` succeeded
  | raised (e : E)       -- `get_contour` raised; re-raised with "Event idx, …"
  | indexError           -- `self.contours[idx_q]` out of range (deques out of step)
deriving DecidableEq, Repr

/-- the observable result: a contour, an exception of `get_contour`, or (`none`) a stray
`IndexError` of the deque -/
def LclOut.result : LclOut E C → Option (Except E C)
  | .hit c => some (.ok c)
  | .computed c => some (.ok c)
  | .raised e => some (.error e)
  | .indexError => none

/-- `LazyContourList.__getitem__(idx)` for an integer index. `f i` = `get_contour(masks[i])`
(`.error` when it raises). Both deques are appended *after* the contour is available, on a miss
and on a hit; when `get_contour` raises nothing is appended. -/
def lclGet (f : Nat → Except E C) (m : Nat) (d : Lcl C) (i : Nat) : Lcl C × LclOut E C :=
  match lclFind i d.indices with
  | none =>
    match f i with
    | .error e => (d, .raised e)
    | .ok c => ({ indices := lclPush m d.indices i, contours := lclPush m d.contours c },
                .computed c)
  | some q =>
    match d.contours[q]? with
    | none => (d, .indexError)
    | some c => ({ indices := lclPush m d.indices i, contours := lclPush m d.contours c }, .hit c)

/-- the restructuring that registers the index *before* the contour is computed (and only for
new contours): after a failing event `indices` is one longer than `contours` -/
def lclGetEarly (f : Nat → Except E C) (m : Nat) (d : Lcl C) (i : Nat) : Lcl C × LclOut E C :=
  match lclFind i d.indices with
  | none =>
    let ind := lclPush m d.indices i
    match f i with
    | .error e => ({ d with indices := ind }, .raised e)
    | .ok c => ({ indices := ind, contours := lclPush m d.contours c }, .computed c)
  | some q =>
    match d.contours[q]? with
    | none => (d, .indexError)
    | some c => (d, .hit c)

/-- a history of integer accesses: final deques and the outcome of every access -/
def lclRun (get : Lcl C → Nat → Lcl C × LclOut E C) : Lcl C → List Nat → Lcl C × List (LclOut E C)
  | d, [] => (d, [])
  | d, i :: r =>
    let (d1, o) := get d i
    let (d2, os) := lclRun get d1 r
    (d2, o :: os)

def Lcl.empty : Lcl C := { indices := [], contours := [] }

/-! ### slices and index arrays -/

/-- how an access that hands out several contours can fail -/
inductive LclFail (E : Type) where
  | raised (e : E)     -- `get_contour` raised for one of the events
  | indexError         -- stray `IndexError` of the deque
deriving DecidableEq, Repr

/-- `LazyContourList.__getitem__(idx)` for a slice / index array: `indices = np.arange(len(self))[idx]`
(computed by the caller of the model), then `for evid in indices: output.append(self[evid])`;
the first exception propagates, the contours computed before stay cached -/
def lclGetMany (f : Nat → Except E C) (m : Nat) : Lcl C → List Nat → Lcl C × Except (LclFail E) (List C)
  | d, [] => (d, .ok [])
  | d, i :: r =>
    match lclGet f m d i with
    | (d1, .raised e) => (d1, .error (.raised e))
    | (d1, .indexError) => (d1, .error .indexError)
    | (d1, .hit c) =>
      match lclGetMany f m d1 r with
      | (d2, .ok cs) => (d2, .ok (c :: cs))
      | (d2, .error e) => (d2, .error e)
    | (d1, .computed c) =>
      match lclGetMany f m d1 r with
      | (d2, .ok cs) => (d2, .ok (c :: cs))
      | (d2, .error e) => (d2, .error e)

/-- spec: the contours of the requested events, or the exception of the first event without one -/
def ownContours (f : Nat → Except E C) : List Nat → Except (LclFail E) (List C)
  | [] => .ok []
  | i :: r =>
    match f i with
    | .error e => .error (.raised e)
    | .ok c =>
      match ownContours f r with
      | .ok cs => .ok (c :: cs)
      | .error e => .error e

/-- one user-level access -/
inductive LclOp where
  | int (i : Nat)            -- `lcl[i]`
  | many (is : List Nat)     -- `lcl[a:b:c]`, `lcl[index_array]`
deriving DecidableEq, Repr

def lclOp (f : Nat → Except E C) (m : Nat) (d : Lcl C) : LclOp → Lcl C × Except (LclFail E) (List C)
  | .int i =>
    match lclGet f m d i with
    | (d1, .raised e) => (d1, .error (.raised e))
    | (d1, .indexError) => (d1, .error .indexError)
    | (d1, .hit c) => (d1, .ok [c])
    | (d1, .computed c) => (d1, .ok [c])
  | .many is => lclGetMany f m d is

def LclOp.events : LclOp → List Nat
  | .int i => [i]
  | .many is => is

def lclOps (f : Nat → Except E C) (m : Nat) :
    Lcl C → List LclOp → Lcl C × List (Except (LclFail E) (List C))
  | d, [] => (d, [])
  | d, o :: r =>
    let (d1, x) := lclOp f m d o
    let (d2, xs) := lclOps f m d1 r
    (d2, x :: xs)

/-! ## 1b. rotation (`get_inert_ratio_prnc`) -/

/-- rotation of a point by the angle with cosine `c` and sine `s`
(`rho·cos(phi + α)`, `rho·sin(phi + α)` of `get_inert_ratio_prnc` in Cartesian form) -/
def rot (c s : Rat) (p : Pt) : Pt := (c * p.1 - s * p.2, s * p.1 + c * p.2)

/-- second central moments `(m00, mu20, mu11, mu02)` of the contour rotated by `(c, s)`:
`mprnc = cont_moments_cv(rotated cc)` of `get_inert_ratio_prnc` -/
def rotatedSecond (dblEps c s : Rat) (cont : List Pt) : Rat × Rat × Rat × Rat :=
  let m := momentsCore dblEps (cont.map (rot c s))
  (m.m00, m.mu20, m.mu11, m.mu02)

/-- square of `get_inert_ratio_prnc`: `mu20/mu02` of the contour rotated by the angle
`orient + π/2` whose cosine and sine are `c`, `s` (parameters: `arctan2`, `cos`, `sin` are not
modelled); `none` when `cont_moments_cv` returns `None` -/
def prncSq (fltEps dblEps c s : Rat) (cont : List Pt) : Option Rat :=
  match moments fltEps dblEps cont, moments fltEps dblEps (cont.map (rot c s)) with
  | some _, some m => some (m.mu20 / m.mu02)
  | _, _ => none

end DclabModel.Feat
