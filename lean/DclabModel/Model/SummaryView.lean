import DclabModel.Model.Summary
import DclabModel.Model.Hier
/-!
# Summaries of hierarchy children at any depth — C20 on top of the C04 model (core Lean only)

`fmt_hierarchy.ChildScalar.__array__`: every member of a hierarchy holds
`hparent[feat][hparent.filter.all]`; its `min()/max()/mean()` are `np.nanmin/nanmax/nanmean` of
that array, whatever kind of object the parent's feature is (`H5ScalarEvent` with stored summaries,
plain `ndarray`, another `ChildScalar`, a mapped-basin proxy).  `Hier.sel` / `Hier.idsOf` are the
view of property C04.
-/
namespace DclabModel.SummaryView
open DclabModel.Summary DclabModel.Summary.Val

/-- feature values of a hierarchy member: every level holds `hparent[feat][hparent.filter.all]`
(`ChildScalar.__array__`); `alls` = `filter.all` of parent, grandparent, …, root -/
def levelVals (root : List Val) : List (List Bool) → List Val
  | [] => root
  | pf :: rest => Hier.sel pf (levelVals root rest)

/-- summaries of a freshly created `ChildScalar` (first query after `rejuvenate`) at any depth -/
def childReport (root : List Val) (alls : List (List Bool)) : Summ := truth (levelVals root alls)

/-- `ndarray.min()/max()/mean()`: NaN-*propagating* -/
def hasNan (l : List Val) : Bool := l.any Val.isNan
def pmin (l : List Val) : Val := if hasNan l then nan else nanmin l
def pmax (l : List Val) : Val := if hasNan l then nan else nanmax l
def pmean (l : List Val) : Val := if hasNan l then nan else nanmean l

/-- the feature object of the root dataset -/
inductive RootFeat where
  /-- `H5ScalarEvent`: HDF5 dataset with stored summaries -/
  | h5 (s : SDs)
  /-- plain `numpy.ndarray` (dict dataset, ancillary, temporary feature) -/
  | nd (data : List Val)

def RootFeat.data : RootFeat → List Val
  | .h5 s => s.data
  | .nd l => l

/-- what `getattr(parent[feat], "min")()` … answer -/
def RootFeat.own : RootFeat → Summ
  | .h5 s => report s
  | .nd l => { mn := pmin l, mx := pmax l, mean := pmean l }

/-- today's `ChildScalar._fetch_ufunc_attr`: `np.nanmin/nanmax/nanmean` of the child's own array,
whatever kind of object the parent's feature is -/
def childOfRoot (rf : RootFeat) (pf : List Bool) : Summ := truth (Hier.sel pf rf.data)

/-- the shortcut of the seeded changes C20-2 / C20-9: nothing filtered out ⇒ ask the parent's
feature object -/
def childOfRootDelegating (rf : RootFeat) (pf : List Bool) : Summ :=
  if pf.all id then rf.own else truth (Hier.sel pf rf.data)

/-! ### the chain of cached feature objects -/

/-- one hierarchy member w.r.t. one scalar feature: `mask` = its parent's current `filter.all`,
`arr` = `ChildScalar._array` of the member's cached feature object (`none`: no object yet / array
not loaded) -/
structure Member where
  mask : List Bool
  arr : Option (List Val)
  deriving DecidableEq, Repr

/-- `ChildScalar.__array__` at the head of the chain (youngest first, the root's values are
`root`): `hparent[feat][filt_arr]` asks the PARENT's feature object, which loads and keeps its own
array -/
def chainArray (root : List Val) : List Member → List Member × List Val
  | [] => ([], root)
  | c :: anc =>
    match c.arr with
    | some a => (c :: anc, a)
    | none =>
      let r := chainArray root anc
      ({ c with arr := some (Hier.sel c.mask r.2) } :: r.1, Hier.sel c.mask r.2)

/-- a query at the member `k` levels above the youngest -/
def queryAt (root : List Val) (k : Nat) (ms : List Member) : List Member × List Val :=
  let r := chainArray root (ms.drop k)
  (ms.take k ++ r.1, r.2)

/-- `apply_filter` of the youngest member: all cached feature objects are dropped -/
def chainRefresh (masks : List (List Bool)) : List Member :=
  masks.map (fun m => { mask := m, arr := none })

def masksOf (ms : List Member) : List (List Bool) := ms.map (·.mask)

/-- run a sequence of queries (levels in any order) -/
def queries (root : List Val) : List Member → List Nat → List Member × List (List Val)
  | ms, [] => (ms, [])
  | ms, k :: ks =>
    let r := queryAt root k ms
    let rs := queries root r.1 ks
    (rs.1, r.2 :: rs.2)

end DclabModel.SummaryView
