import DclabModel.Model.Export
/-!
# Model of statistics and density estimates on filtered data (C12) — core Lean only

Values are `Val := nan | ninf | pinf | fin q` with `q : Rat`.  Every analysis entry point of
dclab has the shape

    post ∘ g ∘ purge ∘ scale ∘ sel

* `sel m`     `ds[feat][ds.filter.all]` (`statistics.Statistics.get_feature`,
              `RTDCBase.get_kde_scatter / get_kde_contour / get_downsampled_scatter`,
              `Export.tsv`); with filtering disabled all events are used;
* `scale`     `RTDCBase._apply_scale` (`np.log` is a parameter `lg : Val → Val`, applied
              element-wise);
* `purge`     removal of nan/inf (`get_feature`, `kde_methods.ignore_nan_inf`, `get_bad_vals`);
* `g`         the estimator — a *parameter* where it is floating-point library code
              (histogram spline, Gaussian kernel, product kernel, Doane's rule, grid
              downsampling), an exact definition over ℚ where one exists (`mean`, `median`,
              `variance`, event count, %-gated, histogram bin assignment / counts / centres,
              NumPy's linear percentile, quantile levels);
* `post`      e.g. `ignore_nan_inf` writing the densities back to the valid positions.

`view` is the common front part (selection and scaling of the columns); `entry F` is an entry
point whose remaining computation is `F`.
-/
namespace DclabModel.Stats
open DclabModel.Export (sel countTrue isort)

inductive Val where
  | nan | ninf | pinf
  | fin (q : Rat)
  deriving DecidableEq, Repr

/-- `np.isnan(x) | np.isinf(x)` -/
def Val.isBad : Val → Bool
  | .fin _ => false
  | _ => true

/-- `x[~bad]` -/
def purge (xs : List Val) : List Val := xs.filter (fun v => !v.isBad)

/-- the finite values as rationals -/
def fins : List Val → List Rat
  | [] => []
  | .fin q :: t => q :: fins t
  | _ :: t => fins t

inductive Scale where
  | linear | log
  deriving DecidableEq, Repr

/-- `RTDCBase._apply_scale` (`lg` = element-wise `np.log`) -/
def applyScale (lg : Val → Val) : Scale → List Val → List Val
  | .linear, a => a
  | .log, a => a.map lg

/-- events whose two coordinates are both valid (`~get_bad_vals(x, y)`) -/
def goodPairs : List Val → List Val → List (Rat × Rat)
  | .fin a :: xs, .fin b :: ys => (a, b) :: goodPairs xs ys
  | _ :: xs, _ :: ys => goodPairs xs ys
  | _, _ => []

/-- `bad_in`: which events are invalid -/
def badPairs : List Val → List Val → List Bool
  | x :: xs, y :: ys => (x.isBad || y.isBad) :: badPairs xs ys
  | _, _ => []

/-! ## the common shape of the entry points -/

def allTrue (n : Nat) : List Bool := List.replicate n true

/-- selected and scaled columns -/
def view (lg : Val → Val) (scs : List Scale) (m : List Bool) (cols : List (List Val)) :
    List (List Val) :=
  List.zipWith (fun sc c => applyScale lg sc (sel m c)) scs cols

/-- an entry point: everything after selection and scaling is `F` -/
def entry {β : Type} (F : List (List Val) → β) (lg : Val → Val) (scs : List Scale)
    (m : List Bool) (cols : List (List Val)) : β :=
  F (view lg scs m cols)

/-- the dataset that contains the selected events only -/
def sub (m : List Bool) (cols : List (List Val)) : List (List Val) := cols.map (sel m)

/-! ## statistics (`dclab.statistics`) -/

def sumR : List Rat → Rat
  | [] => 0
  | a :: t => a + sumR t

def mean (d : List Rat) : Option Rat :=
  if d.isEmpty then none else some (sumR d / (d.length : Rat))

def sortR (d : List Rat) : List Rat := isort (fun a b => decide (a ≤ b)) d

/-- `np.median` -/
def median (d : List Rat) : Option Rat :=
  if d.isEmpty then none else
    let s := sortR d
    let n := s.length
    if n % 2 = 1 then some (s.getD (n / 2) 0)
    else some ((s.getD (n / 2 - 1) 0 + s.getD (n / 2) 0) / 2)

/-- `np.std(d)**2` (population variance) -/
def variance (d : List Rat) : Option Rat :=
  match mean d with
  | none => none
  | some mu => some (sumR (d.map fun x => (x - mu) * (x - mu)) / (d.length : Rat))

/-- `Statistics.get_feature` followed by the method: a statistic of one feature.
`enable` = `config["filtering"]["enable filters"]`; `none` = nan (no valid event) -/
def statFeat {β : Type} (g : List Rat → Option β) (enable : Bool) (m : List Bool)
    (xs : List Val) : Option β :=
  g (fins (if enable then sel m xs else xs))

/-- "Events": `np.sum(ds.filter.all)` -/
def events (m : List Bool) : Nat := countTrue m

/-- "%-gated": `np.average(ds.filter.all) * 100` -/
def gated (m : List Bool) : Option Rat :=
  if m.isEmpty then none else some ((countTrue m : Rat) / (m.length : Rat) * 100)

/-- round half to even (`np.round`) -/
def roundHalfEven (q : Rat) : Int :=
  let f := q.floor
  let r := q - (f : Rat)
  if r < 1 / 2 then f else if 1 / 2 < r then f + 1 else if f % 2 = 0 then f else f + 1

/-- the binned values of `statistics.mode` for a given bin size `b` (the Freedman-Diaconis bin
size involves a cube root and is a parameter): `round(x/b)*b + b/2` -/
def modeBins (b : Rat) (d : List Rat) : List Rat :=
  d.map fun x => (roundHalfEven (x / b) : Rat) * b + b / 2

/-- most frequent binned value, the smallest one among ties (`np.unique` + `argmax`) -/
def modeOf (b : Rat) (d : List Rat) : Option Rat :=
  if b = 0 ∨ d.isEmpty then none else
    let bins := modeBins b d
    let u := sortR bins
    let best := u.foldl (fun acc v =>
      match acc with
      | none => some v
      | some w => if bins.count w < bins.count v then some v else some w) none
    best

/-! ## histograms (`np.histogram2d` as used by `kde_histogram`) -/

/-- `np.linspace(lo, hi, nb + 1)` -/
def edgesUniform (lo hi : Rat) (nb : Nat) : List Rat :=
  (List.range (nb + 1)).map fun (i : Nat) => lo + (i : Rat) * ((hi - lo) / (nb : Rat))

/-- bin of `x` for the given edges: the number of interior edges `≤ x`
(`searchsorted(edges, x, side="right") - 1`, the last edge belongs to the last bin) -/
def binOf (edges : List Rat) (x : Rat) : Nat :=
  (((edges.drop 1).dropLast).filter (fun e => decide (e ≤ x))).length

/-- `floor((x - lo) / w)`, last edge inclusive — the closed form for uniform edges -/
def binUniform (lo w : Rat) (nb : Nat) (x : Rat) : Nat :=
  min (nb - 1) ((x - lo) / w).floor.toNat

/-- counts per bin for an arbitrary bin assignment -/
def histCounts {α : Type} (f : α → Nat) (nb : Nat) (d : List α) : List Nat :=
  (List.range nb).map fun i => d.countP (fun x => f x == i)

/-- 2-d bin index, flattened row-major -/
def bin2 (ex ey : List Rat) (p : Rat × Rat) : Nat :=
  binOf ex p.1 * (ey.length - 1) + binOf ey p.2

/-- `xedges[1:] - (xedges[1] - xedges[0]) / 2` -/
def centres (edges : List Rat) : List Rat :=
  (edges.drop 1).map fun e => e - (edges.getD 1 0 - edges.getD 0 0) / 2

/-! ## percentiles (`np.percentile`, linear interpolation) and quantile levels -/

/-- `np.percentile(d, 100*q)` with the default (linear) method -/
def percentile (d : List Rat) (q : Rat) : Option Rat :=
  if d.isEmpty then none else
    let s := sortR d
    let n := s.length
    let h := q * ((n : Rat) - 1)
    let lo := h.floor.toNat
    let fr := h - (lo : Rat)
    let a := s.getD lo 0
    let b := s.getD (min (lo + 1) (n - 1)) 0
    some (a + fr * (b - a))

/-- `kde_contours.get_quantile_levels`: percentile of the density interpolated at the valid
events (`dens` = the interpolation, a parameter), nan-aware -/
def quantileLevel (dens : Rat × Rat → Val) (xs ys : List Val) (q : Rat) : Option Rat :=
  percentile (fins ((goodPairs xs ys).map dens)) q

/-! ## density estimates -/

/-- write the densities of the valid positions back (`density[~bad_out] = …;
density[bad_out] = nan`) -/
def scatterBack : List Bool → List Val → List Val
  | [], _ => []
  | true :: bs, vs => .nan :: scatterBack bs vs
  | false :: bs, v :: vs => v :: scatterBack bs vs
  | false :: bs, [] => .nan :: scatterBack bs []

/-- `ignore_nan_inf(kde_method)(events_x, events_y)` evaluated at the events themselves -/
def kdeAtEvents (g : List (Rat × Rat) → List Val) (xs ys : List Val) : List Val :=
  scatterBack (badPairs xs ys) (g (goodPairs xs ys))

/-- `RTDCBase.get_kde_scatter` without explicit positions -/
def kdeScatter (g : List (Rat × Rat) → List Val) (lg : Val → Val) (sx sy : Scale)
    (m : List Bool) (x y : List Val) : List Val :=
  entry (fun cols => match cols with
    | [xs, ys] => if xs.isEmpty then [] else kdeAtEvents g xs ys
    | _ => []) lg [sx, sy] m [x, y]

/-- `RTDCBase.get_kde_contour`: spacing, grid and density are all functions `G` of the
selected, scaled data -/
def kdeContour {β : Type} (G : List Val → List Val → β) (lg : Val → Val) (sx sy : Scale)
    (m : List Bool) (x y : List Val) : Option β :=
  entry (fun cols => match cols with
    | [xs, ys] => some (G xs ys)
    | _ => none) lg [sx, sy] m [x, y]

/-- `RTDCBase.get_downsampled_scatter`: `x[idx], y[idx]` with `idx` computed by the grid
downsampling `dsmp` from the selected, scaled data -/
def downsampled (dsmp : List Val → List Val → List Bool) (lg : Val → Val) (sx sy : Scale)
    (m : List Bool) (x y : List Val) : List Val × List Val :=
  let idx := entry (fun cols => match cols with
    | [xs, ys] => dsmp xs ys
    | _ => []) lg [sx, sy] m [x, y]
  (sel idx (sel m x), sel idx (sel m y))

/-- `np.linspace(lo, hi, n)[i]` (contour grid) -/
def linspaceAt (lo hi : Rat) (n i : Nat) : Rat :=
  if n ≤ 1 then lo else lo + (i : Rat) * ((hi - lo) / ((n : Rat) - 1))

/-! ## the registry of statistics and `get_statistics` (`dclab.statistics`)

The registry `Statistics.available_methods` (name, `req_feature`) is *regenerated from the source*
on every run (`Gen/StatsTable.lean`); the model below is parametrised by a registry `reg` and by
the two floating-point library functions that occur in the registered methods. -/

/-- floating-point library functions used by the registered methods (parameters) -/
structure FP where
  /-- the square root in `np.std` -/
  sqrt : Rat → Rat
  /-- `n ** (1/3)` in `statistics.mode` -/
  cbrt : Nat → Rat

/-- "SD": `np.std` = `sqrt` of the population variance -/
def sd (sqrt : Rat → Rat) (d : List Rat) : Option Rat := (variance d).map sqrt

/-- "Mode": `statistics.mode` — the Freedman–Diaconis bin size `2·(p75 − p25) / n^(1/3)` from the
percentile rule, `nan` for bin size 0, then the most frequent binned value -/
def modeFD (cbrt : Nat → Rat) (d : List Rat) : Option Rat :=
  match percentile d (3 / 4), percentile d (1 / 4) with
  | some a, some b => modeOf (2 * (a - b) / cbrt d.length) d
  | _, _ => none

/-- the median written with the percentile rule (`np.median(d) = np.percentile(d, 50)`) -/
def medianP (d : List Rat) : Option Rat := percentile d (1 / 2)

/-- which registered names the model knows, and whether they need a feature -/
def kindOf (name : String) : Option Bool :=
  if name = "Mean" ∨ name = "Median" ∨ name = "Mode" ∨ name = "SD" then some true
  else if name = "Events" ∨ name = "%-gated" ∨ name = "Flow rate" then some false
  else none

/-- methods registered with `req_feature=True`: functions of the purged feature data; every one
of them returns `none` (= nan, `Statistics.__call__`: `len(data) == 0`) for no data -/
def featMethod (fp : FP) (name : String) : Option (List Rat → Option Rat) :=
  if name = "Mean" then some mean
  else if name = "Median" then some median
  else if name = "Mode" then some (modeFD fp.cbrt)
  else if name = "SD" then some (sd fp.sqrt)
  else none

/-- methods that receive the dataset: functions of the filter array and the configuration
(`flow` = `config["setup"]["flow rate"]`, `none` = key missing = nan); `Statistics.__call__`
answers nan for a dataset without events (`len(ds) == 0`) -/
def dsMethod (m : List Bool) (flow : Option Rat) (name : String) : Option (Option Rat) :=
  if name = "Events" then some (if m.isEmpty then none else some ((events m : Nat) : Rat))
  else if name = "%-gated" then some (gated m)
  else if name = "Flow rate" then some (if m.isEmpty then none else flow)
  else none

/-- `Statistics.available_methods[name](ds=ds, feature=feat)`; outer `none`: the name is not
registered (`KeyError`) or not modelled; inner `none`: nan -/
def statCall (fp : FP) (reg : List (String × Bool)) (name : String) (enable : Bool)
    (m : List Bool) (flow : Option Rat) (xs : List Val) : Option (Option Rat) :=
  match reg.lookup name with
  | none => none
  | some true => (featMethod fp name).map fun g => statFeat g enable m xs
  | some false => dsMethod m flow name

/-- one entry of the answer of `get_statistics`: method, feature (none for dataset methods), value -/
structure Slot where
  method : String
  feature : Option String
  value : Option (Option Rat)
  deriving DecidableEq, Repr

/-- `methods=None`: methods without a feature first, then those with one, each in registry order -/
def defaultMethods (reg : List (String × Bool)) : List String :=
  ((reg.filter fun e => !e.2).map (·.1)) ++ ((reg.filter fun e => e.2).map (·.1))

/-- the requested methods that do / do not need a feature, in request order -/
def methodsOf (reg : List (String × Bool)) (flag : Bool) (methods : List String) : List String :=
  methods.filter fun mt => reg.lookup mt == some flag

/-- `get_statistics(ds, methods, features)`.  `feats` = the requested features in request order:
lower-cased name and column (`none`: `ft not in ds`, every value is nan).  Answer: first the
dataset methods in request order, then feature by feature all feature methods in request order
(`none` = `KeyError` for a name that is not registered). -/
def getStatistics (fp : FP) (reg : List (String × Bool)) (methods : Option (List String))
    (feats : List (String × Option (List Val))) (enable : Bool) (m : List Bool)
    (flow : Option Rat) : Option (List Slot) :=
  let ms := methods.getD (defaultMethods reg)
  if ms.all (fun mt => (reg.lookup mt).isSome) then
    some (((methodsOf reg false ms).map fun mt => Slot.mk mt none (statCall fp reg mt enable m flow []))
      ++ feats.flatMap fun ft => (methodsOf reg true ms).map fun mt =>
        Slot.mk mt (some ft.1) (match ft.2 with
          | some xs => statCall fp reg mt enable m flow xs
          | none => some none))
  else none

end DclabModel.Stats
