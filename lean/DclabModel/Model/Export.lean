/-!
# Model of the HDF5 / TSV export (C02) — core Lean only

`impl` layer, mirroring `dclab/rtdc_dataset/export.py` and `writer.py` branch by branch:

* `indices`        `np.where(filtarr)[0]`
* `truncate`       `filter_arr[l_min:] = False` (features of different length)
* `stacksFast`     `yield_filtered_array_stacks`, sliceable source: `len // cs` full slices
                   `data[indices[start:stop]]`, then the remainder `data[indices[stop:]]`
* `slowTrace`      the same generator for non-sliceable sources: one mutable buffer that is
                   filled event-wise and **yielded by reference**; the trace interleaves the
                   buffer writes with the yields, `consumeEager` is the consumer used by
                   `store_filtered_feature` (stores a stack at the moment it is yielded),
                   `consumeLazy` is a consumer that keeps the references (`list(generator)`)
* `writeNd`        the chunked write loop of `RTDCWriter.write_ndarray` (resize, full chunks,
                   remainder); `writeScalar` the one-go write of 1-d data
* `storeFiltered`  `store_filtered_feature`;  `storeWhole` the unfiltered fast route
* `export`         `Export.hdf5` (feature list normalisation, length check, metadata subset,
                   logs/tables with prefix, event count at `__exit__`)
* `tsvRows`        `Export.tsv`

`spec` layer: `sel mask xs` (= `xs[mask]`).

Rows of a feature are opaque tokens (`α`); floats never occur.
-/
namespace DclabModel.Export

variable {α : Type}

/-! ## selection -/

/-- `xs[mask]` (rows whose mask entry is `True`; stops at the shorter list) -/
def sel : List Bool → List α → List α
  | b :: m, x :: xs => if b then x :: sel m xs else sel m xs
  | _, _ => []

def indicesFrom (k : Nat) : List Bool → List Nat
  | [] => []
  | b :: m => if b then k :: indicesFrom (k + 1) m else indicesFrom (k + 1) m

/-- `np.where(mask)[0]` -/
def indices (m : List Bool) : List Nat := indicesFrom 0 m

/-- `np.sum(mask)` -/
def countTrue (m : List Bool) : Nat := m.count true

/-- `filter_arr[l:] = False` -/
def truncate (l : Nat) (m : List Bool) : List Bool :=
  m.take l ++ List.replicate (m.length - l) false

/-! ## `yield_filtered_array_stacks` -/

/-- sliceable source (`hasattr(data, "__array__")`) -/
def stacksFast (cs : Nat) (idx : List Nat) (get : Nat → α) : List (List α) :=
  let nfull := idx.length / cs
  let full := (List.range nfull).map fun kk =>
    -- start = cs*kk; stop = cs*(kk+1); yield data[indices[start:stop]]
    ((idx.take (cs * (kk + 1))).drop (cs * kk)).map get
  let stop := cs * nfull        -- value of `stop` after the loop (0 if it never ran)
  full ++ (if stop < idx.length then [(idx.drop stop).map get] else [])

/-- what the slow generator hands out: the buffer object itself or the view `chunk[:jj]` -/
inductive Yield where
  | whole
  | front (jj : Nat)
  deriving DecidableEq, Repr

/-- one step of the slow generator as seen from outside -/
inductive Ev (α : Type) where
  | write (j : Nat) (v : α)     -- `chunk[jj] = data[ii]`
  | yield (y : Yield)           -- `yield chunk` / `yield chunk[:jj]`

/-- the non-sliceable branch: `for ii in indices: chunk[jj] = data[ii]; if (jj+1) % cs == 0:
jj = 0; yield chunk; else: jj += 1`, finally `if jj: yield chunk[:jj]` -/
def slowTrace (cs : Nat) (get : Nat → α) : List Nat → Nat → List (Ev α)
  | [], jj => if jj ≠ 0 then [.yield (.front jj)] else []
  | ii :: rest, jj =>
    .write jj (get ii) ::
      (if (jj + 1) % cs = 0 then .yield .whole :: slowTrace cs get rest 0
       else slowTrace cs get rest (jj + 1))

/-- dereference a yielded object against the *current* buffer contents -/
def view (buf : List α) : Yield → List α
  | .whole => buf
  | .front j => buf.take j

/-- the consumer in `store_filtered_feature`: every yielded stack is written to the file
before the generator is resumed, i.e. it is read at yield time -/
def consumeEager (buf : List α) : List (Ev α) → List (List α)
  | [] => []
  | .write j v :: t => consumeEager (buf.set j v) t
  | .yield y :: t => view buf y :: consumeEager buf t

def finalBuf (buf : List α) : List (Ev α) → List α
  | [] => buf
  | .write j v :: t => finalBuf (buf.set j v) t
  | .yield _ :: t => finalBuf buf t

def yieldsOf : List (Ev α) → List Yield
  | [] => []
  | .write _ _ :: t => yieldsOf t
  | .yield y :: t => y :: yieldsOf t

/-- a consumer that collects the yielded references and reads them after the generator has
finished (`list(yield_filtered_array_stacks(...))`) — sees the final buffer everywhere -/
def consumeLazy (buf : List α) (tr : List (Ev α)) : List (List α) :=
  (yieldsOf tr).map (view (finalBuf buf tr))

/-- non-sliceable source: `chunk = np.zeros(chunk_shape)`, snapshots at yield time -/
def stacksSlow [Inhabited α] (cs : Nat) (idx : List Nat) (get : Nat → α) : List (List α) :=
  consumeEager (List.replicate cs default) (slowTrace cs get idx 0)

/-! ## `RTDCWriter.write_ndarray` -/

/-- slice assignment `l[a : a + len vals] = vals` -/
def assign (l : List α) (a : Nat) (vals : List α) : List α :=
  l.take a ++ vals ++ l.drop (a + vals.length)

/-- the first `k` iterations of `for ii in range(num_chunks): dset[offset+start:offset+stop] =
data[start:stop]` -/
def writeFull (cs offset : Nat) (data : List α) : Nat → List α → List α
  | 0, d => d
  | k + 1, d =>
    assign (writeFull cs offset data k d) (offset + k * cs)
      ((data.take (k * cs + cs)).drop (k * cs))

/-- non-scalar data: create / resize, full chunks, remainder. `none` = `ValueError` (empty
data object). `dset = []` stands for "dataset does not exist yet". -/
def writeNd [Inhabited α] (cs : Nat) (dset data : List α) : Option (List α) :=
  if data.isEmpty then none else
    let offset := dset.length
    let d0 := dset ++ List.replicate data.length default
    let nfull := data.length / cs
    let d1 := writeFull cs offset data nfull d0
    let nrem := data.length % cs
    some (if nrem ≠ 0 then
      assign d1 (offset + nfull * cs) ((data.take (nfull * cs + nrem)).drop (nfull * cs))
    else d1)

/-- 1-d data are stored in one go (`dset[offset:] = data`) -/
def writeScalar (dset data : List α) : Option (List α) :=
  if data.isEmpty then none else some (dset ++ data)

/-! ## files -/

inductive Kind where
  | scalar | contour | image | trace | other
  deriving DecidableEq, Repr

/-- one feature of the source (`trace` channels are separate entries `trace/<name>`) -/
structure Feat (α : Type) where
  name : String
  kind : Kind
  rows : List α
  sliceable : Bool        -- `hasattr(data, "__array__")`

abbrev Events (α : Type) := List (String × List α)

def readEv (ev : Events α) (f : String) : List α :=
  match ev with
  | [] => []
  | (g, v) :: t => if g = f then v else readEv t f

def setEv (ev : Events α) (f : String) (v : List α) : Events α :=
  match ev with
  | [] => [(f, v)]
  | (g, w) :: t => if g = f then (g, v) :: t else (g, w) :: setEv t f v

structure Src (α : Type) where
  n : Nat                                   -- `len(ds)`
  feats : List (Feat α)
  hdf5 : Bool                               -- `ds.format == "hdf5"`
  cfg : List (String × String × String)    -- (section, key, value token), without event count
  logs : List (String × List String)
  tables : List (String × String)

structure Opts where
  filtered : Bool := true
  logs : Bool := false
  tables : Bool := false
  pfx : String := "src_"
  skipChecks : Bool := false
  cs : Nat := 10                   -- chunk size of the stack generator
  csw : Nat := 10                  -- chunk size of the HDF5 dataset (write loop)
  cfgSections : List String := []  -- `dfn.CFG_METADATA + ["user"]`
  fixed : Bool := true             -- F02 repaired: event count from the selection

structure File (α : Type) where
  events : Events α
  eventCount : Nat
  derivedRunId : Bool                       -- run identifier got a new suffix
  cfg : List (String × String × String)
  logs : List (String × List String)        -- without the export log
  tables : List (String × String)

def lookup (src : Src α) (f : String) : Option (Feat α) := src.feats.find? (·.name = f)

def lookupAll (src : Src α) : List String → Option (List (Feat α))
  | [] => some []
  | f :: rest =>
    match lookup src f, lookupAll src rest with
    | some ft, some fts => some (ft :: fts)
    | _, _ => none

/-- insertion sort (structural recursion, so that `decide` can evaluate the model) -/
def insertBy {β : Type} (le : β → β → Bool) (a : β) : List β → List β
  | [] => [a]
  | b :: t => if le a b then a :: b :: t else b :: insertBy le a t

def isort {β : Type} (le : β → β → Bool) : List β → List β
  | [] => []
  | a :: t => insertBy le a (isort le t)

/-- `sorted(set(features))` -/
def dedup : List String → List String
  | [] => []
  | a :: l => if a ∈ l then dedup l else a :: dedup l

def normFeats (fs : List String) : List String :=
  isort (fun a b => decide (a ≤ b)) (dedup fs)

/-- the selection actually used: `ds.filter.all` / `None`, truncated to the shortest feature
when the requested features differ in length -/
def effMask (src : Src α) (o : Opts) (mask : List Bool) (fs : List (Feat α)) :
    Option (List Bool) :=
  let m0 := if o.filtered then some mask else none
  if o.skipChecks then m0 else
    let ls := fs.map (·.rows.length)
    match ls.min?, ls.max? with
    | some lmin, some lmax =>
      if lmin ≠ lmax then
        some (truncate lmin (match m0 with | some m => m | none => List.replicate src.n true))
      else m0
    | _, _ => m0

/-- unfiltered fast route: `hw.store_feature(feat, ds[feat])` -/
def storeWhole [Inhabited α] (o : Opts) (ev : Events α) (ft : Feat α) : Option (Events α) :=
  match ft.kind with
  | .scalar => (writeScalar (readEv ev ft.name) ft.rows).map (setEv ev ft.name)
  | .contour => some (setEv ev ft.name (readEv ev ft.name ++ ft.rows))
  | _ => (writeNd o.csw (readEv ev ft.name) ft.rows).map (setEv ev ft.name)

def storeStacks [Inhabited α] (csw : Nat) (name : String) :
    List (List α) → Events α → Option (Events α)
  | [], ev => some ev
  | st :: rest, ev =>
    match writeNd csw (readEv ev name) st with
    | none => none
    | some d => storeStacks csw name rest (setEv ev name d)

/-- `store_filtered_feature` -/
def storeFiltered [Inhabited α] (o : Opts) (ev : Events α) (ft : Feat α) (m : List Bool) :
    Option (Events α) :=
  let idx := indices m
  if idx.isEmpty then some ev        -- "No data to export": nothing is written
  else
    let get := fun i => ft.rows.getD i default
    match ft.kind with
    | .contour =>                     -- one event at a time
      some (idx.foldl (fun e i => setEv e ft.name (readEv e ft.name ++ [get i])) ev)
    | .scalar => (writeScalar (readEv ev ft.name) (sel m ft.rows)).map (setEv ev ft.name)
    | _ =>
      storeStacks o.csw ft.name
        (if ft.sliceable then stacksFast o.cs idx get else stacksSlow o.cs idx get) ev

/-- one iteration of the feature loop: unfiltered fast route (no filter, or all-True filter on
an hdf5 source) or `store_filtered_feature` -/
def storeOne [Inhabited α] (hdf5 : Bool) (o : Opts) (em : Option (List Bool)) (ev : Events α)
    (ft : Feat α) : Option (Events α) :=
  match em with
  | none => storeWhole o ev ft
  | some m => if m.all id && hdf5 then storeWhole o ev ft else storeFiltered o ev ft m

/-- the feature loop of `Export.hdf5`; `none` = an exception (missing feature, empty data) -/
def storeAll [Inhabited α] (src : Src α) (o : Opts) (em : Option (List Bool)) :
    List String → Events α → Option (Events α)
  | [], ev => some ev
  | f :: rest, ev =>
    match lookup src f with
    | none => none
    | some ft =>
      match storeOne src.hdf5 o em ev ft with
      | none => none
      | some ev' => storeAll src o em rest ev'

/-- the rows the property demands for a feature: `src[feat][mask]`, all rows without filter -/
def target (em : Option (List Bool)) (ft : Feat α) : List α :=
  match em with
  | none => ft.rows
  | some m => sel m ft.rows

/-- first entry in name order (`sorted(events.keys())[0]`) -/
def firstSorted (ev : Events α) : Option (String × List α) :=
  match isort (fun a b => decide (a.1 ≤ b.1)) ev with
  | [] => none
  | h :: _ => some h

/-- `Export.hdf5` on a fresh output path -/
def exportHdf5 [Inhabited α] (src : Src α) (o : Opts) (mask : List Bool) (feats : List String) :
    Option (File α) :=
  let fs := normFeats feats
  match lookupAll src fs with
  | none => none                                  -- `ds[feat]` raises KeyError
  | some fts =>
    let em := effMask src o mask fts
    match storeAll src o em fs [] with
    | none => none
    | some ev =>
      -- metadata copied from the source; after the fix the count of the selection is used
      let metaCount := match em with
        | some m => if o.fixed then countTrue m else src.n
        | none => src.n
      -- `__exit__`: `rectify_metadata` only if at least one feature was written
      let count := match firstSorted ev with
        | some (_, rows) => rows.length
        | none => metaCount
      some { events := ev
             eventCount := count
             derivedRunId := o.filtered
             cfg := src.cfg.filter (fun e => o.cfgSections.contains e.1)
             logs := if o.logs then src.logs.map (fun l => (o.pfx ++ l.1, l.2)) else []
             tables := if o.tables then src.tables.map (fun t => (o.pfx ++ t.1, t.2)) else [] }

def read (fl : File α) (f : String) : List α := readEv fl.events f

/-! ## the requested feature list -/

/-- `if features is None: features = ds.features_innate` -/
def reqFeats (req : Option (List String)) (innate : List String) : List String :=
  match req with
  | some fs => fs
  | none => innate

/-! ## the output directory

`Export.hdf5` raises `OSError` when the output path exists and `override` is off, removes an
existing file otherwise (`path.unlink()`), and then opens the path with `RTDCWriter(path,
mode="append")`.  An append-mode writer *extends* whatever the file already contains, so the
`unlink` is what makes the result independent of the history of the output directory (earlier
exports to the same path that completed, raised, or were killed half-way). -/

def emptyFile : File α :=
  { events := [], eventCount := 0, derivedRunId := false, cfg := [], logs := [], tables := [] }

/-- `RTDCWriter.write_text`, append mode: the lines are appended to an existing log of that name -/
def appendLog (logs : List (String × List String)) (name : String) (lines : List String) :
    List (String × List String) :=
  match logs with
  | [] => [(name, lines)]
  | (n, l) :: t => if n = name then (n, l ++ lines) :: t else (n, l) :: appendLog t name lines

/-- the loop `for log in ds.logs: hw.store_log(prefix + log, ds.logs[log])` -/
def appendLogs (logs new : List (String × List String)) : List (String × List String) :=
  new.foldl (fun acc l => appendLog acc l.1 l.2) logs

def findLog (logs : List (String × List String)) (name : String) : Option (List String) :=
  match logs with
  | [] => none
  | (n, l) :: t => if n = name then some l else findLog t name

/-- `prefix + name` for every log / table of the source -/
def prefixed {β : Type} (pfx : String) (xs : List (String × β)) : List (String × β) :=
  xs.map fun x => (pfx ++ x.1, x.2)

/-- the body of `Export.hdf5` from `with RTDCWriter(path, mode="append")` on, for a file that
already has the content `old` (attributes are overwritten key by key, feature datasets and
logs are appended to) -/
def exportOnto [Inhabited α] (src : Src α) (o : Opts) (mask : List Bool) (feats : List String)
    (old : File α) : Option (File α) :=
  let fs := normFeats feats
  match lookupAll src fs with
  | none => none
  | some fts =>
    let em := effMask src o mask fts
    match storeAll src o em fs old.events with
    | none => none
    | some ev =>
      let metaCount := match em with
        | some m => if o.fixed then countTrue m else src.n
        | none => src.n
      let count := match firstSorted ev with
        | some (_, rows) => rows.length
        | none => metaCount
      let cfg := src.cfg.filter (fun e => o.cfgSections.contains e.1)
      some { events := ev
             eventCount := count
             derivedRunId := o.filtered
             cfg := cfg ++ old.cfg.filter (fun e => !(cfg.any fun c => c.1 = e.1 ∧ c.2.1 = e.2.1))
             logs := appendLogs old.logs (if o.logs then prefixed o.pfx src.logs else [])
             tables := old.tables ++ (if o.tables then prefixed o.pfx src.tables else []) }

/-- the files of the output directory, by name -/
abbrev Dir (α : Type) := List (String × File α)

def dirGet (d : Dir α) (p : String) : Option (File α) :=
  match d with
  | [] => none
  | (q, f) :: t => if q = p then some f else dirGet t p

def dirErase (d : Dir α) (p : String) : Dir α := d.filter (fun e => e.1 ≠ p)

def dirSet (d : Dir α) (p : String) (f : File α) : Dir α := (p, f) :: dirErase d p

inductive Outcome (α : Type) where
  | done (d : Dir α)          -- the directory after a successful export
  | exists_                   -- `OSError("File already exists")`, nothing touched
  | failed                    -- the export itself raised

/-- `Export.hdf5(path, override=…)` in the directory `d` -/
def exportAt [Inhabited α] (d : Dir α) (path : String) (override : Bool) (src : Src α) (o : Opts)
    (mask : List Bool) (feats : List String) : Outcome α :=
  if !override && (dirGet d path).isSome then .exists_
  else
    -- `elif path.exists(): path.unlink()`
    let d1 := if (dirGet d path).isSome then dirErase d path else d
    -- `RTDCWriter(path, mode="append")` opens what is there
    match exportOnto src o mask feats ((dirGet d1 path).getD emptyFile) with
    | some fl => .done (dirSet d1 path fl)
    | none => .failed

/-- a *variant* that is not dclab's: "atomic" output through the neighbour `path~` (append-mode
writer on the temporary name, rename on success) without removing a temporary file that is
already there -/
def exportAtTemp [Inhabited α] (d : Dir α) (path : String) (override : Bool) (src : Src α)
    (o : Opts) (mask : List Bool) (feats : List String) : Outcome α :=
  if !override && (dirGet d path).isSome then .exists_
  else
    let tmp := path ++ "~"
    match exportOnto src o mask feats ((dirGet d tmp).getD emptyFile) with
    | some fl => .done (dirSet (dirErase d tmp) path fl)      -- `path_temp.replace(path)`
    | none => .failed

/-! ## `Export.tsv` -/

/-- transpose of equally long columns (`np.array(data).transpose()`) -/
def transpose : List (List α) → List (List α)
  | [] => []
  | [c] => c.map (fun x => [x])
  | c :: cs => List.zipWith (fun x r => x :: r) c (transpose cs)

def tsvFeats (fs : List String) : List String := normFeats (fs.map String.toLower)

/-- header (`sorted(set(lower-cased features))`) and the rows of the table; `none` = invalid
feature name -/
def tsvRows (src : Src α) (filtered : Bool) (mask : List Bool) (feats : List String) :
    Option (List String × List (List α)) :=
  let fs := tsvFeats feats
  match lookupAll src fs with
  | none => none
  | some fts =>
    if fts.all (fun ft => ft.kind = .scalar) then
      some (fs, transpose (fts.map fun ft => if filtered then sel mask ft.rows else ft.rows))
    else none

/-! ## chunked table writers

`Export.tsv` writes the whole table with one `np.savetxt` call.  A memory-saving variant writes
the selected events in chunks; whatever the chunk size, it has to produce the same rows. -/

/-- `len(indices) // c` full chunks `indices[k*c:(k+1)*c]`, then the remaining selected events -/
def tsvChunks {β : Type} (c : Nat) (idx : List Nat) (rowAt : Nat → β) : List (List β) :=
  stacksFast c idx rowAt

/-- the same loop, but the trailing partial chunk is only written if the *dataset size* `n` is
not a multiple of `c` (instead of the number of selected events) -/
def tsvChunksSizeTest {β : Type} (c n : Nat) (idx : List Nat) (rowAt : Nat → β) : List (List β) :=
  let nfull := idx.length / c
  ((List.range nfull).map fun kk => ((idx.take (c * (kk + 1))).drop (c * kk)).map rowAt) ++
    (if n % c ≠ 0 then [(idx.drop (c * nfull)).map rowAt] else [])

/-! ## the text of a `.tsv` export

A line is either a comment (`# …`, written with `fd.write`) or a data line (`np.savetxt`: the
cells of one row, formatted and tab-separated).  Joining / splitting at tabs is not modelled: a
data line is the list of its cells. -/

inductive Line where
  | comment (cells : List String)      -- `"# " + "\t".join(cells)`
  | data (cells : List String)
  deriving DecidableEq, Repr

/-- `Export.tsv`: metadata / configuration comments, `# <names>`, `# <labels>`, then one data line
per row of the table; `fmt` is `"%.10e" % x`, `label` is `dfn.get_feature_label` -/
def tsvText (fmt : α → String) (label : String → String) (metaLines : List (List String))
    (src : Src α) (filtered : Bool) (mask : List Bool) (feats : List String) : Option (List Line) :=
  match tsvRows src filtered mask feats with
  | none => none
  | some (hdr, rows) =>
    some (metaLines.map .comment ++ [.comment hdr, .comment (hdr.map label)] ++
      rows.map fun r => .data (r.map fmt))

/-- the same text written by a memory-saving loop: the data lines go out in chunks of `c` rows -/
def tsvTextChunked (c : Nat) (fmt : α → String) (label : String → String)
    (metaLines : List (List String)) (hdr : List String) (idx : List Nat) (rowAt : Nat → List α) :
    List Line :=
  metaLines.map .comment ++ [.comment hdr, .comment (hdr.map label)] ++
    ((tsvChunks c idx rowAt).map fun ch => ch.map fun r => Line.data (r.map fmt)).flatten

/-- what a reader does: data lines are the lines that are not comments; the column names are the
last but one comment line, the labels the last one -/
def dataCells : List Line → List (List String)
  | [] => []
  | .comment _ :: t => dataCells t
  | .data c :: t => c :: dataCells t

def commentCells : List Line → List (List String)
  | [] => []
  | .comment c :: t => c :: commentCells t
  | .data _ :: t => commentCells t

end DclabModel.Export
