/-!
# Model of dclab's ancillary (computed-on-demand) features — property C06

Code mirrored (read branch by branch):

* `RTDCBase.__getitem__ / __contains__ / _get_ancillary_feature_data / features`
  (`dclab/rtdc_dataset/core.py`),
* `AncillaryFeature.hash / is_available / available_features / compute`
  (`feat_anc_core/ancillary_feature.py`),
* the requirement functions `is_channel`, `emodulus_requirements`, `get_crosstalk_state`,
  `has_ml_scores` of the `af_*.py` modules (through `Guard`, `extraC`, `extraF`),
* `feat_temp.set_temporary_feature`.

A dataset is the static part `Env` (registry of recipes, innate features) plus the mutable
state `St` (temporary features, configuration) plus the per-dataset cache `_ancillaries`
(`Cache`: feature name ↦ (hash, data)).

* impl: `getitem` — lookup order innate → temporary → selected recipe; the hash is taken over
  the *values* of the required features (obtained through `getitem` itself, which may fill the
  cache), the required configuration values and what the requirement function returns;
  "same hash → cached data"; otherwise compute and store every output under that hash.
* spec: `fresh` — the same evaluation without any cache (a freshly opened dataset).

Recursion (a recipe's inputs may be ancillary features themselves; `is_available` recurses
through `__contains__` and through higher-priority recipes) is bounded by a fuel argument that
plays the role of Python's recursion depth; theorems hold for every fuel.

Not modelled: basins (property C07), md5/`obj2bytes` (the hash is the structured list of what
is fed to md5), the numeric recipes themselves (`compute` is a parameter).
Core Lean only.
-/
namespace DclabModel.Anc

abbrev Feat := String
/-- `"section:key"` -/
abbrev Key := String

/-- first match in an association list (Python `dict` lookup) -/
def get {α β : Type} [DecidableEq α] (k : α) : List (α × β) → Option β
  | [] => none
  | (k', v) :: r => if k' = k then some v else get k r

def put {α β : Type} [DecidableEq α] (k : α) (v : β) (l : List (α × β)) : List (α × β) :=
  (k, v) :: l.filter (fun p => p.1 ≠ k)

def del {α β : Type} [DecidableEq α] (k : α) (l : List (α × β)) : List (α × β) :=
  l.filter (fun p => p.1 ≠ k)

/-- truthiness of what `req_func` returns -/
inductive Guard where
  | always      -- default `lambda x: True`, or a function returning a non-empty object
  | channel     -- `is_channel`: `[setup] chip region` absent or equal to "channel"
  | anyExtraF   -- `has_ml_scores`: at least one of the `extraF` features is present
deriving DecidableEq, Repr

structure Recipe (D V : Type) where
  name     : Feat
  priority : Int
  reqF     : List Feat          -- `req_features`
  reqC     : List Key           -- `req_config`
  guard    : Guard              -- truthiness of `req_func`
  extraC   : List Key           -- config keys whose (optional) values `req_func` returns
  extraF   : List Feat          -- non-ancillary features whose (optional) data `req_func` returns
  readsF   : List Feat          -- features the method reads (`mm[f]`, `f in mm`)
  readsC   : List Key           -- config keys the method reads
  outs     : List Feat          -- keys of the dict the method may return
  /-- the method; by construction it factors through its read set -/
  compute  : List (Option D) → List (Option V) → Option (List (Feat × D))

structure Env (D V : Type) where
  reg    : List (Recipe D V)        -- `AncillaryFeature.features` in registration order
  innate : List (Feat × D)          -- `_events`
  fixedF : List Feat                -- feature names that can only ever be innate
  chanOk : Option V → Bool          -- `is_channel` as a function of `[setup] chip region`

structure St (D V : Type) where
  temp : List (Feat × D)            -- `_usertemp`
  cfg  : List (Key × V)

def chipKey : Key := "setup:chip region"

variable {D V : Type}

def getC (s : St D V) (k : Key) : Option V := get k s.cfg

/-- `feat in self._events` / `self._usertemp` -/
def base (e : Env D V) (s : St D V) (f : Feat) : Option D :=
  match get f e.innate with
  | some d => some d
  | none => get f s.temp

def guardOk (e : Env D V) (s : St D V) (r : Recipe D V) : Bool :=
  match r.guard with
  | .always => true
  | .channel => e.chanOk (getC s chipKey)
  | .anyExtraF => r.extraF.any (fun f => (base e s f).isSome)

/-! ## availability: `__contains__` and `AncillaryFeature.is_available` -/

/-- `r.is_available(ds)`; `col in rtdc_ds` for the required features is unfolded: innate or
temporary data, or some recipe of that name is available -/
def recAvail (e : Env D V) : Nat → St D V → Recipe D V → Bool
  | 0, _, _ => false
  | n + 1, s, r =>
    r.reqC.all (fun k => (getC s k).isSome)
    && r.reqF.all (fun g => (base e s g).isSome
                            || e.reg.any (fun o => o.name == g && recAvail e n s o))
    && !(e.reg.any (fun o => o.name == r.name && decide (r.priority < o.priority)
                              && recAvail e n s o))
    && guardOk e s r

/-- `feat in ds` (after the F62 fix: the cache plays no role) -/
def avail (e : Env D V) (n : Nat) (s : St D V) (f : Feat) : Bool :=
  (base e s f).isSome || e.reg.any (fun r => r.name == f && recAvail e n s r)

/-- `AncillaryFeature.available_features(ds)[f]`: the dict is filled in registration order, so
the last available recipe of that name wins -/
def selected (e : Env D V) (n : Nat) (s : St D V) (f : Feat) : Option (Recipe D V) :=
  (e.reg.filter (fun r => r.name == f && recAvail e n s r)).getLast?

/-! ## hash and cache -/

/-- what `AncillaryFeature.hash` feeds to md5, structured -/
structure Hash (D V : Type) where
  fs : List (Feat × Option D)    -- data of `req_features`
  cs : List (Key × Option V)     -- `"sec:key=val"` of `req_config`
  xc : List (Key × Option V)     -- returned by `req_func` (config part)
  xf : List (Feat × Option D)    -- returned by `req_func` (feature part)
deriving DecidableEq, Repr

abbrev Cache (D V : Type) := List (Feat × (Hash D V × D))

def mkHash (e : Env D V) (s : St D V) (r : Recipe D V) (fs : List (Feat × Option D)) : Hash D V :=
  { fs := fs
    cs := r.reqC.map (fun k => (k, getC s k))
    xc := r.extraC.map (fun k => (k, getC s k))
    xf := r.extraF.map (fun f => (f, base e s f)) }

/-- `for okey in data_dict: self._ancillaries[okey] = (anhash, data_dict[okey])` -/
def store (C : Cache D V) (h : Hash D V) (outs : List (Feat × D)) : Cache D V :=
  outs.map (fun p => (p.1, (h, p.2))) ++ C

/-- read features one after the other, threading the cache -/
def readAll (g : Cache D V → Feat → Cache D V × Option D) :
    Cache D V → List Feat → Cache D V × List (Feat × Option D)
  | C, [] => (C, [])
  | C, f :: fs =>
    let r1 := g C f
    let r2 := readAll g r1.1 fs
    (r2.1, (f, r1.2) :: r2.2)

def allSome (l : List (Feat × Option D)) : Bool := l.all (fun p => p.2.isSome)

/-- compute with `ancol[feat].compute(self)` and store every output under the hash -/
def computeStore (g : Cache D V → Feat → Cache D V × Option D) (C : Cache D V) (h : Hash D V)
    (r : Recipe D V) (s : St D V) (f : Feat) : Cache D V × Option D :=
  let cr := readAll g C r.readsF
  match r.compute (cr.2.map (·.2)) (r.readsC.map (getC s)) with
  | none => (cr.1, none)                                  -- the method raised
  | some outs =>
    match get f outs with
    | none => (cr.1, none)                                -- `KeyError("I expected the feature…")`
    | some d => (store cr.1 h outs, some d)

/-- `ds[f]` (impl): returns the new cache and the data (`none` = an exception).
`RTDCBase.__getitem__` calls `_get_ancillary_feature_data` twice (first with
`no_compute=True`, then — after the basins, which are not modelled — computing); the second
call re-evaluates the same hash (idempotent: the required features are cache hits), so the
two passes are merged here. -/
def getitem [DecidableEq D] [DecidableEq V] (e : Env D V) :
    Nat → Cache D V → St D V → Feat → Cache D V × Option D
  | 0, C, s, f => (C, base e s f)
  | n + 1, C, s, f =>
    match base e s f with
    | some d => (C, some d)
    | none =>
      match selected e (n + 1) s f with
      | none => (C, none)                                   -- KeyError
      | some r =>
        -- `anhash = ancol[feat].hash(self)` reads every required feature
        let hr := readAll (fun C g => getitem e n C s g) C r.reqF
        if allSome hr.2 then
          let h := mkHash e s r hr.2
          match get f hr.1 with
          | some (h', d) =>
            if h' = h then (hr.1, some d)                   -- use cached value
            else computeStore (fun C g => getitem e n C s g) hr.1 h r s f
          | none => computeStore (fun C g => getitem e n C s g) hr.1 h r s f
        else (hr.1, none)                                   -- a required feature raised
/-- `ds[f]` on a freshly opened dataset with the same state (spec) -/
def fresh (e : Env D V) : Nat → St D V → Feat → Option D
  | 0, s, f => base e s f
  | n + 1, s, f =>
    match base e s f with
    | some d => some d
    | none =>
      match selected e (n + 1) s f with
      | none => none
      | some r =>
        if allSome (r.reqF.map (fun g => (g, fresh e n s g))) then
          (r.compute (r.readsF.map (fresh e n s)) (r.readsC.map (getC s))).bind (get f)
        else none

/-! ## operation histories -/

inductive Op (D V : Type) where
  | setC (k : Key) (v : V)       -- set / change a configuration value
  | delC (k : Key)               -- `ds.config[sec].pop(key)`
  | setT (f : Feat) (d : D)      -- `set_temporary_feature` (set or replace)
  | read (f : Feat)              -- `ds[f]`
  | isin (f : Feat)              -- `f in ds`
  | feats                        -- `ds.features`
  | child (f : Feat)             -- refresh a hierarchy child and read `f` through it

inductive Out (D : Type) where
  | ok
  | val (d : Option D)
  | bool (b : Bool)
  | names (l : List Feat)
deriving DecidableEq, Repr

/-- `_feature_candidates` -/
def cands (e : Env D V) (s : St D V) : List Feat :=
  e.innate.map (·.1) ++ s.temp.map (·.1) ++ e.reg.map (·.name)

/-- configuration / temporary-feature edits (they never touch the cache) -/
def edit (e : Env D V) (s : St D V) : Op D V → St D V
  | .setC k v => { s with cfg := put k v s.cfg }
  | .delC k => { s with cfg := del k s.cfg }
  | .setT f d =>
    if f ∈ e.fixedF ∨ (get f e.innate).isSome then s     -- not a temporary-feature name
    else { s with temp := put f d s.temp }
  | _ => s

/-- one step of the long-lived dataset.  `sel` is the event selection of the hierarchy child
(`hparent[feat][filter.all]`), applied after the child was refreshed. -/
def step [DecidableEq D] [DecidableEq V] (e : Env D V) (n : Nat) (sel : D → D)
    (sc : St D V × Cache D V) (op : Op D V) : (St D V × Cache D V) × Out D :=
  match op with
  | .read f => let r := getitem e n sc.2 sc.1 f; ((sc.1, r.1), .val r.2)
  | .child f => let r := getitem e n sc.2 sc.1 f; ((sc.1, r.1), .val (r.2.map sel))
  | .isin f => (sc, .bool (avail e n sc.1 f))
  | .feats => (sc, .names ((cands e sc.1).filter (avail e n sc.1)))
  | op => ((edit e sc.1 op, sc.2), .ok)

def run [DecidableEq D] [DecidableEq V] (e : Env D V) (n : Nat) (sel : D → D) :
    St D V × Cache D V → List (Op D V) → (St D V × Cache D V) × List (Out D)
  | sc, [] => (sc, [])
  | sc, op :: ops =>
    let r1 := step e n sel sc op
    let r2 := run e n sel r1.1 ops
    (r2.1, r1.2 :: r2.2)

/-- the same history answered by a fresh dataset at every step (spec) -/
def specStep (e : Env D V) (n : Nat) (sel : D → D) (s : St D V) (op : Op D V) : St D V × Out D :=
  match op with
  | .read f => (s, .val (fresh e n s f))
  | .child f => (s, .val ((fresh e n s f).map sel))
  | .isin f => (s, .bool (avail e n s f))
  | .feats => (s, .names ((cands e s).filter (avail e n s)))
  | op => (edit e s op, .ok)

def specRun (e : Env D V) (n : Nat) (sel : D → D) : St D V → List (Op D V) → St D V × List (Out D)
  | s, [] => (s, [])
  | s, op :: ops =>
    let r1 := specStep e n sel s op
    let r2 := specRun e n sel r1.1 ops
    (r2.1, r1.2 :: r2.2)

/-- the state after a history (edits only) -/
def stateAt (e : Env D V) (s : St D V) (ops : List (Op D V)) : St D V := ops.foldl (edit e) s

/-! ## hierarchy children (`RTDC_Hierarchy`)

A child (grandchild, …) is a dataset whose inputs are its parent's: `child[f]` is
`hparent[f][hparent.filter.all]`, cached in the child's `_events` until the child is refreshed
(`rejuvenate`/`apply_filter`, which first refreshes all ancestors).  `child.config` changes,
`feat in child`, `child.features` are answered by the root.  A chain of levels is stored
deepest first.  `dirty` records the documented responsibility of the user: after a change in an
ancestor the child must be rejuvenated before it is read; `set_temporary_feature(child, …)`
rejuvenates the child itself. -/

structure Lvl (D : Type) where
  sel   : D → D                  -- event selection by the parent's filter
  dirty : Bool                   -- something above changed since the last refresh
  cache : List (Feat × D)        -- `_events` of the child (`ChildScalar._array`, …)

/-- `RTDC_Hierarchy.__getitem__` through a chain of levels (deepest first) down to the root
reader `g` -/
def hread {σ : Type} (g : σ → Feat → σ × Option D) :
    σ → List (Lvl D) → Feat → (σ × List (Lvl D)) × Option D
  | r, [], f => let x := g r f; ((x.1, []), x.2)
  | r, l :: ps, f =>
    match get f l.cache with
    | some d => ((r, l :: ps), some d)
    | none =>
      let x := hread g r ps f
      match x.2 with
      | none => ((x.1.1, l :: x.1.2), none)
      | some d => ((x.1.1, { l with cache := (f, l.sel d) :: l.cache } :: x.1.2), some (l.sel d))

/-- what a freshly built hierarchy returns at the deepest level of the chain -/
def hview (v : Option D) : List (Lvl D) → Option D
  | [] => v
  | l :: ps => (hview v ps).map l.sel

/-- `rejuvenate()`: clears this level and (through `hparent.apply_filter()`) all ancestors -/
def hrefresh (chain : List (Lvl D)) : List (Lvl D) :=
  chain.map (fun l => { l with dirty := false, cache := [] })

def hdirty (chain : List (Lvl D)) : List (Lvl D) := chain.map (fun l => { l with dirty := true })

/-- a read that follows the documented protocol: rejuvenate first if anything above changed -/
def hreadP {σ : Type} (g : σ → Feat → σ × Option D) (r : σ) (chain : List (Lvl D)) (f : Feat) :
    (σ × List (Lvl D)) × Option D :=
  hread g r (if chain.any (·.dirty) then hrefresh chain else chain) f

/-- operate on the level that has `j` deeper levels below it -/
def hreadAt {σ : Type} (g : σ → Feat → σ × Option D) :
    Nat → σ → List (Lvl D) → Feat → (σ × List (Lvl D)) × Option D
  | j + 1, r, l :: ps, f => let x := hreadAt g j r ps f; ((x.1.1, l :: x.1.2), x.2)
  | _, r, chain, f => hreadP g r chain f

def hviewAt (v : Option D) : Nat → List (Lvl D) → Option D
  | j + 1, _ :: ps => hviewAt v j ps
  | _, chain => hview v chain

/-- refresh level `j` (and its ancestors); deeper levels keep their state -/
def hrefreshAt : Nat → List (Lvl D) → List (Lvl D)
  | j + 1, l :: ps => l :: hrefreshAt j ps
  | _, chain => hrefresh chain

/-- `set_temporary_feature(level j, …)`: the root is edited, level `j` and its ancestors are
rejuvenated, deeper levels are outdated -/
def hsettAt : Nat → List (Lvl D) → List (Lvl D)
  | j + 1, l :: ps => { l with dirty := true } :: hsettAt j ps
  | _, chain => hrefresh chain

/-- the filter of the parent of level `j` changes: that level and all deeper ones are outdated -/
def hfiltAt (sel : D → D) : Nat → List (Lvl D) → List (Lvl D)
  | j + 1, l :: ps => { l with dirty := true } :: hfiltAt sel j ps
  | _, l :: ps => { l with sel := sel, dirty := true } :: ps
  | _, [] => []

inductive HOp (D V : Type) where
  | edit (op : Op D V)                 -- on the root: every level is outdated
  | settVia (j : Nat) (f : Feat) (d : D)   -- `d`: the data as they arrive at the root
  | read (j : Nat) (f : Feat)
  | refresh (j : Nat)
  | filt (j : Nat) (sel : D → D)

abbrev HSt (D V : Type) := (St D V × Cache D V) × List (Lvl D)

def hstep [DecidableEq D] [DecidableEq V] (e : Env D V) (n : Nat) (h : HSt D V) :
    HOp D V → HSt D V × Option (Option D)
  | .edit op => (((edit e h.1.1 op, h.1.2), hdirty h.2), none)
  | .settVia j f d => (((edit e h.1.1 (.setT f d), h.1.2), hsettAt j h.2), none)
  | .refresh j => ((h.1, hrefreshAt j h.2), none)
  | .filt j sel => ((h.1, hfiltAt sel j h.2), none)
  | .read j f =>
    let x := hreadAt (fun (sc : St D V × Cache D V) g =>
        let r := getitem e n sc.2 sc.1 g; ((sc.1, r.1), r.2)) j h.1 h.2 f
    (x.1, some x.2)

def hrun [DecidableEq D] [DecidableEq V] (e : Env D V) (n : Nat) :
    HSt D V → List (HOp D V) → HSt D V × List (Option (Option D))
  | h, [] => (h, [])
  | h, op :: ops =>
    let r1 := hstep e n h op
    let r2 := hrun e n r1.1 ops
    (r2.1, r1.2 :: r2.2)

/-- spec: a hierarchy that is freshly built from the current state before every read; only the
state and the selections matter -/
def hspecStep (e : Env D V) (n : Nat) (h : St D V × List (Lvl D)) :
    HOp D V → (St D V × List (Lvl D)) × Option (Option D)
  | .edit op => ((edit e h.1 op, h.2), none)
  | .settVia _ f d => ((edit e h.1 (.setT f d), h.2), none)
  | .refresh _ => (h, none)
  | .filt j sel => ((h.1, hfiltAt sel j h.2), none)
  | .read j f => (h, some (hviewAt (fresh e n h.1 f) j h.2))

def hspecRun (e : Env D V) (n : Nat) :
    St D V × List (Lvl D) → List (HOp D V) → (St D V × List (Lvl D)) × List (Option (Option D))
  | h, [] => (h, [])
  | h, op :: ops =>
    let r1 := hspecStep e n h op
    let r2 := hspecRun e n r1.1 ops
    (r2.1, r1.2 :: r2.2)

/-- the defective variant of `set_temporary_feature(level j, …)` (seeded change C06-2): only
the entry of that feature is dropped from level `j` and its ancestors -/
def hsettPopAt (f : Feat) : Nat → List (Lvl D) → List (Lvl D)
  | j + 1, l :: ps => l :: hsettPopAt f j ps
  | _, chain => chain.map (fun l => { l with cache := del f l.cache })

/-! ## the pre-F62 `__contains__` (shortcut through the cache) -/

def availOld (e : Env D V) (n : Nat) (C : Cache D V) (s : St D V) (f : Feat) : Bool :=
  (get f C).isSome || avail e n s f

/-! ## well-formedness and the premises of the transparency theorem -/

/-- names in `fixedF` are never temporary features -/
def Wf (e : Env D V) (s : St D V) : Prop := ∀ g ∈ e.fixedF, get g s.temp = none

def isAnc (e : Env D V) (g : Feat) : Prop := ∃ r ∈ e.reg, r.name = g

/-- the method's reads are covered by what the hash covers (or cannot change) -/
def Covered (e : Env D V) (r : Recipe D V) : Prop :=
  (∀ g ∈ r.readsF, g ∈ r.reqF ∨ g ∈ r.extraF ∨ g ∈ e.fixedF) ∧
  (∀ k ∈ r.readsC, k ∈ r.reqC ∨ k ∈ r.extraC)

/-- a recipe whose output may be consulted by another recipe with identical hash coverage
is the same computation -/
def Compat (r0 r : Recipe D V) : Prop :=
  r.name ∈ r0.outs → r0.reqF = r.reqF → r0.reqC = r.reqC → r0.extraC = r.extraC →
    r0.extraF = r.extraF →
    r0.compute = r.compute ∧ r0.readsF = r.readsF ∧ r0.readsC = r.readsC

structure Sound (e : Env D V) : Prop where
  covered : ∀ r ∈ e.reg, Covered e r
  compat  : ∀ r0 ∈ e.reg, ∀ r ∈ e.reg, Compat r0 r
  outsOk  : ∀ r ∈ e.reg, ∀ iv cv outs, r.compute iv cv = some outs → ∀ p ∈ outs, p.1 ∈ r.outs
  nonAnc  : ∀ r ∈ e.reg, ∀ g, (g ∈ r.extraF ∨ g ∈ e.fixedF) → ¬ isAnc e g

/-! ## The concrete registry: rows regenerated from `AncillaryFeature.features`

`Row` is what the translator (`harness/c06.py: translate`) emits for every registered recipe.
`reqFuncInfo` (what each requirement function returns) and `declaredReads` (what each method
reads and which keys its result dict may have) are hand-written from the `af_*.py` sources and
validated dynamically by the harness with recording proxies.  Data and configuration values
are symbolic strings: `sem` builds the term `method:out(inputs|config)` and reproduces only the
*raising* branches of `compute_emodulus` (F07) and `compute_ctc` (F63). -/

structure Row where
  idx      : Nat
  name     : String
  priority : Int
  reqF     : List String
  reqC     : List String        -- "section:key"
  reqFunc  : String             -- `req_func.__name__`, "" for the default lambda
  method   : String             -- `method.__name__`
  tag      : String             -- `data` when it is a string ("case A/B/C")
deriving DecidableEq, Repr

def emodKeys : List Key :=
  ["calculation:emodulus lut", "calculation:emodulus medium", "calculation:emodulus temperature",
   "calculation:emodulus viscosity", "calculation:emodulus viscosity model"]

def ctKeys : List Key :=
  ["calculation:crosstalk fl12", "calculation:crosstalk fl13", "calculation:crosstalk fl21",
   "calculation:crosstalk fl23", "calculation:crosstalk fl31", "calculation:crosstalk fl32"]

/-- the `ml_score_???` names in use (the harness uses exactly these) -/
def mlNames : List Feat := ["ml_score_abc", "ml_score_abd"]

/-- innate-only features read by some method without being hashed -/
def fixedFeats : List Feat := ["bg_off", "fl1_max", "fl2_max", "fl3_max"]

/-- truthiness, and the config keys / features whose values the requirement function returns
(these enter the hash).  `is_channel` returns a bool: nothing is hashed. -/
def reqFuncInfo : String → Guard × List Key × List Feat
  | "" => (.always, [], [])
  | "is_channel" => (.channel, [], [])
  | "emodulus_requirements" => (.channel, emodKeys, [])
  | "get_crosstalk_state" => (.always, ctKeys, [])
  | "has_ml_scores" => (.anyExtraF, [], mlNames)
  | _ => (.always, [], [])

def emodReadsC : List Key :=
  emodKeys ++ ["setup:channel width", "setup:flow rate", "imaging:pixel size"]

/-- (features read, config keys read, keys of the returned dict) per method -/
def declaredReads (method tag : String) : Option (List Feat × List Key × List Feat) :=
  match method with
  | "compute_time" => some (["frame"], ["imaging:frame rate"], ["time"])
  | "compute_index" => some ([], [], ["index"])
  | "compute_area_ratio" => some (["area_cvx", "area_msd"], [], ["area_ratio"])
  | "compute_area_um" => some (["area_cvx"], ["imaging:pixel size"], ["area_um"])
  | "compute_aspect" => some (["size_x", "size_y"], [], ["aspect"])
  | "compute_deform" => some (["circ"], [], ["deform"])
  | "compute_emodulus" =>
    if tag = "case A" then some (["area_um", "deform", "temp"], emodReadsC, ["emodulus"])
    else some (["area_um", "deform"], emodReadsC, ["emodulus"])
  | "compute_ctc1" => some (["fl1_max", "fl2_max", "fl3_max"], ctKeys, ["fl1_max_ctc"])
  | "compute_ctc2" => some (["fl1_max", "fl2_max", "fl3_max"], ctKeys, ["fl2_max_ctc"])
  | "compute_ctc3" => some (["fl1_max", "fl2_max", "fl3_max"], ctKeys, ["fl3_max_ctc"])
  | "compute_contour" => some (["mask"], [], ["contour"])
  | "compute_bright" => some (["mask", "image"], [], ["bright_avg", "bright_sd"])
  | "compute_bright_bc" =>
    some (["mask", "image", "image_bg", "bg_off"], [], ["bright_bc_avg", "bright_bc_sd"])
  | "compute_bright_perc" =>
    some (["mask", "image", "image_bg", "bg_off"], [], ["bright_perc_10", "bright_perc_90"])
  | "compute_inert_ratio_cvx" => some (["contour"], [], ["inert_ratio_cvx"])
  | "compute_inert_ratio_prnc" => some (["contour"], [], ["inert_ratio_prnc"])
  | "compute_inert_ratio_raw" => some (["contour"], [], ["inert_ratio_raw"])
  | "compute_tilt" => some (["contour"], [], ["tilt"])
  | "compute_volume" => some (["contour", "pos_x", "pos_y"], ["imaging:pixel size"], ["volume"])
  | "compute_ml_class" => some (mlNames, [], ["ml_class"])
  | _ => none

/-- first-order description of a recipe -/
structure Spec where
  idx      : Nat
  name     : Feat
  priority : Int
  reqF     : List Feat
  reqC     : List Key
  guard    : Guard
  extraC   : List Key
  extraF   : List Feat
  readsF   : List Feat
  readsC   : List Key
  outs     : List Feat
  method   : String
  tag      : String
deriving DecidableEq, Repr

/-- a method unknown to `declaredReads` (a plug-in) is taken to read what it declares as
required and to return its own name -/
def specOf (w : Row) : Spec :=
  let i := reqFuncInfo w.reqFunc
  let d := (declaredReads w.method w.tag).getD (w.reqF, w.reqC, [w.name])
  { idx := w.idx, name := w.name, priority := w.priority, reqF := w.reqF, reqC := w.reqC,
    guard := i.1, extraC := i.2.1, extraF := i.2.2,
    readsF := d.1, readsC := d.2.1, outs := d.2.2, method := w.method, tag := w.tag }

def present {α : Type} [DecidableEq α] (k : α) (l : List (α × Option String)) : Bool :=
  match get k l with
  | some (some _) => true
  | _ => false

/-- `calccfg.get("emodulus medium", "other").lower() == "other"` -/
def otherFlag (cv : List (Key × Option String)) : Bool :=
  match get "calculation:emodulus medium" cv with
  | some (some m) => m == "other"
  | _ => true

/-- the branches of the methods that raise although the recipe was selected -/
def raises (method : String) (fv : List (Feat × Option String))
    (cv : List (Key × Option String)) : Bool :=
  if method = "compute_emodulus" then
    let other := otherFlag cv
    let visc := present "calculation:emodulus viscosity" cv
    if visc && other then false                      -- scenario B
    else if other then true                          -- "Only the following media are supported"
    else if visc then true                           -- F07: viscosity set for a known medium
    else if present "calculation:emodulus temperature" cv then false   -- scenario C
    else !(present "temp" fv)                        -- scenario A
  else if method = "compute_ctc1" ∨ method = "compute_ctc2" ∨ method = "compute_ctc3" then
    -- F63: MissingCrosstalkMatrixElementsError
    present "fl1_max" fv && present "fl2_max" fv && present "fl3_max" fv
      && !(ctKeys.all (fun k => present k cv))
  else false

def showArgs (l : List (Option String)) : String :=
  ",".intercalate (l.map (fun o => o.getD "~"))

def sem (method : String) (outs readsF : List Feat) (readsC : List Key) :
    List (Option String) → List (Option String) → Option (List (Feat × String)) :=
  fun iv cv =>
    if raises method (readsF.zip iv) (readsC.zip cv) then none
    else some (outs.map (fun o => (o, method ++ ":" ++ o ++ "(" ++ showArgs iv ++ "|" ++ showArgs cv ++ ")")))

def Spec.toRecipe (p : Spec) : Recipe String String :=
  { name := p.name, priority := p.priority, reqF := p.reqF, reqC := p.reqC, guard := p.guard,
    extraC := p.extraC, extraF := p.extraF, readsF := p.readsF, readsC := p.readsC,
    outs := p.outs, compute := sem p.method p.outs p.readsF p.readsC }

def chanOkStr (o : Option String) : Bool :=
  match o with
  | none => true
  | some r => r == "channel"

def envOf (ps : List Spec) (innate : List (Feat × String)) : Env String String :=
  { reg := ps.map Spec.toRecipe, innate := innate, fixedF := fixedFeats, chanOk := chanOkStr }

/-! ### decidable forms of the premises of the transparency theorem -/

def coveredB (p : Spec) : Bool :=
  p.readsF.all (fun g => p.reqF.contains g || p.extraF.contains g || fixedFeats.contains g)
  && p.readsC.all (fun k => p.reqC.contains k || p.extraC.contains k)

def compatB (p0 p : Spec) : Bool :=
  !(p0.outs.contains p.name && p0.reqF == p.reqF && p0.reqC == p.reqC && p0.extraC == p.extraC
      && p0.extraF == p.extraF)
  || (p0.method == p.method && p0.outs == p.outs && p0.readsF == p.readsF && p0.readsC == p.readsC)

def nonAncB (ps : List Spec) (p : Spec) : Bool :=
  (p.extraF ++ fixedFeats).all (fun g => ps.all (fun q => q.name != g))

def soundB (ps : List Spec) : Bool :=
  ps.all coveredB && ps.all (fun p0 => ps.all (compatB p0)) && ps.all (nonAncB ps)

end DclabModel.Anc
