/-!
# Summary attributes (`min`, `max`, `mean`) of scalar features — model for C20

Core Lean only.  Values are `Val := nan | ninf | pinf | fin q` with `q : Rat`; the arithmetic on
`Val` is the IEEE behaviour on the *symbolic* level (`inf + -inf = nan`, `inf * 0 = nan`,
`x / 0 = nan` for the only case that occurs, `0 / 0`), finite values are exact rationals.

* `impl` layer: `writeScalar` mirrors the scalar branch of `RTDCWriter.write_ndarray`
  (`dclab/rtdc_dataset/writer.py`): resize, `dset[offset:] = data`, then the update of the three
  attributes from the previous attribute and the new data — with `MeanRule.fixed` the rule after
  the repair of finding F21 (weights = numbers of non-NaN values), with `MeanRule.old` the rule
  before it (weights = sizes).  `copyDs` mirrors `copier.rtdc_copy` (attributes copied, missing
  ones completed), `report` mirrors `H5ScalarEvent._fetch_ufunc_attr` (stored attribute
  preferred, else computed), `Child*` mirrors `fmt_hierarchy.ChildScalar` and the cache of
  feature objects of `RTDC_Hierarchy`.
* `spec` layer: `nanmin`, `nanmax`, `nanmean` of the data (`truth`).
-/
namespace DclabModel.Summary

inductive Val where
  | nan | ninf | pinf | fin (q : Rat)
  deriving DecidableEq, Repr

namespace Val

def isNan : Val → Bool
  | nan => true
  | _ => false

/-- `a ≤ b` on non-NaN values (false if one of them is NaN) -/
def le : Val → Val → Bool
  | nan, _ => false
  | _, nan => false
  | ninf, _ => true
  | _, pinf => true
  | fin a, fin b => decide (a ≤ b)
  | _, _ => false

end Val

open Val

/-- `np.nanmin([a, b])` -/
def vmin : Val → Val → Val
  | nan, b => b
  | a, nan => a
  | a, b => if a.le b then a else b

/-- `np.nanmax([a, b])` -/
def vmax : Val → Val → Val
  | nan, b => b
  | a, nan => a
  | a, b => if a.le b then b else a

/-- IEEE addition on the symbolic level -/
def vadd : Val → Val → Val
  | nan, _ => nan
  | _, nan => nan
  | pinf, ninf => nan
  | ninf, pinf => nan
  | pinf, _ => pinf
  | _, pinf => pinf
  | ninf, _ => ninf
  | _, ninf => ninf
  | fin a, fin b => fin (a + b)

/-- `v * n` for a count `n` (`inf * 0 = nan`) -/
def vscale (v : Val) (n : Nat) : Val :=
  match v with
  | nan => nan
  | pinf => if n = 0 then nan else pinf
  | ninf => if n = 0 then nan else ninf
  | fin a => fin (a * (n : Rat))

/-- `v / n` for a count `n`; the only division by zero that occurs is `0 / 0 = nan` -/
def vdiv (v : Val) (n : Nat) : Val :=
  if n = 0 then nan else
  match v with
  | nan => nan
  | pinf => pinf
  | ninf => ninf
  | fin a => fin (a / (n : Rat))

/-- the values that the `nan*` functions look at -/
def valid (l : List Val) : List Val := l.filter (fun v => !v.isNan)

def nanmin (l : List Val) : Val := l.foldl vmin nan
def nanmax (l : List Val) : Val := l.foldl vmax nan
def nansum (l : List Val) : Val := (valid l).foldl vadd (fin 0)
def nancount (l : List Val) : Nat := (valid l).length
/-- `np.nanmean`: sum of the non-NaN values over their number (`nan` if there is none) -/
def nanmean (l : List Val) : Val := vdiv (nansum l) (nancount l)

/-- a scalar HDF5 dataset with its three summary attributes (`none` = attribute absent) -/
structure SDs where
  data : List Val
  mn : Option Val
  mx : Option Val
  mean : Option Val
  deriving DecidableEq, Repr

inductive MeanRule where
  | fixed | old
  deriving DecidableEq, Repr

/-- update of the stored mean `meanA` of `old` when `data` is appended -/
def updMean (rule : MeanRule) (meanA : Val) (old data : List Val) : Val :=
  match rule with
  | .old =>
    -- num_a = offset; num_b = data.size
    vdiv (vadd (vscale meanA old.length) (vscale (nanmean data) data.length))
      (old.length + data.length)
  | .fixed =>
    let na := nancount old
    let nb := nancount data
    if nb = 0 then meanA
    else if na = 0 then nanmean data
    else vdiv (vadd (vscale meanA na) (vscale (nanmean data) nb)) (na + nb)

/-- scalar branch of `write_ndarray` (`data` non-empty; the caller rejects empty data) -/
def writeScalar (rule : MeanRule) (ds : Option SDs) (data : List Val) : SDs :=
  match ds with
  | none =>
    -- new dataset: no attribute yet, every summary is computed from the dataset
    { data := data, mn := some (nanmin data), mx := some (nanmax data),
      mean := some (nanmean data) }
  | some s =>
    let all := s.data ++ data
    { data := all
      mn := some (match s.mn with
        | some a => vmin a (nanmin data)
        | none => nanmin all)
      mx := some (match s.mx with
        | some a => vmax a (nanmax data)
        | none => nanmax all)
      mean := some (match s.mean with
        | some m => updMean rule m s.data data
        | none => nanmean all) }

/-- `store_feature` in the three writer modes (`reset` truncated the file when it was opened,
afterwards it behaves like `append`) -/
def storeFeature (rule : MeanRule) (replace : Bool) (ds : Option SDs) (data : List Val) :
    Option SDs :=
  if data.isEmpty then (if replace then none else ds)   -- "Empty data object" (after the delete)
  else some (writeScalar rule (if replace then none else ds) data)

/-- successive append calls on a fresh file -/
def appends (rule : MeanRule) (chunks : List (List Val)) : Option SDs :=
  chunks.foldl (fun ds c => storeFeature rule false ds c) none

/-- removal of attributes with raw h5py -/
def strip (s : SDs) (mn mx mean : Bool) : SDs :=
  { s with mn := if mn then none else s.mn, mx := if mx then none else s.mx,
           mean := if mean then none else s.mean }

/-- an attribute overwritten with an arbitrary value (raw h5py; `k` = 0 min, 1 max, 2 mean) -/
def setAttr (s : SDs) (k : Nat) (v : Val) : SDs :=
  match k with
  | 0 => { s with mn := some v }
  | 1 => { s with mx := some v }
  | _ => { s with mean := some v }

/-- `rtdc_copy`: data and attributes are copied, absent summaries are completed -/
def copyDs (s : SDs) : SDs :=
  { s with mn := some (s.mn.getD (nanmin s.data)), mx := some (s.mx.getD (nanmax s.data)),
           mean := some (s.mean.getD (nanmean s.data)) }

structure Summ where
  mn : Val
  mx : Val
  mean : Val
  deriving DecidableEq, Repr

/-- what `ds[feat].min()/.max()/.mean()` return for a file-based feature -/
def report (s : SDs) : Summ :=
  { mn := s.mn.getD (nanmin s.data), mx := s.mx.getD (nanmax s.data),
    mean := s.mean.getD (nanmean s.data) }

/-- the property's oracle -/
def truth (l : List Val) : Summ := { mn := nanmin l, mx := nanmax l, mean := nanmean l }

/-- what `ds[feat][:]` hands out when the file says `experiment:event count = count`: today's
`H5ScalarEvent` exposes the WHOLE HDF5 dataset; the count (which may be smaller or larger than the
number of stored events: partial appends, interrupted or foreign recordings) does not enter -/
def exposed (_count : Nat) (s : SDs) : List Val := s.data

/-- a reader that hands out only the first `count` stored events (seeded change C20-12) … -/
def exposedTrimmed (count : Nat) (s : SDs) : List Val := s.data.take count

/-- … and still seeds its summary cache from the stored attributes (written over ALL stored events) -/
def reportTrimmed (count : Nat) (s : SDs) : Summ :=
  { mn := s.mn.getD (nanmin (exposedTrimmed count s)), mx := s.mx.getD (nanmax (exposedTrimmed count s)),
    mean := s.mean.getD (nanmean (exposedTrimmed count s)) }

/-- `sel m xs`: the events of `xs` where the Boolean filter `m` is true -/
def sel : List Bool → List Val → List Val
  | true :: m, x :: xs => x :: sel m xs
  | false :: m, _ :: xs => sel m xs
  | _, _ => []

/-- production histories of one scalar feature of one file -/
inductive Hist where
  /-- written through `RTDCWriter` in one or many calls -/
  | write (chunks : List (List Val))
  /-- a file made by other software (raw h5py): any data, any stored attributes -/
  | foreign (s : SDs)
  /-- `mode="replace"`: the feature is deleted and written anew -/
  | rewrite (h : Hist) (data : List Val)
  /-- further append calls on an existing file (also: `dclab-join` appending the other files) -/
  | append (h : Hist) (chunks : List (List Val))
  /-- summaries removed with raw h5py -/
  | strip (h : Hist) (mn mx mean : Bool)
  /-- `rtdc_copy` (compress, repack, condense) -/
  | copy (h : Hist)
  /-- `export.hdf5` with a filter: the selection is stored in one call into a new file -/
  | exported (h : Hist) (mask : List Bool)

def build (rule : MeanRule) : Hist → Option SDs
  | .write chunks => appends rule chunks
  | .foreign s => some s
  | .rewrite h data => storeFeature rule true (build rule h) data
  | .append h chunks => chunks.foldl (fun ds c => storeFeature rule false ds c) (build rule h)
  | .strip h a b c => (build rule h).map (fun s => strip s a b c)
  | .copy h => (build rule h).map copyDs
  | .exported h mask =>
    match build rule h with
    | none => none
    | some s => storeFeature rule false none (sel mask s.data)

/-! ### mapped basins (`feat_basin.BasinProxyFeature`) -/

/-- `origin[map]` — numpy integer-array indexing (`feat_obj[:][basinmap]`).  Every index of a
stored `basinmap` feature is valid (`mapOk`); repeated indices ("blown indexing") and omitted ones
are allowed. -/
def gather (origin : List Val) (map : List Nat) : List Val :=
  map.map (fun i => origin.getD i nan)

/-- numpy raises `IndexError` when this is false -/
def mapOk (n : Nat) (map : List Nat) : Bool := map.all (fun i => decide (i < n))

/-- a `BasinProxyFeature`: the basin's feature object (an HDF5 dataset with its stored summaries),
the mapping array and the lazily filled cache of the mapped values (`_cache`) -/
structure Proxy where
  origin : SDs
  map : List Nat
  cache : Option (List Val)

/-- `BasinProxyFeature.__array__` for a scalar feature: `feat_obj[:][basinmap]`, cached -/
def proxyArray (p : Proxy) : Proxy × List Val :=
  let a := p.cache.getD (gather p.origin.data p.map)
  ({ p with cache := some a }, a)

/-- summaries of a mapped-basin feature computed from the mapped values (what `np.nanmin(f)` …
and a `ChildScalar` on top of the proxy do, and what a `min()/max()/mean()` of the proxy has to
return) -/
def proxyReport (p : Proxy) : Summ := truth (proxyArray p).2

/-- the tempting shortcut (seeded change C20-10): a mapping as long as the basin "merely
reorders" its events, so the basin feature's own (stored) summaries are handed out -/
def proxyReportShortcut (p : Proxy) : Summ :=
  if p.map.length = p.origin.data.length then report p.origin else proxyReport p

/-- a hierarchy child on top of a dataset whose feature is a mapped-basin proxy:
`hparent[feat][hparent.filter.all]` = boolean selection of the mapped values -/
def proxyChildReport (p : Proxy) (mask : List Bool) : Summ := truth (sel mask (proxyArray p).2)

/-! ### hierarchy child -/

/-- state of a hierarchy child w.r.t. one scalar feature: the filter of the parent, and the
feature object (`ChildScalar`) the child has cached — its array and its summaries are computed
lazily and kept (`_array`, `_ufunc_attrs`) -/
structure Child where
  parent : List Val
  mask : List Bool
  arr : Option (List Val)
  cache : Option Summ

inductive ChildOp where
  | setMask (m : List Bool)   -- the parent's filter changes
  | setData (l : List Val)    -- the parent's feature data change (recomputed / replaced)
  | rejuvenate                -- `_events.clear()`: a new `ChildScalar` is created on next access
  | query                     -- `child[feat].min()/max()/mean()`

def childStep (c : Child) : ChildOp → Child × Option Summ
  | .setMask m => ({ c with mask := m }, none)
  | .setData l => ({ c with parent := l }, none)
  | .rejuvenate => ({ c with arr := none, cache := none }, none)
  | .query =>
    let a := c.arr.getD (sel c.mask c.parent)
    let s := c.cache.getD (truth a)
    ({ c with arr := some a, cache := some s }, some s)

def childRun (c : Child) : List ChildOp → Child × List (Option Summ)
  | [] => (c, [])
  | op :: ops =>
    let (c', o) := childStep c op
    let (c'', os) := childRun c' ops
    (c'', o :: os)

end DclabModel.Summary
