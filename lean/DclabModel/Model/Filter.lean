import DclabModel.Model.Down
/-!
# Model of `dclab.rtdc_dataset.filter.Filter` (property C03)

`impl` layer: mirrors, branch by branch, `Filter.__init__/_init_rtdc_ds/reset/update`
(`/repo/dclab/rtdc_dataset/filter.py`), `RTDCBase.apply_filter/reset_filter/
polygon_filter_add/polygon_filter_rm` (`core.py`), `Configuration._init_default_filter_values`
(`config.py`), `PolygonFilter.filter/hash` (`polygon_filter.py`) and the use of
`downsample_rand` for "limit events".
`spec` layer: the stateless conjunction the user relies on (`spec`, `specStep`).

* events are indices `0 … n-1`; a boolean array is a `Mask = Nat → Bool` inside the caches and
  a `List Bool` of length `n` where the code stores it in `_array_props`;
* feature values and range bounds are `Val` (`nan`, `±inf`, exact rationals); NaN *bounds*
  are outside the model (Python's `nan != nan` makes them "always changed");
* the `dict`s `_box_filters`, `_poly_filters` are association lists with unique keys
  (`upsert` puts the assigned key in front: the order of a `dict` is never observable here,
  all consumers are conjunctions);
* the polygon registry `PolygonFilter.instances` is `reg : Nat → Poly`; the md5 `hash` of
  (axes, points, inverted) is assumed injective, i.e. replaced by the content itself; the
  points array is an opaque `shape` token and point-in-polygon is the *parameter*
  `pip : shape → x → y → Bool` (property C15 is about it);
* `np.random.choice` is the parameter `choice` of `Down.rand`.

`update ver …`: `Ver.f25` is the current code (after the two `fix:` commits), `Ver.f03` the
code with only the F03 fix (keys removed since the last update are part of the diff, but an
`update` that raises has already recomputed some box filters), `Ver.orig` the code before both.
Core Lean only.
-/
namespace DclabModel.Filter
open DclabModel.Down (Val sel scatter cnt rand)

abbrev Feat := Nat
abbrev Mask := Nat → Bool

/-- a key `"<feat> min"` (`false`) or `"<feat> max"` (`true`) of `config["filtering"]` -/
abbrev Key := Feat × Bool
abbrev Ranges := List (Key × Val)

/-- IEEE `a <= b` -/
def vle : Val → Val → Bool
  | .nan, _ => false
  | _, .nan => false
  | .ninf, _ => true
  | _, .pinf => true
  | .fin a, .fin b => a ≤ b
  | .pinf, _ => false
  | _, .ninf => false

/-- IEEE `a > b` -/
def vgt (a b : Val) : Bool := vle b a && a != b

/-- `dict.get` -/
def getR : Ranges → Key → Option Val
  | [], _ => none
  | (k', v) :: r, k => if k' = k then some v else getR r k

/-- `cfg[key] = v` -/
def setR (l : Ranges) (k : Key) (v : Val) : Ranges := (k, v) :: l.filter (fun e => e.1 ≠ k)

/-- `cfg.pop(key)` -/
def popR (l : Ranges) (k : Key) : Ranges := l.filter (fun e => e.1 ≠ k)

/-- `ds.config["filtering"]` -/
structure Cfg where
  ranges : Ranges
  polys : List Nat          -- "polygon filters"
  removeInvalid : Bool      -- "remove invalid events"
  enable : Bool             -- "enable filters"
  limit : Nat               -- "limit events"

/-- `Configuration._init_default_filter_values` on a fresh configuration -/
def Cfg.default : Cfg :=
  { ranges := [], polys := [], removeInvalid := false, enable := true, limit := 0 }

/-- content of a `PolygonFilter` instance (what its `hash` covers) -/
structure Poly where
  ax : Feat
  ay : Feat
  shape : Nat
  inv : Bool
deriving DecidableEq, Repr

/-- the scalar features of the dataset and their data (`ds.features_scalar`, `ds[feat]`) -/
structure Data where
  n : Nat
  cols : List (Feat × (Nat → Val))

def getCol : List (Feat × (Nat → Val)) → Feat → Option (Nat → Val)
  | [], _ => none
  | (g, c) :: r, f => if g = f then some c else getCol r f

def Data.has (d : Data) (f : Feat) : Bool := (getCol d.cols f).isSome
def Data.col (d : Data) (f : Feat) : Nat → Val := (getCol d.cols f).getD (fun _ => .nan)

def toList (n : Nat) (m : Mask) : List Bool := (List.range n).map m

/-! ## the three kinds of per-event tests -/

/-- box filter of one feature for the settings `r`:
`feat_filt[:] = True; if min, max both set and different: swap if reversed; nan ↦ False;
lo <= x <= hi` -/
def boxMask (r : Ranges) (f : Feat) (col : Nat → Val) : Mask :=
  match getR r (f, false), getR r (f, true) with
  | some lo, some hi =>
    if lo ≠ hi then
      let lo' := if vgt lo hi then hi else lo
      let hi' := if vgt lo hi then lo else hi
      fun i => if col i = .nan then false else vle lo' (col i) && vle (col i) hi'
    else fun _ => true
  | _, _ => fun _ => true

/-- `PolygonFilter.filter(datax, datay)` -/
def polyMask (pip : Nat → Val → Val → Bool) (d : Data) (p : Poly) : Mask :=
  fun i => if p.inv then !(pip p.shape (d.col p.ax i) (d.col p.ay i))
           else pip p.shape (d.col p.ax i) (d.col p.ay i)

/-- `arr_invalid`: recomputed on every update -/
def invalidMask (d : Data) (removeInvalid : Bool) : Mask :=
  fun i => if removeInvalid then d.cols.all (fun c => (c.2 i).isValid) else true

/-- "limit events": `sub = all[all]; _, idx = downsample_rand(sub, limit, ret_idx=True);
sub[~idx] = False; all[all] = sub` -/
def limitL (choice : List Nat → Nat → List Nat) (limit : Nat) (pre : List Bool) : List Bool :=
  scatter pre (rand choice (fun _ => true) (List.replicate (cnt pre) true) limit false).2

/-! ## specification: stateless evaluation of the current settings -/

def specBox (d : Data) (cfg : Cfg) : Mask :=
  fun i => d.cols.all (fun c => boxMask cfg.ranges c.1 c.2 i)

def specPoly (pip : Nat → Val → Val → Bool) (d : Data) (cfg : Cfg) (reg : Nat → Poly) : Mask :=
  fun i => cfg.polys.all (fun id => polyMask pip d (reg id) i)

/-- the conjunction the property states, before the event limit -/
def specPre (pip : Nat → Val → Val → Bool) (d : Data) (cfg : Cfg) (reg : Nat → Poly)
    (manual : Mask) : Mask :=
  fun i => specBox d cfg i && invalidMask d cfg.removeInvalid i && specPoly pip d cfg reg i
           && manual i

/-- `ds.filter.all` as a function of the *current* settings, polygon registry and manual
array only -/
def spec (choice : List Nat → Nat → List Nat) (pip : Nat → Val → Val → Bool) (d : Data)
    (cfg : Cfg) (reg : Nat → Poly) (manual : Mask) : List Bool :=
  if cfg.enable then
    let pre := toList d.n (specPre pip d cfg reg manual)
    if cfg.limit > 0 then limitL choice cfg.limit pre else pre
  else List.replicate d.n true

/-! ## implementation: `Filter` with its caches -/

abbrev BoxCache := List (Feat × Mask)
abbrev PolyCache := List (Nat × (Poly × Mask))

def upsert {α : Type} (l : List (Nat × α)) (k : Nat) (v : α) : List (Nat × α) :=
  (k, v) :: l.filter (fun e => e.1 ≠ k)

def getP : PolyCache → Nat → Option (Poly × Mask)
  | [], _ => none
  | (k, v) :: r, id => if k = id then some v else getP r id

structure FState where
  box : BoxCache            -- `_box_filters`
  poly : PolyCache          -- `_poly_filters` (hash ≙ content)
  old : Ranges              -- min/max keys of `_old_config` (`{}` after `reset`)
  manual : Mask             -- `manual`
  aAll : List Bool          -- `_array_props["all"]` …
  aBox : List Bool
  aPoly : List Bool
  aInv : List Bool

/-- `Filter.reset()` (also the state after `__init__`): lazily created arrays read all-True -/
def FState.init (n : Nat) : FState :=
  { box := [], poly := [], old := [], manual := fun _ => true,
    aAll := List.replicate n true, aBox := List.replicate n true,
    aPoly := List.replicate n true, aInv := List.replicate n true }

/-- which revision of `Filter.update` is modelled -/
inductive Ver where
  | orig   -- before `fix-F03`
  | f03    -- after `fix-F03`, before `fix-F25`
  | f25    -- after both (current)
deriving DecidableEq, Repr

def ins (a : Nat) : List Nat → List Nat
  | [] => [a]
  | b :: l => if a < b then a :: b :: l else if a = b then b :: l else b :: ins a l

/-- `np.unique` -/
def sortUniq (l : List Nat) : List Nat := l.foldr ins []

/-- features whose `min`/`max` key is in `newkeys`.  Before the fix: keys of the current
settings whose value differs from the previous one.  After the fix: also keys of the previous
settings that are no longer present. -/
def changedFeats (fixed : Bool) (cur old : Ranges) : List Feat :=
  (cur.filter (fun e => getR old e.1 != some e.2)).map (fun e => e.1.1)
  ++ (if fixed then (old.filter (fun e => (getR cur e.1).isNone)).map (fun e => e.1.1) else [])

def feat2filter (fixed : Bool) (cur old : Ranges) (force : List Feat) : List Feat :=
  sortUniq (changedFeats fixed cur old ++ force)

/-- exactly one of `"<f> min"`, `"<f> max"` is set -/
def halfSet (cur : Ranges) (f : Feat) : Bool :=
  (getR cur (f, false)).isSome != (getR cur (f, true)).isSome

/-- some feature has exactly one of its keys set (stateless; only features with a key matter) -/
def anyHalf (cur : Ranges) : Bool := cur.any (fun e => halfSet cur e.1.1)

/-- before `fix-F25`: `for feat in feat2filter:` – stops at the first half-set range
(`ValueError`); the box filters recomputed before that stay recomputed -/
def boxLoop (cur : Ranges) (d : Data) : List Feat → BoxCache → BoxCache × Bool
  | [], bc => (bc, true)
  | f :: fs, bc =>
    if halfSet cur f then (bc, false)
    else match getCol d.cols f with
      | some col => boxLoop cur d fs (upsert bc f (boxMask cur f col))
      | none => boxLoop cur d fs bc

/-- after `fix-F25`: the recomputation loop (all features were validated before) -/
def boxFold (cur : Ranges) (d : Data) : List Feat → BoxCache → BoxCache
  | [], bc => bc
  | f :: fs, bc =>
    match getCol d.cols f with
    | some col => boxFold cur d fs (upsert bc f (boxMask cur f col))
    | none => boxFold cur d fs bc

/-- step 2 of `update`: `(box filters, no ValueError?)`.  After `fix-F25` all features of
`feat2filter` are validated *before* anything is recomputed. -/
def boxStage (ver : Ver) (cur : Ranges) (d : Data) (fs : List Feat) (bc : BoxCache) :
    BoxCache × Bool :=
  if ver = .f25 then
    if fs.any (halfSet cur) then (bc, false) else (boxFold cur d fs bc, true)
  else boxLoop cur d fs bc

/-- one iteration of `for pf_id in cfg_cur["polygon filters"]:` -/
def polyStep (pip : Nat → Val → Val → Bool) (d : Data) (reg : Nat → Poly)
    (pc : PolyCache) (id : Nat) : PolyCache :=
  match getP pc id with
  | some (p, _) => if p = reg id then pc else upsert pc id (reg id, polyMask pip d (reg id))
  | none => upsert pc id (reg id, polyMask pip d (reg id))

/-- every polygon filter in the settings has both axes in the dataset (otherwise
`rtdc_ds[pf.axes[0]]` raises `KeyError`; not modelled) -/
def polysOK (d : Data) (reg : Nat → Poly) (polys : List Nat) : Bool :=
  polys.all (fun id => d.has (reg id).ax && d.has (reg id).ay)

inductive Out where
  | ok
  | errValue       -- `ValueError`
  | errKey         -- `KeyError`
  | unmodelled
deriving DecidableEq, Repr

/-- `Filter.update(rtdc_ds, force)` -/
def update (ver : Ver) (choice : List Nat → Nat → List Nat) (pip : Nat → Val → Val → Bool)
    (d : Data) (cfg : Cfg) (reg : Nat → Poly) (force : List Feat) (st : FState) : FState × Out :=
  if polysOK d reg cfg.polys then
    -- `_init_rtdc_ds`: drop caches of features / polygon filters that are gone
    let box0 := st.box.filter (fun e => d.has e.1)
    let poly0 := st.poly.filter (fun e => cfg.polys.contains e.1 && d.has (reg e.1).ax
                                          && d.has (reg e.1).ay)
    -- 1. invalid
    let inv := invalidMask d cfg.removeInvalid
    -- 2. box filters of the features whose keys changed (or are forced)
    match boxStage ver cfg.ranges d (feat2filter (ver != .orig) cfg.ranges st.old force) box0 with
    | (box1, false) =>
      ({ st with box := box1, poly := poly0, aInv := toList d.n inv }, .errValue)
    | (box1, true) =>
      let arrBox : Mask := fun i => box1.all (fun e => e.2 i)
      -- 3. polygon filters
      let poly1 := cfg.polys.foldl (polyStep pip d reg) poly0
      let arrPoly : Mask := fun i => poly1.all (fun e => e.2.2 i)
      -- 4. combine, limit
      let pre := toList d.n (fun i => arrBox i && inv i && arrPoly i && st.manual i)
      let all := if cfg.enable then (if cfg.limit > 0 then limitL choice cfg.limit pre else pre)
                 else List.replicate d.n true
      ({ box := box1, poly := poly1, old := cfg.ranges, manual := st.manual,
         aAll := all, aBox := toList d.n arrBox, aPoly := toList d.n arrPoly,
         aInv := toList d.n inv }, .ok)
  else (st, .unmodelled)

/-! ## operation histories -/

/-- dataset-side state: settings, polygon registry, filter object -/
structure Sys where
  cfg : Cfg
  reg : Nat → Poly
  st : FState

inductive Op where
  | setKey (f : Feat) (isMax : Bool) (v : Val)   -- `cfg["<f> min|max"] = v`
  | popKey (f : Feat) (isMax : Bool)             -- `cfg.pop("<f> min|max")`
  | polySet (id : Nat) (p : Poly)                -- create / re-assign points, axes, inverted
  | polyAxes (id : Nat) (ax ay : Feat)           -- `pf.axes = (…)` alone, in place
  | polyPoints (id : Nat) (shape : Nat)          -- `pf.points = …` alone, in place
  | polyInv (id : Nat) (inv : Bool)              -- `pf.inverted = …` alone, in place
  | polyAdd (id : Nat)                           -- `ds.polygon_filter_add(id)`
  | polyRm (id : Nat)                            -- `ds.polygon_filter_rm(id)`
  | setInvalid (b : Bool)
  | setEnable (b : Bool)
  | setLimit (k : Nat)
  | manual (i : Nat) (b : Bool)                  -- `ds.filter.manual[i] = b`
  | reset                                        -- `ds.reset_filter()`
  | apply (force : List Feat)                    -- `ds.apply_filter(force)`

def Sys.init (n : Nat) : Sys :=
  { cfg := Cfg.default, reg := fun _ => { ax := 0, ay := 0, shape := 0, inv := false },
    st := FState.init n }

/-- the effect of one operation on settings / registry / manual array (no filter state) -/
def cfgStep (cfg : Cfg) (reg : Nat → Poly) (manual : Mask) (op : Op) :
    Cfg × (Nat → Poly) × Mask × Out :=
  match op with
  | .setKey f mx v => ({ cfg with ranges := setR cfg.ranges (f, mx) v }, reg, manual, .ok)
  | .popKey f mx =>
    if (getR cfg.ranges (f, mx)).isSome then
      ({ cfg with ranges := popR cfg.ranges (f, mx) }, reg, manual, .ok)
    else (cfg, reg, manual, .errKey)
  | .polySet id p => (cfg, fun j => if j = id then p else reg j, manual, .ok)
  | .polyAxes id ax ay =>
    (cfg, fun j => if j = id then { reg j with ax := ax, ay := ay } else reg j, manual, .ok)
  | .polyPoints id sh => (cfg, fun j => if j = id then { reg j with shape := sh } else reg j, manual, .ok)
  | .polyInv id b => (cfg, fun j => if j = id then { reg j with inv := b } else reg j, manual, .ok)
  | .polyAdd id => ({ cfg with polys := cfg.polys ++ [id] }, reg, manual, .ok)
  | .polyRm id =>
    if cfg.polys.contains id then ({ cfg with polys := cfg.polys.erase id }, reg, manual, .ok)
    else (cfg, reg, manual, .errValue)
  | .setInvalid b => ({ cfg with removeInvalid := b }, reg, manual, .ok)
  | .setEnable b => ({ cfg with enable := b }, reg, manual, .ok)
  | .setLimit k => ({ cfg with limit := k }, reg, manual, .ok)
  | .manual i b => (cfg, reg, fun j => if j = i then b else manual j, .ok)
  | .reset =>
    -- `reset_filter`: defaults are re-assigned, min/max keys stay (O3); manual all-True
    ({ cfg with polys := [], removeInvalid := false, enable := true, limit := 0 }, reg,
     fun _ => true, .ok)
  | .apply _ => (cfg, reg, manual, .ok)

def step (ver : Ver) (choice : List Nat → Nat → List Nat) (pip : Nat → Val → Val → Bool)
    (d : Data) (s : Sys) (op : Op) : Sys × Out :=
  match op with
  | .apply force =>
    let r := update ver choice pip d s.cfg s.reg force s.st
    ({ s with st := r.1 }, r.2)
  | .reset =>
    let r := cfgStep s.cfg s.reg s.st.manual .reset
    ({ cfg := r.1, reg := r.2.1, st := FState.init d.n }, .ok)
  | op =>
    let r := cfgStep s.cfg s.reg s.st.manual op
    ({ cfg := r.1, reg := r.2.1, st := { s.st with manual := r.2.2.1 } }, r.2.2.2)

/-- for every `apply` of the history: `some ds.filter.all` if it succeeded, `none` if it raised -/
def runAll (ver : Ver) (choice : List Nat → Nat → List Nat) (pip : Nat → Val → Val → Bool)
    (d : Data) : Sys → List Op → List (Option (List Bool))
  | _, [] => []
  | s, op :: ops =>
    let r := step ver choice pip d s op
    match op with
    | .apply _ => (if r.2 = .ok then some r.1.st.aAll else none) :: runAll ver choice pip d r.1 ops
    | _ => runAll ver choice pip d r.1 ops

def run (ver : Ver) (choice : List Nat → Nat → List Nat) (pip : Nat → Val → Val → Bool)
    (d : Data) : Sys → List Op → Sys
  | s, [] => s
  | s, op :: ops => run ver choice pip d (step ver choice pip d s op).1 ops

/-- what one `apply` must produce, as a function of the current settings only: `none`
(`ValueError`) iff some feature has only one of min/max set, else `spec` -/
def specApply (choice : List Nat → Nat → List Nat) (pip : Nat → Val → Val → Bool) (d : Data)
    (cfg : Cfg) (reg : Nat → Poly) (manual : Mask) : Option (List Bool) :=
  if anyHalf cfg.ranges then none else some (spec choice pip d cfg reg manual)

/-- the specification run: tracks only settings, registry and manual array, and evaluates
`specApply` from scratch at every `apply` -/
def specAll (choice : List Nat → Nat → List Nat) (pip : Nat → Val → Val → Bool) (d : Data) :
    Cfg → (Nat → Poly) → Mask → List Op → List (Option (List Bool))
  | _, _, _, [] => []
  | cfg, reg, manual, op :: ops =>
    let r := cfgStep cfg reg manual op
    match op with
    | .apply _ => specApply choice pip d cfg reg manual :: specAll choice pip d r.1 r.2.1 r.2.2.1 ops
    | _ => specAll choice pip d r.1 r.2.1 r.2.2.1 ops

/-- the polygon filters in the settings have their axes in the dataset (otherwise `update`
raises a `KeyError` that is not modelled) -/
def ValidAt (d : Data) (s : Sys) : Prop := polysOK d s.reg s.cfg.polys = true

/-- every `apply` of the history happens at settings with usable polygon filters.  Half-set
ranges are allowed: the apply raises and the history continues. -/
def ValidHist (ver : Ver) (choice : List Nat → Nat → List Nat)
    (pip : Nat → Val → Val → Bool) (d : Data) : Sys → List Op → Prop
  | _, [] => True
  | s, op :: ops =>
    (match op with
     | .apply _ => ValidAt d s
     | _ => True) ∧ ValidHist ver choice pip d (step ver choice pip d s op).1 ops

end DclabModel.Filter
