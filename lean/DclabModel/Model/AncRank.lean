import DclabModel.Model.Anc
/-!
# C06, session 4: termination rank, availability gap, source-extracted read sets

* **rank / fuel.**  `AncillaryFeature.is_available` recurses into (a) every recipe that can
  provide a required feature (`col in rtdc_ds`) and (b) every higher-priority recipe of the
  same name; `RTDCBase.__getitem__` recurses into the required features (`hash`).  `depends r o`
  is that call relation; a rank function that strictly decreases along it (`RankOK`) bounds the
  recursion depth: `featFuel` is the fuel (= Python recursion depth) after which the model's
  functions no longer change (`Lemmas/AncFuel.lean`).  The rank table of the live registry is
  emitted by `translate()` (`Gen/AncTable.lean: rankTable`) and re-checked by `rankedB`;
  `computeRanks` computes one inside the model (used by the driver for plug-in registries).
* **availability gap.**  `emodGapS` / `ctcGapS`: decidable predicates over the configuration that
  describe exactly where `feat in ds` is true although reading raises (classes F07 / F63).
* **read sets from the source.**  `specOfA` replaces the hand-written `declaredReads` of a
  method by the read set that `translate()` extracted from the method's source with `ast`
  (`Gen/AncTable.lean: astReads`), whenever that extraction is complete (no dynamic subscript).
Core Lean only.
-/
namespace DclabModel.Anc
variable {D V : Type}

/-! ## 1. rank and fuel -/

/-- `r.is_available(ds)` may call `o.is_available(ds)` -/
def depends (r o : Recipe D V) : Bool :=
  r.reqF.contains o.name || (o.name == r.name && decide (r.priority < o.priority))

/-- the rank strictly decreases along the call relation (no cyclic recipes) -/
def RankOK (e : Env D V) (rk : Recipe D V → Nat) : Prop :=
  ∀ r ∈ e.reg, ∀ o ∈ e.reg, depends r o = true → rk o < rk r

def maxL : List Nat → Nat
  | [] => 0
  | x :: xs => max x (maxL xs)

/-- recursion depth after which nothing about feature `f` changes any more: 0 for a feature
without recipe, else 1 + the largest rank of its recipes -/
def featFuel (e : Env D V) (rk : Recipe D V → Nat) (f : Feat) : Nat :=
  maxL ((e.reg.filter (fun r => r.name == f)).map (fun r => rk r + 1))

/-- (feature name, priority, rank) -/
abbrev RankTable := List (String × Int × Nat)

def rankOf : RankTable → String → Int → Nat
  | [], _, _ => 0
  | (n, p, k) :: rest, name, prio => if n = name ∧ p = prio then k else rankOf rest name prio

def rkOf (tbl : RankTable) (r : Recipe D V) : Nat := rankOf tbl r.name r.priority

def dependsS (r o : Spec) : Bool :=
  r.reqF.contains o.name || (o.name == r.name && decide (r.priority < o.priority))

/-- decidable form of `RankOK` for a registry of first-order descriptions -/
def rankedB (ps : List Spec) (tbl : RankTable) : Bool :=
  ps.all (fun r => ps.all (fun o =>
    !(dependsS r o) || decide (rankOf tbl o.name o.priority < rankOf tbl r.name r.priority)))

/-- a fuel that suffices for every feature -/
def fuelBound (tbl : RankTable) : Nat := maxL (tbl.map (fun t => t.2.2)) + 1

/-- one relaxation round: rank of (name, priority) = 1 + largest rank among everything any
recipe with that name and priority depends on -/
def relax (ps : List Spec) (tbl : RankTable) : RankTable :=
  ps.map (fun r => (r.name, r.priority,
    maxL ((ps.filter (fun o => ps.any (fun r' => r'.name == r.name && r'.priority == r.priority
                                          && dependsS r' o))).map
            (fun o => rankOf tbl o.name o.priority + 1))))

def iterFix (f : RankTable → RankTable) : Nat → RankTable → RankTable
  | 0, t => t
  | n + 1, t => let t' := f t; if t' = t then t else iterFix f n t'

/-- longest-path ranks by relaxation (a cyclic registry never reaches a fixpoint; the result
then fails `rankedB`) -/
def computeRanks (ps : List Spec) : RankTable :=
  iterFix (relax ps) (ps.length + 1) (ps.map (fun r => (r.name, r.priority, 0)))

def featFuelS (ps : List Spec) (tbl : RankTable) (f : Feat) : Nat :=
  maxL ((ps.filter (fun p => p.name == f)).map (fun p => rankOf tbl p.name p.priority + 1))

/-! ## 2. where availability and runnability differ -/

def hasK (s : St D V) (k : Key) : Bool := (getC s k).isSome

/-- the medium is "other" or not given (what `compute_emodulus` dispatches on) -/
def otherS (s : St String String) : Bool :=
  match getC s "calculation:emodulus medium" with
  | some m => m == "other"
  | none => true

/-- F07 class, exactly: with all other requirements of `emodulus` met (pixel size, flow rate,
channel width, `area_um`, `deform`, channel region), `"emodulus" in ds` is true although
`ds["emodulus"]` raises iff a LUT is given and
* the medium is a known one and `emodulus viscosity` is set (scenario B is structurally
  available, `compute_emodulus` refuses a viscosity for a known medium), or
* the medium is "other" (explicitly), no viscosity is set, and a temperature (key or `temp`
  feature) makes scenario C / A structurally available.
`tempF`: the `temp` feature exists. -/
def emodGapS (s : St String String) (tempF : Bool) : Bool :=
  let other := otherS s
  let visc := hasK s "calculation:emodulus viscosity"
  hasK s "calculation:emodulus lut" &&
    (if other then
       !visc && hasK s "calculation:emodulus medium"
         && (hasK s "calculation:emodulus temperature" || tempF)
     else visc)

/-- F63 class, exactly: all three fluorescence channels exist, not all six crosstalk elements
are configured, but both elements of a channel pair containing `ch` are (the two-channel
recipe is structurally available, `compute_ctc` insists on the full matrix) -/
def ctcGapS (s : St String String) (has1 has2 has3 : Bool) (ch : Nat) : Bool :=
  let k := fun (x : String) => hasK s ("calculation:crosstalk fl" ++ x)
  let p12 := k "12" && k "21"
  let p13 := k "13" && k "31"
  let p23 := k "23" && k "32"
  has1 && has2 && has3 && !(ctKeys.all (hasK s)) &&
    (match ch with
     | 1 => p12 || p13
     | 2 => p12 || p23
     | 3 => p13 || p23
     | _ => false)

/-- the gap predicate for a feature name in a state of the live kind of registry (other
features: never) -/
def gapS (e : Env String String) (s : St String String) (f : Feat) : Bool :=
  let b := fun g => (base e s g).isSome
  if f = "emodulus" then emodGapS s (b "temp")
  else if f = "fl1_max_ctc" then ctcGapS s (b "fl1_max") (b "fl2_max") (b "fl3_max") 1
  else if f = "fl2_max_ctc" then ctcGapS s (b "fl1_max") (b "fl2_max") (b "fl3_max") 2
  else if f = "fl3_max_ctc" then ctcGapS s (b "fl1_max") (b "fl2_max") (b "fl3_max") 3
  else false

/-! ## 3. read sets extracted from the source -/

/-- (method name, features read, config keys read, extraction complete?) -/
abbrev AstTable := List (String × List Feat × List Key × Bool)

def astLookup : AstTable → String → Option (List Feat × List Key)
  | [], _ => none
  | (m', fs, cs, ok) :: rest, m =>
    if m' = m then (if ok then some (fs, cs) else none) else astLookup rest m

/-- reads that a path condition excludes for a recipe: `compute_emodulus` touches the `temp`
feature only when neither a viscosity (scenario B) nor the `emodulus temperature` key
(scenario C) decides — i.e. only in the recipes registered as "case A" (validated on every
run by the recorded accesses: `temp` is accessed iff the scenario is A) -/
def pathExcluded (method tag : String) : List Feat :=
  if method = "compute_emodulus" ∧ tag ≠ "case A" then ["temp"] else []

/-- like `specOf`, but the method's read set comes from its source when the extraction is
complete; the hand-written `declaredReads` remains for the others (`compute_ml_class`: dynamic
feature names) -/
def specOfA (t : AstTable) (w : Row) : Spec :=
  let p := specOf w
  match astLookup t w.method with
  | some (fs, cs) =>
    { p with readsF := fs.filter (fun g => !(pathExcluded w.method w.tag).contains g),
             readsC := cs }
  | none => p

/-- the hand-written `reqFuncInfo` against the SOURCE of the requirement function (`astReqFunc`
of `Gen/AncTable.lean`): every configuration key of which the model says that the function
returns its value (so that it enters the hash) is accessed by the function's source, and a
function modelled with the channel guard reads `[setup] chip region` -/
def reqFuncSourceB (t : AstTable) (w : Row) : Bool :=
  match astLookup t w.reqFunc with
  | some (_, cs) =>
    let i := reqFuncInfo w.reqFunc
    i.2.1.all (fun k => cs.contains k)
      && (!(decide (i.1 = Guard.channel)) || cs.contains chipKey)
  | none => true

/-- what `AncillaryFeature.hash` would feed to md5 on a freshly opened dataset -/
def freshHash (e : Env D V) (n : Nat) (s : St D V) (r : Recipe D V) : Hash D V :=
  mkHash e s r (r.reqF.map (fun g => (g, fresh e n s g)))

end DclabModel.Anc
