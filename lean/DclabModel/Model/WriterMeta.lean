import DclabModel.Model.Writer
import DclabModel.Model.MetaWriter
/-!
# Metadata inside the writer sessions — model for C01 (core Lean only)

`Model/Writer.lean` describes what `RTDCWriter` does with event data, logs and tables;
`Model/Meta.lean` (property C11) describes the converters and the HDF5 attribute type map.  This
file puts `RTDCWriter.store_metadata` **into the writer history**: the attributes of the file are a
second component of the state, written by `store_metadata`, cleared by a writer opened in `reset`
mode, and completed by `__exit__` (`rectify_metadata`: `experiment:event count` is re-derived from
the stored data whenever the `events` group is not empty — whatever the metadata said).

* impl (`xstep`/`xrun` over `XSt = {St, Attrs}`) mirrors `writer.py`: `store_metadata` first
  checks every section/key (`admissible`; nothing is written if one is unknown), then writes the
  entries in order, each as `h5 (conv (decode v))` (`Tbl.storedValue`), a converter error aborting
  the loop with the earlier entries written (`storeAll`); data calls do not touch the attributes.
  The key `setup:software version`, which `store_metadata` always appends, is the subject of
  `verRun` (Model/Writer.lean) and is not an entry here; the other data-derived keys
  (`fluorescence:samples per event`, `fluorescence:channel count`, `imaging:roi size x/y`) are
  modelled in `Model/MetaWriter.lean` (C11) and not repeated.
* spec (`mspecStep`/`mspecOf`): a finite map `section:key ↦ value` — the converted value of the
  last accepted write since the last reset, the event count of the data after an exit.
* `readMeta` is `parse_config`: the attribute goes through the key's converter once more.
-/
namespace DclabModel.WriterMeta
open DclabModel.Writer DclabModel.Meta

abbrev Entry := Str × Str × PyVal
abbrev Key := Str × Str

/-- first loop of `store_metadata`: `user` entries are never checked; other sections must be in
`CFG_METADATA` and the key must exist (`config_key_exists`; an exception counts as failure) -/
def admissible (t : Tbl) (es : List Entry) : Bool :=
  es.all fun e =>
    decide (e.1 = sUser) ||
      (t.stored.contains e.1 && decide (t.keyExists e.1 e.2.1 = .ok true))

/-- second loop: the entries in order; a converter error aborts, what was written stays -/
def storeAll (t : Tbl) : Attrs → List Entry → Attrs × Out
  | a, [] => (a, .ok)
  | a, (sec, key, v) :: r =>
    match t.storedValue sec key v with
    | .error _ => (a, .err)
    | .ok w => storeAll t (a.put (sec, key) w) r

/-- `store_metadata` without the software-version entry -/
def storeMetadata (t : Tbl) (a : Attrs) (es : List Entry) : Attrs × Out :=
  if admissible t es then storeAll t a es else (a, .err)

/-- what `__exit__` derives from the data: `len` of the alphabetically first object below
`events` (see `objLen`), nothing if the group is empty (`rectify_metadata` is not called) -/
def exitCount (rule : CountRule) (f : File) : Option Nat :=
  (minKey (topKeys f)).map (objLen rule f)

inductive XOp where
  /-- a call modelled in `Model/Writer.lean` -/
  | w (op : Op)
  /-- `store_metadata(meta)`; the entries in the iteration order of the dict -/
  | store (es : List Entry)

structure XSt where
  s : St := {}
  a : Attrs := []

/-- the attributes after a call of `Model/Writer.lean` -/
def attrsAfter (rule : CountRule) (f : File) (a : Attrs) : Op → Attrs
  | .openW m => if m = .reset then [] else a
  | .close =>
    match exitCount rule f with
    | some n => a.put kEventCount (npI n)
    | none => a
  | _ => a

def xstep (cfg : Cfg) (t : Tbl) (x : XSt) : XOp → XSt × Out
  | .w op => ({ s := (step cfg x.s op).1, a := attrsAfter cfg.count x.s.f x.a op }, (step cfg x.s op).2)
  | .store es => ({ x with a := (storeMetadata t x.a es).1 }, (storeMetadata t x.a es).2)

def xrun (cfg : Cfg) (t : Tbl) (x : XSt) : List XOp → XSt
  | [] => x
  | op :: ops => xrun cfg t (xstep cfg t x op).1 ops

/-- the history without its metadata calls -/
def dataOps : List XOp → List Op
  | [] => []
  | .w op :: r => op :: dataOps r
  | .store _ :: r => dataOps r

/-! ### specification: a finite map -/

abbrev MMap := Key → Option PyVal

def MMap.set (m : MMap) (k : Key) (v : PyVal) : MMap := fun x => if k = x then some v else m x

/-- the accepted prefix of the entries of one call, key-wise later over earlier -/
def specStore (t : Tbl) : MMap → List Entry → MMap
  | m, [] => m
  | m, (sec, key, v) :: r =>
    match t.storedValue sec key v with
    | .error _ => m
    | .ok w => specStore t (m.set (sec, key) w) r

/-- `f` = the file *before* the call (only `close` looks at it) -/
def mspecStep (rule : CountRule) (t : Tbl) (f : File) (m : MMap) : XOp → MMap
  | .w (.openW mode) => if mode = .reset then fun _ => none else m
  | .w .close =>
    match exitCount rule f with
    | some n => m.set kEventCount (npI n)
    | none => m
  | .w _ => m
  | .store es => if admissible t es then specStore t m es else m

/-- the specification follows the data model only for the event count at writer exit -/
def mspecRun (cfg : Cfg) (t : Tbl) (s : St) (m : MMap) : List XOp → MMap
  | [] => m
  | op :: ops =>
    mspecRun cfg t (match op with | .w o => (step cfg s o).1 | .store _ => s)
      (mspecStep cfg.count t s.f m op) ops

/-- what the attributes of the file must be after the history `ops` on a fresh file -/
def mspecOf (cfg : Cfg) (t : Tbl) (ops : List XOp) : MMap := mspecRun cfg t {} (fun _ => none) ops

/-- `parse_config` → `Configuration`: the attribute passes the key's converter again -/
def readMeta (t : Tbl) (a : Attrs) (k : Key) : Option (Except Err PyVal) :=
  (a.get? k).map (t.convert k.1 k.2)

/-- the value written last for `K` by one accepted call (`none`: the call does not write `K`) -/
def lastStored (t : Tbl) (es : List Entry) (K : Key) : Option PyVal :=
  match lastWrite es K with
  | some v => (t.storedValue K.1 K.2 v).toOption
  | none => none

/-- every entry converts (no converter raises) -/
def allConvert (t : Tbl) (es : List Entry) : Bool :=
  es.all fun e => (t.storedValue e.1 e.2.1 e.2.2).toOption.isSome

/-- the calls of a history that can change the attribute `K`: metadata calls writing it, writers
opened in reset mode, and — for the event count — writer exits -/
def touches (K : Key) : XOp → Bool
  | .store es => (lastWrite es K).isSome
  | .w (.openW m) => decide (m = .reset)
  | .w .close => decide (K = kEventCount)
  | .w _ => false

end DclabModel.WriterMeta
