/-!
# Model of dclab's memoisation layers (property C17)

* `dclab.cached.Cache`  – global FIFO memo table keyed by an md5 over an encoding of the
  call (`encCall`, mirror of `Cache.__call__`/`_update_hash` after the F18 fix; `encCallOld`
  mirrors the encoding before the fix).  md5 is modelled as injective on the encodings.
* `LazyContourList`     – two bounded deques appended in lock step.
* cached feature arrays – `H5ScalarEvent` / `ChildScalar` hand out the cached array.

Core Lean only.
-/
namespace DclabModel.Cache

/-! ## Call encoding -/

/-- a non-list argument: a numpy array (dtype code, shape, bytes of a contiguous copy) or
anything else (`type(arg).__name__` code and the bytes of `str(arg)`) -/
inductive Leaf where
  | arr (dtype : Nat) (shape : List Nat) (bytes : List Nat)
  | other (ty : Nat) (repr : List Nat)
deriving DecidableEq, Repr

inductive Arg where
  | leaf (l : Leaf)
  | lst (ls : List Leaf)
deriving DecidableEq, Repr

/-- tokens of the framed hash input.  A header token stands for the ASCII frame
`ndarray:<dtype>:<shape>:`, `<typename>:<len>:`, `list:<len>:`, `kwarg:` that the code feeds
to md5 in front of the payload bytes (frames end with ':' and are therefore self-delimiting). -/
inductive Tok where
  | hArr (dtype : Nat) (shape : List Nat) (n : Nat)
  | hOther (ty : Nat) (n : Nat)
  | hList (k : Nat)
  | kw
  | byte (b : Nat)
deriving DecidableEq, Repr

def encLeaf : Leaf → List Tok
  | .arr d s b => .hArr d s b.length :: b.map .byte
  | .other t r => .hOther t r.length :: r.map .byte

def encArg : Arg → List Tok
  | .leaf l => encLeaf l
  | .lst ls => .hList ls.length :: (ls.map encLeaf).flatten

/-- `str` has type code 0 -/
def strLeaf (s : List Nat) : Leaf := .other 0 s

structure Call where
  args   : List Arg
  kwargs : List (List Nat × Arg)      -- already sorted by name (`kwds.sort()`)
  name   : List Nat
  doc    : List Nat
  file   : List Nat
deriving DecidableEq, Repr

def encKw (p : List Nat × Arg) : List Tok := .kw :: (encLeaf (strLeaf p.1) ++ encArg p.2)

def encCall (c : Call) : List Tok :=
  (c.args.map encArg).flatten ++ (c.kwargs.map encKw).flatten ++
    (encLeaf (strLeaf c.name) ++ encLeaf (strLeaf c.doc) ++ encLeaf (strLeaf c.file))

/-- the encoding before the F18 fix: raw bytes of arrays, `str()` of everything else, nothing
in between -/
def encLeafOld : Leaf → List Nat
  | .arr _ _ b => b
  | .other _ r => r

def encArgOld : Arg → List Nat
  | .leaf l => encLeafOld l
  | .lst ls => (ls.map encLeafOld).flatten

def encCallOld (c : Call) : List Nat :=
  (c.args.map encArgOld).flatten ++
    (c.kwargs.map (fun p => p.1 ++ encArgOld p.2)).flatten ++ (c.name ++ c.doc ++ c.file)

/-! ## The memo table (`Cache._cache`, `Cache._keys`) -/

structure Cfg (A K V : Type) where
  f   : A → V          -- the undecorated function
  enc : A → K          -- key of a call
  cap : Nat            -- `MAX_SIZE`

structure St (K V : Type) where
  store : List (K × V)   -- dict
  keys  : List K         -- FIFO list

def lookup [DecidableEq K] (k : K) : List (K × V) → Option V
  | [] => none
  | (k', v) :: r => if k' = k then some v else lookup k r

def erase [DecidableEq K] (k : K) : List (K × V) → List (K × V)
  | [] => []
  | (k', v) :: r => if k' = k then erase k r else (k', v) :: erase k r

/-- mirror of `Cache.__call__` -/
def call [DecidableEq K] (c : Cfg A K V) (s : St K V) (a : A) : St K V × V :=
  let k := c.enc a
  match lookup k s.store with
  | some v => (s, v)
  | none =>
    let v := c.f a
    let store := (k, v) :: s.store
    let keys := s.keys ++ [k]
    if keys.length > c.cap then
      match keys with
      | [] => ({ store := store, keys := keys }, v)
      | d :: rest => ({ store := erase d store, keys := rest }, v)
    else ({ store := store, keys := keys }, v)

def runCalls [DecidableEq K] (c : Cfg A K V) : St K V → List A → St K V × List V
  | s, [] => (s, [])
  | s, a :: as =>
    let (s1, v) := call c s a
    let (s2, vs) := runCalls c s1 as
    (s2, v :: vs)

/-! ## `LazyContourList` -/

structure Deques (C : Type) where
  indices  : List Nat
  contours : List C

def findIdx? (i : Nat) : List Nat → Option Nat
  | [] => none
  | j :: r => if j = i then some 0 else (findIdx? i r).map (· + 1)

/-- append with `deque(maxlen=m)` semantics (`m = 0` ⇒ unbounded) -/
def pushBounded (m : Nat) (l : List α) (x : α) : List α :=
  let l' := l ++ [x]
  if m ≠ 0 ∧ l'.length > m then l'.drop (l'.length - m) else l'

/-- `try: idx_q = self.indices.index(idx) … else: cont = self.contours[idx_q]` -/
def contourLookup (f : Nat → C) (d : Deques C) (i : Nat) : Option C :=
  match findIdx? i d.indices with
  | some q => d.contours[q]?
  | none => some (f i)

/-- `LazyContourList.__getitem__(idx)` for an integer index; `f` = `get_contour(masks[idx])` -/
def contourGet (f : Nat → C) (m : Nat) (d : Deques C) (i : Nat) : Deques C × Option C :=
  match contourLookup f d i with
  | none => (d, none)            -- IndexError (unreachable when the deques are in lock step)
  | some c => ({ indices := pushBounded m d.indices i, contours := pushBounded m d.contours c },
               some c)

/-! ## Cached feature arrays handed out to the user -/

inductive Policy where
  | alias      -- the cached array itself, writable (before the F24 fix)
  | readOnly   -- the cached array, flagged read-only (after the fix)
  | copy       -- a fresh copy on every access
deriving DecidableEq, Repr

inductive AOp where
  | read
  | poke (i : Nat) (v : Nat)     -- `a = ds[feat][:]; a[i] = v` on the most recently returned array
deriving DecidableEq, Repr

inductive AOut where
  | arr (xs : List Nat)
  | ok
  | readOnlyError
deriving DecidableEq, Repr

/-- state = the cache cell (`_array`) -/
def astep (p : Policy) (cache : List Nat) : AOp → List Nat × AOut
  | .read => (cache, .arr cache)
  | .poke i v =>
    match p with
    | .alias => (cache.set i v, .ok)
    | .readOnly => (cache, .readOnlyError)
    | .copy => (cache, .ok)

def arun (p : Policy) : List Nat → List AOp → List AOut
  | _, [] => []
  | c, op :: ops => let (c', o) := astep p c op; o :: arun p c' ops

end DclabModel.Cache
