/-!
# Model of dclab's memoisation layers (property C17)

* `dclab.cached.Cache`  – global FIFO memo table keyed by an md5 over an encoding of the
  call (`encCall`, mirror of `Cache.__call__`/`_update_hash` after the F18 fix; `encCallOld`
  mirrors the encoding before the fix).  md5 is modelled as injective on the encodings.
* `LazyContourList`     – two bounded deques appended in lock step.
* cached feature arrays – `H5ScalarEvent` / `ChildScalar` hand out the cached array.

Core Lean only.
-/
namespace DclabModel.Cache

/-! ## Call encoding -/

/-- a non-list argument: a numpy array (dtype code, shape, bytes of a contiguous copy) or
anything else (`type(arg).__name__` code and the bytes of `str(arg)`) -/
inductive Leaf where
  | arr (dtype : Nat) (shape : List Nat) (bytes : List Nat)
  | other (ty : Nat) (repr : List Nat)
deriving DecidableEq, Repr

inductive Arg where
  | leaf (l : Leaf)
  | lst (ls : List Leaf)
deriving DecidableEq, Repr

/-- tokens of the framed hash input.  A header token stands for the ASCII frame
`ndarray:<dtype>:<shape>:`, `<typename>:<len>:`, `list:<len>:`, `kwarg:` that the code feeds
to md5 in front of the payload bytes (frames end with ':' and are therefore self-delimiting). -/
inductive Tok where
  | hArr (dtype : Nat) (shape : List Nat) (n : Nat)
  | hOther (ty : Nat) (n : Nat)
  | hList (k : Nat)
  | kw
  | byte (b : Nat)
deriving DecidableEq, Repr

def encLeaf : Leaf → List Tok
  | .arr d s b => .hArr d s b.length :: b.map .byte
  | .other t r => .hOther t r.length :: r.map .byte

def encArg : Arg → List Tok
  | .leaf l => encLeaf l
  | .lst ls => .hList ls.length :: (ls.map encLeaf).flatten

/-- `str` has type code 0 -/
def strLeaf (s : List Nat) : Leaf := .other 0 s

structure Call where
  args   : List Arg
  kwargs : List (List Nat × Arg)      -- already sorted by name (`kwds.sort()`)
  name   : List Nat
  doc    : List Nat
  file   : List Nat
deriving DecidableEq, Repr

def encKw (p : List Nat × Arg) : List Tok := .kw :: (encLeaf (strLeaf p.1) ++ encArg p.2)

def encCall (c : Call) : List Tok :=
  (c.args.map encArg).flatten ++ (c.kwargs.map encKw).flatten ++
    (encLeaf (strLeaf c.name) ++ encLeaf (strLeaf c.doc) ++ encLeaf (strLeaf c.file))

/-- the encoding before the F18 fix: raw bytes of arrays, `str()` of everything else, nothing
in between -/
def encLeafOld : Leaf → List Nat
  | .arr _ _ b => b
  | .other _ r => r

def encArgOld : Arg → List Nat
  | .leaf l => encLeafOld l
  | .lst ls => (ls.map encLeafOld).flatten

def encCallOld (c : Call) : List Nat :=
  (c.args.map encArgOld).flatten ++
    (c.kwargs.map (fun p => p.1 ++ encArgOld p.2)).flatten ++ (c.name ++ c.doc ++ c.file)

/-! ## The memo table (`Cache._cache`, `Cache._keys`) -/

structure Cfg (A K V : Type) where
  f   : A → V          -- the undecorated function
  enc : A → K          -- key of a call
  cap : Nat            -- `MAX_SIZE`

structure St (K V : Type) where
  store : List (K × V)   -- dict
  keys  : List K         -- FIFO list

def lookup [DecidableEq K] (k : K) : List (K × V) → Option V
  | [] => none
  | (k', v) :: r => if k' = k then some v else lookup k r

def erase [DecidableEq K] (k : K) : List (K × V) → List (K × V)
  | [] => []
  | (k', v) :: r => if k' = k then erase k r else (k', v) :: erase k r

/-- mirror of `Cache.__call__` -/
def call [DecidableEq K] (c : Cfg A K V) (s : St K V) (a : A) : St K V × V :=
  let k := c.enc a
  match lookup k s.store with
  | some v => (s, v)
  | none =>
    let v := c.f a
    let store := (k, v) :: s.store
    let keys := s.keys ++ [k]
    if keys.length > c.cap then
      match keys with
      | [] => ({ store := store, keys := keys }, v)
      | d :: rest => ({ store := erase d store, keys := rest }, v)
    else ({ store := store, keys := keys }, v)

def runCalls [DecidableEq K] (c : Cfg A K V) : St K V → List A → St K V × List V
  | s, [] => (s, [])
  | s, a :: as =>
    let (s1, v) := call c s a
    let (s2, vs) := runCalls c s1 as
    (s2, v :: vs)

/-! ## Memo tables with an arbitrary eviction policy; `functools.lru_cache`

`util.file_monitoring_lru_cache` (hence `util.hashfile`), `features.emodulus.load`,
`isoelastics`, `http_utils`, `fmt_s3` keep their results in a `functools.lru_cache`.  A table is
a list of entries ordered from the next victim to the most recently inserted / used one; an
eviction policy says what happens to it on a hit and on a miss. -/

structure Evict (K V : Type) where
  onHit  : K → V → List (K × V) → List (K × V)
  onMiss : Nat → K → V → List (K × V) → List (K × V)

/-- append, then drop from the victim end whatever exceeds the capacity -/
def pushCap (cap : Nat) (s : List (K × V)) (k : K) (v : V) : List (K × V) :=
  (s ++ [(k, v)]).drop ((s ++ [(k, v)]).length - cap)

/-- `functools.lru_cache(maxsize=cap)`: a hit moves the entry to the most-recent end, a miss
appends and evicts the least recently used entry (`maxsize=0`: nothing is stored) -/
def lru [DecidableEq K] : Evict K V where
  onHit k v s := erase k s ++ [(k, v)]
  onMiss cap k v s := pushCap cap s k v

/-- first-in-first-out (the policy of `dclab.cached.Cache`): hits do not reorder -/
def fifo : Evict K V where
  onHit _ _ s := s
  onMiss cap k v s := pushCap cap s k v

def tcall [DecidableEq K] (e : Evict K V) (c : Cfg A K V) (s : List (K × V)) (a : A) :
    List (K × V) × V :=
  match lookup (c.enc a) s with
  | some v => (e.onHit (c.enc a) v s, v)
  | none => (e.onMiss c.cap (c.enc a) (c.f a) s, c.f a)

def trun [DecidableEq K] (e : Evict K V) (c : Cfg A K V) : List (K × V) → List A → List (K × V) × List V
  | s, [] => (s, [])
  | s, a :: as =>
    let r := tcall e c s a
    let rs := trun e c r.1 as
    (rs.1, r.2 :: rs.2)

/-- hit (true) / miss (false) pattern of a history -/
def thits [DecidableEq K] (e : Evict K V) (c : Cfg A K V) : List (K × V) → List A → List Bool
  | _, [] => []
  | s, a :: as => (lookup (c.enc a) s).isSome :: thits e c (tcall e c s a).1 as

/-! ### state machines and refinement -/

structure Machine (S A V : Type) where
  init : S
  step : S → A → S × V

def Machine.run (m : Machine S A V) : S → List A → List V
  | _, [] => []
  | s, a :: as => (m.step s a).2 :: m.run (m.step s a).1 as

/-- the specification: no cache at all -/
def noCache (f : A → V) : Machine Unit A V := { init := (), step := fun _ a => ((), f a) }

def fifoM [DecidableEq K] (c : Cfg A K V) : Machine (St K V) A V :=
  { init := { store := [], keys := [] }, step := call c }

def tableM [DecidableEq K] (e : Evict K V) (c : Cfg A K V) : Machine (List (K × V)) A V :=
  { init := [], step := tcall e c }

/-! ## The file system seen by `file_monitoring_lru_cache`

A file is its bytes and its modification time; its size is the length of the bytes.  Path
spellings (relative paths, links, `..`) resolve to files through `res`, which `chdir` and
re-targeted links change (`rebind`). -/

structure FileSt where
  bytes : List Nat
  mtime : Nat
deriving DecidableEq, Repr

def stampOf (f : FileSt) : Nat × Nat := (f.mtime, f.bytes.length)

structure FsSt (P Sp : Type) where
  files : P → Option FileSt
  res   : Sp → P

inductive FsOp (P Sp Ar : Type) where
  | write (p : P) (bytes : List Nat) (mtime : Nat)   -- any rewrite (also `os.utime`)
  | remove (p : P)
  | rebind (sp : Sp) (p : P)                          -- chdir / link re-targeted
  | hash (sp : Sp) (ar : Ar)                          -- the memoised call

/-- the call as the lru table sees it: resolved path, the file as it is now, other arguments -/
abbrev FCall (P Ar : Type) := P × FileSt × Ar

/-- key = (resolved path, (mtime_ns, size), arguments); value = `h bytes args` -/
def fileCfg (h : List Nat → Ar → V) (cap : Nat) : Cfg (FCall P Ar) (P × (Nat × Nat) × Ar) V :=
  { f := fun a => h a.2.1.bytes a.2.2, enc := fun a => (a.1, stampOf a.2.1, a.2.2), cap := cap }

def fsApply [DecidableEq P] [DecidableEq Sp] (st : FsSt P Sp) : FsOp P Sp Ar → FsSt P Sp
  | .write p b m => { st with files := fun q => if q = p then some ⟨b, m⟩ else st.files q }
  | .remove p => { st with files := fun q => if q = p then none else st.files q }
  | .rebind sp p => { st with res := fun x => if x = sp then p else st.res x }
  | .hash _ _ => st

/-- mirror of `file_monitoring_lru_cache.__call__.wrapper` over a history; one output per `hash`:
`none` = the path does not exist (the function is called directly and raises, nothing cached) -/
def fsRun [DecidableEq P] [DecidableEq Sp] [DecidableEq Ar] (e : Evict (P × (Nat × Nat) × Ar) V)
    (h : List Nat → Ar → V) (cap : Nat) :
    FsSt P Sp → List ((P × (Nat × Nat) × Ar) × V) → List (FsOp P Sp Ar) → List (Option V)
  | _, _, [] => []
  | st, t, .hash sp ar :: ops =>
    match st.files (st.res sp) with
    | none => none :: fsRun e h cap st t ops
    | some f =>
      let r := tcall e (fileCfg h cap) t (st.res sp, f, ar)
      some r.2 :: fsRun e h cap st r.1 ops
  | st, t, op :: ops => fsRun e h cap (fsApply st op) t ops

/-- the same history without a cache -/
def fsSpec [DecidableEq P] [DecidableEq Sp] (h : List Nat → Ar → V) :
    FsSt P Sp → List (FsOp P Sp Ar) → List (Option V)
  | _, [] => []
  | st, .hash sp ar :: ops => (st.files (st.res sp)).map (fun f => h f.bytes ar) :: fsSpec h st ops
  | st, op :: ops => fsSpec h (fsApply st op) ops

/-- the memoised calls a history makes -/
def fsCalls [DecidableEq P] [DecidableEq Sp] :
    FsSt P Sp → List (FsOp P Sp Ar) → List (FCall P Ar)
  | _, [] => []
  | st, .hash sp ar :: ops =>
    match st.files (st.res sp) with
    | none => fsCalls st ops
    | some f => (st.res sp, f, ar) :: fsCalls st ops
  | st, op :: ops => fsCalls (fsApply st op) ops

/-- **the assumption** of the file cache: whenever the same file is hashed twice with the same
(mtime, size) stamp, its bytes are the same -/
def StampOK (calls : List (FCall P Ar)) : Prop :=
  ∀ a ∈ calls, ∀ b ∈ calls, a.1 = b.1 → stampOf a.2.1 = stampOf b.2.1 → a.2.1.bytes = b.2.1.bytes

/-- what `hashfile(path[, blocksize, count])` feeds to md5: everything for `count = 0` (the
default), else the first `count` blocks.  `none` = called without the keyword arguments — for
`functools.lru_cache` that is another key than the same values passed explicitly. -/
def hashedBytes (b : List Nat) : Option (Nat × Nat) → List Nat
  | none => b
  | some ar => if ar.2 = 0 then b else b.take (ar.1 * ar.2)

/-! ## `LazyContourList` -/

structure Deques (C : Type) where
  indices  : List Nat
  contours : List C

def findIdx? (i : Nat) : List Nat → Option Nat
  | [] => none
  | j :: r => if j = i then some 0 else (findIdx? i r).map (· + 1)

/-- append with `deque(maxlen=m)` semantics (`m = 0` ⇒ unbounded) -/
def pushBounded (m : Nat) (l : List α) (x : α) : List α :=
  let l' := l ++ [x]
  if m ≠ 0 ∧ l'.length > m then l'.drop (l'.length - m) else l'

/-- `try: idx_q = self.indices.index(idx) … else: cont = self.contours[idx_q]` -/
def contourLookup (f : Nat → C) (d : Deques C) (i : Nat) : Option C :=
  match findIdx? i d.indices with
  | some q => d.contours[q]?
  | none => some (f i)

/-- `LazyContourList.__getitem__(idx)` for an integer index; `f` = `get_contour(masks[idx])` -/
def contourGet (f : Nat → C) (m : Nat) (d : Deques C) (i : Nat) : Deques C × Option C :=
  match contourLookup f d i with
  | none => (d, none)            -- IndexError (unreachable when the deques are in lock step)
  | some c => ({ indices := pushBounded m d.indices i, contours := pushBounded m d.contours c },
               some c)

/-! ## Cached feature arrays handed out to the user -/

inductive Policy where
  | alias      -- the cached array itself, writable (before the F24 fix)
  | readOnly   -- the cached array, flagged read-only (after the fix)
  | copy       -- a fresh copy on every access
deriving DecidableEq, Repr

inductive AOp where
  | read
  | poke (i : Nat) (v : Nat)     -- `a = ds[feat][:]; a[i] = v` on the most recently returned array
deriving DecidableEq, Repr

inductive AOut where
  | arr (xs : List Nat)
  | ok
  | readOnlyError
deriving DecidableEq, Repr

/-- state = the cache cell (`_array`) -/
def astep (p : Policy) (cache : List Nat) : AOp → List Nat × AOut
  | .read => (cache, .arr cache)
  | .poke i v =>
    match p with
    | .alias => (cache.set i v, .ok)
    | .readOnly => (cache, .readOnlyError)
    | .copy => (cache, .ok)

def arun (p : Policy) : List Nat → List AOp → List AOut
  | _, [] => []
  | c, op :: ops => let (c', o) := astep p c op; o :: arun p c' ops

/-! ## Ownership of memoised results

The memo table stores *objects* (arrays); what the wrapper hands out is an object id.  `alias`:
the stored object itself, writable (`dclab.cached.Cache` when called directly); `readOnly`: the
stored object, write-protected; `copy`: a fresh object with the same content (what
`kde_methods.ignore_nan_inf` and `get_downsampled_scatter` do with the stored result). -/

structure Obj where
  data : List Nat
  writeable : Bool
deriving DecidableEq, Repr

def upd (h : Nat → Obj) (i : Nat) (o : Obj) : Nat → Obj := fun j => if j = i then o else h j

structure OSt (K : Type) where
  heap  : Nat → Obj          -- object store
  next  : Nat                -- next fresh object id
  table : List (K × Nat)     -- key ↦ id of the stored result (FIFO, as `Cache`)
  out   : List Nat           -- ids handed out to the caller, oldest first

inductive OOp (A : Type) where
  | call (a : A)
  | poke (r i v : Nat)       -- `res[i] = v` on the r-th object the caller received
deriving Repr

inductive OOut where
  | val (id : Nat) (xs : List Nat)
  | ok
  | readOnlyError
  | noResult
deriving DecidableEq, Repr

/-- look the call up; on a miss compute, store a new object and evict (FIFO) -/
def ostore [DecidableEq K] (p : Policy) (c : Cfg A K (List Nat)) (s : OSt K) (a : A) : OSt K × Nat :=
  match lookup (c.enc a) s.table with
  | some id => (s, id)
  | none => ({ s with heap := upd s.heap s.next ⟨c.f a, p != .readOnly⟩, next := s.next + 1,
                      table := pushCap c.cap s.table (c.enc a) s.next }, s.next)

/-- hand the stored object `sid` out according to the policy -/
def handOut (p : Policy) (s : OSt K) (sid : Nat) : OSt K × OOut :=
  match p with
  | .copy => ({ s with heap := upd s.heap s.next ⟨(s.heap sid).data, true⟩, next := s.next + 1,
                       out := s.out ++ [s.next] }, .val s.next (s.heap sid).data)
  | _ => ({ s with out := s.out ++ [sid] }, .val sid (s.heap sid).data)

def ostep [DecidableEq K] (p : Policy) (c : Cfg A K (List Nat)) (s : OSt K) : OOp A → OSt K × OOut
  | .call a => handOut p (ostore p c s a).1 (ostore p c s a).2
  | .poke r i v =>
    match s.out[r]? with
    | none => (s, .noResult)
    | some id =>
      if (s.heap id).writeable then
        ({ s with heap := upd s.heap id ⟨(s.heap id).data.set i v, true⟩ }, .ok)
      else (s, .readOnlyError)

def orun [DecidableEq K] (p : Policy) (c : Cfg A K (List Nat)) : OSt K → List (OOp A) → List OOut
  | _, [] => []
  | s, op :: ops => (ostep p c s op).2 :: orun p c (ostep p c s op).1 ops

def oinit : OSt K := { heap := fun _ => ⟨[], true⟩, next := 0, table := [], out := [] }

/-- what a caller who never mutates anything would get: one value per call -/
def ospec (f : A → List Nat) : List (OOp A) → List (Option (List Nat))
  | [] => []
  | .call a :: ops => some (f a) :: ospec f ops
  | .poke _ _ _ :: ops => none :: ospec f ops

def ovals : List OOut → List (Option (List Nat))
  | [] => []
  | .val _ xs :: os => some xs :: ovals os
  | _ :: os => none :: ovals os

end DclabModel.Cache
