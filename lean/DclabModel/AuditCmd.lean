import Lean
/-!
`#audit_ns Foo.Bar` prints one line per *theorem* declared in namespace `Foo.Bar`
(any depth below it):  `AUDIT <name> : <axiom>,<axiom>,…`.
The check script compares the axiom lists with the allow-list
{propext, Classical.choice, Quot.sound}; `sorryAx` or anything else fails the audit.
-/
open Lean Elab Command

elab "#audit_ns " ns:ident : command => do
  let env ← getEnv
  let nsName := ns.getId
  let names : Array Name := env.constants.fold (init := #[]) fun acc n ci =>
    if nsName.isPrefixOf n && !n.isInternal then
      match ci with
      | .thmInfo _ => acc.push n
      | _ => acc
    else acc
  let sorted := names.qsort (fun a b => a.toString < b.toString)
  for n in sorted do
    let axs ← liftCoreM <| collectAxioms n
    let axs := axs.qsort (fun a b => a.toString < b.toString)
    logInfo m!"AUDIT {n} : {", ".intercalate (axs.toList.map toString)}"
