import DclabModel.Model.Export
/-!
Helper lemmas for C02 (core Lean only).
-/
namespace DclabModel.Export

variable {α : Type}

/-! ## `sel` and `indices` -/

@[simp] theorem sel_nil_left (xs : List α) : sel [] xs = [] := by
  cases xs <;> rfl

@[simp] theorem sel_nil_right (m : List Bool) : sel m ([] : List α) = [] := by
  cases m <;> rfl

@[simp] theorem sel_cons (b : Bool) (m : List Bool) (x : α) (xs : List α) :
    sel (b :: m) (x :: xs) = if b then x :: sel m xs else sel m xs := rfl

theorem indicesFrom_ge (m : List Bool) : ∀ k, ∀ i ∈ indicesFrom k m, k ≤ i := by
  induction m with
  | nil => intro k i h; cases h
  | cons b m ih =>
    intro k i h
    simp only [indicesFrom] at h
    split at h
    · rcases List.mem_cons.mp h with h | h
      · omega
      · have := ih _ _ h; omega
    · have := ih _ _ h; omega

theorem indicesFrom_length (m : List Bool) : ∀ k, (indicesFrom k m).length = countTrue m := by
  induction m with
  | nil => intro k; rfl
  | cons b m ih =>
    intro k
    cases b <;> simp [indicesFrom, countTrue, ih] <;> exact ih _

theorem indices_length (m : List Bool) : (indices m).length = countTrue m :=
  indicesFrom_length m 0

/-- gathering the rows at `np.where(mask)[0]` is boolean-mask indexing -/
theorem gather_aux (f : Nat → α) (d : α) : ∀ (m : List Bool) (xs : List α) (k : Nat),
    (∀ i ∈ indicesFrom k m, i < k + xs.length) → (∀ j, j < xs.length → f (k + j) = xs.getD j d) →
    (indicesFrom k m).map f = sel m xs := by
  intro m
  induction m with
  | nil => intro xs k _ _; simp [indicesFrom]
  | cons b m ih =>
    intro xs k hr hf
    cases xs with
    | nil =>
      have hempty : indicesFrom k (b :: m) = [] := by
        cases hi : indicesFrom k (b :: m) with
        | nil => rfl
        | cons i t =>
          have h1 := hr i (by rw [hi]; exact List.mem_cons_self)
          have h2 := indicesFrom_ge (b :: m) k i (by rw [hi]; exact List.mem_cons_self)
          simp at h1; omega
      rw [hempty]; simp
    | cons x xs =>
      have hx : f k = x := by
        have := hf 0 (by simp)
        simpa using this
      have hrec : (indicesFrom (k + 1) m).map f = sel m xs := by
        apply ih xs (k + 1)
        · intro i hi
          have : i ∈ indicesFrom k (b :: m) := by
            simp only [indicesFrom]; split
            · exact List.mem_cons_of_mem _ hi
            · exact hi
          have := hr i this
          simp at this; omega
        · intro j hj
          have := hf (j + 1) (by simp; omega)
          simp only [List.getD_cons_succ] at this
          rw [← this]; congr 1; omega
      cases b
      · simp [indicesFrom, hrec]
      · simp [indicesFrom, hrec, hx]

theorem gather_eq_sel (d : α) (m : List Bool) (xs : List α)
    (hr : ∀ i ∈ indices m, i < xs.length) :
    (indices m).map (fun i => xs.getD i d) = sel m xs := by
  apply gather_aux (fun i => xs.getD i d) d m xs 0
  · intro i hi; have := hr i hi; omega
  · intro j _; simp

theorem sel_length (m : List Bool) (xs : List α) (hr : ∀ i ∈ indices m, i < xs.length) :
    (sel m xs).length = countTrue m := by
  cases xs with
  | nil =>
    have : indices m = [] := by
      cases hi : indices m with
      | nil => rfl
      | cons i t => have := hr i (by rw [hi]; exact List.mem_cons_self); simp at this
    rw [← indices_length, this]; simp
  | cons x xs =>
    rw [← gather_eq_sel x m (x :: xs) hr, List.length_map, indices_length]

theorem sel_replicate_false (k : Nat) : ∀ (xs : List α), sel (List.replicate k false) xs = [] := by
  induction k with
  | zero => intro xs; simp
  | succ k ih =>
    intro xs
    cases xs with
    | nil => simp
    | cons x xs => simp [List.replicate_succ, ih]

theorem sel_append_false (k : Nat) : ∀ (m : List Bool) (xs : List α),
    sel (m ++ List.replicate k false) xs = sel m xs := by
  intro m
  induction m with
  | nil => intro xs; simp [sel_replicate_false]
  | cons b m ih =>
    intro xs
    cases xs with
    | nil => simp
    | cons x xs => simp [ih]

theorem indicesFrom_replicate_false (n : Nat) : ∀ k, indicesFrom k (List.replicate n false) = [] := by
  induction n with
  | zero => intro k; rfl
  | succ n ih => intro k; simp [List.replicate_succ, indicesFrom, ih]

theorem indicesFrom_append_false (n : Nat) : ∀ (m : List Bool) (k : Nat),
    indicesFrom k (m ++ List.replicate n false) = indicesFrom k m := by
  intro m
  induction m with
  | nil => intro k; simp [indicesFrom_replicate_false, indicesFrom]
  | cons b m ih => intro k; simp [indicesFrom, ih]

/-- the truncated selection only selects events below `l` -/
theorem indices_truncate_lt (l : Nat) (m : List Bool) : ∀ i ∈ indices (truncate l m), i < l := by
  intro i hi
  unfold indices truncate at hi
  rw [indicesFrom_append_false] at hi
  have key : ∀ (m : List Bool) (k : Nat), ∀ i ∈ indicesFrom k m, i < k + m.length := by
    intro m
    induction m with
    | nil => intro k i h; cases h
    | cons b m ih =>
      intro k i h
      simp only [indicesFrom] at h
      split at h
      · rcases List.mem_cons.mp h with h | h
        · simp; omega
        · have := ih _ _ h; simp; omega
      · have := ih _ _ h; simp; omega
  have := key _ 0 i hi
  simp at this; omega

/-- `sel` with the truncated mask is `sel` on the common prefix -/
theorem sel_truncate (l : Nat) (m : List Bool) (xs : List α) :
    sel (truncate l m) xs = sel (m.take l) xs := by
  unfold truncate; exact sel_append_false _ _ _

theorem sel_allTrue (m : List Bool) (hall : m.all id = true) : ∀ (xs : List α),
    xs.length ≤ m.length → sel m xs = xs := by
  induction m with
  | nil => intro xs h; cases xs <;> simp at h ⊢
  | cons b m ih =>
    intro xs h
    simp only [List.all_cons, id, Bool.and_eq_true] at hall
    cases xs with
    | nil => simp
    | cons x xs =>
      simp only [List.length_cons] at h
      simp [hall.1, ih hall.2 xs (by omega)]

/-- excluded events never matter: masks agree ⇒ selections agree -/
theorem sel_congr : ∀ (m : List Bool) (xs ys : List α), xs.length = ys.length →
    (∀ i (h1 : i < xs.length) (h2 : i < ys.length), m.getD i false = true → xs[i] = ys[i]) →
    sel m xs = sel m ys := by
  intro m
  induction m with
  | nil => intro xs ys _ _; simp
  | cons b m ih =>
    intro xs ys hl h
    cases xs with
    | nil => cases ys with
      | nil => rfl
      | cons y ys => simp at hl
    | cons x xs =>
      cases ys with
      | nil => simp at hl
      | cons y ys =>
        have hrec : sel m xs = sel m ys := by
          apply ih xs ys (by simpa using hl)
          intro i h1 h2 hm
          have := h (i + 1) (by simp; omega) (by simp; omega) (by simpa using hm)
          simpa using this
        cases b
        · simp [hrec]
        · have := h 0 (by simp) (by simp) (by simp)
          simp at this
          simp [hrec, this]

/-! ## stack generators -/

theorem fast_full_flatten (cs : Nat) (idx : List Nat) (get : Nat → α) : ∀ n,
    ((List.range n).map fun kk => ((idx.take (cs * (kk + 1))).drop (cs * kk)).map get).flatten
      = (idx.take (cs * n)).map get := by
  intro n
  induction n with
  | zero => simp
  | succ n ih =>
    rw [List.range_succ, List.map_append, List.flatten_append, ih]
    simp only [List.map_cons, List.map_nil, List.flatten_cons, List.flatten_nil, List.append_nil]
    rw [← List.map_append]
    congr 1
    have h1 : idx.take (cs * n) = (idx.take (cs * (n + 1))).take (cs * n) := by
      rw [List.take_take]; congr 1
      have : cs * n ≤ cs * (n + 1) := Nat.mul_le_mul_left _ (by omega)
      omega
    rw [h1, List.take_append_drop]

theorem consumeEager_flatten (cs : Nat) (hcs : 0 < cs) (get : Nat → α) :
    ∀ (idx : List Nat) (buf : List α) (jj : Nat), buf.length = cs → jj < cs →
      (consumeEager buf (slowTrace cs get idx jj)).flatten = buf.take jj ++ idx.map get := by
  intro idx
  induction idx with
  | nil =>
    intro buf jj _ _
    by_cases h : jj = 0
    · simp [slowTrace, h, consumeEager]
    · simp [slowTrace, h, consumeEager, view]
  | cons ii rest ih =>
    intro buf jj hlen hjj
    have hset : buf.set jj (get ii) = buf.take jj ++ get ii :: buf.drop (jj + 1) := by
      rw [List.set_eq_take_append_cons_drop]; simp [hlen, hjj]
    simp only [slowTrace, consumeEager]
    by_cases hfull : (jj + 1) % cs = 0
    · -- the buffer is full: it is yielded as a whole and filling restarts at 0
      have hlast : jj + 1 = cs := by
        by_cases hlt : jj + 1 < cs
        · rw [Nat.mod_eq_of_lt hlt] at hfull; omega
        · omega
      simp only [hfull, if_true, consumeEager, view, List.flatten_cons]
      rw [ih (buf.set jj (get ii)) 0 (by simp [hlen]) hcs]
      have hdrop : buf.drop (jj + 1) = [] := List.drop_eq_nil_of_le (by omega)
      rw [hset, hdrop]
      simp
    · have hlt : jj + 1 < cs := by
        by_cases hlt : jj + 1 < cs
        · exact hlt
        · have : jj + 1 = cs := by omega
          rw [this, Nat.mod_self] at hfull; exact absurd rfl hfull
      simp only [hfull, if_false]
      rw [ih (buf.set jj (get ii)) (jj + 1) (by simp [hlen]) hlt, hset]
      have : (buf.take jj ++ get ii :: buf.drop (jj + 1)).take (jj + 1) = buf.take jj ++ [get ii] := by
        have hl : (buf.take jj).length = jj := by simp; omega
        rw [List.take_append, hl]
        simp [List.take_take]
      rw [this]; simp

/-! ## the chunked write loop -/

theorem assign_at_end (p q vals : List α) (_h : vals.length ≤ q.length) :
    assign (p ++ q) p.length vals = p ++ vals ++ q.drop vals.length := by
  unfold assign
  simp [List.drop_append]

theorem slice_length (data : List α) (a c : Nat) (h : a + c ≤ data.length) :
    ((data.take (a + c)).drop a).length = c := by
  simp; omega

theorem take_add_slice (data : List α) (a c : Nat) :
    data.take a ++ (data.take (a + c)).drop a = data.take (a + c) := by
  have h1 : data.take a = (data.take (a + c)).take a := by
    rw [List.take_take]; congr 1; omega
  rw [h1, List.take_append_drop]

theorem writeFull_inv [Inhabited α] (cs : Nat) (dset data : List α) : ∀ k, k * cs ≤ data.length →
    writeFull cs dset.length data k (dset ++ List.replicate data.length default)
      = dset ++ data.take (k * cs) ++ List.replicate (data.length - k * cs) default := by
  intro k
  induction k with
  | zero => intro _; simp [writeFull]
  | succ k ih =>
    intro hk
    have hk' : k * cs + cs ≤ data.length := by rw [Nat.succ_mul] at hk; exact hk
    simp only [writeFull]
    rw [ih (by omega)]
    have hsl := slice_length data (k * cs) cs hk'
    have hp : dset.length + k * cs = (dset ++ data.take (k * cs)).length := by
      simp; omega
    rw [hp, assign_at_end _ _ _ (by simp [hsl]; omega), hsl]
    rw [List.append_assoc dset, take_add_slice]
    simp only [List.drop_replicate]
    congr 2
    · rw [Nat.succ_mul]
    · rw [Nat.succ_mul]; omega

theorem writeNd_append [Inhabited α] (cs : Nat) (_hcs : 0 < cs) (dset data : List α)
    (hne : data ≠ []) : writeNd cs dset data = some (dset ++ data) := by
  unfold writeNd
  have hemp : data.isEmpty = false := by cases data <;> simp_all
  simp only [hemp, Bool.false_eq_true, if_false]
  have hdiv : data.length / cs * cs ≤ data.length := Nat.div_mul_le_self _ _
  have hsplit : data.length / cs * cs + data.length % cs = data.length := by
    rw [Nat.mul_comm]; exact Nat.div_add_mod _ _
  rw [writeFull_inv cs dset data _ hdiv]
  congr 1
  by_cases hrem : data.length % cs = 0
  · simp only [hrem, ne_eq, not_true_eq_false, if_false]
    have : data.length / cs * cs = data.length := by omega
    rw [this]; simp
  · simp only [ne_eq, hrem, not_false_eq_true, if_true]
    have hsl := slice_length data (data.length / cs * cs) (data.length % cs) (by omega)
    have hp : dset.length + data.length / cs * cs
        = (dset ++ data.take (data.length / cs * cs)).length := by simp; omega
    rw [hp, assign_at_end _ _ _ (by simp [hsl]; omega), hsl, List.append_assoc dset,
      take_add_slice, hsplit]
    simp
    omega

/-! ## events table -/

theorem readEv_setEv (ev : Events α) (f g : String) (v : List α) :
    readEv (setEv ev f v) g = if g = f then v else readEv ev g := by
  induction ev with
  | nil =>
    simp only [setEv, readEv]
    by_cases h : f = g
    · simp [h]
    · have : ¬ g = f := fun e => h e.symm
      simp [h, this]
  | cons p t ih =>
    obtain ⟨k, w⟩ := p
    simp only [setEv]
    by_cases hk : k = f
    · subst hk
      by_cases hg : k = g
      · simp [readEv, hg]
      · have : ¬ g = k := fun e => hg e.symm
        simp [readEv, hg, this]
    · simp only [hk, if_false, readEv]
      by_cases hg : k = g
      · have : ¬ g = f := by rw [← hg]; exact hk
        simp [hg, this]
      · simp [hg, ih]

theorem mem_setEv (ev : Events α) (f : String) (v : List α) (p : String × List α)
    (h : p ∈ setEv ev f v) : p = (f, v) ∨ p ∈ ev := by
  induction ev with
  | nil => simp [setEv] at h; exact Or.inl h
  | cons q t ih =>
    obtain ⟨k, w⟩ := q
    simp only [setEv] at h
    by_cases hk : k = f
    · simp only [hk, if_true] at h
      rcases List.mem_cons.mp h with h | h
      · exact Or.inl h
      · exact Or.inr (List.mem_cons_of_mem _ h)
    · simp only [hk, if_false] at h
      rcases List.mem_cons.mp h with h | h
      · exact Or.inr (by rw [h]; exact List.mem_cons_self)
      · rcases ih h with h | h
        · exact Or.inl h
        · exact Or.inr (List.mem_cons_of_mem _ h)


/-! ## storing stacks -/

theorem stacksFast_nonempty (cs : Nat) (hcs : 0 < cs) (idx : List Nat) (get : Nat → α) :
    ∀ st ∈ stacksFast cs idx get, st ≠ [] := by
  intro st hst
  unfold stacksFast at hst
  simp only [List.mem_append, List.mem_map, List.mem_range] at hst
  rcases hst with ⟨kk, hkk, rfl⟩ | hst
  · have h1 : (kk + 1) * cs ≤ idx.length := (Nat.le_div_iff_mul_le hcs).mp hkk
    have h2 : cs * (kk + 1) = cs * kk + cs := Nat.mul_succ _ _
    have h3 : cs * (kk + 1) ≤ idx.length := by rw [Nat.mul_comm]; exact h1
    intro hnil
    have := congrArg List.length hnil
    simp at this
    omega
  · split at hst
    · simp only [List.mem_singleton] at hst
      subst hst
      intro hnil
      have := congrArg List.length hnil
      simp at this
      omega
    · cases hst

theorem consumeEager_nonempty (cs : Nat) (hcs : 0 < cs) (get : Nat → α) :
    ∀ (idx : List Nat) (buf : List α) (jj : Nat), buf.length = cs → jj < cs →
      ∀ st ∈ consumeEager buf (slowTrace cs get idx jj), st ≠ [] := by
  intro idx
  induction idx with
  | nil =>
    intro buf jj hlen hjj st hst
    by_cases h : jj = 0
    · simp [slowTrace, h, consumeEager] at hst
    · simp [slowTrace, h, consumeEager, view] at hst
      subst hst
      intro hnil
      have := congrArg List.length hnil
      rw [List.length_take] at this
      simp only [List.length_nil] at this
      omega
  | cons ii rest ih =>
    intro buf jj hlen hjj st hst
    simp only [slowTrace, consumeEager] at hst
    by_cases hfull : (jj + 1) % cs = 0
    · simp only [hfull, if_true, consumeEager, view, List.mem_cons] at hst
      rcases hst with hst | hst
      · subst hst
        intro hnil
        have := congrArg List.length hnil
        rw [List.length_set] at this
        simp only [List.length_nil] at this
        omega
      · exact ih _ 0 (by simp [hlen]) hcs st hst
    · have hlt : jj + 1 < cs := by
        by_cases hlt : jj + 1 < cs
        · exact hlt
        · have : jj + 1 = cs := by omega
          rw [this, Nat.mod_self] at hfull; exact absurd rfl hfull
      simp only [hfull, if_false] at hst
      exact ih _ (jj + 1) (by simp [hlen]) hlt st hst

theorem setEv_setEv (ev : Events α) (f : String) (v w : List α) :
    setEv (setEv ev f v) f w = setEv ev f w := by
  induction ev with
  | nil => simp [setEv]
  | cons p t ih =>
    obtain ⟨k, u⟩ := p
    by_cases hk : k = f
    · simp [setEv, hk]
    · simp [setEv, hk, ih]

theorem storeStacks_spec [Inhabited α] (csw : Nat) (hcsw : 0 < csw) (name : String) :
    ∀ (stacks : List (List α)) (ev : Events α), (∀ st ∈ stacks, st ≠ []) →
      storeStacks csw name stacks ev
        = some (if stacks = [] then ev else setEv ev name (readEv ev name ++ stacks.flatten)) := by
  intro stacks
  induction stacks with
  | nil => intro ev _; simp [storeStacks]
  | cons st rest ih =>
    intro ev hne
    simp only [storeStacks]
    rw [writeNd_append csw hcsw _ st (hne st List.mem_cons_self)]
    simp only
    rw [ih _ (fun s hs => hne s (List.mem_cons_of_mem _ hs))]
    by_cases hr : rest = []
    · simp [hr]
    · simp [hr, readEv_setEv, setEv_setEv, List.append_assoc]

theorem contour_fold (name : String) (get : Nat → α) : ∀ (idx : List Nat) (ev : Events α),
    idx.foldl (fun e i => setEv e name (readEv e name ++ [get i])) ev
      = if idx = [] then ev else setEv ev name (readEv ev name ++ idx.map get) := by
  intro idx
  induction idx with
  | nil => intro ev; simp
  | cons i rest ih =>
    intro ev
    simp only [List.foldl_cons]
    rw [ih]
    by_cases hr : rest = []
    · simp [hr]
    · simp [hr, readEv_setEv, setEv_setEv, List.append_assoc]

/-- `store_filtered_feature` appends exactly the selected rows (nothing for an empty
selection) -/
theorem storeFiltered_spec [Inhabited α] (o : Opts) (hcs : 0 < o.cs) (hcsw : 0 < o.csw)
    (ev : Events α) (ft : Feat α) (m : List Bool) (hr : ∀ i ∈ indices m, i < ft.rows.length) :
    storeFiltered o ev ft m = some (if indices m = [] then ev
      else setEv ev ft.name (readEv ev ft.name ++ sel m ft.rows)) := by
  unfold storeFiltered
  by_cases hidx : indices m = []
  · simp [hidx]
  · have hemp : (indices m).isEmpty = false := by cases h : indices m <;> simp_all
    simp only [hemp, Bool.false_eq_true, if_false, hidx]
    have hg := gather_eq_sel (default : α) m ft.rows hr
    have hselne : sel m ft.rows ≠ [] := by
      rw [← hg]; simpa using hidx
    cases hk : ft.kind with
    | contour => simp only [contour_fold, hidx, if_false, hg]
    | scalar =>
      have : (sel m ft.rows).isEmpty = false := by cases h : sel m ft.rows <;> simp_all
      simp [writeScalar, this]
    | image | trace | other =>
      simp only
      cases hsl : ft.sliceable with
      | true =>
        simp only [if_true]
        rw [storeStacks_spec o.csw hcsw _ _ _ (stacksFast_nonempty o.cs hcs _ _)]
        have hfl : (stacksFast o.cs (indices m) fun i => ft.rows.getD i default).flatten
            = sel m ft.rows := by
          rw [← hg]
          unfold stacksFast
          simp only [List.flatten_append, fast_full_flatten]
          split
          · simp only [List.flatten_cons, List.flatten_nil, List.append_nil, ← List.map_append,
              List.take_append_drop]
          · rename_i hstop
            simp only [List.flatten_nil, List.append_nil]
            rw [List.take_of_length_le (by omega)]
        have hne : (stacksFast o.cs (indices m) fun i => ft.rows.getD i default) ≠ [] := by
          intro h; rw [h] at hfl; exact hselne hfl.symm
        rw [if_neg hne, hfl]
      | false =>
        simp only [Bool.false_eq_true, if_false]
        unfold stacksSlow
        rw [storeStacks_spec o.csw hcsw _ _ _
          (consumeEager_nonempty o.cs hcs _ _ _ 0 (by simp) hcs)]
        have hfl := consumeEager_flatten o.cs hcs (fun i => ft.rows.getD i default) (indices m)
          (List.replicate o.cs default) 0 (by simp) hcs
        simp only [List.take_zero, List.nil_append] at hfl
        rw [hg] at hfl
        have hne : consumeEager (List.replicate o.cs default)
            (slowTrace o.cs (fun i => ft.rows.getD i default) (indices m) 0) ≠ [] := by
          intro h; rw [h] at hfl; exact hselne hfl.symm
        rw [if_neg hne, hfl]

theorem storeWhole_spec [Inhabited α] (o : Opts) (hcsw : 0 < o.csw) (ev : Events α) (ft : Feat α)
    (hne : ft.rows ≠ []) :
    storeWhole o ev ft = some (setEv ev ft.name (readEv ev ft.name ++ ft.rows)) := by
  unfold storeWhole
  have : ft.rows.isEmpty = false := by cases h : ft.rows <;> simp_all
  cases hk : ft.kind <;> simp [writeScalar, this, writeNd_append o.csw hcsw _ _ hne]

/-! ## feature list -/

theorem mem_dedup (a : String) : ∀ l : List String, a ∈ dedup l ↔ a ∈ l := by
  intro l
  induction l with
  | nil => simp [dedup]
  | cons b l ih =>
    simp only [dedup]
    by_cases h : b ∈ l
    · simp only [h, if_true, ih, List.mem_cons]
      constructor
      · exact Or.inr
      · rintro (h1 | h1)
        · rw [h1]; exact h
        · exact h1
    · simp only [h, if_false, List.mem_cons, ih]

theorem nodup_dedup : ∀ l : List String, (dedup l).Nodup := by
  intro l
  induction l with
  | nil => simp [dedup]
  | cons b l ih =>
    simp only [dedup]
    by_cases h : b ∈ l
    · simp [h, ih]
    · simp only [h, if_false, List.nodup_cons]
      exact ⟨fun hb => h ((mem_dedup b l).mp hb), ih⟩

theorem mem_insertBy {β : Type} (le : β → β → Bool) (a x : β) :
    ∀ l : List β, x ∈ insertBy le a l ↔ x = a ∨ x ∈ l := by
  intro l
  induction l with
  | nil => simp [insertBy]
  | cons b t ih =>
    simp only [insertBy]
    split
    · simp
    · simp only [List.mem_cons, ih]
      constructor
      · rintro (h | h | h)
        · exact Or.inr (Or.inl h)
        · exact Or.inl h
        · exact Or.inr (Or.inr h)
      · rintro (h | h | h)
        · exact Or.inr (Or.inl h)
        · exact Or.inl h
        · exact Or.inr (Or.inr h)

theorem mem_isort {β : Type} (le : β → β → Bool) (x : β) :
    ∀ l : List β, x ∈ isort le l ↔ x ∈ l := by
  intro l
  induction l with
  | nil => simp [isort]
  | cons a t ih => simp [isort, mem_insertBy, ih]

theorem nodup_insertBy {β : Type} (le : β → β → Bool) (a : β) :
    ∀ l : List β, a ∉ l → l.Nodup → (insertBy le a l).Nodup := by
  intro l
  induction l with
  | nil => intro _ _; simp [insertBy]
  | cons b t ih =>
    intro ha hn
    simp only [insertBy]
    split
    · exact List.nodup_cons.mpr ⟨ha, hn⟩
    · have hn' := List.nodup_cons.mp hn
      refine List.nodup_cons.mpr ⟨?_, ih (fun h => ha (List.mem_cons_of_mem _ h)) hn'.2⟩
      intro hb
      rcases (mem_insertBy le a b t).mp hb with h | h
      · exact ha (by rw [h]; exact List.mem_cons_self)
      · exact hn'.1 h

theorem nodup_isort {β : Type} (le : β → β → Bool) :
    ∀ l : List β, l.Nodup → (isort le l).Nodup := by
  intro l
  induction l with
  | nil => intro _; simp [isort]
  | cons a t ih =>
    intro hn
    have hn' := List.nodup_cons.mp hn
    exact nodup_insertBy le a _ (fun h => hn'.1 ((mem_isort le a t).mp h)) (ih hn'.2)

theorem isort_eq_nil {β : Type} (le : β → β → Bool) (l : List β) (h : isort le l = []) : l = [] := by
  cases l with
  | nil => rfl
  | cons a t =>
    have : a ∈ isort le (a :: t) := (mem_isort le a _).mpr List.mem_cons_self
    rw [h] at this; cases this

theorem mem_normFeats (a : String) (l : List String) : a ∈ normFeats l ↔ a ∈ l := by
  unfold normFeats
  rw [mem_isort, mem_dedup]

theorem nodup_normFeats (l : List String) : (normFeats l).Nodup := by
  unfold normFeats
  exact nodup_isort _ _ (nodup_dedup l)

/-- the normalised feature list depends on the *set* of requested names only up to order;
in particular duplicates are irrelevant -/
theorem normFeats_dup (l : List String) (a : String) (h : a ∈ l) :
    ∀ x, x ∈ normFeats (a :: l) ↔ x ∈ normFeats l := by
  intro x
  rw [mem_normFeats, mem_normFeats, List.mem_cons]
  constructor
  · rintro (h1 | h1)
    · rw [h1]; exact h
    · exact h1
  · exact Or.inr

theorem lookupAll_spec (src : Src α) : ∀ (fs : List String) (fts : List (Feat α)),
    lookupAll src fs = some fts →
    (∀ f ∈ fs, ∃ ft ∈ fts, lookup src f = some ft) ∧
    (∀ ft ∈ fts, ∃ f ∈ fs, lookup src f = some ft) := by
  intro fs
  induction fs with
  | nil => intro fts h; simp [lookupAll] at h; subst h; simp
  | cons f rest ih =>
    intro fts h
    simp only [lookupAll] at h
    cases h1 : lookup src f with
    | none => simp [h1] at h
    | some ft =>
      cases h2 : lookupAll src rest with
      | none => simp [h1, h2] at h
      | some fts' =>
        simp only [h1, h2, Option.some.injEq] at h
        subst h
        obtain ⟨ha, hb⟩ := ih fts' h2
        constructor
        · intro g hg
          rcases List.mem_cons.mp hg with hg | hg
          · exact ⟨ft, List.mem_cons_self, by rw [hg]; exact h1⟩
          · obtain ⟨t, ht, hl⟩ := ha g hg
            exact ⟨t, List.mem_cons_of_mem _ ht, hl⟩
        · intro t ht
          rcases List.mem_cons.mp ht with ht | ht
          · exact ⟨f, List.mem_cons_self, by rw [ht]; exact h1⟩
          · obtain ⟨g, hg, hl⟩ := hb t ht
            exact ⟨g, List.mem_cons_of_mem _ hg, hl⟩

theorem lookup_name (src : Src α) (f : String) (ft : Feat α) (h : lookup src f = some ft) :
    ft.name = f := by
  unfold lookup at h
  have := List.find?_some h
  simpa using this


theorem sel_eq_nil_iff (m : List Bool) (xs : List α) (hr : ∀ i ∈ indices m, i < xs.length) :
    sel m xs = [] ↔ indices m = [] := by
  have h := sel_length m xs hr
  rw [← indices_length] at h
  constructor
  · intro e; rw [e] at h; exact List.length_eq_zero_iff.mp h.symm
  · intro e; rw [e] at h; exact List.length_eq_zero_iff.mp h

theorem storeOne_spec [Inhabited α] (hdf5 : Bool) (o : Opts) (hcs : 0 < o.cs) (hcsw : 0 < o.csw)
    (em : Option (List Bool)) (ev : Events α) (ft : Feat α) (hne : ft.rows ≠ [])
    (hr : ∀ m, em = some m → ∀ i ∈ indices m, i < ft.rows.length)
    (hl : ∀ m, em = some m → ft.rows.length ≤ m.length)
    (hfresh : readEv ev ft.name = []) :
    storeOne hdf5 o em ev ft
      = some (if target em ft = [] then ev else setEv ev ft.name (target em ft)) := by
  unfold storeOne target
  cases em with
  | none =>
    simp only
    rw [storeWhole_spec o hcsw ev ft hne, hfresh, if_neg hne, List.nil_append]
  | some m =>
    simp only
    by_cases hw : (m.all id && hdf5) = true
    · simp only [hw, if_true]
      have hall : m.all id = true := by
        simp only [Bool.and_eq_true] at hw; exact hw.1
      rw [storeWhole_spec o hcsw ev ft hne, hfresh, sel_allTrue m hall ft.rows (hl m rfl),
        if_neg hne, List.nil_append]
    · simp only [hw, Bool.false_eq_true, if_false]
      rw [storeFiltered_spec o hcs hcsw ev ft m (hr m rfl), hfresh, List.nil_append]
      by_cases he : indices m = []
      · rw [if_pos he, if_pos ((sel_eq_nil_iff m ft.rows (hr m rfl)).mpr he)]
      · rw [if_neg he, if_neg (fun e => he ((sel_eq_nil_iff m ft.rows (hr m rfl)).mp e))]

/-- the feature loop: every requested feature ends up with exactly its target rows, nothing
else is touched, and every stored entry is a non-empty target -/
theorem storeAll_spec [Inhabited α] (src : Src α) (o : Opts) (hcs : 0 < o.cs) (hcsw : 0 < o.csw)
    (em : Option (List Bool)) : ∀ (fs : List String) (ev : Events α), fs.Nodup →
    (∀ f ∈ fs, readEv ev f = []) →
    (∀ f ∈ fs, ∃ ft, lookup src f = some ft ∧ ft.rows ≠ [] ∧
      (∀ m, em = some m → ∀ i ∈ indices m, i < ft.rows.length) ∧
      (∀ m, em = some m → ft.rows.length ≤ m.length)) →
    ∃ ev', storeAll src o em fs ev = some ev' ∧
      (∀ f ∈ fs, ∀ ft, lookup src f = some ft → readEv ev' f = target em ft) ∧
      (∀ g, g ∉ fs → readEv ev' g = readEv ev g) ∧
      (∀ p ∈ ev', p ∈ ev ∨ ∃ f ∈ fs, ∃ ft, lookup src f = some ft ∧ p = (f, target em ft)) := by
  intro fs
  induction fs with
  | nil => intro ev _ _ _; exact ⟨ev, rfl, by simp, by simp, by simp⟩
  | cons f rest ih =>
    intro ev hnd hfresh hall
    obtain ⟨ft, hlk, hne, hr, hl⟩ := hall f List.mem_cons_self
    have hname := lookup_name src f ft hlk
    have hnd' := List.nodup_cons.mp hnd
    simp only [storeAll, hlk]
    rw [storeOne_spec src.hdf5 o hcs hcsw em ev ft hne hr hl
      (by rw [hname]; exact hfresh f List.mem_cons_self)]
    simp only
    -- abbreviation of the events table after this feature
    generalize hev1 : (if target em ft = [] then ev else setEv ev ft.name (target em ft)) = ev1
    have hread1 : ∀ g, readEv ev1 g = if g = f then target em ft else readEv ev g := by
      intro g
      rw [← hev1]
      by_cases ht : target em ft = []
      · rw [if_pos ht]
        by_cases hg : g = f
        · rw [if_pos hg, hg, ht]; exact hfresh f List.mem_cons_self
        · rw [if_neg hg]
      · rw [if_neg ht, readEv_setEv, hname]
    have hmem1 : ∀ p ∈ ev1, p ∈ ev ∨ p = (f, target em ft) := by
      intro p hp
      rw [← hev1] at hp
      by_cases ht : target em ft = []
      · rw [if_pos ht] at hp; exact Or.inl hp
      · rw [if_neg ht] at hp
        rcases mem_setEv _ _ _ _ hp with h | h
        · exact Or.inr (by rw [h, hname])
        · exact Or.inl h
    obtain ⟨ev', hrun, hA, hB, hC⟩ := ih ev1 hnd'.2
      (by
        intro g hg
        rw [hread1 g]
        have : g ≠ f := fun e => hnd'.1 (e ▸ hg)
        rw [if_neg this]
        exact hfresh g (List.mem_cons_of_mem _ hg))
      (fun g hg => hall g (List.mem_cons_of_mem _ hg))
    refine ⟨ev', hrun, ?_, ?_, ?_⟩
    · intro g hg t ht
      rcases List.mem_cons.mp hg with hg | hg
      · subst hg
        rw [hB g hnd'.1, hread1 g, if_pos rfl]
        rw [hlk] at ht
        cases ht; rfl
      · exact hA g hg t ht
    · intro g hg
      have h1 : g ∉ rest := fun h => hg (List.mem_cons_of_mem _ h)
      have h2 : g ≠ f := fun h => hg (h ▸ List.mem_cons_self)
      rw [hB g h1, hread1 g, if_neg h2]
    · intro p hp
      rcases hC p hp with h | ⟨g, hg, t, ht, hpt⟩
      · rcases hmem1 p h with h | h
        · exact Or.inl h
        · exact Or.inr ⟨f, List.mem_cons_self, ft, hlk, h⟩
      · exact Or.inr ⟨g, List.mem_cons_of_mem _ hg, t, ht, hpt⟩

/-! ## TSV -/

theorem zipWith_map_map {β γ δ ι : Type} (f : β → γ → δ) (g : ι → β) (h : ι → γ) :
    ∀ l : List ι, List.zipWith f (l.map g) (l.map h) = l.map (fun x => f (g x) (h x)) := by
  intro l
  induction l with
  | nil => rfl
  | cons a l ih => simp [ih]

/-- the table written by `np.savetxt(np.array(columns).transpose())` has one row per selected
event, holding that event's value of every column -/
theorem transpose_gather {ι : Type} (idx : List ι) : ∀ (gs : List (ι → α)), gs ≠ [] →
    transpose (gs.map fun g => idx.map g) = idx.map (fun j => gs.map fun g => g j) := by
  intro gs
  induction gs with
  | nil => intro h; exact absurd rfl h
  | cons g rest ih =>
    intro _
    cases rest with
    | nil => simp [transpose]
    | cons g2 rest2 =>
      have := ih (by simp)
      simp only [List.map_cons] at this ⊢
      simp only [transpose]
      rw [this, zipWith_map_map]



/-! ## the whole export -/

/-- side conditions under which `Export.hdf5` does not raise: positive chunk sizes, no empty
feature, the selection only addresses existing rows (automatic when the length check is on, see
`truncation_in_range`) and no feature is longer than the dataset -/
structure Ok (o : Opts) (fts : List (Feat α)) (em : Option (List Bool)) : Prop where
  cs : 0 < o.cs
  csw : 0 < o.csw
  nonempty : ∀ ft ∈ fts, ft.rows ≠ []
  inRange : ∀ m, em = some m → ∀ ft ∈ fts, ∀ i ∈ indices m, i < ft.rows.length
  notLonger : ∀ m, em = some m → ∀ ft ∈ fts, ft.rows.length ≤ m.length

theorem firstSorted_mem (ev : Events α) (h : String × List α) (hf : firstSorted ev = some h) :
    h ∈ ev := by
  unfold firstSorted at hf
  split at hf
  · cases hf
  · rename_i a t hs
    cases hf
    have : h ∈ isort (fun a b => decide (a.1 ≤ b.1)) ev := by rw [hs]; exact List.mem_cons_self
    exact (mem_isort _ _ _).mp this

theorem firstSorted_none (ev : Events α) (hf : firstSorted ev = none) : ev = [] := by
  unfold firstSorted at hf
  split at hf
  · rename_i hs
    exact isort_eq_nil _ _ hs
  · cases hf

/-- what a run of `Export.hdf5` on a fresh path produces -/
theorem export_run [Inhabited α] (src : Src α) (o : Opts) (mask : List Bool) (feats : List String)
    (fts : List (Feat α)) (hlk : lookupAll src (normFeats feats) = some fts)
    (hok : Ok o fts (effMask src o mask fts)) :
    ∃ fl, exportHdf5 src o mask feats = some fl ∧
      (∀ f ∈ feats, ∀ ft, lookup src f = some ft →
        read fl f = target (effMask src o mask fts) ft) ∧
      (∀ p ∈ fl.events, ∃ ft ∈ fts, p.2 = target (effMask src o mask fts) ft) ∧
      (fl.eventCount = match firstSorted fl.events with
        | some (_, rows) => rows.length
        | none => match effMask src o mask fts with
          | some m => if o.fixed then countTrue m else src.n
          | none => src.n) ∧
      fl.cfg = src.cfg.filter (fun e => o.cfgSections.contains e.1) ∧
      fl.logs = (if o.logs then src.logs.map (fun l => (o.pfx ++ l.1, l.2)) else []) ∧
      fl.tables = (if o.tables then src.tables.map (fun t => (o.pfx ++ t.1, t.2)) else []) ∧
      fl.derivedRunId = o.filtered := by
  obtain ⟨hA, hB⟩ := lookupAll_spec src _ _ hlk
  obtain ⟨ev', hrun, hR, _, hM⟩ := storeAll_spec src o hok.cs hok.csw (effMask src o mask fts)
    (normFeats feats) [] (nodup_normFeats feats) (fun _ _ => rfl)
    (by
      intro f hf
      obtain ⟨ft, hft, hl⟩ := hA f hf
      exact ⟨ft, hl, hok.nonempty ft hft, fun m hm => hok.inRange m hm ft hft,
        fun m hm => hok.notLonger m hm ft hft⟩)
  unfold exportHdf5
  simp only [hlk, hrun]
  refine ⟨_, rfl, ?_, ?_, rfl, rfl, rfl, rfl, rfl⟩
  · intro f hf ft hft
    exact hR f ((mem_normFeats f feats).mpr hf) ft hft
  · intro p hp
    rcases hM p hp with h | ⟨f, hf, ft, hft, hp⟩
    · cases h
    · obtain ⟨t, ht, hl⟩ := hA f hf
      rw [hft] at hl; cases hl
      exact ⟨ft, ht, by rw [hp]⟩

/-- with the length check on and features of different length the (truncated) selection only
addresses rows that every requested feature has -/
theorem truncation_in_range (src : Src α) (o : Opts) (mask : List Bool) (fts : List (Feat α))
    (hchk : o.skipChecks = false) (lmin lmax : Nat)
    (hmin : (fts.map (·.rows.length)).min? = some lmin)
    (hmax : (fts.map (·.rows.length)).max? = some lmax) (hdiff : lmin ≠ lmax) :
    ∃ m, effMask src o mask fts = some m ∧ ∀ ft ∈ fts, ∀ i ∈ indices m, i < ft.rows.length := by
  unfold effMask
  simp only [hchk, Bool.false_eq_true, if_false, hmin, hmax, ne_eq, hdiff, not_false_eq_true,
    if_true]
  refine ⟨_, rfl, ?_⟩
  intro ft hft i hi
  have h1 := indices_truncate_lt _ _ i hi
  have h2 : lmin ≤ ft.rows.length := by
    have := (List.min?_eq_some_iff.mp hmin).2 ft.rows.length
      (List.mem_map.mpr ⟨ft, hft, rfl⟩)
    exact this
  omega

/-! ## sorted feature list -/

theorem insertBy_sorted (a : String) : ∀ l : List String, l.Pairwise (· ≤ ·) →
    (insertBy (fun a b => decide (a ≤ b)) a l).Pairwise (· ≤ ·) := by
  intro l
  induction l with
  | nil => intro _; simp [insertBy]
  | cons b t ih =>
    intro h
    simp only [insertBy]
    split
    · rename_i hab
      have hab : a ≤ b := by simpa using hab
      refine List.Pairwise.cons ?_ h
      intro x hx
      rcases List.mem_cons.mp hx with rfl | hx
      · exact hab
      · exact String.le_trans hab ((List.pairwise_cons.mp h).1 x hx)
    · rename_i hab
      have hba : b ≤ a := by
        rcases String.le_total a b with h1 | h1
        · exact absurd (by simpa using h1) hab
        · exact h1
      refine List.Pairwise.cons ?_ (ih (List.pairwise_cons.mp h).2)
      intro x hx
      rcases (mem_insertBy _ a x t).mp hx with rfl | hx
      · exact hba
      · exact (List.pairwise_cons.mp h).1 x hx

theorem isort_sorted : ∀ l : List String,
    (isort (fun a b => decide (a ≤ b)) l).Pairwise (· ≤ ·) := by
  intro l
  induction l with
  | nil => simp [isort]
  | cons a t ih => exact insertBy_sorted a _ ih

theorem insertBy_perm {β : Type} (le : β → β → Bool) (a : β) : ∀ l : List β,
    (insertBy le a l).Perm (a :: l) := by
  intro l
  induction l with
  | nil => simp [insertBy]
  | cons b t ih =>
    simp only [insertBy]
    split
    · exact List.Perm.refl _
    · exact (List.Perm.cons b ih).trans (List.Perm.swap a b t)

theorem isort_perm {β : Type} (le : β → β → Bool) : ∀ l : List β, (isort le l).Perm l := by
  intro l
  induction l with
  | nil => simp [isort]
  | cons a t ih => exact (insertBy_perm le a _).trans (List.Perm.cons a ih)

/-- two duplicate-free lists in ascending order with the same members are equal -/
theorem sorted_nodup_ext : ∀ (l₁ l₂ : List String), l₁.Pairwise (· ≤ ·) → l₂.Pairwise (· ≤ ·) →
    l₁.Nodup → l₂.Nodup → (∀ a, a ∈ l₁ ↔ a ∈ l₂) → l₁ = l₂ := by
  intro l₁
  induction l₁ with
  | nil =>
    intro l₂ _ _ _ _ h
    cases l₂ with
    | nil => rfl
    | cons b u => exact absurd ((h b).mpr (List.mem_cons_self)) (by simp)
  | cons a t ih =>
    intro l₂ h1 h2 n1 n2 h
    cases l₂ with
    | nil => exact absurd ((h a).mp (List.mem_cons_self)) (by simp)
    | cons b u =>
      have hab : a = b := by
        have ha := (h a).mp List.mem_cons_self
        have hb := (h b).mpr List.mem_cons_self
        rcases List.mem_cons.mp ha with e | ha
        · exact e
        · rcases List.mem_cons.mp hb with e | hb
          · exact e.symm
          · exact String.le_antisymm ((List.pairwise_cons.mp h1).1 b hb)
              ((List.pairwise_cons.mp h2).1 a ha)
      subst hab
      congr 1
      apply ih u (List.pairwise_cons.mp h1).2 (List.pairwise_cons.mp h2).2
        (List.nodup_cons.mp n1).2 (List.nodup_cons.mp n2).2
      intro x
      constructor
      · intro hx
        have := (h x).mp (List.mem_cons_of_mem _ hx)
        rcases List.mem_cons.mp this with e | hx'
        · subst e; exact absurd hx (List.nodup_cons.mp n1).1
        · exact hx'
      · intro hx
        have := (h x).mpr (List.mem_cons_of_mem _ hx)
        rcases List.mem_cons.mp this with e | hx'
        · subst e; exact absurd hx (List.nodup_cons.mp n2).1
        · exact hx'

/-! ## prefixed log / table names -/

theorem prefix_injective (pfx a b : String) (h : pfx ++ a = pfx ++ b) : a = b :=
  (String.append_right_inj pfx).mp h

theorem prefixed_names {β : Type} (pfx : String) (xs : List (String × β)) :
    (prefixed pfx xs).map (·.1) = (xs.map (·.1)).map (pfx ++ ·) := by
  simp [prefixed, List.map_map, Function.comp_def]

theorem prefixed_nodup {β : Type} (pfx : String) (xs : List (String × β))
    (h : (xs.map (·.1)).Nodup) : ((prefixed pfx xs).map (·.1)).Nodup := by
  rw [prefixed_names]
  induction xs with
  | nil => simp
  | cons x t ih =>
    simp only [List.map_cons, List.nodup_cons] at h ⊢
    refine ⟨?_, ih h.2⟩
    intro hm
    obtain ⟨b, hb, hbe⟩ := List.mem_map.mp hm
    have := prefix_injective pfx _ _ hbe
    exact h.1 (this ▸ hb)

theorem appendLog_absent (logs : List (String × List String)) (name : String) (lines : List String)
    (h : name ∉ logs.map (·.1)) : appendLog logs name lines = logs ++ [(name, lines)] := by
  induction logs with
  | nil => rfl
  | cons x t ih =>
    obtain ⟨n, l⟩ := x
    simp only [List.map_cons, List.mem_cons, not_or] at h
    simp only [appendLog]
    rw [if_neg (fun e => h.1 e.symm), ih h.2]
    rfl

/-- storing logs whose names are new and pairwise different adds them unchanged -/
theorem appendLogs_fresh : ∀ (new logs : List (String × List String)),
    (new.map (·.1)).Nodup → (∀ n ∈ new.map (·.1), n ∉ logs.map (·.1)) →
    appendLogs logs new = logs ++ new := by
  intro new
  induction new with
  | nil => intro logs _ _; simp [appendLogs]
  | cons x t ih =>
    intro logs hnd hdis
    simp only [List.map_cons, List.nodup_cons] at hnd
    have hx : x.1 ∉ logs.map (·.1) := hdis x.1 (by simp)
    show appendLogs (appendLog logs x.1 x.2) t = _
    rw [appendLog_absent logs x.1 x.2 hx, ih _ hnd.2]
    · simp
    · intro n hn
      simp only [List.map_append, List.map_cons, List.map_nil, List.mem_append, List.mem_cons,
        List.not_mem_nil, or_false, not_or]
      refine ⟨hdis n (by simp [hn]), ?_⟩
      intro e; subst e; exact hnd.1 hn

theorem appendLogs_nil (new : List (String × List String)) (h : (new.map (·.1)).Nodup) :
    appendLogs [] new = new := by
  simpa using appendLogs_fresh new [] h (by simp)

theorem findLog_of_mem : ∀ (logs : List (String × List String)) (n : String) (l : List String),
    (logs.map (·.1)).Nodup → (n, l) ∈ logs → findLog logs n = some l := by
  intro logs
  induction logs with
  | nil => intro n l _ h; cases h
  | cons x t ih =>
    intro n l hnd hm
    obtain ⟨m, k⟩ := x
    simp only [List.map_cons, List.nodup_cons] at hnd
    simp only [findLog]
    rcases List.mem_cons.mp hm with e | hm
    · cases e; simp
    · have : m ≠ n := by
        intro e; subst e
        exact hnd.1 (List.mem_map.mpr ⟨(m, l), hm, rfl⟩)
      rw [if_neg this]
      exact ih n l hnd.2 hm

/-! ## directories -/

theorem dirGet_erase_self (d : Dir α) (p : String) : dirGet (dirErase d p) p = none := by
  induction d with
  | nil => rfl
  | cons x t ih =>
    obtain ⟨q, f⟩ := x
    by_cases h : q = p
    · simp [dirErase, List.filter, h]; simpa [dirErase] using ih
    · have : dirErase ((q, f) :: t) p = (q, f) :: dirErase t p := by simp [dirErase, List.filter, h]
      rw [this]; simp only [dirGet, if_neg h]; exact ih

theorem dirGet_erase_other (d : Dir α) (p q : String) (h : q ≠ p) :
    dirGet (dirErase d p) q = dirGet d q := by
  induction d with
  | nil => rfl
  | cons x t ih =>
    obtain ⟨r, f⟩ := x
    by_cases hr : r = p
    · have : dirErase ((r, f) :: t) p = dirErase t p := by simp [dirErase, List.filter, hr]
      rw [this, ih]
      simp only [dirGet]
      rw [if_neg (by rw [hr]; exact fun e => h e.symm)]
    · have : dirErase ((r, f) :: t) p = (r, f) :: dirErase t p := by simp [dirErase, List.filter, hr]
      rw [this]; simp only [dirGet]; rw [ih]

theorem dirErase_absent (d : Dir α) (p : String) (h : dirGet d p = none) : dirErase d p = d := by
  induction d with
  | nil => rfl
  | cons x t ih =>
    obtain ⟨r, f⟩ := x
    simp only [dirGet] at h
    by_cases hr : r = p
    · simp [hr] at h
    · rw [if_neg hr] at h
      have : dirErase ((r, f) :: t) p = (r, f) :: dirErase t p := by simp [dirErase, List.filter, hr]
      rw [this, ih h]

theorem dirErase_idem (d : Dir α) (p : String) : dirErase (dirErase d p) p = dirErase d p :=
  dirErase_absent _ _ (dirGet_erase_self d p)

theorem dirGet_set_self (d : Dir α) (p : String) (f : File α) : dirGet (dirSet d p f) p = some f := by
  simp [dirSet, dirGet]

theorem dirGet_set_other (d : Dir α) (p q : String) (f : File α) (h : q ≠ p) :
    dirGet (dirSet d p f) q = dirGet d q := by
  simp only [dirSet, dirGet]
  rw [if_neg (fun e => h e.symm)]
  exact dirGet_erase_other d p q h

/-- on an empty file the append-mode export is the export to a fresh path, provided the source's
log names are pairwise different (they are the keys of a mapping) -/
theorem exportOnto_empty [Inhabited α] (src : Src α) (o : Opts) (mask : List Bool)
    (feats : List String) (hl : (src.logs.map (·.1)).Nodup) :
    exportOnto src o mask feats emptyFile = exportHdf5 src o mask feats := by
  have hlogs : appendLogs [] (if o.logs = true then prefixed o.pfx src.logs else [])
      = (if o.logs = true then List.map (fun l => (o.pfx ++ l.fst, l.snd)) src.logs else []) := by
    split
    · rw [appendLogs_nil _ (prefixed_nodup o.pfx src.logs hl)]; rfl
    · rfl
  unfold exportOnto exportHdf5
  simp only [emptyFile, List.filter_nil, List.append_nil, List.nil_append, hlogs]
  rfl

theorem readEv_ne_nil_mem (ev : Events α) (f : String) (h : readEv ev f ≠ []) :
    f ∈ ev.map (·.1) := by
  induction ev with
  | nil => exact absurd rfl h
  | cons x t ih =>
    obtain ⟨g, v⟩ := x
    simp only [readEv] at h
    by_cases hg : g = f
    · simp [hg]
    · rw [if_neg hg] at h
      exact List.mem_cons_of_mem _ (ih h)

/-- the entries of the exported file carry requested names, each with that feature's target rows -/
theorem export_run_names [Inhabited α] (src : Src α) (o : Opts) (mask : List Bool)
    (feats : List String) (fts : List (Feat α)) (hlk : lookupAll src (normFeats feats) = some fts)
    (hok : Ok o fts (effMask src o mask fts)) (fl : File α)
    (hfl : exportHdf5 src o mask feats = some fl) :
    ∀ p ∈ fl.events, p.1 ∈ feats ∧ ∃ ft, lookup src p.1 = some ft ∧
      p.2 = target (effMask src o mask fts) ft := by
  obtain ⟨hA, hB⟩ := lookupAll_spec src _ _ hlk
  obtain ⟨ev', hrun, _, _, hM⟩ := storeAll_spec src o hok.cs hok.csw (effMask src o mask fts)
    (normFeats feats) [] (nodup_normFeats feats) (fun _ _ => rfl)
    (by
      intro f hf
      obtain ⟨ft, hft, hl⟩ := hA f hf
      exact ⟨ft, hl, hok.nonempty ft hft, fun m hm => hok.inRange m hm ft hft,
        fun m hm => hok.notLonger m hm ft hft⟩)
  unfold exportHdf5 at hfl
  simp only [hlk, hrun, Option.some.injEq] at hfl
  subst hfl
  intro p hp
  rcases hM p hp with h | ⟨f, hf, ft, hft, hp⟩
  · cases h
  · subst hp
    exact ⟨(mem_normFeats f feats).mp hf, ft, hft, rfl⟩

/-! ## tsv text -/

theorem dataCells_append (a b : List Line) : dataCells (a ++ b) = dataCells a ++ dataCells b := by
  induction a with
  | nil => rfl
  | cons x t ih => cases x <;> simp [dataCells, ih]

theorem commentCells_append (a b : List Line) :
    commentCells (a ++ b) = commentCells a ++ commentCells b := by
  induction a with
  | nil => rfl
  | cons x t ih => cases x <;> simp [commentCells, ih]

theorem dataCells_comments (m : List (List String)) : dataCells (m.map Line.comment) = [] := by
  induction m with
  | nil => rfl
  | cons x t ih => simpa [dataCells] using ih

theorem commentCells_comments (m : List (List String)) : commentCells (m.map Line.comment) = m := by
  induction m with
  | nil => rfl
  | cons x t ih => simp [commentCells, ih]

theorem dataCells_data (rows : List (List String)) : dataCells (rows.map Line.data) = rows := by
  induction rows with
  | nil => rfl
  | cons x t ih => simp [dataCells, ih]

theorem commentCells_data (rows : List (List String)) : commentCells (rows.map Line.data) = [] := by
  induction rows with
  | nil => rfl
  | cons x t ih => simpa [commentCells] using ih

theorem text_shape (M : List (List String)) (h1 h2 : List String) (R : List (List String)) :
    commentCells (M.map Line.comment ++ [Line.comment h1, Line.comment h2] ++ R.map Line.data)
      = M ++ [h1, h2] ∧
    dataCells (M.map Line.comment ++ [Line.comment h1, Line.comment h2] ++ R.map Line.data) = R := by
  constructor
  · rw [commentCells_append, commentCells_append, commentCells_comments, commentCells_data]
    simp [commentCells]
  · rw [dataCells_append, dataCells_append, dataCells_comments, dataCells_data]
    simp [dataCells]

end DclabModel.Export
