import DclabModel.Model.Summary
import Batteries.Data.List.Perm
/-!
Helper lemmas for C20: `vmin`/`vmax`/`vadd` are associative with identity `nan` resp. `fin 0`,
hence the NaN-ignoring folds distribute over `++`; `vscale (vdiv s n) n = s`.
-/
namespace DclabModel.Summary
open Val

theorem vmin_nan_right (a : Val) : vmin a nan = a := by cases a <;> rfl
theorem vmax_nan_right (a : Val) : vmax a nan = a := by cases a <;> rfl
theorem vmin_nan_left (a : Val) : vmin nan a = a := rfl
theorem vmax_nan_left (a : Val) : vmax nan a = a := rfl

theorem vmin_assoc (a b c : Val) : vmin (vmin a b) c = vmin a (vmin b c) := by
  cases a <;> cases b <;> cases c <;> simp [vmin, Val.le] <;> grind

theorem vmax_assoc (a b c : Val) : vmax (vmax a b) c = vmax a (vmax b c) := by
  cases a <;> cases b <;> cases c <;> simp [vmax, Val.le] <;> grind

theorem vadd_assoc (a b c : Val) : vadd (vadd a b) c = vadd a (vadd b c) := by
  cases a <;> cases b <;> cases c <;> simp [vadd] <;> grind

theorem vadd_zero_right (a : Val) : vadd a (fin 0) = a := by
  cases a <;> simp [vadd, Rat.add_zero]

theorem vadd_zero_left (a : Val) : vadd (fin 0) a = a := by
  cases a <;> simp [vadd, Rat.zero_add]

/-- a fold of an associative operation started at `x` -/
theorem foldl_assoc_start {op : Val → Val → Val} (e : Val)
    (assoc : ∀ a b c, op (op a b) c = op a (op b c)) (idr : ∀ a, op a e = a)
    (idl : ∀ a, op e a = a) (l : List Val) (x : Val) :
    l.foldl op x = op x (l.foldl op e) := by
  induction l generalizing x with
  | nil => simp [idr]
  | cons h t ih =>
    simp only [List.foldl_cons]
    rw [ih (op x h), ih (op e h), idl, assoc]

theorem nanmin_append (a b : List Val) : nanmin (a ++ b) = vmin (nanmin a) (nanmin b) := by
  unfold nanmin
  rw [List.foldl_append, foldl_assoc_start nan vmin_assoc vmin_nan_right vmin_nan_left]

theorem nanmax_append (a b : List Val) : nanmax (a ++ b) = vmax (nanmax a) (nanmax b) := by
  unfold nanmax
  rw [List.foldl_append, foldl_assoc_start nan vmax_assoc vmax_nan_right vmax_nan_left]

theorem valid_append (a b : List Val) : valid (a ++ b) = valid a ++ valid b := by
  simp [valid]

theorem nansum_append (a b : List Val) : nansum (a ++ b) = vadd (nansum a) (nansum b) := by
  unfold nansum
  rw [valid_append, List.foldl_append,
    foldl_assoc_start (fin 0) vadd_assoc vadd_zero_right vadd_zero_left]

theorem nancount_append (a b : List Val) : nancount (a ++ b) = nancount a + nancount b := by
  simp [nancount, valid_append]

theorem nansum_of_count_zero (l : List Val) (h : nancount l = 0) : nansum l = fin 0 := by
  unfold nancount at h
  unfold nansum
  rw [List.length_eq_zero_iff.mp h]
  rfl

theorem vscale_vdiv (s : Val) (n : Nat) (h : 0 < n) : vscale (vdiv s n) n = s := by
  have hn : n ≠ 0 := by omega
  have hq : (n : Rat) ≠ 0 := by
    intro h0
    exact hn (by exact_mod_cast h0)
  cases s <;> simp [vdiv, vscale, hn]
  rw [Rat.div_mul_cancel hq]

/-- the repaired update rule is exact -/
theorem updMean_fixed (old data : List Val) :
    updMean .fixed (nanmean old) old data = nanmean (old ++ data) := by
  simp only [updMean]
  by_cases hb : nancount data = 0
  · simp only [hb, if_true]
    unfold nanmean
    rw [nansum_append, nancount_append, hb, nansum_of_count_zero data hb, vadd_zero_right,
      Nat.add_zero]
  · simp only [hb, if_false]
    by_cases ha : nancount old = 0
    · simp only [ha, if_true]
      unfold nanmean
      rw [nansum_append, nancount_append, ha, nansum_of_count_zero old ha, vadd_zero_left,
        Nat.zero_add]
    · simp only [ha, if_false]
      unfold nanmean
      rw [vscale_vdiv _ _ (by omega), vscale_vdiv _ _ (by omega), nansum_append,
        nancount_append]

/-- every stored summary is either absent or the true one -/
def Good (s : SDs) : Prop :=
  (s.mn = none ∨ s.mn = some (nanmin s.data)) ∧
  (s.mx = none ∨ s.mx = some (nanmax s.data)) ∧
  (s.mean = none ∨ s.mean = some (nanmean s.data))

/-- all three summaries are stored and true -/
def Exact (s : SDs) : Prop :=
  s.mn = some (nanmin s.data) ∧ s.mx = some (nanmax s.data) ∧ s.mean = some (nanmean s.data)

theorem Exact.good {s : SDs} (h : Exact s) : Good s := ⟨Or.inr h.1, Or.inr h.2.1, Or.inr h.2.2⟩

/-- one call of `write_ndarray` (scalar branch, repaired rule): whatever was stored before was
absent or true ⇒ afterwards all three attributes are stored and true, and the data are
`old ++ new` -/
theorem write_exact (ds : Option SDs) (hg : ∀ s, ds = some s → Good s) (data : List Val) :
    Exact (writeScalar .fixed ds data) ∧
    (writeScalar .fixed ds data).data = (ds.map (·.data)).getD [] ++ data := by
  cases ds with
  | none => exact ⟨⟨rfl, rfl, rfl⟩, rfl⟩
  | some s =>
    obtain ⟨h1, h2, h3⟩ := hg s rfl
    refine ⟨⟨?_, ?_, ?_⟩, rfl⟩
    · simp only [writeScalar]
      rcases h1 with h | h <;> rw [h]
      simp only [nanmin_append]
    · simp only [writeScalar]
      rcases h2 with h | h <;> rw [h]
      simp only [nanmax_append]
    · simp only [writeScalar]
      rcases h3 with h | h <;> rw [h]
      simp only [updMean_fixed]

theorem store_good (replace : Bool) (ds : Option SDs) (hg : ∀ s, ds = some s → Good s)
    (data : List Val) : ∀ s, storeFeature .fixed replace ds data = some s → Good s := by
  intro s hs
  unfold storeFeature at hs
  split at hs
  · cases replace
    · exact hg s (by simpa using hs)
    · simp at hs
  · injection hs with hs
    subst hs
    cases replace
    · exact (write_exact ds hg data).1.good
    · exact (write_exact none (by intro s h; cases h) data).1.good

theorem appends_from_good (chunks : List (List Val)) :
    ∀ (ds : Option SDs), (∀ s, ds = some s → Good s) →
      ∀ s, chunks.foldl (fun ds c => storeFeature .fixed false ds c) ds = some s → Good s := by
  induction chunks with
  | nil => intro ds hg s hs; exact hg s hs
  | cons c cs ih =>
    intro ds hg
    simp only [List.foldl_cons]
    exact ih _ (store_good false ds hg c)

/-- data after successive append calls: the concatenation (empty calls are rejected by the
writer and change nothing) -/
theorem appends_data (chunks : List (List Val)) :
    ∀ (ds : Option SDs),
      ((chunks.foldl (fun ds c => storeFeature .fixed false ds c) ds).map (·.data)).getD [] =
        (ds.map (·.data)).getD [] ++ chunks.flatten := by
  induction chunks with
  | nil => intro ds; simp
  | cons c cs ih =>
    intro ds
    simp only [List.foldl_cons, List.flatten_cons]
    rw [ih]
    unfold storeFeature
    by_cases hc : c.isEmpty = true
    · simp only [hc, if_true, Bool.false_eq_true, if_false]
      rw [List.isEmpty_iff.mp hc]
      simp
    · simp only [hc, if_false, Bool.false_eq_true]
      cases ds <;> simp [writeScalar, List.append_assoc]

/-- the attributes are really stored (not merely "absent or true") as soon as one call with
data was made -/
theorem appends_exact (chunks : List (List Val)) (last : List Val) (hne : last ≠ []) (s : SDs)
    (h : appends .fixed (chunks ++ [last]) = some s) :
    Exact s ∧ s.data = (chunks ++ [last]).flatten := by
  have hd := appends_data (chunks ++ [last]) none
  unfold appends at h hd
  rw [h] at hd
  simp only [Option.map_some, Option.getD_some, Option.map_none, Option.getD_none,
    List.nil_append] at hd
  refine ⟨?_, hd⟩
  rw [List.foldl_append] at h
  simp only [List.foldl_cons, List.foldl_nil] at h
  unfold storeFeature at h
  have : last.isEmpty = false := by
    cases last with
    | nil => exact absurd rfl hne
    | cons _ _ => rfl
  simp only [this, Bool.false_eq_true, if_false] at h
  injection h with h
  subst h
  exact (write_exact _ (appends_from_good chunks none (by intro s h; cases h)) last).1

/-- the reader returns the true summaries whenever the stored ones are absent or true -/
theorem report_of_good (s : SDs) (h : Good s) : report s = truth s.data := by
  obtain ⟨h1, h2, h3⟩ := h
  unfold report truth
  rcases h1 with h1 | h1 <;> rcases h2 with h2 | h2 <;> rcases h3 with h3 | h3 <;>
    simp [h1, h2, h3]

theorem store_replace_good (ds : Option SDs) (data : List Val) :
    ∀ s, storeFeature .fixed true ds data = some s → Good s := by
  intro s hs
  unfold storeFeature at hs
  split at hs
  · simp at hs
  · injection hs with hs
    subst hs
    exact (write_exact none (by intro s h; cases h) data).1.good

/-- the precondition on input files: summaries stored in a file that dclab did not write are
absent or true.  Everything dclab stores itself needs no assumption, and a feature that is
re-written (replace mode) or exported is trusted whatever it was before. -/
def Trusted : Hist → Prop
  | .write _ => True
  | .foreign s => Good s
  | .rewrite _ _ => True
  | .append h _ => Trusted h
  | .strip h _ _ _ => Trusted h
  | .copy h => Trusted h
  | .exported _ _ => True

theorem build_good : ∀ (h : Hist), Trusted h → ∀ (s : SDs), build .fixed h = some s → Good s := by
  intro h
  induction h with
  | write chunks =>
    intro _ s hs
    exact appends_from_good chunks none (by intro s h; cases h) s hs
  | foreign s0 =>
    intro ht s hs
    simp only [build, Option.some.injEq] at hs
    subst hs
    exact ht
  | rewrite h data _ =>
    intro _ s hs
    exact store_replace_good _ data s hs
  | append h chunks ih =>
    intro ht s hs
    exact appends_from_good chunks _ (ih ht) s hs
  | strip h a b c ih =>
    intro ht s hs
    simp only [build, Option.map_eq_some_iff] at hs
    obtain ⟨s0, h0, rfl⟩ := hs
    obtain ⟨h1, h2, h3⟩ := ih ht s0 h0
    refine ⟨?_, ?_, ?_⟩
    · cases a <;> simp [strip, h1]
    · cases b <;> simp [strip, h2]
    · cases c <;> simp [strip, h3]
  | copy h ih =>
    intro ht s hs
    simp only [build, Option.map_eq_some_iff] at hs
    obtain ⟨s0, h0, rfl⟩ := hs
    obtain ⟨h1, h2, h3⟩ := ih ht s0 h0
    refine ⟨Or.inr ?_, Or.inr ?_, Or.inr ?_⟩
    · rcases h1 with h | h <;> simp [copyDs, h]
    · rcases h2 with h | h <;> simp [copyDs, h]
    · rcases h3 with h | h <;> simp [copyDs, h]
  | exported h mask _ =>
    intro _ s hs
    simp only [build] at hs
    split at hs
    · cases hs
    · exact store_good false none (by intro s h; cases h) _ s hs

/-! ### order does not matter; mapped basins -/

theorem vmin_comm (a b : Val) : vmin a b = vmin b a := by
  cases a <;> cases b <;> simp [vmin, Val.le] <;> grind

theorem vmax_comm (a b : Val) : vmax a b = vmax b a := by
  cases a <;> cases b <;> simp [vmax, Val.le] <;> grind

theorem vadd_comm (a b : Val) : vadd a b = vadd b a := by
  cases a <;> cases b <;> simp [vadd] <;> grind

theorem nanmin_perm {a b : List Val} (h : a.Perm b) : nanmin a = nanmin b := by
  unfold nanmin
  exact h.foldl_eq' (fun x _ y _ z => by rw [vmin_assoc, vmin_comm x y, ← vmin_assoc]) nan

theorem nanmax_perm {a b : List Val} (h : a.Perm b) : nanmax a = nanmax b := by
  unfold nanmax
  exact h.foldl_eq' (fun x _ y _ z => by rw [vmax_assoc, vmax_comm x y, ← vmax_assoc]) nan

theorem nansum_perm {a b : List Val} (h : a.Perm b) : nansum a = nansum b := by
  unfold nansum valid
  exact (h.filter _).foldl_eq' (fun x _ y _ z => by rw [vadd_assoc, vadd_comm x y, ← vadd_assoc]) _

theorem nancount_perm {a b : List Val} (h : a.Perm b) : nancount a = nancount b := by
  unfold nancount valid
  exact (h.filter _).length_eq

theorem truth_perm {a b : List Val} (h : a.Perm b) : truth a = truth b := by
  unfold truth nanmean
  rw [nanmin_perm h, nanmax_perm h, nansum_perm h, nancount_perm h]

theorem gather_range (o : List Val) : gather o (List.range o.length) = o := by
  unfold gather
  apply List.ext_getElem
  · simp
  · intro i h1 h2
    simp at h1
    simp [h1]

/-- a mapping that is a permutation of the basin's indices merely reorders the events -/
theorem gather_perm (o : List Val) (m : List Nat) (h : m.Perm (List.range o.length)) :
    (gather o m).Perm o := by
  have := h.map (fun i => o.getD i nan)
  rw [show (List.range o.length).map (fun i => o.getD i nan) = o from gather_range o] at this
  exact this

theorem gather_append (o : List Val) (m1 m2 : List Nat) :
    gather o (m1 ++ m2) = gather o m1 ++ gather o m2 := by simp [gather]

theorem proxyArray_fresh (s : SDs) (m : List Nat) :
    (proxyArray { origin := s, map := m, cache := none }).2 = gather s.data m := rfl

theorem nanmax_cons (x : Val) (l : List Val) : nanmax (x :: l) = vmax x (nanmax l) := by
  have := nanmax_append [x] l
  simpa [nanmax, vmax_nan_left] using this

/-- the basin feature that is 1 at event `j` and 0 elsewhere -/
def indicator (n j : Nat) : List Val := (List.range n).map (fun i => if i = j then fin 1 else fin 0)

theorem nanmax_zero_one : ∀ (l : List Val), (∀ x ∈ l, x = fin 0 ∨ x = fin 1) →
    (nanmax l = nan ∨ nanmax l = fin 0 ∨ nanmax l = fin 1) ∧ (fin 1 ∈ l → nanmax l = fin 1)
  | [], _ => ⟨Or.inl rfl, by simp⟩
  | x :: l, h => by
    obtain ⟨ih1, ih2⟩ := nanmax_zero_one l (fun y hy => h y (List.mem_cons_of_mem _ hy))
    rw [nanmax_cons]
    have hx := h x List.mem_cons_self
    constructor
    · rcases hx with hx | hx <;> rcases ih1 with h1 | h1 | h1 <;> rw [hx, h1] <;> decide +kernel
    · intro hm
      rcases List.mem_cons.mp hm with hm | hm
      · rw [← hm]
        rcases ih1 with h1 | h1 | h1 <;> rw [h1] <;> decide +kernel
      · rw [ih2 hm]
        rcases hx with hx | hx <;> rw [hx] <;> decide +kernel

theorem nanmax_all_zero : ∀ (l : List Val), l ≠ [] → (∀ x ∈ l, x = fin 0) → nanmax l = fin 0
  | [], h, _ => absurd rfl h
  | [x], _, h => by rw [h x List.mem_cons_self]; decide +kernel
  | x :: y :: l, _, h => by
    rw [nanmax_cons, nanmax_all_zero (y :: l) (by simp) (fun z hz => h z (List.mem_cons_of_mem _ hz)),
      h x List.mem_cons_self]
    decide +kernel

theorem indicator_getD (n j i : Nat) (hi : i < n) :
    (indicator n j).getD i nan = if i = j then fin 1 else fin 0 := by
  simp [indicator, hi]

/-- **omissions matter**: whatever the length of the mapping, as soon as it omits one basin event
there is a basin feature whose maximum the mapped feature does not have -/
theorem omitted_index_changes_max (n j : Nat) (m : List Nat) (hj : j < n)
    (hm : mapOk n m = true) (hne : m ≠ []) (hom : j ∉ m) :
    nanmax (gather (indicator n j) m) = fin 0 ∧ nanmax (indicator n j) = fin 1 := by
  constructor
  · apply nanmax_all_zero
    · simpa [gather] using hne
    · intro x hx
      simp only [gather, List.mem_map] at hx
      obtain ⟨i, hi, rfl⟩ := hx
      have hlt : i < n := by
        simp only [mapOk, List.all_eq_true, decide_eq_true_eq] at hm
        exact hm i hi
      rw [indicator_getD n j i hlt]
      have : i ≠ j := fun h => hom (h ▸ hi)
      simp [this]
  · apply (nanmax_zero_one (indicator n j) ?_).2
    · simp only [indicator, List.mem_map, List.mem_range]
      exact ⟨j, hj, by simp⟩
    · intro x hx
      simp only [indicator, List.mem_map] at hx
      obtain ⟨i, _, rfl⟩ := hx
      by_cases h : i = j <;> simp [h]

/-- appending to a dataset whose summaries are absent or true -/
theorem appends_exact_from (s0 : SDs) (hg : Good s0) (chunks : List (List Val)) (last : List Val)
    (hne : last ≠ []) (s : SDs)
    (h : (chunks ++ [last]).foldl (fun ds c => storeFeature .fixed false ds c) (some s0) = some s) :
    Exact s ∧ s.data = s0.data ++ (chunks ++ [last]).flatten := by
  have hd := appends_data (chunks ++ [last]) (some s0)
  rw [h] at hd
  simp only [Option.map_some, Option.getD_some] at hd
  refine ⟨?_, hd⟩
  rw [List.foldl_append] at h
  simp only [List.foldl_cons, List.foldl_nil] at h
  unfold storeFeature at h
  have : last.isEmpty = false := by
    cases last with
    | nil => exact absurd rfl hne
    | cons _ _ => rfl
  simp only [this, Bool.false_eq_true, if_false] at h
  injection h with h
  subst h
  exact (write_exact _ (appends_from_good chunks (some s0)
    (by intro s h; cases h; exact hg)) last).1

/-- a mapping of the basin's length with valid indices that references every basin event is a
permutation of the basin's events (pigeonhole) -/
theorem perm_of_covering (n : Nat) (m : List Nat) (hl : m.length = n)
    (hc : ∀ j, j < n → j ∈ m) : m.Perm (List.range n) := by
  have hsub : List.range n ⊆ m := by
    intro j hj
    exact hc j (List.mem_range.mp hj)
  have hsp := List.subperm_of_subset List.nodup_range hsub
  exact (hsp.perm_of_length_le (by simp [hl])).symm

/-- **characterisation.** For a mapping as long as the basin (valid indices), exactly one of the two
holds: it is a permutation of the basin's events, or it omits a basin event -/
theorem same_length_perm_or_omits (n : Nat) (m : List Nat) (hl : m.length = n) :
    m.Perm (List.range n) ∨ ∃ j, j < n ∧ j ∉ m := by
  by_cases h : ∀ j, j < n → j ∈ m
  · exact Or.inl (perm_of_covering n m hl h)
  · right
    have ⟨j, hj⟩ := Classical.not_forall.mp h
    exact ⟨j, Classical.not_imp.mp hj⟩



end DclabModel.Summary
