import DclabModel.Model.Summary
/-!
Helper lemmas for C20: `vmin`/`vmax`/`vadd` are associative with identity `nan` resp. `fin 0`,
hence the NaN-ignoring folds distribute over `++`; `vscale (vdiv s n) n = s`.
-/
namespace DclabModel.Summary
open Val

theorem vmin_nan_right (a : Val) : vmin a nan = a := by cases a <;> rfl
theorem vmax_nan_right (a : Val) : vmax a nan = a := by cases a <;> rfl
theorem vmin_nan_left (a : Val) : vmin nan a = a := rfl
theorem vmax_nan_left (a : Val) : vmax nan a = a := rfl

theorem vmin_assoc (a b c : Val) : vmin (vmin a b) c = vmin a (vmin b c) := by
  cases a <;> cases b <;> cases c <;> simp [vmin, Val.le] <;> grind

theorem vmax_assoc (a b c : Val) : vmax (vmax a b) c = vmax a (vmax b c) := by
  cases a <;> cases b <;> cases c <;> simp [vmax, Val.le] <;> grind

theorem vadd_assoc (a b c : Val) : vadd (vadd a b) c = vadd a (vadd b c) := by
  cases a <;> cases b <;> cases c <;> simp [vadd] <;> grind

theorem vadd_zero_right (a : Val) : vadd a (fin 0) = a := by
  cases a <;> simp [vadd, Rat.add_zero]

theorem vadd_zero_left (a : Val) : vadd (fin 0) a = a := by
  cases a <;> simp [vadd, Rat.zero_add]

/-- a fold of an associative operation started at `x` -/
theorem foldl_assoc_start {op : Val → Val → Val} (e : Val)
    (assoc : ∀ a b c, op (op a b) c = op a (op b c)) (idr : ∀ a, op a e = a)
    (idl : ∀ a, op e a = a) (l : List Val) (x : Val) :
    l.foldl op x = op x (l.foldl op e) := by
  induction l generalizing x with
  | nil => simp [idr]
  | cons h t ih =>
    simp only [List.foldl_cons]
    rw [ih (op x h), ih (op e h), idl, assoc]

theorem nanmin_append (a b : List Val) : nanmin (a ++ b) = vmin (nanmin a) (nanmin b) := by
  unfold nanmin
  rw [List.foldl_append, foldl_assoc_start nan vmin_assoc vmin_nan_right vmin_nan_left]

theorem nanmax_append (a b : List Val) : nanmax (a ++ b) = vmax (nanmax a) (nanmax b) := by
  unfold nanmax
  rw [List.foldl_append, foldl_assoc_start nan vmax_assoc vmax_nan_right vmax_nan_left]

theorem valid_append (a b : List Val) : valid (a ++ b) = valid a ++ valid b := by
  simp [valid]

theorem nansum_append (a b : List Val) : nansum (a ++ b) = vadd (nansum a) (nansum b) := by
  unfold nansum
  rw [valid_append, List.foldl_append,
    foldl_assoc_start (fin 0) vadd_assoc vadd_zero_right vadd_zero_left]

theorem nancount_append (a b : List Val) : nancount (a ++ b) = nancount a + nancount b := by
  simp [nancount, valid_append]

theorem nansum_of_count_zero (l : List Val) (h : nancount l = 0) : nansum l = fin 0 := by
  unfold nancount at h
  unfold nansum
  rw [List.length_eq_zero_iff.mp h]
  rfl

theorem vscale_vdiv (s : Val) (n : Nat) (h : 0 < n) : vscale (vdiv s n) n = s := by
  have hn : n ≠ 0 := by omega
  have hq : (n : Rat) ≠ 0 := by
    intro h0
    exact hn (by exact_mod_cast h0)
  cases s <;> simp [vdiv, vscale, hn]
  rw [Rat.div_mul_cancel hq]

/-- the repaired update rule is exact -/
theorem updMean_fixed (old data : List Val) :
    updMean .fixed (nanmean old) old data = nanmean (old ++ data) := by
  simp only [updMean]
  by_cases hb : nancount data = 0
  · simp only [hb, if_true]
    unfold nanmean
    rw [nansum_append, nancount_append, hb, nansum_of_count_zero data hb, vadd_zero_right,
      Nat.add_zero]
  · simp only [hb, if_false]
    by_cases ha : nancount old = 0
    · simp only [ha, if_true]
      unfold nanmean
      rw [nansum_append, nancount_append, ha, nansum_of_count_zero old ha, vadd_zero_left,
        Nat.zero_add]
    · simp only [ha, if_false]
      unfold nanmean
      rw [vscale_vdiv _ _ (by omega), vscale_vdiv _ _ (by omega), nansum_append,
        nancount_append]

/-- every stored summary is either absent or the true one -/
def Good (s : SDs) : Prop :=
  (s.mn = none ∨ s.mn = some (nanmin s.data)) ∧
  (s.mx = none ∨ s.mx = some (nanmax s.data)) ∧
  (s.mean = none ∨ s.mean = some (nanmean s.data))

/-- all three summaries are stored and true -/
def Exact (s : SDs) : Prop :=
  s.mn = some (nanmin s.data) ∧ s.mx = some (nanmax s.data) ∧ s.mean = some (nanmean s.data)

theorem Exact.good {s : SDs} (h : Exact s) : Good s := ⟨Or.inr h.1, Or.inr h.2.1, Or.inr h.2.2⟩

/-- one call of `write_ndarray` (scalar branch, repaired rule): whatever was stored before was
absent or true ⇒ afterwards all three attributes are stored and true, and the data are
`old ++ new` -/
theorem write_exact (ds : Option SDs) (hg : ∀ s, ds = some s → Good s) (data : List Val) :
    Exact (writeScalar .fixed ds data) ∧
    (writeScalar .fixed ds data).data = (ds.map (·.data)).getD [] ++ data := by
  cases ds with
  | none => exact ⟨⟨rfl, rfl, rfl⟩, rfl⟩
  | some s =>
    obtain ⟨h1, h2, h3⟩ := hg s rfl
    refine ⟨⟨?_, ?_, ?_⟩, rfl⟩
    · simp only [writeScalar]
      rcases h1 with h | h <;> rw [h]
      simp only [nanmin_append]
    · simp only [writeScalar]
      rcases h2 with h | h <;> rw [h]
      simp only [nanmax_append]
    · simp only [writeScalar]
      rcases h3 with h | h <;> rw [h]
      simp only [updMean_fixed]

theorem store_good (replace : Bool) (ds : Option SDs) (hg : ∀ s, ds = some s → Good s)
    (data : List Val) : ∀ s, storeFeature .fixed replace ds data = some s → Good s := by
  intro s hs
  unfold storeFeature at hs
  split at hs
  · cases replace
    · exact hg s (by simpa using hs)
    · simp at hs
  · injection hs with hs
    subst hs
    cases replace
    · exact (write_exact ds hg data).1.good
    · exact (write_exact none (by intro s h; cases h) data).1.good

theorem appends_from_good (chunks : List (List Val)) :
    ∀ (ds : Option SDs), (∀ s, ds = some s → Good s) →
      ∀ s, chunks.foldl (fun ds c => storeFeature .fixed false ds c) ds = some s → Good s := by
  induction chunks with
  | nil => intro ds hg s hs; exact hg s hs
  | cons c cs ih =>
    intro ds hg
    simp only [List.foldl_cons]
    exact ih _ (store_good false ds hg c)

/-- data after successive append calls: the concatenation (empty calls are rejected by the
writer and change nothing) -/
theorem appends_data (chunks : List (List Val)) :
    ∀ (ds : Option SDs),
      ((chunks.foldl (fun ds c => storeFeature .fixed false ds c) ds).map (·.data)).getD [] =
        (ds.map (·.data)).getD [] ++ chunks.flatten := by
  induction chunks with
  | nil => intro ds; simp
  | cons c cs ih =>
    intro ds
    simp only [List.foldl_cons, List.flatten_cons]
    rw [ih]
    unfold storeFeature
    by_cases hc : c.isEmpty = true
    · simp only [hc, if_true, Bool.false_eq_true, if_false]
      rw [List.isEmpty_iff.mp hc]
      simp
    · simp only [hc, if_false, Bool.false_eq_true]
      cases ds <;> simp [writeScalar, List.append_assoc]

/-- the attributes are really stored (not merely "absent or true") as soon as one call with
data was made -/
theorem appends_exact (chunks : List (List Val)) (last : List Val) (hne : last ≠ []) (s : SDs)
    (h : appends .fixed (chunks ++ [last]) = some s) :
    Exact s ∧ s.data = (chunks ++ [last]).flatten := by
  have hd := appends_data (chunks ++ [last]) none
  unfold appends at h hd
  rw [h] at hd
  simp only [Option.map_some, Option.getD_some, Option.map_none, Option.getD_none,
    List.nil_append] at hd
  refine ⟨?_, hd⟩
  rw [List.foldl_append] at h
  simp only [List.foldl_cons, List.foldl_nil] at h
  unfold storeFeature at h
  have : last.isEmpty = false := by
    cases last with
    | nil => exact absurd rfl hne
    | cons _ _ => rfl
  simp only [this, Bool.false_eq_true, if_false] at h
  injection h with h
  subst h
  exact (write_exact _ (appends_from_good chunks none (by intro s h; cases h)) last).1

/-- the reader returns the true summaries whenever the stored ones are absent or true -/
theorem report_of_good (s : SDs) (h : Good s) : report s = truth s.data := by
  obtain ⟨h1, h2, h3⟩ := h
  unfold report truth
  rcases h1 with h1 | h1 <;> rcases h2 with h2 | h2 <;> rcases h3 with h3 | h3 <;>
    simp [h1, h2, h3]

theorem store_replace_good (ds : Option SDs) (data : List Val) :
    ∀ s, storeFeature .fixed true ds data = some s → Good s := by
  intro s hs
  unfold storeFeature at hs
  split at hs
  · simp at hs
  · injection hs with hs
    subst hs
    exact (write_exact none (by intro s h; cases h) data).1.good

/-- the precondition on input files: summaries stored in a file that dclab did not write are
absent or true.  Everything dclab stores itself needs no assumption, and a feature that is
re-written (replace mode) or exported is trusted whatever it was before. -/
def Trusted : Hist → Prop
  | .write _ => True
  | .foreign s => Good s
  | .rewrite _ _ => True
  | .append h _ => Trusted h
  | .strip h _ _ _ => Trusted h
  | .copy h => Trusted h
  | .exported _ _ => True

theorem build_good : ∀ (h : Hist), Trusted h → ∀ (s : SDs), build .fixed h = some s → Good s := by
  intro h
  induction h with
  | write chunks =>
    intro _ s hs
    exact appends_from_good chunks none (by intro s h; cases h) s hs
  | foreign s0 =>
    intro ht s hs
    simp only [build, Option.some.injEq] at hs
    subst hs
    exact ht
  | rewrite h data _ =>
    intro _ s hs
    exact store_replace_good _ data s hs
  | append h chunks ih =>
    intro ht s hs
    exact appends_from_good chunks _ (ih ht) s hs
  | strip h a b c ih =>
    intro ht s hs
    simp only [build, Option.map_eq_some_iff] at hs
    obtain ⟨s0, h0, rfl⟩ := hs
    obtain ⟨h1, h2, h3⟩ := ih ht s0 h0
    refine ⟨?_, ?_, ?_⟩
    · cases a <;> simp [strip, h1]
    · cases b <;> simp [strip, h2]
    · cases c <;> simp [strip, h3]
  | copy h ih =>
    intro ht s hs
    simp only [build, Option.map_eq_some_iff] at hs
    obtain ⟨s0, h0, rfl⟩ := hs
    obtain ⟨h1, h2, h3⟩ := ih ht s0 h0
    refine ⟨Or.inr ?_, Or.inr ?_, Or.inr ?_⟩
    · rcases h1 with h | h <;> simp [copyDs, h]
    · rcases h2 with h | h <;> simp [copyDs, h]
    · rcases h3 with h | h <;> simp [copyDs, h]
  | exported h mask _ =>
    intro _ s hs
    simp only [build] at hs
    split at hs
    · cases hs
    · exact store_good false none (by intro s h; cases h) _ s hs

end DclabModel.Summary
