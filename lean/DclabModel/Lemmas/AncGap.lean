import DclabModel.Lemmas.AncFuel
/-!
Whether reading succeeds depends only on WHICH keys / features are present, on the channel
flag and on whether the medium is "other" — never on other values.  This lifts the exact
availability-gap theorems from the enumerated combinations to arbitrary values (C06).
Core Lean only.
-/
namespace DclabModel.Anc

theorem get_zip_map {β : Type} (g : String → β) (k : String) :
    ∀ (l : List String), get k (l.zip (l.map g)) = if k ∈ l then some (g k) else none
  | [] => by simp [get]
  | x :: xs => by
    simp only [List.map_cons, List.zip_cons_cons, get]
    by_cases h : x = k
    · subst h; simp
    · rw [if_neg h, get_zip_map g k xs]
      have : (k ∈ x :: xs) ↔ k ∈ xs := by
        simp only [List.mem_cons]
        exact ⟨fun hh => hh.resolve_left (fun e => h e.symm), Or.inr⟩
      simp only [this]

theorem get_map_pair {β : Type} (g : String → β) (k : String) :
    ∀ (l : List String), get k (l.map (fun o => (o, g o))) = if k ∈ l then some (g k) else none
  | [] => by simp [get]
  | x :: xs => by
    simp only [List.map_cons, get]
    by_cases h : x = k
    · subst h; simp
    · rw [if_neg h, get_map_pair g k xs]
      have : (k ∈ x :: xs) ↔ k ∈ xs := by
        simp only [List.mem_cons]
        exact ⟨fun hh => hh.resolve_left (fun e => h e.symm), Or.inr⟩
      simp only [this]

theorem present_zip_map (g : String → Option String) (k : String) (l : List String) :
    present k (l.zip (l.map g)) = (decide (k ∈ l) && (g k).isSome) := by
  simp only [present, get_zip_map]
  by_cases h : k ∈ l
  · simp only [h, if_true, decide_true, Bool.true_and]; cases g k <;> rfl
  · simp [h]

theorem raises_congr (m : String) {fv fv' : List (Feat × Option String)}
    {cv cv' : List (Key × Option String)}
    (hf : ∀ k, present k fv = present k fv') (hc : ∀ k, present k cv = present k cv')
    (ho : otherFlag cv = otherFlag cv') : raises m fv cv = raises m fv' cv' := by
  unfold raises
  simp only [hf, hc, ho]

theorem otherFlag_zip (s : St String String) (l : List Key) :
    otherFlag (l.zip (l.map (getC s)))
      = if "calculation:emodulus medium" ∈ l then otherS s else true := by
  simp only [otherFlag, get_zip_map, otherS]
  by_cases h : "calculation:emodulus medium" ∈ l
  · simp only [h, if_true]; cases getC s "calculation:emodulus medium" <;> rfl
  · simp only [h, if_false]

/-- success of a read on a fresh dataset depends on presence, the channel flag and the
"other" flag only -/
theorem fresh_isSome_presence (ps : List Spec) (innate : List (Feat × String))
    {s s' : St String String}
    (hc : ∀ k, (getC s k).isSome = (getC s' k).isSome)
    (hb : ∀ f, (base (envOf ps innate) s f).isSome = (base (envOf ps innate) s' f).isSome)
    (hch : (envOf ps innate).chanOk (getC s chipKey) = (envOf ps innate).chanOk (getC s' chipKey))
    (ho : otherS s = otherS s') :
    ∀ (n : Nat) (f : Feat),
      (fresh (envOf ps innate) n s f).isSome = (fresh (envOf ps innate) n s' f).isSome
  | 0, f => hb f
  | n + 1, f => by
    have ih := fresh_isSome_presence ps innate hc hb hch ho n
    have hbf := hb f
    simp only [fresh]
    cases h1 : base (envOf ps innate) s f with
    | some d =>
      cases h2 : base (envOf ps innate) s' f with
      | some d' => rfl
      | none => rw [h1, h2] at hbf; cases hbf
    | none =>
      cases h2 : base (envOf ps innate) s' f with
      | some d' => rw [h1, h2] at hbf; cases hbf
      | none =>
        simp only
        rw [selected_presence hc hb hch (n + 1) f]
        cases hsel : selected (envOf ps innate) (n + 1) s' f with
        | none => rfl
        | some r =>
          obtain ⟨hr, _, _⟩ := selected_some hsel
          simp only [envOf, List.mem_map] at hr
          obtain ⟨p, _, rfl⟩ := hr
          have hall : allSome (p.toRecipe.reqF.map (fun g => (g, fresh (envOf ps innate) n s g)))
              = allSome (p.toRecipe.reqF.map (fun g => (g, fresh (envOf ps innate) n s' g))) := by
            simp only [allSome, List.all_map]
            apply all_congr_mem
            intro g _
            exact ih g
          simp only
          rw [hall]
          split
          · have hrz : raises p.method (p.readsF.zip (p.readsF.map (fresh (envOf ps innate) n s)))
                  (p.readsC.zip (p.readsC.map (getC s)))
                = raises p.method (p.readsF.zip (p.readsF.map (fresh (envOf ps innate) n s')))
                  (p.readsC.zip (p.readsC.map (getC s'))) := by
              apply raises_congr
              · intro k; rw [present_zip_map, present_zip_map, ih k]
              · intro k; rw [present_zip_map, present_zip_map, hc k]
              · rw [otherFlag_zip, otherFlag_zip, ho]
            simp only [Spec.toRecipe, sem, hrz]
            split
            · rfl
            · simp only [Option.bind, get_map_pair]
              split <;> rfl
          · rfl

end DclabModel.Anc
