import DclabModel.Model.Anc
/-!
Helper lemmas for property C06: the cache invariant ("every cache entry equals the fresh value
for the inputs its hash was taken from"), soundness of a hash hit, and the lock-step of
`getitem` (long-lived dataset) and `fresh` (freshly opened dataset).  Core Lean only.
-/
namespace DclabModel.Anc
variable {D V : Type}

/-! ## association lists -/

theorem get_mem {α β : Type} [DecidableEq α] {k : α} {v : β} :
    ∀ {l : List (α × β)}, get k l = some v → (k, v) ∈ l
  | [], h => by simp [get] at h
  | (k', v') :: r, h => by
    simp only [get] at h
    split at h
    · rename_i hk; cases h; subst hk; exact List.mem_cons_self
    · exact List.mem_cons_of_mem _ (get_mem h)

theorem get_store (C : Cache D V) (h : Hash D V) (outs : List (Feat × D)) (f : Feat) :
    get f (store C h outs) = match get f outs with
      | some d => some (h, d)
      | none => get f C := by
  induction outs with
  | nil => simp [store, get]
  | cons p ps ih =>
    obtain ⟨k, v⟩ := p
    simp only [store, List.map_cons, List.cons_append, get] at ih ⊢
    by_cases hk : k = f
    · simp [hk]
    · simp only [hk, if_false]; exact ih

theorem get_put_ne {α β : Type} [DecidableEq α] (k k' : α) (v : β) (l : List (α × β))
    (h : k' ≠ k) (hn : get k l = none) : get k (put k' v l) = none := by
  simp only [put, get, h, if_false]
  induction l with
  | nil => simp [get]
  | cons p ps ih =>
    obtain ⟨a, b⟩ := p
    simp only [get] at hn
    by_cases ha : a = k
    · simp [ha] at hn
    · simp only [ha, if_false] at hn
      simp only [List.filter_cons]
      split
      · simp only [get, ha, if_false]; exact ih hn
      · exact ih hn

theorem map_pair_eq {α β : Type} (a b : α → β) :
    ∀ (l l' : List α), l.map (fun g => (g, a g)) = l'.map (fun g => (g, b g)) →
      l = l' ∧ ∀ g ∈ l, a g = b g
  | [], [], _ => ⟨rfl, by simp⟩
  | [], _ :: _, h => by simp at h
  | _ :: _, [], h => by simp at h
  | x :: xs, y :: ys, h => by
    simp only [List.map_cons, List.cons.injEq, Prod.mk.injEq] at h
    obtain ⟨⟨hxy, hab⟩, ht⟩ := h
    obtain ⟨h1, h2⟩ := map_pair_eq a b xs ys ht
    subst hxy
    refine ⟨by rw [h1], ?_⟩
    intro g hg
    rcases List.mem_cons.mp hg with rfl | hg
    · exact hab
    · exact h2 g hg

/-! ## selection -/

theorem selected_some {e : Env D V} {n : Nat} {s : St D V} {f : Feat} {r : Recipe D V}
    (h : selected e n s f = some r) : r ∈ e.reg ∧ r.name = f ∧ recAvail e n s r = true := by
  unfold selected at h
  have hm : r ∈ e.reg.filter (fun r => r.name == f && recAvail e n s r) := by
    obtain ⟨ys, hys⟩ := List.getLast?_eq_some_iff.mp h
    rw [hys]; simp
  rw [List.mem_filter] at hm
  refine ⟨hm.1, ?_⟩
  have := hm.2
  simp only [Bool.and_eq_true, beq_iff_eq] at this
  exact this

theorem selected_none_of_nonAnc {e : Env D V} {g : Feat} (h : ¬ isAnc e g) (n : Nat) (s : St D V) :
    selected e n s g = none := by
  unfold selected
  have : e.reg.filter (fun r => r.name == g && recAvail e n s r) = [] := by
    rw [List.filter_eq_nil_iff]
    intro r hr hc
    simp only [Bool.and_eq_true, beq_iff_eq] at hc
    exact h ⟨r, hr, hc.1⟩
  rw [this]; rfl

theorem fresh_nonAnc {e : Env D V} {g : Feat} (h : ¬ isAnc e g) (n : Nat) (s : St D V) :
    fresh e n s g = base e s g := by
  cases n with
  | zero => rfl
  | succ n =>
    simp only [fresh, selected_none_of_nonAnc h]
    cases base e s g <;> rfl

/-! ## the cache invariant -/

/-- the entry `(h, d)` stored under `f` equals the fresh value for the inputs `h` was taken
from: there is a state `s0`, a registered recipe `r0` producing `f` and a view `v0` of the
features such that `h` is `r0`'s hash there and `d` is what `r0` computes there -/
def EntryOK (e : Env D V) (f : Feat) (h : Hash D V) (d : D) : Prop :=
  ∃ (s0 : St D V) (r0 : Recipe D V) (v0 : Feat → Option D),
    Wf e s0 ∧ r0 ∈ e.reg ∧ f ∈ r0.outs ∧ (∀ g, ¬ isAnc e g → v0 g = base e s0 g) ∧
    h = mkHash e s0 r0 (r0.reqF.map (fun g => (g, v0 g))) ∧
    (r0.compute (r0.readsF.map v0) (r0.readsC.map (getC s0))).bind (get f) = some d

def Inv (e : Env D V) (C : Cache D V) : Prop :=
  ∀ f h d, get f C = some (h, d) → EntryOK e f h d

theorem inv_nil (e : Env D V) : Inv e ([] : Cache D V) := by
  intro f h d hg; simp [get] at hg

theorem base_fixed {e : Env D V} {s s0 : St D V} (hw : Wf e s) (hw0 : Wf e s0) {g : Feat}
    (hg : g ∈ e.fixedF) : base e s g = base e s0 g := by
  simp only [base, hw g hg, hw0 g hg]

/-- a hash hit is sound: if the recipe selected now has, in the current state, the hash under
which the entry was stored, the entry is what the recipe would compute now -/
theorem hit_sound {e : Env D V} (hs : Sound e) {s : St D V} (hw : Wf e s) {r : Recipe D V}
    (hr : r ∈ e.reg) (v : Feat → Option D) (hv : ∀ g, ¬ isAnc e g → v g = base e s g)
    {h : Hash D V} {d : D} (hok : EntryOK e r.name h d)
    (hh : h = mkHash e s r (r.reqF.map (fun g => (g, v g)))) :
    (r.compute (r.readsF.map v) (r.readsC.map (getC s))).bind (get r.name) = some d := by
  obtain ⟨s0, r0, v0, hw0, hr0, hout, hv0, hh0, hd⟩ := hok
  rw [hh] at hh0
  simp only [mkHash, Hash.mk.injEq] at hh0
  obtain ⟨hfs, hcs, hxc, hxf⟩ := hh0
  obtain ⟨eF, vF⟩ := map_pair_eq _ _ _ _ hfs
  obtain ⟨eC, vC⟩ := map_pair_eq _ _ _ _ hcs
  obtain ⟨eXC, vXC⟩ := map_pair_eq _ _ _ _ hxc
  obtain ⟨eXF, vXF⟩ := map_pair_eq _ _ _ _ hxf
  obtain ⟨cEq, rF, rC⟩ := hs.compat r0 hr0 r hr hout eF.symm eC.symm eXC.symm eXF.symm
  obtain ⟨covF, covC⟩ := hs.covered r hr
  have h1 : r.readsF.map v = r0.readsF.map v0 := by
    rw [rF]
    apply List.map_congr_left
    intro g hg
    rcases covF g hg with h | h | h
    · exact vF g h
    · have hna := hs.nonAnc r hr g (Or.inl h)
      rw [hv g hna, hv0 g hna]; exact vXF g h
    · have hna := hs.nonAnc r hr g (Or.inr h)
      rw [hv g hna, hv0 g hna]; exact base_fixed hw hw0 h
  have h2 : r.readsC.map (getC s) = r0.readsC.map (getC s0) := by
    rw [rC]
    apply List.map_congr_left
    intro k hk
    rcases covC k hk with h | h
    · exact vC k h
    · exact vXC k h
  rw [h1, h2, ← cEq]; exact hd

theorem inv_store {e : Env D V} (hs : Sound e) {s : St D V} (hw : Wf e s) {r : Recipe D V}
    (hr : r ∈ e.reg) (v : Feat → Option D) (hv : ∀ g, ¬ isAnc e g → v g = base e s g)
    {C : Cache D V} (hC : Inv e C) {outs : List (Feat × D)}
    (ho : r.compute (r.readsF.map v) (r.readsC.map (getC s)) = some outs) :
    Inv e (store C (mkHash e s r (r.reqF.map (fun g => (g, v g)))) outs) := by
  intro f h d hg
  rw [get_store] at hg
  split at hg
  · rename_i d' hd'
    cases hg
    refine ⟨s, r, v, hw, hr, ?_, hv, rfl, ?_⟩
    · exact hs.outsOk r hr _ _ _ ho _ (get_mem hd')
    · rw [ho]; exact hd'
  · exact hC f h d hg

theorem readAll_spec (e : Env D V) (g : Cache D V → Feat → Cache D V × Option D)
    (v : Feat → Option D)
    (hg : ∀ C f, Inv e C → (g C f).2 = v f ∧ Inv e (g C f).1) :
    ∀ (l : List Feat) (C : Cache D V), Inv e C →
      (readAll g C l).2 = l.map (fun x => (x, v x)) ∧ Inv e (readAll g C l).1
  | [], C, hC => ⟨rfl, hC⟩
  | f :: fs, C, hC => by
    obtain ⟨h1, h2⟩ := hg C f hC
    obtain ⟨h3, h4⟩ := readAll_spec e g v hg fs _ h2
    simp only [readAll, List.map_cons]
    exact ⟨by rw [h1, h3], h4⟩

theorem computeStore_spec [DecidableEq D] [DecidableEq V] {e : Env D V} (hs : Sound e)
    {s : St D V} (hw : Wf e s) {r : Recipe D V} (hr : r ∈ e.reg)
    (g : Cache D V → Feat → Cache D V × Option D) (v : Feat → Option D)
    (hv : ∀ g, ¬ isAnc e g → v g = base e s g)
    (hg : ∀ C f, Inv e C → (g C f).2 = v f ∧ Inv e (g C f).1)
    {C : Cache D V} (hC : Inv e C) (f : Feat) :
    (computeStore g C (mkHash e s r (r.reqF.map (fun x => (x, v x)))) r s f).2 =
      (r.compute (r.readsF.map v) (r.readsC.map (getC s))).bind (get f) ∧
    Inv e (computeStore g C (mkHash e s r (r.reqF.map (fun x => (x, v x)))) r s f).1 := by
  obtain ⟨h1, h2⟩ := readAll_spec e g v hg r.readsF C hC
  have hm : (readAll g C r.readsF).2.map (·.2) = r.readsF.map v := by
    rw [h1, List.map_map]; rfl
  simp only [computeStore, hm]
  cases ho : r.compute (r.readsF.map v) (r.readsC.map (getC s)) with
  | none => exact ⟨rfl, h2⟩
  | some outs =>
    cases hf : get f outs with
    | none => simp only [Option.bind, hf]; exact ⟨trivial, h2⟩
    | some d =>
      simp only [Option.bind, hf]
      exact ⟨trivial, inv_store hs hw hr v hv h2 ho⟩

/-- lock-step of the long-lived dataset and a fresh one, for every fuel -/
theorem getitem_spec [DecidableEq D] [DecidableEq V] {e : Env D V} (hs : Sound e) :
    ∀ (n : Nat) (C : Cache D V) (s : St D V) (f : Feat), Wf e s → Inv e C →
      (getitem e n C s f).2 = fresh e n s f ∧ Inv e (getitem e n C s f).1
  | 0, C, s, f, _, hC => ⟨rfl, hC⟩
  | n + 1, C, s, f, hw, hC => by
    simp only [getitem, fresh]
    cases hb : base e s f with
    | some d => exact ⟨rfl, hC⟩
    | none =>
      cases hsel : selected e (n + 1) s f with
      | none => exact ⟨rfl, hC⟩
      | some r =>
        obtain ⟨hr, hname, _⟩ := selected_some hsel
        have hg : ∀ C f, Inv e C → (getitem e n C s f).2 = fresh e n s f ∧
            Inv e (getitem e n C s f).1 := fun C f hC => getitem_spec hs n C s f hw hC
        have hv : ∀ g, ¬ isAnc e g → fresh e n s g = base e s g :=
          fun g hg => fresh_nonAnc hg n s
        obtain ⟨h1, h2⟩ := readAll_spec e (fun C g => getitem e n C s g) (fresh e n s) hg r.reqF C hC
        simp only [h1]
        by_cases hall : allSome (r.reqF.map (fun g => (g, fresh e n s g))) = true
        · simp only [hall, if_true]
          have hcs := computeStore_spec hs hw hr (fun C g => getitem e n C s g) (fresh e n s)
            hv hg h2 f
          cases hget : get f (readAll (fun C g => getitem e n C s g) C r.reqF).1 with
          | none => exact hcs
          | some hd =>
            obtain ⟨h', d⟩ := hd
            simp only
            by_cases heq : h' = mkHash e s r (r.reqF.map (fun g => (g, fresh e n s g)))
            · simp only [heq, if_true]
              refine ⟨?_, h2⟩
              have hok := h2 f h' d hget
              rw [← hname] at hok ⊢
              exact (hit_sound hs hw hr (fresh e n s) hv hok heq).symm
            · simp only [heq, if_false]; exact hcs
        · simp only [hall]; exact ⟨rfl, h2⟩

/-! ## edits -/

theorem wf_edit {e : Env D V} {s : St D V} (hw : Wf e s) (op : Op D V) : Wf e (edit e s op) := by
  cases op with
  | setT f d =>
    simp only [edit]
    split
    · exact hw
    · rename_i hn
      intro g hg
      have hne : f ≠ g := by
        intro h; subst h; exact hn (Or.inl hg)
      exact get_put_ne g f d s.temp hne (hw g hg)
  | setC k v => exact hw
  | delC k => exact hw
  | read f => exact hw
  | isin f => exact hw
  | feats => exact hw
  | child f => exact hw

/-! ## histories -/

theorem step_spec [DecidableEq D] [DecidableEq V] {e : Env D V} (hs : Sound e) (n : Nat)
    (sel : D → D) {s : St D V} {C : Cache D V} (hw : Wf e s) (hC : Inv e C) (op : Op D V) :
    (step e n sel (s, C) op).2 = (specStep e n sel s op).2 ∧
    (step e n sel (s, C) op).1.1 = (specStep e n sel s op).1 ∧
    Inv e (step e n sel (s, C) op).1.2 ∧ Wf e (step e n sel (s, C) op).1.1 := by
  cases op with
  | read f =>
    obtain ⟨h1, h2⟩ := getitem_spec hs n C s f hw hC
    simp only [step, specStep]
    exact ⟨by rw [h1], trivial, h2, hw⟩
  | child f =>
    obtain ⟨h1, h2⟩ := getitem_spec hs n C s f hw hC
    simp only [step, specStep]
    exact ⟨by rw [h1], trivial, h2, hw⟩
  | isin f => exact ⟨rfl, rfl, hC, hw⟩
  | feats => exact ⟨rfl, rfl, hC, hw⟩
  | setC k v => exact ⟨rfl, rfl, hC, wf_edit hw _⟩
  | delC k => exact ⟨rfl, rfl, hC, wf_edit hw _⟩
  | setT f d => exact ⟨rfl, rfl, hC, wf_edit hw _⟩

theorem run_spec [DecidableEq D] [DecidableEq V] {e : Env D V} (hs : Sound e) (n : Nat)
    (sel : D → D) : ∀ (ops : List (Op D V)) (s : St D V) (C : Cache D V), Wf e s → Inv e C →
      (run e n sel (s, C) ops).2 = (specRun e n sel s ops).2 ∧
      (run e n sel (s, C) ops).1.1 = (specRun e n sel s ops).1 ∧
      Inv e (run e n sel (s, C) ops).1.2 ∧ Wf e (run e n sel (s, C) ops).1.1
  | [], s, C, hw, hC => ⟨rfl, rfl, hC, hw⟩
  | op :: ops, s, C, hw, hC => by
    obtain ⟨h1, h2, h3, h4⟩ := step_spec hs n sel hw hC op
    have ih := run_spec hs n sel ops (step e n sel (s, C) op).1.1 (step e n sel (s, C) op).1.2 h4 h3
    simp only [run, specRun]
    rw [← h2]
    exact ⟨by rw [h1, ih.1], ih.2.1, ih.2.2.1, ih.2.2.2⟩

theorem specStep_state (e : Env D V) (n : Nat) (sel : D → D) (s : St D V) (op : Op D V) :
    (specStep e n sel s op).1 = edit e s op := by
  cases op <;> rfl

theorem specRun_state (e : Env D V) (n : Nat) (sel : D → D) :
    ∀ (ops : List (Op D V)) (s : St D V), (specRun e n sel s ops).1 = stateAt e s ops
  | [], _ => rfl
  | op :: ops, s => by
    simp only [specRun, stateAt, List.foldl_cons]
    rw [specRun_state e n sel ops, specStep_state]; rfl

/-! ## availability -/

/-- no registered method raises, and every method returns its own feature -/
def NoRaise (e : Env D V) : Prop :=
  ∀ r ∈ e.reg, ∀ iv cv, ∃ outs, r.compute iv cv = some outs ∧ (get r.name outs).isSome

theorem avail_eq_fresh_isSome {e : Env D V} (hn : NoRaise e) :
    ∀ (n : Nat) (s : St D V) (f : Feat), avail e n s f = (fresh e n s f).isSome
  | 0, s, f => by simp [avail, recAvail, fresh]
  | n + 1, s, f => by
    simp only [avail, fresh]
    cases hb : base e s f with
    | some d => simp
    | none =>
      simp only [Option.isSome_none, Bool.false_or]
      cases hsel : selected e (n + 1) s f with
      | none =>
        have : e.reg.filter (fun r => r.name == f && recAvail e (n + 1) s r) = [] := by
          unfold selected at hsel
          exact List.getLast?_eq_none_iff.mp hsel
        rw [List.filter_eq_nil_iff] at this
        simp only [Option.isSome_none, List.any_eq_false]
        intro r hr; exact this r hr
      | some r =>
        obtain ⟨hr, hname, hav⟩ := selected_some hsel
        have h1 : e.reg.any (fun r => r.name == f && recAvail e (n + 1) s r) = true := by
          rw [List.any_eq_true]; exact ⟨r, hr, by simp [hname, hav]⟩
        rw [h1]
        simp only [recAvail, Bool.and_eq_true, List.all_eq_true] at hav
        have h2 : allSome (r.reqF.map (fun g => (g, fresh e n s g))) = true := by
          simp only [allSome, List.all_map, List.all_eq_true, Function.comp]
          intro g hg
          have := hav.1.1.2 g hg
          have ih := avail_eq_fresh_isSome hn n s g
          simp only [avail] at ih
          rw [← ih]; exact this
        obtain ⟨outs, ho, hg⟩ := hn r hr (r.readsF.map (fresh e n s)) (r.readsC.map (getC s))
        simp only [h2, if_true, ho, Option.bind, ← hname]
        exact hg.symm

/-! ## the concrete registry -/

theorem sem_outs (m : String) (outs rf : List Feat) (rc : List Key) (iv cv : List (Option String))
    (res : List (Feat × String)) (h : sem m outs rf rc iv cv = some res) :
    ∀ p ∈ res, p.1 ∈ outs := by
  unfold sem at h
  split at h
  · cases h
  · cases h
    intro p hp
    simp only [List.mem_map] at hp
    obtain ⟨o, ho, rfl⟩ := hp
    exact ho

theorem compat_of_compatB (p0 p : Spec) (h : compatB p0 p = true) :
    Compat p0.toRecipe p.toRecipe := by
  intro hn hF hC hXC hXF
  simp only [Spec.toRecipe] at hn hF hC hXC hXF ⊢
  simp only [compatB, Bool.or_eq_true, Bool.not_eq_true', Bool.and_eq_false_iff,
    Bool.and_eq_true, beq_iff_eq, beq_eq_false_iff_ne, List.contains_eq_mem,
    decide_eq_false_iff_not] at h
  rcases h with h | h
  · rcases h with (((h | h) | h) | h) | h
    · exact absurd hn h
    · exact absurd hF h
    · exact absurd hC h
    · exact absurd hXC h
    · exact absurd hXF h
  · obtain ⟨⟨⟨hm, ho⟩, hrf⟩, hrc⟩ := h
    rw [hm, ho, hrf, hrc]; exact ⟨rfl, rfl, rfl⟩

theorem isAnc_envOf {ps : List Spec} {innate : List (Feat × String)} {g : Feat}
    (h : isAnc (envOf ps innate) g) : ∃ q ∈ ps, q.name = g := by
  obtain ⟨r, hr, hn⟩ := h
  simp only [envOf, List.mem_map] at hr
  obtain ⟨q, hq, rfl⟩ := hr
  exact ⟨q, hq, hn⟩

theorem sound_of_soundB (ps : List Spec) (innate : List (Feat × String))
    (h : soundB ps = true) : Sound (envOf ps innate) := by
  simp only [soundB, Bool.and_eq_true, List.all_eq_true] at h
  obtain ⟨⟨hcov, hcomp⟩, hna⟩ := h
  constructor
  · intro r hr
    simp only [envOf, List.mem_map] at hr
    obtain ⟨p, hp, rfl⟩ := hr
    have := hcov p hp
    simp only [coveredB, Bool.and_eq_true, List.all_eq_true, Bool.or_eq_true,
      List.contains_eq_mem, decide_eq_true_eq] at this
    refine ⟨fun g hg => ?_, fun k hk => ?_⟩
    · rcases this.1 g hg with (h | h) | h
      · exact Or.inl h
      · exact Or.inr (Or.inl h)
      · exact Or.inr (Or.inr h)
    · exact this.2 k hk
  · intro r0 hr0 r hr
    simp only [envOf, List.mem_map] at hr0 hr
    obtain ⟨p0, hp0, rfl⟩ := hr0
    obtain ⟨p, hp, rfl⟩ := hr
    exact compat_of_compatB p0 p (hcomp p0 hp0 p hp)
  · intro r hr iv cv outs ho
    simp only [envOf, List.mem_map] at hr
    obtain ⟨p, hp, rfl⟩ := hr
    exact sem_outs _ _ _ _ _ _ _ ho
  · intro r hr g hg hanc
    simp only [envOf, List.mem_map] at hr
    obtain ⟨p, hp, rfl⟩ := hr
    obtain ⟨q, hq, hqn⟩ := isAnc_envOf hanc
    have := hna p hp
    simp only [nonAncB, List.all_eq_true, List.mem_append, bne_iff_ne, ne_eq] at this
    have hg' : g ∈ p.extraF ∨ g ∈ fixedFeats := hg
    exact this g hg' q hq hqn

end DclabModel.Anc
