import DclabModel.Model.Anc
/-!
Helper lemmas for property C06: the cache invariant ("every cache entry equals the fresh value
for the inputs its hash was taken from"), soundness of a hash hit, and the lock-step of
`getitem` (long-lived dataset) and `fresh` (freshly opened dataset).  Core Lean only.
-/
namespace DclabModel.Anc
variable {D V : Type}

/-! ## association lists -/

theorem get_mem {α β : Type} [DecidableEq α] {k : α} {v : β} :
    ∀ {l : List (α × β)}, get k l = some v → (k, v) ∈ l
  | [], h => by simp [get] at h
  | (k', v') :: r, h => by
    simp only [get] at h
    split at h
    · rename_i hk; cases h; subst hk; exact List.mem_cons_self
    · exact List.mem_cons_of_mem _ (get_mem h)

theorem get_store (C : Cache D V) (h : Hash D V) (outs : List (Feat × D)) (f : Feat) :
    get f (store C h outs) = match get f outs with
      | some d => some (h, d)
      | none => get f C := by
  induction outs with
  | nil => simp [store, get]
  | cons p ps ih =>
    obtain ⟨k, v⟩ := p
    simp only [store, List.map_cons, List.cons_append, get] at ih ⊢
    by_cases hk : k = f
    · simp [hk]
    · simp only [hk, if_false]; exact ih

theorem get_put_ne {α β : Type} [DecidableEq α] (k k' : α) (v : β) (l : List (α × β))
    (h : k' ≠ k) (hn : get k l = none) : get k (put k' v l) = none := by
  simp only [put, get, h, if_false]
  induction l with
  | nil => simp [get]
  | cons p ps ih =>
    obtain ⟨a, b⟩ := p
    simp only [get] at hn
    by_cases ha : a = k
    · simp [ha] at hn
    · simp only [ha, if_false] at hn
      simp only [List.filter_cons]
      split
      · simp only [get, ha, if_false]; exact ih hn
      · exact ih hn

theorem map_pair_eq {α β : Type} (a b : α → β) :
    ∀ (l l' : List α), l.map (fun g => (g, a g)) = l'.map (fun g => (g, b g)) →
      l = l' ∧ ∀ g ∈ l, a g = b g
  | [], [], _ => ⟨rfl, by simp⟩
  | [], _ :: _, h => by simp at h
  | _ :: _, [], h => by simp at h
  | x :: xs, y :: ys, h => by
    simp only [List.map_cons, List.cons.injEq, Prod.mk.injEq] at h
    obtain ⟨⟨hxy, hab⟩, ht⟩ := h
    obtain ⟨h1, h2⟩ := map_pair_eq a b xs ys ht
    subst hxy
    refine ⟨by rw [h1], ?_⟩
    intro g hg
    rcases List.mem_cons.mp hg with rfl | hg
    · exact hab
    · exact h2 g hg

/-! ## selection -/

theorem selected_some {e : Env D V} {n : Nat} {s : St D V} {f : Feat} {r : Recipe D V}
    (h : selected e n s f = some r) : r ∈ e.reg ∧ r.name = f ∧ recAvail e n s r = true := by
  unfold selected at h
  have hm : r ∈ e.reg.filter (fun r => r.name == f && recAvail e n s r) := by
    obtain ⟨ys, hys⟩ := List.getLast?_eq_some_iff.mp h
    rw [hys]; simp
  rw [List.mem_filter] at hm
  refine ⟨hm.1, ?_⟩
  have := hm.2
  simp only [Bool.and_eq_true, beq_iff_eq] at this
  exact this

theorem selected_none_of_nonAnc {e : Env D V} {g : Feat} (h : ¬ isAnc e g) (n : Nat) (s : St D V) :
    selected e n s g = none := by
  unfold selected
  have : e.reg.filter (fun r => r.name == g && recAvail e n s r) = [] := by
    rw [List.filter_eq_nil_iff]
    intro r hr hc
    simp only [Bool.and_eq_true, beq_iff_eq] at hc
    exact h ⟨r, hr, hc.1⟩
  rw [this]; rfl

theorem fresh_nonAnc {e : Env D V} {g : Feat} (h : ¬ isAnc e g) (n : Nat) (s : St D V) :
    fresh e n s g = base e s g := by
  cases n with
  | zero => rfl
  | succ n =>
    simp only [fresh, selected_none_of_nonAnc h]
    cases base e s g <;> rfl

/-! ## the cache invariant -/

/-- the entry `(h, d)` stored under `f` equals the fresh value for the inputs `h` was taken
from: there is a state `s0`, a registered recipe `r0` producing `f` and a view `v0` of the
features such that `h` is `r0`'s hash there and `d` is what `r0` computes there -/
def EntryOK (e : Env D V) (f : Feat) (h : Hash D V) (d : D) : Prop :=
  ∃ (s0 : St D V) (r0 : Recipe D V) (v0 : Feat → Option D),
    Wf e s0 ∧ r0 ∈ e.reg ∧ f ∈ r0.outs ∧ (∀ g, ¬ isAnc e g → v0 g = base e s0 g) ∧
    h = mkHash e s0 r0 (r0.reqF.map (fun g => (g, v0 g))) ∧
    (r0.compute (r0.readsF.map v0) (r0.readsC.map (getC s0))).bind (get f) = some d

def Inv (e : Env D V) (C : Cache D V) : Prop :=
  ∀ f h d, get f C = some (h, d) → EntryOK e f h d

theorem inv_nil (e : Env D V) : Inv e ([] : Cache D V) := by
  intro f h d hg; simp [get] at hg

theorem base_fixed {e : Env D V} {s s0 : St D V} (hw : Wf e s) (hw0 : Wf e s0) {g : Feat}
    (hg : g ∈ e.fixedF) : base e s g = base e s0 g := by
  simp only [base, hw g hg, hw0 g hg]

/-- a hash hit is sound: if the recipe selected now has, in the current state, the hash under
which the entry was stored, the entry is what the recipe would compute now -/
theorem hit_sound {e : Env D V} (hs : Sound e) {s : St D V} (hw : Wf e s) {r : Recipe D V}
    (hr : r ∈ e.reg) (v : Feat → Option D) (hv : ∀ g, ¬ isAnc e g → v g = base e s g)
    {h : Hash D V} {d : D} (hok : EntryOK e r.name h d)
    (hh : h = mkHash e s r (r.reqF.map (fun g => (g, v g)))) :
    (r.compute (r.readsF.map v) (r.readsC.map (getC s))).bind (get r.name) = some d := by
  obtain ⟨s0, r0, v0, hw0, hr0, hout, hv0, hh0, hd⟩ := hok
  rw [hh] at hh0
  simp only [mkHash, Hash.mk.injEq] at hh0
  obtain ⟨hfs, hcs, hxc, hxf⟩ := hh0
  obtain ⟨eF, vF⟩ := map_pair_eq _ _ _ _ hfs
  obtain ⟨eC, vC⟩ := map_pair_eq _ _ _ _ hcs
  obtain ⟨eXC, vXC⟩ := map_pair_eq _ _ _ _ hxc
  obtain ⟨eXF, vXF⟩ := map_pair_eq _ _ _ _ hxf
  obtain ⟨cEq, rF, rC⟩ := hs.compat r0 hr0 r hr hout eF.symm eC.symm eXC.symm eXF.symm
  obtain ⟨covF, covC⟩ := hs.covered r hr
  have h1 : r.readsF.map v = r0.readsF.map v0 := by
    rw [rF]
    apply List.map_congr_left
    intro g hg
    rcases covF g hg with h | h | h
    · exact vF g h
    · have hna := hs.nonAnc r hr g (Or.inl h)
      rw [hv g hna, hv0 g hna]; exact vXF g h
    · have hna := hs.nonAnc r hr g (Or.inr h)
      rw [hv g hna, hv0 g hna]; exact base_fixed hw hw0 h
  have h2 : r.readsC.map (getC s) = r0.readsC.map (getC s0) := by
    rw [rC]
    apply List.map_congr_left
    intro k hk
    rcases covC k hk with h | h
    · exact vC k h
    · exact vXC k h
  rw [h1, h2, ← cEq]; exact hd

theorem inv_store {e : Env D V} (hs : Sound e) {s : St D V} (hw : Wf e s) {r : Recipe D V}
    (hr : r ∈ e.reg) (v : Feat → Option D) (hv : ∀ g, ¬ isAnc e g → v g = base e s g)
    {C : Cache D V} (hC : Inv e C) {outs : List (Feat × D)}
    (ho : r.compute (r.readsF.map v) (r.readsC.map (getC s)) = some outs) :
    Inv e (store C (mkHash e s r (r.reqF.map (fun g => (g, v g)))) outs) := by
  intro f h d hg
  rw [get_store] at hg
  split at hg
  · rename_i d' hd'
    cases hg
    refine ⟨s, r, v, hw, hr, ?_, hv, rfl, ?_⟩
    · exact hs.outsOk r hr _ _ _ ho _ (get_mem hd')
    · rw [ho]; exact hd'
  · exact hC f h d hg

theorem readAll_spec (e : Env D V) (g : Cache D V → Feat → Cache D V × Option D)
    (v : Feat → Option D)
    (hg : ∀ C f, Inv e C → (g C f).2 = v f ∧ Inv e (g C f).1) :
    ∀ (l : List Feat) (C : Cache D V), Inv e C →
      (readAll g C l).2 = l.map (fun x => (x, v x)) ∧ Inv e (readAll g C l).1
  | [], C, hC => ⟨rfl, hC⟩
  | f :: fs, C, hC => by
    obtain ⟨h1, h2⟩ := hg C f hC
    obtain ⟨h3, h4⟩ := readAll_spec e g v hg fs _ h2
    simp only [readAll, List.map_cons]
    exact ⟨by rw [h1, h3], h4⟩

theorem computeStore_spec [DecidableEq D] [DecidableEq V] {e : Env D V} (hs : Sound e)
    {s : St D V} (hw : Wf e s) {r : Recipe D V} (hr : r ∈ e.reg)
    (g : Cache D V → Feat → Cache D V × Option D) (v : Feat → Option D)
    (hv : ∀ g, ¬ isAnc e g → v g = base e s g)
    (hg : ∀ C f, Inv e C → (g C f).2 = v f ∧ Inv e (g C f).1)
    {C : Cache D V} (hC : Inv e C) (f : Feat) :
    (computeStore g C (mkHash e s r (r.reqF.map (fun x => (x, v x)))) r s f).2 =
      (r.compute (r.readsF.map v) (r.readsC.map (getC s))).bind (get f) ∧
    Inv e (computeStore g C (mkHash e s r (r.reqF.map (fun x => (x, v x)))) r s f).1 := by
  obtain ⟨h1, h2⟩ := readAll_spec e g v hg r.readsF C hC
  have hm : (readAll g C r.readsF).2.map (·.2) = r.readsF.map v := by
    rw [h1, List.map_map]; rfl
  simp only [computeStore, hm]
  cases ho : r.compute (r.readsF.map v) (r.readsC.map (getC s)) with
  | none => exact ⟨rfl, h2⟩
  | some outs =>
    cases hf : get f outs with
    | none => simp only [Option.bind, hf]; exact ⟨trivial, h2⟩
    | some d =>
      simp only [Option.bind, hf]
      exact ⟨trivial, inv_store hs hw hr v hv h2 ho⟩

/-- lock-step of the long-lived dataset and a fresh one, for every fuel -/
theorem getitem_spec [DecidableEq D] [DecidableEq V] {e : Env D V} (hs : Sound e) :
    ∀ (n : Nat) (C : Cache D V) (s : St D V) (f : Feat), Wf e s → Inv e C →
      (getitem e n C s f).2 = fresh e n s f ∧ Inv e (getitem e n C s f).1
  | 0, C, s, f, _, hC => ⟨rfl, hC⟩
  | n + 1, C, s, f, hw, hC => by
    simp only [getitem, fresh]
    cases hb : base e s f with
    | some d => exact ⟨rfl, hC⟩
    | none =>
      cases hsel : selected e (n + 1) s f with
      | none => exact ⟨rfl, hC⟩
      | some r =>
        obtain ⟨hr, hname, _⟩ := selected_some hsel
        have hg : ∀ C f, Inv e C → (getitem e n C s f).2 = fresh e n s f ∧
            Inv e (getitem e n C s f).1 := fun C f hC => getitem_spec hs n C s f hw hC
        have hv : ∀ g, ¬ isAnc e g → fresh e n s g = base e s g :=
          fun g hg => fresh_nonAnc hg n s
        obtain ⟨h1, h2⟩ := readAll_spec e (fun C g => getitem e n C s g) (fresh e n s) hg r.reqF C hC
        simp only [h1]
        by_cases hall : allSome (r.reqF.map (fun g => (g, fresh e n s g))) = true
        · simp only [hall, if_true]
          have hcs := computeStore_spec hs hw hr (fun C g => getitem e n C s g) (fresh e n s)
            hv hg h2 f
          cases hget : get f (readAll (fun C g => getitem e n C s g) C r.reqF).1 with
          | none => exact hcs
          | some hd =>
            obtain ⟨h', d⟩ := hd
            simp only
            by_cases heq : h' = mkHash e s r (r.reqF.map (fun g => (g, fresh e n s g)))
            · simp only [heq, if_true]
              refine ⟨?_, h2⟩
              have hok := h2 f h' d hget
              rw [← hname] at hok ⊢
              exact (hit_sound hs hw hr (fresh e n s) hv hok heq).symm
            · simp only [heq, if_false]; exact hcs
        · simp only [hall]; exact ⟨rfl, h2⟩

/-! ## edits -/

theorem wf_edit {e : Env D V} {s : St D V} (hw : Wf e s) (op : Op D V) : Wf e (edit e s op) := by
  cases op with
  | setT f d =>
    simp only [edit]
    split
    · exact hw
    · rename_i hn
      intro g hg
      have hne : f ≠ g := by
        intro h; subst h; exact hn (Or.inl hg)
      exact get_put_ne g f d s.temp hne (hw g hg)
  | setC k v => exact hw
  | delC k => exact hw
  | read f => exact hw
  | isin f => exact hw
  | feats => exact hw
  | child f => exact hw

/-! ## histories -/

theorem step_spec [DecidableEq D] [DecidableEq V] {e : Env D V} (hs : Sound e) (n : Nat)
    (sel : D → D) {s : St D V} {C : Cache D V} (hw : Wf e s) (hC : Inv e C) (op : Op D V) :
    (step e n sel (s, C) op).2 = (specStep e n sel s op).2 ∧
    (step e n sel (s, C) op).1.1 = (specStep e n sel s op).1 ∧
    Inv e (step e n sel (s, C) op).1.2 ∧ Wf e (step e n sel (s, C) op).1.1 := by
  cases op with
  | read f =>
    obtain ⟨h1, h2⟩ := getitem_spec hs n C s f hw hC
    simp only [step, specStep]
    exact ⟨by rw [h1], trivial, h2, hw⟩
  | child f =>
    obtain ⟨h1, h2⟩ := getitem_spec hs n C s f hw hC
    simp only [step, specStep]
    exact ⟨by rw [h1], trivial, h2, hw⟩
  | isin f => exact ⟨rfl, rfl, hC, hw⟩
  | feats => exact ⟨rfl, rfl, hC, hw⟩
  | setC k v => exact ⟨rfl, rfl, hC, wf_edit hw _⟩
  | delC k => exact ⟨rfl, rfl, hC, wf_edit hw _⟩
  | setT f d => exact ⟨rfl, rfl, hC, wf_edit hw _⟩

theorem run_spec [DecidableEq D] [DecidableEq V] {e : Env D V} (hs : Sound e) (n : Nat)
    (sel : D → D) : ∀ (ops : List (Op D V)) (s : St D V) (C : Cache D V), Wf e s → Inv e C →
      (run e n sel (s, C) ops).2 = (specRun e n sel s ops).2 ∧
      (run e n sel (s, C) ops).1.1 = (specRun e n sel s ops).1 ∧
      Inv e (run e n sel (s, C) ops).1.2 ∧ Wf e (run e n sel (s, C) ops).1.1
  | [], s, C, hw, hC => ⟨rfl, rfl, hC, hw⟩
  | op :: ops, s, C, hw, hC => by
    obtain ⟨h1, h2, h3, h4⟩ := step_spec hs n sel hw hC op
    have ih := run_spec hs n sel ops (step e n sel (s, C) op).1.1 (step e n sel (s, C) op).1.2 h4 h3
    simp only [run, specRun]
    rw [← h2]
    exact ⟨by rw [h1, ih.1], ih.2.1, ih.2.2.1, ih.2.2.2⟩

theorem specStep_state (e : Env D V) (n : Nat) (sel : D → D) (s : St D V) (op : Op D V) :
    (specStep e n sel s op).1 = edit e s op := by
  cases op <;> rfl

theorem specRun_state (e : Env D V) (n : Nat) (sel : D → D) :
    ∀ (ops : List (Op D V)) (s : St D V), (specRun e n sel s ops).1 = stateAt e s ops
  | [], _ => rfl
  | op :: ops, s => by
    simp only [specRun, stateAt, List.foldl_cons]
    rw [specRun_state e n sel ops, specStep_state]; rfl

/-! ## hierarchy children -/

def selsOf (c : List (Lvl D)) : List (D → D) := c.map (·.sel)

def hviewS (v : Option D) : List (D → D) → Option D
  | [] => v
  | s :: ss => (hviewS v ss).map s

theorem hview_eq (v : Option D) : ∀ c : List (Lvl D), hview v c = hviewS v (selsOf c)
  | [] => rfl
  | l :: ps => by simp only [hview, selsOf, List.map_cons, hviewS]; rw [hview_eq v ps]; rfl

theorem hview_congr (v : Option D) {c c' : List (Lvl D)} (h : selsOf c = selsOf c') :
    hview v c = hview v c' := by rw [hview_eq, hview_eq, h]

/-- every entry of a level that is not outdated is what a fresh hierarchy would return -/
def HInv (v : Feat → Option D) : List (Lvl D) → Prop
  | [] => True
  | l :: ps => (l.dirty = false → ∀ f d, get f l.cache = some d → hview (v f) (l :: ps) = some d)
               ∧ HInv v ps

theorem hinv_head_congr {v : Feat → Option D} {l : Lvl D} {ps ps' : List (Lvl D)}
    (hs : selsOf ps = selsOf ps')
    (h : l.dirty = false → ∀ f d, get f l.cache = some d → hview (v f) (l :: ps) = some d) :
    l.dirty = false → ∀ f d, get f l.cache = some d → hview (v f) (l :: ps') = some d := by
  intro hd f d hg
  have := h hd f d hg
  simp only [hview] at this ⊢
  rw [← hview_congr (v f) hs]; exact this

theorem hread_spec {σ : Type} (g : σ → Feat → σ × Option D) (P : σ → Prop)
    (v : Feat → Option D) (hg : ∀ r f, P r → (g r f).2 = v f ∧ P (g r f).1) (f : Feat) :
    ∀ (chain : List (Lvl D)) (r : σ), P r → (∀ l ∈ chain, l.dirty = false) → HInv v chain →
      (hread g r chain f).2 = hview (v f) chain ∧ P (hread g r chain f).1.1 ∧
      HInv v (hread g r chain f).1.2 ∧ selsOf (hread g r chain f).1.2 = selsOf chain
  | [], r, hP, _, _ => by
    obtain ⟨h1, h2⟩ := hg r f hP
    exact ⟨h1, h2, trivial, rfl⟩
  | l :: ps, r, hP, hc, hI => by
    obtain ⟨hl, hps⟩ := hI
    have hcl : l.dirty = false := hc l List.mem_cons_self
    simp only [hread]
    cases hget : get f l.cache with
    | some d => exact ⟨(hl hcl f d hget).symm, hP, ⟨hl, hps⟩, rfl⟩
    | none =>
      obtain ⟨h1, h2, h3, h4⟩ := hread_spec g P v hg f ps r hP
        (fun l' hl' => hc l' (List.mem_cons_of_mem _ hl')) hps
      simp only
      cases hx : (hread g r ps f).2 with
      | none =>
        rw [hx] at h1
        refine ⟨by simp only [hview, ← h1, Option.map_none], h2, ⟨hinv_head_congr h4.symm hl, h3⟩, ?_⟩
        simp only [selsOf, List.map_cons] at h4 ⊢; rw [h4]
      | some d =>
        rw [hx] at h1
        refine ⟨by simp only [hview, ← h1, Option.map_some], h2, ⟨?_, h3⟩, ?_⟩
        · intro _ f' d' hg'
          simp only [get] at hg'
          by_cases hf : f = f'
          · subst hf
            simp only [if_true, Option.some.injEq] at hg'
            subst hg'
            simp only [hview]
            rw [hview_congr (v f) h4, ← h1]; rfl
          · simp only [hf, if_false] at hg'
            have := hinv_head_congr h4.symm hl hcl f' d' hg'
            simpa only [hview] using this
        · simp only [selsOf, List.map_cons] at h4 ⊢; rw [h4]

theorem hinv_refresh (v : Feat → Option D) : ∀ c : List (Lvl D), HInv v (hrefresh c)
  | [] => trivial
  | l :: ps => ⟨fun _ f d h => by simp [get] at h, hinv_refresh v ps⟩

theorem hinv_dirty (v : Feat → Option D) : ∀ c : List (Lvl D), HInv v (hdirty c)
  | [] => trivial
  | l :: ps => ⟨fun h => by simp at h, hinv_dirty v ps⟩

theorem sels_refresh (c : List (Lvl D)) : selsOf (hrefresh c) = selsOf c := by
  simp [selsOf, hrefresh, List.map_map, Function.comp_def]

theorem sels_dirty (c : List (Lvl D)) : selsOf (hdirty c) = selsOf c := by
  simp [selsOf, hdirty, List.map_map, Function.comp_def]

theorem hreadP_spec {σ : Type} (g : σ → Feat → σ × Option D) (P : σ → Prop)
    (v : Feat → Option D) (hg : ∀ r f, P r → (g r f).2 = v f ∧ P (g r f).1) (f : Feat)
    (chain : List (Lvl D)) (r : σ) (hP : P r) (hI : HInv v chain) :
    (hreadP g r chain f).2 = hview (v f) chain ∧ P (hreadP g r chain f).1.1 ∧
    HInv v (hreadP g r chain f).1.2 ∧ selsOf (hreadP g r chain f).1.2 = selsOf chain := by
  unfold hreadP
  by_cases hd : chain.any (·.dirty) = true
  · simp only [hd, if_true]
    have hc : ∀ l ∈ hrefresh chain, l.dirty = false := by
      intro l hl
      simp only [hrefresh, List.mem_map] at hl
      obtain ⟨l0, _, rfl⟩ := hl; rfl
    obtain ⟨h1, h2, h3, h4⟩ := hread_spec g P v hg f (hrefresh chain) r hP hc (hinv_refresh v chain)
    exact ⟨by rw [h1, hview_congr _ (sels_refresh chain)], h2, h3, by rw [h4, sels_refresh]⟩
  · simp only [hd]
    have hc : ∀ l ∈ chain, l.dirty = false := by
      intro l hl
      simp only [List.any_eq_true, not_exists, not_and, Bool.not_eq_true] at hd
      exact hd l hl
    exact hread_spec g P v hg f chain r hP hc hI

theorem hviewAt_congr (v : Option D) : ∀ (j : Nat) {c c' : List (Lvl D)},
    selsOf c = selsOf c' → hviewAt v j c = hviewAt v j c'
  | 0, c, c', h => by simp only [hviewAt]; exact hview_congr v h
  | j + 1, [], [], _ => rfl
  | j + 1, [], _ :: _, h => by simp [selsOf] at h
  | j + 1, _ :: _, [], h => by simp [selsOf] at h
  | j + 1, l :: ps, l' :: ps', h => by
    simp only [hviewAt]
    apply hviewAt_congr v j
    simp only [selsOf, List.map_cons, List.cons.injEq] at h
    exact h.2

theorem hreadAt_spec {σ : Type} (g : σ → Feat → σ × Option D) (P : σ → Prop)
    (v : Feat → Option D) (hg : ∀ r f, P r → (g r f).2 = v f ∧ P (g r f).1) (f : Feat) :
    ∀ (j : Nat) (chain : List (Lvl D)) (r : σ), P r → HInv v chain →
      (hreadAt g j r chain f).2 = hviewAt (v f) j chain ∧ P (hreadAt g j r chain f).1.1 ∧
      HInv v (hreadAt g j r chain f).1.2 ∧ selsOf (hreadAt g j r chain f).1.2 = selsOf chain
  | 0, chain, r, hP, hI => by simp only [hreadAt, hviewAt]; exact hreadP_spec g P v hg f chain r hP hI
  | j + 1, [], r, hP, hI => by
    simp only [hreadAt, hviewAt]; exact hreadP_spec g P v hg f [] r hP hI
  | j + 1, l :: ps, r, hP, hI => by
    obtain ⟨h1, h2, h3, h4⟩ := hreadAt_spec g P v hg f j ps r hP hI.2
    simp only [hreadAt, hviewAt]
    refine ⟨h1, h2, ⟨hinv_head_congr h4.symm hI.1, h3⟩, ?_⟩
    simp only [selsOf, List.map_cons] at h4 ⊢; rw [h4]

theorem hrefreshAt_spec (v : Feat → Option D) : ∀ (j : Nat) (c : List (Lvl D)), HInv v c →
    HInv v (hrefreshAt j c) ∧ selsOf (hrefreshAt j c) = selsOf c
  | 0, c, _ => by simp only [hrefreshAt]; exact ⟨hinv_refresh v c, sels_refresh c⟩
  | j + 1, [], _ => by simp only [hrefreshAt]; exact ⟨hinv_refresh v [], sels_refresh []⟩
  | j + 1, l :: ps, hI => by
    obtain ⟨h1, h2⟩ := hrefreshAt_spec v j ps hI.2
    simp only [hrefreshAt]
    refine ⟨⟨hinv_head_congr h2.symm hI.1, h1⟩, ?_⟩
    simp only [selsOf, List.map_cons] at h2 ⊢; rw [h2]

theorem hsettAt_spec (v : Feat → Option D) : ∀ (j : Nat) (c : List (Lvl D)),
    HInv v (hsettAt j c) ∧ selsOf (hsettAt j c) = selsOf c
  | 0, c => by simp only [hsettAt]; exact ⟨hinv_refresh v c, sels_refresh c⟩
  | j + 1, [] => by simp only [hsettAt]; exact ⟨hinv_refresh v [], sels_refresh []⟩
  | j + 1, l :: ps => by
    obtain ⟨h1, h2⟩ := hsettAt_spec v j ps
    simp only [hsettAt]
    refine ⟨⟨fun h => by simp at h, h1⟩, ?_⟩
    simp only [selsOf, List.map_cons] at h2 ⊢; rw [h2]

theorem hfiltAt_spec (v : Feat → Option D) (sel : D → D) : ∀ (j : Nat) (c c' : List (Lvl D)),
    HInv v c → selsOf c = selsOf c' →
    HInv v (hfiltAt sel j c) ∧ selsOf (hfiltAt sel j c) = selsOf (hfiltAt sel j c')
  | 0, [], [], _, _ => ⟨trivial, rfl⟩
  | 0, [], _ :: _, _, h => by simp [selsOf] at h
  | 0, _ :: _, [], _, h => by simp [selsOf] at h
  | 0, l :: ps, l' :: ps', hI, h => by
    simp only [hfiltAt]
    simp only [selsOf, List.map_cons, List.cons.injEq] at h ⊢
    exact ⟨⟨fun hd => by simp at hd, hI.2⟩, trivial, h.2⟩
  | j + 1, [], [], _, _ => ⟨trivial, rfl⟩
  | j + 1, [], _ :: _, _, h => by simp [selsOf] at h
  | j + 1, _ :: _, [], _, h => by simp [selsOf] at h
  | j + 1, l :: ps, l' :: ps', hI, h => by
    simp only [selsOf, List.map_cons, List.cons.injEq] at h
    obtain ⟨h1, h2⟩ := hfiltAt_spec v sel j ps ps' hI.2 h.2
    simp only [hfiltAt]
    refine ⟨⟨fun hd => by simp at hd, h1⟩, ?_⟩
    simp only [selsOf, List.map_cons, List.cons.injEq] at h2 ⊢
    exact ⟨h.1, h2⟩

/-- lock-step of the long-lived hierarchy and one that is rebuilt before every read -/
theorem hrun_spec [DecidableEq D] [DecidableEq V] {e : Env D V} (hs : Sound e) (n : Nat) :
    ∀ (ops : List (HOp D V)) (s : St D V) (C : Cache D V) (c c' : List (Lvl D)),
      Wf e s → Inv e C → HInv (fresh e n s) c → selsOf c = selsOf c' →
      (hrun e n ((s, C), c) ops).2 = (hspecRun e n (s, c') ops).2
  | [], _, _, _, _, _, _, _, _ => rfl
  | op :: ops, s, C, c, c', hw, hC, hI, hsel => by
    simp only [hrun, hspecRun]
    cases op with
    | edit o =>
      simp only [hstep, hspecStep]
      rw [hrun_spec hs n ops (edit e s o) C (hdirty c) c' (wf_edit hw o) hC (hinv_dirty _ c)
        (by rw [sels_dirty, hsel])]
    | settVia j f d =>
      simp only [hstep, hspecStep]
      obtain ⟨h1, h2⟩ := hsettAt_spec (fresh e n (edit e s (.setT f d))) j c
      rw [hrun_spec hs n ops (edit e s (.setT f d)) C (hsettAt j c) c' (wf_edit hw _) hC h1
        (by rw [h2, hsel])]
    | refresh j =>
      simp only [hstep, hspecStep]
      obtain ⟨h1, h2⟩ := hrefreshAt_spec (fresh e n s) j c hI
      rw [hrun_spec hs n ops s C (hrefreshAt j c) c' hw hC h1 (by rw [h2, hsel])]
    | filt j sel =>
      simp only [hstep, hspecStep]
      obtain ⟨h1, h2⟩ := hfiltAt_spec (fresh e n s) sel j c c' hI hsel
      rw [hrun_spec hs n ops s C (hfiltAt sel j c) (hfiltAt sel j c') hw hC h1 h2]
    | read j f =>
      simp only [hstep, hspecStep]
      have hg : ∀ (r : St D V × Cache D V) (f : Feat), (r.1 = s ∧ Inv e r.2) →
          ((fun (sc : St D V × Cache D V) g =>
              let r := getitem e n sc.2 sc.1 g; ((sc.1, r.1), r.2)) r f).2 = fresh e n s f ∧
          (((fun (sc : St D V × Cache D V) g =>
              let r := getitem e n sc.2 sc.1 g; ((sc.1, r.1), r.2)) r f).1.1 = s ∧
           Inv e ((fun (sc : St D V × Cache D V) g =>
              let r := getitem e n sc.2 sc.1 g; ((sc.1, r.1), r.2)) r f).1.2) := by
        intro r f ⟨hr1, hr2⟩
        obtain ⟨g1, g2⟩ := getitem_spec hs n r.2 r.1 f (hr1 ▸ hw) hr2
        exact ⟨by rw [← hr1]; exact g1, hr1, g2⟩
      obtain ⟨h1, h2, h3, h4⟩ := hreadAt_spec _ (fun r => r.1 = s ∧ Inv e r.2) (fresh e n s) hg f
        j c (s, C) ⟨rfl, hC⟩ hI
      rw [h1, hviewAt_congr _ j hsel]
      congr 1
      have hs1 : (hreadAt (fun (sc : St D V × Cache D V) g =>
          let r := getitem e n sc.2 sc.1 g; ((sc.1, r.1), r.2)) j (s, C) c f).1.1.1 = s := h2.1
      have := hrun_spec hs n ops s _ _ c' hw h2.2 h3 (by rw [h4, hsel])
      rw [← this]
      congr 2
      exact Prod.ext (Prod.ext hs1 rfl) rfl

/-! ## availability -/

/-- no registered method raises, and every method returns its own feature -/
def NoRaise (e : Env D V) : Prop :=
  ∀ r ∈ e.reg, ∀ iv cv, ∃ outs, r.compute iv cv = some outs ∧ (get r.name outs).isSome

theorem avail_eq_fresh_isSome {e : Env D V} (hn : NoRaise e) :
    ∀ (n : Nat) (s : St D V) (f : Feat), avail e n s f = (fresh e n s f).isSome
  | 0, s, f => by simp [avail, recAvail, fresh]
  | n + 1, s, f => by
    simp only [avail, fresh]
    cases hb : base e s f with
    | some d => simp
    | none =>
      simp only [Option.isSome_none, Bool.false_or]
      cases hsel : selected e (n + 1) s f with
      | none =>
        have : e.reg.filter (fun r => r.name == f && recAvail e (n + 1) s r) = [] := by
          unfold selected at hsel
          exact List.getLast?_eq_none_iff.mp hsel
        rw [List.filter_eq_nil_iff] at this
        simp only [Option.isSome_none, List.any_eq_false]
        intro r hr; exact this r hr
      | some r =>
        obtain ⟨hr, hname, hav⟩ := selected_some hsel
        have h1 : e.reg.any (fun r => r.name == f && recAvail e (n + 1) s r) = true := by
          rw [List.any_eq_true]; exact ⟨r, hr, by simp [hname, hav]⟩
        rw [h1]
        simp only [recAvail, Bool.and_eq_true, List.all_eq_true] at hav
        have h2 : allSome (r.reqF.map (fun g => (g, fresh e n s g))) = true := by
          simp only [allSome, List.all_map, List.all_eq_true, Function.comp]
          intro g hg
          have := hav.1.1.2 g hg
          have ih := avail_eq_fresh_isSome hn n s g
          simp only [avail] at ih
          rw [← ih]; exact this
        obtain ⟨outs, ho, hg⟩ := hn r hr (r.readsF.map (fresh e n s)) (r.readsC.map (getC s))
        simp only [h2, if_true, ho, Option.bind, ← hname]
        exact hg.symm

/-! ## selection depends on presence only -/

theorem recAvail_presence {e : Env D V} {s s' : St D V}
    (hc : ∀ k, (getC s k).isSome = (getC s' k).isSome)
    (hb : ∀ f, (base e s f).isSome = (base e s' f).isSome)
    (hch : e.chanOk (getC s chipKey) = e.chanOk (getC s' chipKey)) :
    ∀ (n : Nat) (r : Recipe D V), recAvail e n s r = recAvail e n s' r
  | 0, _ => rfl
  | n + 1, r => by
    have ih : recAvail e n s = recAvail e n s' := funext (recAvail_presence hc hb hch n)
    have hg : guardOk e s r = guardOk e s' r := by
      unfold guardOk
      cases r.guard <;> simp only [hch, hb]
    simp only [recAvail, hc, hb, ih, hg]

theorem selected_presence {e : Env D V} {s s' : St D V}
    (hc : ∀ k, (getC s k).isSome = (getC s' k).isSome)
    (hb : ∀ f, (base e s f).isSome = (base e s' f).isSome)
    (hch : e.chanOk (getC s chipKey) = e.chanOk (getC s' chipKey)) (n : Nat) (f : Feat) :
    selected e n s f = selected e n s' f := by
  have : recAvail e n s = recAvail e n s' := funext (recAvail_presence hc hb hch n)
  simp only [selected, this]

/-! ## the concrete registry -/

theorem sem_outs (m : String) (outs rf : List Feat) (rc : List Key) (iv cv : List (Option String))
    (res : List (Feat × String)) (h : sem m outs rf rc iv cv = some res) :
    ∀ p ∈ res, p.1 ∈ outs := by
  unfold sem at h
  split at h
  · cases h
  · cases h
    intro p hp
    simp only [List.mem_map] at hp
    obtain ⟨o, ho, rfl⟩ := hp
    exact ho

theorem compat_of_compatB (p0 p : Spec) (h : compatB p0 p = true) :
    Compat p0.toRecipe p.toRecipe := by
  intro hn hF hC hXC hXF
  simp only [Spec.toRecipe] at hn hF hC hXC hXF ⊢
  simp only [compatB, Bool.or_eq_true, Bool.not_eq_true', Bool.and_eq_false_iff,
    Bool.and_eq_true, beq_iff_eq, beq_eq_false_iff_ne, List.contains_eq_mem,
    decide_eq_false_iff_not] at h
  rcases h with h | h
  · rcases h with (((h | h) | h) | h) | h
    · exact absurd hn h
    · exact absurd hF h
    · exact absurd hC h
    · exact absurd hXC h
    · exact absurd hXF h
  · obtain ⟨⟨⟨hm, ho⟩, hrf⟩, hrc⟩ := h
    rw [hm, ho, hrf, hrc]; exact ⟨rfl, rfl, rfl⟩

theorem isAnc_envOf {ps : List Spec} {innate : List (Feat × String)} {g : Feat}
    (h : isAnc (envOf ps innate) g) : ∃ q ∈ ps, q.name = g := by
  obtain ⟨r, hr, hn⟩ := h
  simp only [envOf, List.mem_map] at hr
  obtain ⟨q, hq, rfl⟩ := hr
  exact ⟨q, hq, hn⟩

theorem sound_of_soundB (ps : List Spec) (innate : List (Feat × String))
    (h : soundB ps = true) : Sound (envOf ps innate) := by
  simp only [soundB, Bool.and_eq_true, List.all_eq_true] at h
  obtain ⟨⟨hcov, hcomp⟩, hna⟩ := h
  constructor
  · intro r hr
    simp only [envOf, List.mem_map] at hr
    obtain ⟨p, hp, rfl⟩ := hr
    have := hcov p hp
    simp only [coveredB, Bool.and_eq_true, List.all_eq_true, Bool.or_eq_true,
      List.contains_eq_mem, decide_eq_true_eq] at this
    refine ⟨fun g hg => ?_, fun k hk => ?_⟩
    · rcases this.1 g hg with (h | h) | h
      · exact Or.inl h
      · exact Or.inr (Or.inl h)
      · exact Or.inr (Or.inr h)
    · exact this.2 k hk
  · intro r0 hr0 r hr
    simp only [envOf, List.mem_map] at hr0 hr
    obtain ⟨p0, hp0, rfl⟩ := hr0
    obtain ⟨p, hp, rfl⟩ := hr
    exact compat_of_compatB p0 p (hcomp p0 hp0 p hp)
  · intro r hr iv cv outs ho
    simp only [envOf, List.mem_map] at hr
    obtain ⟨p, hp, rfl⟩ := hr
    exact sem_outs _ _ _ _ _ _ _ ho
  · intro r hr g hg hanc
    simp only [envOf, List.mem_map] at hr
    obtain ⟨p, hp, rfl⟩ := hr
    obtain ⟨q, hq, hqn⟩ := isAnc_envOf hanc
    have := hna p hp
    simp only [nonAncB, List.all_eq_true, List.mem_append, bne_iff_ne, ne_eq] at this
    have hg' : g ∈ p.extraF ∨ g ∈ fixedFeats := hg
    exact this g hg' q hq hqn

end DclabModel.Anc
