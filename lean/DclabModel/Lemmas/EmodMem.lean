import DclabModel.Model.EmodMem
/-! Helper lemmas for the memory model of the scaling laws (C05).  Core Lean only. -/
namespace DclabModel.Emod

theorem mulFrom_const (c : Rat) (i : Nat) (l : List Rat) :
    mulFrom (fun _ => c) i l = l.map (· * c) := by
  induction l generalizing i with
  | nil => rfl
  | cons v vs ih => simp [mulFrom, ih]

theorem mulFrom_length (f : Nat → Rat) (i : Nat) (l : List Rat) :
    (mulFrom f i l).length = l.length := by
  induction l generalizing i with
  | nil => rfl
  | cons v vs ih => simp [mulFrom, ih]

/-- values after the optional `*=` -/
def applyF : Option (Nat → Rat) → List Rat → List Rat
  | none, l => l
  | some f, l => mulFrom f 0 l

theorem imul_ok {H : Heap} {r : Nat} {f : Nat → Rat} {H' : Heap} (h : imul H r f = .ok H') :
    ∃ a, H[r]? = some a ∧ a.dt ≠ .int ∧ H' = H.set r { a with data := mulFrom f 0 a.data } := by
  unfold imul at h
  split at h
  · cases h
  · rename_i a ha
    split at h
    · cases h
    · rename_i hdt
      refine ⟨a, ha, hdt, ?_⟩
      cases h; rfl

/-- `inplace=False`: the result is a NEW object, every array that existed before the call –
the caller's included – is unchanged, and the new object holds the scaled values -/
theorem mulMem_copy {H : Heap} {r : Nat} {f : Option (Nat → Rat)} {H' : Heap} {r' : Nat}
    (h : mulMem H r false f = .ok (H', r')) :
    r' = H.length ∧ H'.take H.length = H ∧
      ∃ a, H[r]? = some a ∧ H'[r']? = some { a with data := applyF f a.data } := by
  unfold mulMem npArray at h
  cases ha : H[r]? with
  | none => simp [ha] at h
  | some a =>
    simp [ha] at h
    cases f with
    | none =>
      simp at h
      obtain ⟨h1, h2⟩ := h
      subst h1; subst h2
      exact ⟨rfl, by simp, a, rfl, by simp [applyF]⟩
    | some f =>
      simp at h
      cases hm : imul (H ++ [a]) H.length f with
      | error e => simp [hm] at h
      | ok H2 =>
        simp [hm] at h
        obtain ⟨h1, h2⟩ := h
        subst h1; subst h2
        obtain ⟨b, hb, _, hset⟩ := imul_ok hm
        have hb' : b = a := by simpa using hb.symm
        subst hb'
        refine ⟨rfl, ?_, b, rfl, ?_⟩
        · rw [hset, List.set_append_right _ _ (Nat.le_refl _)]
          simp
        · rw [hset]
          simp [applyF]

/-- `inplace=True`: the result IS the argument, no object is created, no other object is
touched, and the argument holds the scaled values -/
theorem mulMem_inplace {H : Heap} {r : Nat} {f : Option (Nat → Rat)} {H' : Heap} {r' : Nat}
    (h : mulMem H r true f = .ok (H', r')) :
    r' = r ∧ H'.length = H.length ∧ (∀ j, j ≠ r → H'[j]? = H[j]?) ∧
      ∃ a, H[r]? = some a ∧ H'[r]? = some { a with data := applyF f a.data } := by
  unfold mulMem npArray at h
  cases ha : H[r]? with
  | none => simp [ha] at h
  | some a =>
    simp [ha] at h
    cases f with
    | none =>
      simp at h
      obtain ⟨h1, h2⟩ := h
      subst h1; subst h2
      exact ⟨rfl, rfl, fun _ _ => rfl, a, rfl, by simp [applyF, ha]⟩
    | some f =>
      simp at h
      cases hm : imul H r f with
      | error e => simp [hm] at h
      | ok H2 =>
        simp [hm] at h
        obtain ⟨h1, h2⟩ := h
        subst h1; subst h2
        obtain ⟨b, hb, _, hset⟩ := imul_ok hm
        have hb' : b = a := by rw [ha] at hb; cases hb; rfl
        subst hb'
        have hr : r < H.length := by
          rcases List.getElem?_eq_some_iff.mp ha with ⟨hlt, _⟩; exact hlt
        refine ⟨rfl, by rw [hset]; simp, ?_, b, rfl, ?_⟩
        · intro j hj
          rw [hset, List.getElem?_set_ne (Ne.symm hj)]
        · rw [hset, List.getElem?_set_self hr]
          simp [applyF]

/-- a program that only updates what it allocated leaves the first `n0` objects alone -/
theorem runM_take (n0 : Nat) (prog : List MOp) (H : Heap) (hn : n0 ≤ H.length)
    (ho : Owned n0 prog) : (runM H prog).take n0 = H.take n0 := by
  induction prog generalizing H with
  | nil => rfl
  | cons op rest ih =>
    cases op with
    | copyOf src =>
      have ho' : Owned n0 rest := ho
      have hstep : (stepM H (.copyOf src)).take n0 = H.take n0 := by
        simp only [stepM]
        split <;> exact List.take_append_of_le_length hn
      have hlen : n0 ≤ (stepM H (.copyOf src)).length := by
        simp only [stepM]
        split <;> simp <;> omega
      show (runM (stepM H (.copyOf src)) rest).take n0 = _
      rw [ih _ hlen ho', hstep]
    | update r g =>
      obtain ⟨hr, ho'⟩ : n0 ≤ r ∧ Owned n0 rest := ho
      have hstep : (stepM H (.update r g)).take n0 = H.take n0 := by
        simp only [stepM]
        split
        · exact List.take_set_of_le hr
        · rfl
      have hlen : n0 ≤ (stepM H (.update r g)).length := by
        simp only [stepM]
        split
        · simp; omega
        · omega
      show (runM (stepM H (.update r g)) rest).take n0 = _
      rw [ih _ hlen ho', hstep]

end DclabModel.Emod
