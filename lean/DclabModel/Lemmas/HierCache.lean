import DclabModel.Model.HierCache
import DclabModel.Lemmas.Hier
/-! Helper lemmas for the lazily filled caches of hierarchy children (`Model/HierCache.lean`). -/
namespace DclabModel.HierCache
open DclabModel.Hier

/-! ## lengths -/

theorem length_applyFilter (fixed snap : Bool) (D : Data) :
    ∀ s : List Level, (applyFilter fixed snap D s).length = s.length
  | [] => rfl
  | [_] => rfl
  | c :: p :: rest => by
    have ih := length_applyFilter fixed snap D (p :: rest)
    simp only [applyFilter, List.length_cons] at ih ⊢
    omega

theorem length_modAt (g : Level → Level) : ∀ (k : Nat) (s : List Level),
    (modAt k g s).length = s.length
  | _, [] => by simp [modAt]
  | 0, c :: s => by simp [modAt]
  | k + 1, c :: s => by simp [modAt, length_modAt g k s]

theorem length_step (D : Data) (s : List Level) (op : Op) :
    (step true true D s op).length = s.length := by
  cases op with
  | setRange k f lo hi => exact length_modAt _ k s
  | manual k p b => exact length_modAt _ k s
  | rejuv => exact length_applyFilter _ _ D s
  | rejuvAt k =>
    simp only [step, rejuvAt, List.length_append, length_applyFilter, List.length_take,
      List.length_drop]
    omega

theorem length_initChain (D : Data) : ∀ d, (initChain true true D d).length = d + 1
  | 0 => rfl
  | d + 1 => by
    simp only [initChain, addChild, length_applyFilter, List.length_cons, length_initChain D d]

theorem length_auxApply : ∀ as : List Aux, (auxApply as).length = as.length
  | [] => rfl
  | [_] => rfl
  | a :: p :: rest => by
    have ih := length_auxApply (p :: rest)
    simp only [auxApply, List.length_cons] at ih ⊢
    omega

theorem length_readArr (col : List Int) (f : Nat) : ∀ (alls : List (List Bool)) (as : List Aux),
    (readArr col f alls as).2.length = as.length
  | [], as => by simp [readArr]
  | _ :: _, [] => by simp [readArr]
  | pf :: alls, a :: as => by
    simp only [readArr]
    split
    · rfl
    · simp [length_readArr col f alls as]

theorem length_modHead (g : Aux → Aux) (as : List Aux) : (modHead g as).length = as.length := by
  cases as <;> rfl

theorem length_summArr (col : List Int) (f u : Nat) (alls : List (List Bool)) (as : List Aux) :
    (summArr col f u alls as).2.length = as.length := by
  match alls, as with
  | [], as => simp [summArr]
  | _ :: _, [] => simp [summArr]
  | pf :: alls, a :: as =>
    simp only [summArr]
    split
    · rfl
    · split
      · rw [length_modHead, length_readArr]
      · rw [length_readArr]

theorem length_setLastCalc (v : Int) : ∀ as : List Aux, (setLastCalc v as).length = as.length
  | [] => rfl
  | [_] => rfl
  | a :: b :: as => by
    have ih := length_setLastCalc v (b :: as)
    simp only [setLastCalc, List.length_cons] at ih ⊢
    omega

/-! ## after a refresh: empty caches, calculation section of the root -/

/-- every member but the root has empty caches and the calculation section of its parent -/
def Cleared : List Aux → Prop
  | [] => True
  | [_] => True
  | a :: p :: rest => (∀ g, a.fc g = emptyFC) ∧ a.ccfg = p.ccfg ∧ Cleared (p :: rest)

theorem cleared_auxApply : ∀ as : List Aux, Cleared (auxApply as)
  | [] => trivial
  | [_] => trivial
  | a :: p :: rest => by
    have ih := cleared_auxApply (p :: rest)
    simp only [auxApply]
    cases hq : auxApply (p :: rest) with
    | nil => trivial
    | cons q qs =>
      rw [hq] at ih
      exact ⟨fun _ => rfl, rfl, ih⟩

theorem cleared_tail : ∀ {a : Aux} {as : List Aux}, Cleared (a :: as) → Cleared as
  | _, [], _ => trivial
  | _, _ :: _, h => h.2.2

theorem cleared_drop : ∀ (k : Nat) (as : List Aux), Cleared as → Cleared (as.drop k)
  | 0, as, h => by simpa using h
  | _ + 1, [], _ => by simp [Cleared]
  | k + 1, a :: as, h => by
    simpa using cleared_drop k as (cleared_tail h)

def lastCalc : List Aux → Int
  | [] => 0
  | [r] => r.ccfg
  | _ :: as => lastCalc as

theorem cleared_ccfg : ∀ (as : List Aux), Cleared as → ∀ a ∈ as, a.ccfg = lastCalc as
  | [], _, a, ha => by simp at ha
  | [r], _, a, ha => by
    simp only [List.mem_singleton] at ha
    subst ha; rfl
  | b :: p :: rest, h, a, ha => by
    have ih := cleared_ccfg (p :: rest) h.2.2
    have hl : lastCalc (b :: p :: rest) = lastCalc (p :: rest) := rfl
    rw [hl]
    rcases List.mem_cons.1 ha with rfl | ha
    · rw [h.2.1]; exact ih p (List.mem_cons_self ..)
    · exact ih a ha

theorem lastCalc_auxApply : ∀ as : List Aux, lastCalc (auxApply as) = lastCalc as
  | [] => rfl
  | [_] => rfl
  | a :: p :: rest => by
    have ih := lastCalc_auxApply (p :: rest)
    simp only [auxApply]
    cases hq : auxApply (p :: rest) with
    | nil =>
      have := length_auxApply (p :: rest)
      rw [hq] at this; simp at this
    | cons q qs =>
      rw [hq] at ih
      show lastCalc (q :: qs) = lastCalc (p :: rest)
      exact ih

/-- the composed selection of the root's data by the `filter.all` arrays of the ancestors
(parent first): what the property says a member's feature is -/
def viewVals (col : List Int) : List (List Bool) → List Int
  | [] => col
  | pf :: rest => sel pf (viewVals col rest)

theorem readArr_cleared (col : List Int) (f : Nat) : ∀ (alls : List (List Bool)) (as : List Aux),
    Cleared as → as.length = alls.length + 1 → (readArr col f alls as).1 = viewVals col alls
  | [], as, _, _ => by simp [readArr, viewVals]
  | _ :: _, [], _, hl => by simp at hl
  | pf :: alls, [a], _, hl => by simp at hl
  | pf :: alls, a :: p :: rest, h, hl => by
    have ih := readArr_cleared col f alls (p :: rest) h.2.2 (by simpa using hl)
    simp only [readArr, h.1 f, emptyFC, viewVals, ih]

/-! ## the summary caches hold folds of the cached array -/

def UfInv (a : Aux) : Prop :=
  ∀ f u r, (a.fc f).uf.lookup u = some r → ∃ v, (a.fc f).arr = some v ∧ ufn u v = some r

theorem ufInv_empty (cc : Int) : UfInv (emptyAux cc) := by
  intro f u r h
  simp [emptyAux, emptyFC] at h

theorem ufInv_setArr {a : Aux} (h : UfInv a) (f : Nat) (v : List Int)
    (hn : (a.fc f).arr = none) : UfInv (a.setArr f v) := by
  intro g u r hl
  by_cases hg : g = f
  · subst hg
    simp only [Aux.setArr, if_true] at hl
    obtain ⟨w, hw, _⟩ := h g u r hl
    rw [hn] at hw; cases hw
  · simp only [Aux.setArr, if_neg hg] at hl ⊢
    exact h g u r hl

theorem ufInv_addUf {a : Aux} (h : UfInv a) (f u : Nat) (x : Int) (v : List Int)
    (ha : (a.fc f).arr = some v) (hx : ufn u v = some x) : UfInv (a.addUf f u x) := by
  intro g u' r hl
  by_cases hg : g = f
  · subst hg
    simp only [Aux.addUf, if_true, List.lookup_cons] at hl ⊢
    by_cases hu : u' = u
    · subst hu
      simp only [beq_self_eq_true] at hl
      cases hl
      exact ⟨v, ha, hx⟩
    · have : (u' == u) = false := by simpa using hu
      rw [this] at hl
      exact h g u' r hl
  · simp only [Aux.addUf, if_neg hg] at hl ⊢
    exact h g u' r hl

theorem readArr_ufInv (col : List Int) (f : Nat) : ∀ (alls : List (List Bool)) (as : List Aux),
    (∀ a ∈ as, UfInv a) → ∀ b ∈ (readArr col f alls as).2, UfInv b
  | [], as, h => by simpa [readArr] using h
  | _ :: _, [], h => by simp [readArr]
  | pf :: alls, a :: as, h => by
    simp only [readArr]
    split
    · exact h
    · rename_i hn
      intro b hb
      rcases List.mem_cons.1 hb with rfl | hb
      · exact ufInv_setArr (h a (List.mem_cons_self ..)) f _ hn
      · exact readArr_ufInv col f alls as (fun a ha => h a (List.mem_cons_of_mem _ ha)) b hb

/-- after a read through a child, the child's array cache holds what the read returned -/
theorem readArr_head (col : List Int) (f : Nat) (pf : List Bool) (alls : List (List Bool))
    (a : Aux) (as : List Aux) :
    ∃ b bs, (readArr col f (pf :: alls) (a :: as)).2 = b :: bs ∧
      (b.fc f).arr = some (readArr col f (pf :: alls) (a :: as)).1 := by
  simp only [readArr]
  split
  · rename_i v hv
    exact ⟨a, as, rfl, hv⟩
  · exact ⟨_, _, rfl, by simp [Aux.setArr]⟩

theorem summArr_ufInv (col : List Int) (f u : Nat) (alls : List (List Bool)) (as : List Aux)
    (h : ∀ a ∈ as, UfInv a) : ∀ b ∈ (summArr col f u alls as).2, UfInv b := by
  match alls, as, h with
  | [], as, h => simpa [summArr] using h
  | _ :: _, [], h => simp [summArr]
  | pf :: alls, a :: as, h =>
    simp only [summArr]
    split
    · exact h
    · have hr := readArr_ufInv col f (pf :: alls) (a :: as) h
      obtain ⟨b, bs, hb, hv⟩ := readArr_head col f pf alls a as
      split
      · rename_i x hx
        rw [hb] at hr ⊢
        intro c hc
        simp only [modHead] at hc
        rcases List.mem_cons.1 hc with rfl | hc
        · exact ufInv_addUf (hr b (List.mem_cons_self ..)) f u x _ hv hx
        · exact hr c (List.mem_cons_of_mem _ hc)
      · exact hr

/-- the reported summary is the fold of the reported array, whatever is cached -/
theorem summArr_eq (col : List Int) (f u : Nat) (alls : List (List Bool)) (as : List Aux)
    (h : ∀ a ∈ as, UfInv a) :
    (summArr col f u alls as).1 = ufn u (readArr col f alls as).1 := by
  match alls, as, h with
  | [], as, _ => simp [summArr, readArr]
  | _ :: _, [], _ => simp [summArr, readArr]
  | pf :: alls, a :: as, h =>
    simp only [summArr]
    split
    · rename_i x hx
      obtain ⟨v, hv, hu⟩ := h a (List.mem_cons_self ..) f u x hx
      simp only [readArr, hv, hu]
    · split
      · rename_i x hx; exact hx.symm
      · rename_i hx; exact hx.symm

/-! ## the state invariant -/

structure XInv (x : X) : Prop where
  len : x.a.length = x.s.length
  uf : ∀ a ∈ x.a, UfInv a

theorem mem_take_append_drop {as bs : List Aux} {k : Nat} {P : Aux → Prop}
    (h1 : ∀ a ∈ as, P a) (h2 : ∀ b ∈ bs, P b) : ∀ c ∈ as.take k ++ bs, P c := by
  intro c hc
  rcases List.mem_append.1 hc with hc | hc
  · exact h1 c (List.mem_of_mem_take hc)
  · exact h2 c hc

theorem ufInv_auxApply : ∀ as : List Aux, (∀ a ∈ as, UfInv a) → ∀ b ∈ auxApply as, UfInv b
  | [], _ => by simp [auxApply]
  | [r], h => by simpa [auxApply] using h
  | a :: p :: rest, h => by
    have ih := ufInv_auxApply (p :: rest) (fun a ha => h a (List.mem_cons_of_mem _ ha))
    simp only [auxApply]
    intro b hb
    rcases List.mem_cons.1 hb with rfl | hb
    · intro f u r hl
      simp [emptyFC] at hl
    · exact ih b hb

theorem ufInv_setLastCalc (v : Int) : ∀ as : List Aux, (∀ a ∈ as, UfInv a) →
    ∀ b ∈ setLastCalc v as, UfInv b
  | [], _ => by simp [setLastCalc]
  | [r], h => by
    intro b hb
    simp only [setLastCalc, List.mem_singleton] at hb
    subst hb
    exact h r (List.mem_singleton.2 rfl)
  | a :: c :: as, h => by
    have ih := ufInv_setLastCalc v (c :: as) (fun a ha => h a (List.mem_cons_of_mem _ ha))
    intro b hb
    simp only [setLastCalc] at hb
    rcases List.mem_cons.1 hb with rfl | hb
    · exact h _ (List.mem_cons_self ..)
    · exact ih b hb

theorem xinv_step (D : Data) (x : X) (op : XOp) (h : XInv x) : XInv (xstep D x op) := by
  have hdrop : ∀ k, ∀ a ∈ x.a.drop k, UfInv a := fun k a ha => h.uf a (List.mem_of_mem_drop ha)
  cases op with
  | base op =>
    refine ⟨?_, ?_⟩
    · simp only [xstep, length_step]
      cases hk : refreshPos op with
      | none => exact h.len
      | some k =>
        simp only [List.length_append, length_auxApply, List.length_take, List.length_drop]
        have := h.len
        omega
    · simp only [xstep]
      cases hk : refreshPos op with
      | none => exact h.uf
      | some k => exact mem_take_append_drop h.uf (ufInv_auxApply _ (hdrop k))
  | setCol f v => exact ⟨h.len, h.uf⟩
  | setCalc v =>
    exact ⟨by simp only [xstep, length_setLastCalc]; exact h.len, ufInv_setLastCalc v _ h.uf⟩
  | read k f =>
    refine ⟨?_, mem_take_append_drop h.uf (readArr_ufInv _ _ _ _ (hdrop k))⟩
    simp only [xstep, readAt, List.length_append, length_readArr, List.length_take,
      List.length_drop]
    have := h.len
    omega
  | summ k f u =>
    refine ⟨?_, mem_take_append_drop h.uf (summArr_ufInv _ _ _ _ _ (hdrop k))⟩
    simp only [xstep, summAt, List.length_append, length_summArr, List.length_take,
      List.length_drop]
    have := h.len
    omega

theorem xinv_run (D : Data) : ∀ (h : List XOp) (x : X), XInv x → XInv (xrun D x h)
  | [], _, hx => hx
  | op :: h, x, hx => xinv_run D h _ (xinv_step D x op hx)

theorem xinv_init (D : Data) (d : Nat) (cols : List (List Int)) (cc : Int) :
    XInv (xinit D d cols cc) := by
  refine ⟨by simp [xinit, length_initChain], ?_⟩
  intro a ha
  simp only [xinit, List.mem_replicate] at ha
  rw [ha.2]
  exact ufInv_empty cc

end DclabModel.HierCache
