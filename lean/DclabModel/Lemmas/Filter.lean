import DclabModel.Model.Filter
import DclabModel.Lemmas.Down
/-!
# Helper lemmas for the filter model (C03): association lists, the cache-coherence invariant
and the correctness of one `update`.  Core Lean only.
-/
namespace DclabModel.Filter
open DclabModel.Down

/-! ## association lists -/

theorem getR_some_mem {l : Ranges} {k : Key} {v : Val} (h : getR l k = some v) : (k, v) ∈ l := by
  induction l with
  | nil => simp [getR] at h
  | cons e r ih =>
    obtain ⟨k', w⟩ := e
    simp only [getR] at h
    by_cases hk : k' = k
    · simp only [hk, if_true, Option.some.injEq] at h
      subst hk; subst h; exact List.mem_cons_self
    · simp only [hk, if_false] at h
      exact List.mem_cons_of_mem _ (ih h)

theorem getCol_some_mem {l : List (Feat × (Nat → Val))} {f : Feat} {c : Nat → Val}
    (h : getCol l f = some c) : (f, c) ∈ l := by
  induction l with
  | nil => simp [getCol] at h
  | cons e r ih =>
    obtain ⟨g, w⟩ := e
    simp only [getCol] at h
    by_cases hk : g = f
    · simp only [hk, if_true, Option.some.injEq] at h
      subst hk; subst h; exact List.mem_cons_self
    · simp only [hk, if_false] at h
      exact List.mem_cons_of_mem _ (ih h)

theorem getCol_of_mem {l : List (Feat × (Nat → Val))} (hn : (l.map (fun e => e.1)).Nodup)
    {f : Feat} {c : Nat → Val} (h : (f, c) ∈ l) : getCol l f = some c := by
  induction l with
  | nil => cases h
  | cons e r ih =>
    obtain ⟨g, w⟩ := e
    simp only [List.map_cons, List.nodup_cons] at hn
    simp only [getCol]
    rcases List.mem_cons.1 h with h | h
    · injection h with h1 h2
      subst h1; subst h2; simp
    · have hne : g ≠ f := by
        intro hgf
        apply hn.1
        rw [hgf]
        exact List.mem_map.2 ⟨(f, c), h, rfl⟩
      simp only [hne, if_false]
      exact ih hn.2 h

theorem mem_upsert {α : Type} (l : List (Nat × α)) (k : Nat) (v : α) (e : Nat × α) :
    e ∈ upsert l k v ↔ e = (k, v) ∨ (e ∈ l ∧ e.1 ≠ k) := by
  simp [upsert, List.mem_filter]

theorem getP_some_mem {pc : PolyCache} {id : Nat} {v : Poly × Mask} (h : getP pc id = some v) :
    (id, v) ∈ pc := by
  induction pc with
  | nil => simp [getP] at h
  | cons e r ih =>
    obtain ⟨k, w⟩ := e
    simp only [getP] at h
    by_cases hk : k = id
    · simp only [hk, if_true, Option.some.injEq] at h
      subst hk; subst h; exact List.mem_cons_self
    · simp only [hk, if_false] at h
      exact List.mem_cons_of_mem _ (ih h)

theorem getP_none {pc : PolyCache} {id : Nat} (h : getP pc id = none) : ∀ e ∈ pc, e.1 ≠ id := by
  induction pc with
  | nil => intro e he; cases he
  | cons x r ih =>
    obtain ⟨k, w⟩ := x
    simp only [getP] at h
    by_cases hk : k = id
    · simp [hk] at h
    · simp only [hk, if_false] at h
      intro e he
      rcases List.mem_cons.1 he with rfl | he
      · exact hk
      · exact ih h e he

/-- unique keys -/
def KeysNodup {α : Type} (l : List (Nat × α)) : Prop := l.Pairwise (fun a b => a.1 ≠ b.1)

theorem KeysNodup.unique {α : Type} {l : List (Nat × α)} (hn : KeysNodup l) {a b : Nat × α}
    (ha : a ∈ l) (hb : b ∈ l) (hk : a.1 = b.1) : a = b := by
  induction l with
  | nil => cases ha
  | cons x r ih =>
    have hp := List.pairwise_cons.1 hn
    rcases List.mem_cons.1 ha with ha1 | ha1
    · rcases List.mem_cons.1 hb with hb1 | hb1
      · rw [ha1, hb1]
      · rw [ha1] at hk; exact absurd hk (hp.1 b hb1)
    · rcases List.mem_cons.1 hb with hb1 | hb1
      · rw [hb1] at hk; exact absurd hk.symm (hp.1 a ha1)
      · exact ih hp.2 ha1 hb1

theorem KeysNodup.upsert {α : Type} {l : List (Nat × α)} (hn : KeysNodup l) (k : Nat) (v : α) :
    KeysNodup (upsert l k v) := by
  unfold KeysNodup Filter.upsert
  refine List.pairwise_cons.2 ⟨?_, List.Pairwise.sublist List.filter_sublist hn⟩
  intro e he
  have := (List.mem_filter.1 he).2
  simp only [ne_eq, decide_not, Bool.not_eq_eq_eq_not, Bool.not_true, decide_eq_false_iff_not] at this
  exact fun h => this h.symm

theorem KeysNodup.filter {α : Type} {l : List (Nat × α)} (hn : KeysNodup l)
    (p : Nat × α → Bool) : KeysNodup (l.filter p) :=
  List.Pairwise.sublist List.filter_sublist hn

/-! ## `np.unique` -/

theorem mem_ins (a x : Nat) (l : List Nat) : x ∈ ins a l ↔ x = a ∨ x ∈ l := by
  induction l with
  | nil => simp [ins]
  | cons b l ih =>
    simp only [ins]
    by_cases h1 : a < b
    · simp [h1]
    · by_cases h2 : a = b
      · subst h2; simp
      · simp only [h1, h2, if_false, List.mem_cons, ih]
        constructor
        · rintro (h | h | h)
          · exact Or.inr (Or.inl h)
          · exact Or.inl h
          · exact Or.inr (Or.inr h)
        · rintro (h | h | h)
          · exact Or.inr (Or.inl h)
          · exact Or.inl h
          · exact Or.inr (Or.inr h)

theorem mem_sortUniq (x : Nat) (l : List Nat) : x ∈ sortUniq l ↔ x ∈ l := by
  induction l with
  | nil => simp [sortUniq]
  | cons a l ih =>
    have : sortUniq (a :: l) = ins a (sortUniq l) := rfl
    rw [this, mem_ins, ih, List.mem_cons]

/-! ## the diff of settings -/

/-- **Key lemma.** A feature that is not selected by the (fixed) diff has the same min/max
settings – present or absent – as at the previous update. -/
theorem unchanged_keys (cur old : Ranges) (force : List Feat) (f : Feat)
    (h : f ∉ feat2filter true cur old force) (mx : Bool) :
    getR cur (f, mx) = getR old (f, mx) := by
  have hc : f ∉ changedFeats true cur old := fun hm =>
    h ((mem_sortUniq _ _).2 (List.mem_append_left _ hm))
  cases hcur : getR cur (f, mx) with
  | some v =>
    by_cases hq : getR old (f, mx) = some v
    · exact hq.symm
    · exfalso
      apply hc
      unfold changedFeats
      apply List.mem_append_left
      refine List.mem_map.2 ⟨((f, mx), v), List.mem_filter.2 ⟨getR_some_mem hcur, ?_⟩, rfl⟩
      simp [hq]
  | none =>
    cases hold : getR old (f, mx) with
    | none => rfl
    | some v =>
      exfalso
      apply hc
      unfold changedFeats
      apply List.mem_append_right
      simp only [if_true]
      refine List.mem_map.2 ⟨((f, mx), v), List.mem_filter.2 ⟨getR_some_mem hold, ?_⟩, rfl⟩
      simp [hcur]

theorem boxMask_congr (cur old : Ranges) (f : Feat) (col : Nat → Val)
    (h0 : getR cur (f, false) = getR old (f, false))
    (h1 : getR cur (f, true) = getR old (f, true)) :
    boxMask cur f col = boxMask old f col := by
  unfold boxMask
  rw [h0, h1]

theorem halfSet_exists_key {r : Ranges} {f : Feat} (h : halfSet r f = true) :
    ∃ e ∈ r, e.1.1 = f := by
  unfold halfSet at h
  cases h0 : getR r (f, false) with
  | some v => exact ⟨((f, false), v), getR_some_mem h0, rfl⟩
  | none =>
    cases h1 : getR r (f, true) with
    | some v => exact ⟨((f, true), v), getR_some_mem h1, rfl⟩
    | none => rw [h0, h1] at h; simp at h

/-- the stateless criterion: some key belongs to a half-set range iff some feature is half-set -/
theorem anyHalf_iff (r : Ranges) : anyHalf r = true ↔ ∃ f, halfSet r f = true := by
  unfold anyHalf
  rw [List.any_eq_true]
  constructor
  · rintro ⟨e, _, h⟩; exact ⟨_, h⟩
  · rintro ⟨f, h⟩
    obtain ⟨e, he, hk⟩ := halfSet_exists_key h
    exact ⟨e, he, by rw [hk]; exact h⟩

/-- **The validation loop decides a stateless question.** If no range was half-set at the
last successful update, then "some feature selected by the diff is half-set" is the same as
"some feature of the current settings is half-set". -/
theorem stage_any_eq (cur old : Ranges) (force : List Feat) (hold : ∀ f, halfSet old f = false) :
    (feat2filter true cur old force).any (halfSet cur) = anyHalf cur := by
  rw [Bool.eq_iff_iff, List.any_eq_true, anyHalf_iff]
  constructor
  · rintro ⟨f, _, h⟩; exact ⟨f, h⟩
  · rintro ⟨f, h⟩
    by_cases hf : f ∈ feat2filter true cur old force
    · exact ⟨f, hf, h⟩
    · exfalso
      have h0 := unchanged_keys cur old force f hf false
      have h1 := unchanged_keys cur old force f hf true
      have h2 := hold f
      unfold halfSet at h h2
      rw [h0, h1] at h
      rw [h] at h2
      cases h2

/-! ## the box loop -/

/-- before `fix-F25` the loop coincides with `boxFold` when no range is half-set -/
theorem boxLoop_eq (cur : Ranges) (d : Data) (hv : ∀ f, halfSet cur f = false)
    (fs : List Feat) (bc : BoxCache) : boxLoop cur d fs bc = (boxFold cur d fs bc, true) := by
  induction fs generalizing bc with
  | nil => rfl
  | cons f fs ih =>
    simp only [boxLoop, boxFold, hv f, Bool.false_eq_true, if_false]
    cases getCol d.cols f with
    | none => exact ih bc
    | some col => exact ih _

theorem boxFold_mem (cur : Ranges) (d : Data) (fs : List Feat) (bc : BoxCache)
    (hbc : ∀ e ∈ bc, (getCol d.cols e.1).isSome = true) (e : Feat × Mask)
    (he : e ∈ boxFold cur d fs bc) :
    (e.1 ∈ fs ∧ ∃ col, getCol d.cols e.1 = some col ∧ e.2 = boxMask cur e.1 col) ∨
    (e.1 ∉ fs ∧ e ∈ bc) := by
  induction fs generalizing bc with
  | nil => exact Or.inr ⟨by simp, he⟩
  | cons f fs ih =>
    simp only [boxFold] at he
    cases hcol : getCol d.cols f with
    | none =>
      rw [hcol] at he
      rcases ih bc hbc he with h | h
      · exact Or.inl ⟨List.mem_cons_of_mem _ h.1, h.2⟩
      · refine Or.inr ⟨?_, h.2⟩
        intro hm
        rcases List.mem_cons.1 hm with hm | hm
        · have := hbc e h.2
          rw [hm, hcol] at this
          cases this
        · exact h.1 hm
    | some col =>
      rw [hcol] at he
      have hbc' : ∀ e ∈ upsert bc f (boxMask cur f col), (getCol d.cols e.1).isSome = true := by
        intro x hx
        rcases (mem_upsert _ _ _ _).1 hx with rfl | hx
        · simp [hcol]
        · exact hbc x hx.1
      rcases ih _ hbc' he with h | h
      · exact Or.inl ⟨List.mem_cons_of_mem _ h.1, h.2⟩
      · rcases (mem_upsert _ _ _ _).1 h.2 with rfl | hx
        · exact Or.inl ⟨List.mem_cons_self, col, hcol, rfl⟩
        · refine Or.inr ⟨?_, hx.1⟩
          intro hm
          rcases List.mem_cons.1 hm with hm | hm
          · exact hx.2 hm
          · exact h.1 hm

theorem boxFold_keep (cur : Ranges) (d : Data) (fs : List Feat) (bc : BoxCache)
    (e : Feat × Mask) (he : e ∈ bc) (hf : e.1 ∉ fs) : e ∈ boxFold cur d fs bc := by
  induction fs generalizing bc with
  | nil => exact he
  | cons f fs ih =>
    simp only [boxFold]
    have h1 : e.1 ≠ f := fun h => hf (h ▸ List.mem_cons_self)
    have h2 : e.1 ∉ fs := fun h => hf (List.mem_cons_of_mem _ h)
    cases getCol d.cols f with
    | none => exact ih bc he h2
    | some col => exact ih _ ((mem_upsert _ _ _ _).2 (Or.inr ⟨he, h1⟩)) h2

theorem boxFold_key (cur : Ranges) (d : Data) (fs : List Feat) (bc : BoxCache) (f : Feat)
    (col : Nat → Val) (hf : f ∈ fs) (hcol : getCol d.cols f = some col) :
    ∃ e ∈ boxFold cur d fs bc, e.1 = f := by
  induction fs generalizing bc with
  | nil => cases hf
  | cons g fs ih =>
    simp only [boxFold]
    by_cases hfs : f ∈ fs
    · cases getCol d.cols g with
      | none => exact ih bc hfs
      | some c => exact ih _ hfs
    · have hg : g = f := by
        rcases List.mem_cons.1 hf with h | h
        · exact h.symm
        · exact absurd h hfs
      subst hg
      rw [hcol]
      exact ⟨(g, boxMask cur g col),
        boxFold_keep cur d fs _ _ ((mem_upsert _ _ _ _).2 (Or.inl rfl)) hfs, rfl⟩

/-! ## the polygon loop -/

/-- coherence of the polygon cache: unique ids, every mask is the mask of the stored content -/
def PInv (pip : Nat → Val → Val → Bool) (d : Data) (pc : PolyCache) : Prop :=
  KeysNodup pc ∧ ∀ e ∈ pc, e.2.2 = polyMask pip d e.2.1

/-- polygon `id` is cached with the registry's current content -/
def Fresh (reg : Nat → Poly) (pc : PolyCache) (id : Nat) : Prop :=
  (∃ e ∈ pc, e.1 = id) ∧ ∀ e ∈ pc, e.1 = id → e.2.1 = reg id

theorem polyStep_mem (pip : Nat → Val → Val → Bool) (d : Data) (reg : Nat → Poly)
    (pc : PolyCache) (id : Nat) (e : Nat × (Poly × Mask)) (he : e ∈ polyStep pip d reg pc id) :
    e = (id, (reg id, polyMask pip d (reg id))) ∨ e ∈ pc := by
  unfold polyStep at he
  split at he
  · split at he
    · exact Or.inr he
    · rcases (mem_upsert _ _ _ _).1 he with h | h
      · exact Or.inl h
      · exact Or.inr h.1
  · rcases (mem_upsert _ _ _ _).1 he with h | h
    · exact Or.inl h
    · exact Or.inr h.1

theorem polyStep_other (pip : Nat → Val → Val → Bool) (d : Data) (reg : Nat → Poly)
    (pc : PolyCache) (id : Nat) (e : Nat × (Poly × Mask)) (hne : e.1 ≠ id) :
    e ∈ polyStep pip d reg pc id ↔ e ∈ pc := by
  unfold polyStep
  split
  · split
    · exact Iff.rfl
    · rw [mem_upsert]
      constructor
      · rintro (h | h)
        · rw [h] at hne; exact absurd rfl hne
        · exact h.1
      · intro h; exact Or.inr ⟨h, hne⟩
  · rw [mem_upsert]
    constructor
    · rintro (h | h)
      · rw [h] at hne; exact absurd rfl hne
      · exact h.1
    · intro h; exact Or.inr ⟨h, hne⟩

theorem polyStep_inv (pip : Nat → Val → Val → Bool) (d : Data) (reg : Nat → Poly)
    (pc : PolyCache) (id : Nat) (h : PInv pip d pc) : PInv pip d (polyStep pip d reg pc id) := by
  have hup : PInv pip d (upsert pc id (reg id, polyMask pip d (reg id))) := by
    refine ⟨h.1.upsert _ _, ?_⟩
    intro e he
    rcases (mem_upsert _ _ _ _).1 he with rfl | he
    · rfl
    · exact h.2 e he.1
  unfold polyStep
  split
  · split
    · exact h
    · exact hup
  · exact hup

theorem polyStep_fresh (pip : Nat → Val → Val → Bool) (d : Data) (reg : Nat → Poly)
    (pc : PolyCache) (id : Nat) (h : KeysNodup pc) : Fresh reg (polyStep pip d reg pc id) id := by
  have hup : Fresh reg (upsert pc id (reg id, polyMask pip d (reg id))) id := by
    refine ⟨⟨_, (mem_upsert _ _ _ _).2 (Or.inl rfl), rfl⟩, ?_⟩
    intro e he hk
    rcases (mem_upsert _ _ _ _).1 he with rfl | he
    · rfl
    · exact absurd hk he.2
  unfold polyStep
  split
  · rename_i p m hg
    split
    · rename_i hp
      have hm := getP_some_mem hg
      refine ⟨⟨_, hm, rfl⟩, ?_⟩
      intro e he hk
      have : e = (id, (p, m)) := h.unique he hm hk
      rw [this]; exact hp
    · exact hup
  · exact hup

theorem polyStep_fresh_keep (pip : Nat → Val → Val → Bool) (d : Data) (reg : Nat → Poly)
    (pc : PolyCache) (id id0 : Nat) (h : KeysNodup pc) (hf : Fresh reg pc id0) :
    Fresh reg (polyStep pip d reg pc id) id0 := by
  by_cases hid : id = id0
  · subst hid; exact polyStep_fresh pip d reg pc id h
  · obtain ⟨⟨e, he, hk⟩, h2⟩ := hf
    have hne : e.1 ≠ id := by rw [hk]; exact fun h => hid h.symm
    refine ⟨⟨e, (polyStep_other pip d reg pc id e hne).2 he, hk⟩, ?_⟩
    intro x hx hxk
    have hne' : x.1 ≠ id := by rw [hxk]; exact fun h => hid h.symm
    exact h2 x ((polyStep_other pip d reg pc id x hne').1 hx) hxk

theorem polyFold_inv (pip : Nat → Val → Val → Bool) (d : Data) (reg : Nat → Poly)
    (ids : List Nat) (pc : PolyCache) (h : PInv pip d pc) :
    PInv pip d (ids.foldl (polyStep pip d reg) pc) := by
  induction ids generalizing pc with
  | nil => exact h
  | cons a r ih => exact ih _ (polyStep_inv pip d reg pc a h)

theorem polyFold_keep (pip : Nat → Val → Val → Bool) (d : Data) (reg : Nat → Poly)
    (ids : List Nat) (pc : PolyCache) (id0 : Nat) (h : PInv pip d pc) (hf : Fresh reg pc id0) :
    Fresh reg (ids.foldl (polyStep pip d reg) pc) id0 := by
  induction ids generalizing pc with
  | nil => exact hf
  | cons a r ih =>
    exact ih _ (polyStep_inv pip d reg pc a h) (polyStep_fresh_keep pip d reg pc a id0 h.1 hf)

theorem polyFold_fresh (pip : Nat → Val → Val → Bool) (d : Data) (reg : Nat → Poly)
    (ids : List Nat) (pc : PolyCache) (h : PInv pip d pc) :
    ∀ id ∈ ids, Fresh reg (ids.foldl (polyStep pip d reg) pc) id := by
  induction ids generalizing pc with
  | nil => intro id hid; cases hid
  | cons a r ih =>
    intro id hid
    have hinv := polyStep_inv pip d reg pc a h
    by_cases hr : id ∈ r
    · exact ih _ hinv id hr
    · have : id = a := by
        rcases List.mem_cons.1 hid with h | h
        · exact h
        · exact absurd h hr
      subst this
      exact polyFold_keep pip d reg r _ id hinv (polyStep_fresh pip d reg pc id h.1)

theorem polyFold_mem (pip : Nat → Val → Val → Bool) (d : Data) (reg : Nat → Poly)
    (ids : List Nat) (pc : PolyCache) (e : Nat × (Poly × Mask))
    (he : e ∈ ids.foldl (polyStep pip d reg) pc) : e.1 ∈ ids ∨ e ∈ pc := by
  induction ids generalizing pc with
  | nil => exact Or.inr he
  | cons a r ih =>
    rcases ih _ he with h | h
    · exact Or.inl (List.mem_cons_of_mem _ h)
    · rcases polyStep_mem pip d reg pc a e h with h | h
      · exact Or.inl (by rw [h]; exact List.mem_cons_self)
      · exact Or.inr h

/-! ## the cache-coherence invariant and one `update` -/

/-- **Cache coherence.** Every cached box filter is the box filter of the settings at the last
update; a feature without a cached box filter had no active range then; every cached polygon
mask is the mask of the polygon content it was computed for; polygon ids are unique; the
settings of the last successful update had no half-set range. -/
structure Inv (pip : Nat → Val → Val → Bool) (d : Data) (st : FState) : Prop where
  box_ok : ∀ e ∈ st.box, ∃ col, getCol d.cols e.1 = some col ∧ e.2 = boxMask st.old e.1 col
  box_miss : ∀ f col, getCol d.cols f = some col → (∀ e ∈ st.box, e.1 ≠ f) →
    boxMask st.old f col = fun _ => true
  poly_ok : PInv pip d st.poly
  old_ok : ∀ f, halfSet st.old f = false

theorem inv_init (pip : Nat → Val → Val → Bool) (d : Data) (n : Nat) : Inv pip d (FState.init n) where
  box_ok := fun e he => by cases he
  box_miss := fun f col _ _ => by simp [FState.init, boxMask, getR]
  poly_ok := ⟨List.Pairwise.nil, fun e he => by cases he⟩
  old_ok := fun f => by simp [FState.init, halfSet, getR]

theorem toList_congr (n : Nat) (f g : Mask) (h : ∀ i, f i = g i) : toList n f = toList n g := by
  unfold toList
  exact List.map_congr_left (fun i _ => h i)

/-- one `update` (current code) at settings with a half-set range: `ValueError`, the
invariant is untouched, `manual` and the `all` array are unchanged -/
theorem update_err (choice : List Nat → Nat → List Nat) (pip : Nat → Val → Val → Bool)
    (d : Data) (cfg : Cfg) (reg : Nat → Poly)
    (force : List Feat) (st : FState) (hinv : Inv pip d st)
    (hh : anyHalf cfg.ranges = true) (hv2 : polysOK d reg cfg.polys = true) :
    (update .f25 choice pip d cfg reg force st).2 = .errValue ∧
    Inv pip d (update .f25 choice pip d cfg reg force st).1 ∧
    (update .f25 choice pip d cfg reg force st).1.manual = st.manual ∧
    (update .f25 choice pip d cfg reg force st).1.aAll = st.aAll ∧
    (update .f25 choice pip d cfg reg force st).1.old = st.old := by
  have hne : (Ver.f25 != Ver.orig) = true := rfl
  have hany := stage_any_eq cfg.ranges st.old force hinv.old_ok
  have hupd : update .f25 choice pip d cfg reg force st =
      ({ st with box := st.box.filter (fun e => d.has e.1),
                 poly := st.poly.filter (fun e => cfg.polys.contains e.1 && d.has (reg e.1).ax
                                          && d.has (reg e.1).ay),
                 aInv := toList d.n (invalidMask d cfg.removeInvalid) }, .errValue) := by
    unfold update
    rw [if_pos hv2]
    simp only [boxStage, hne, if_true, hany, hh]
  rw [hupd]
  refine ⟨rfl, ⟨?_, ?_, ?_, hinv.old_ok⟩, rfl, rfl, rfl⟩
  · intro e he
    exact hinv.box_ok e (List.mem_filter.1 he).1
  · intro f col hc hno
    apply hinv.box_miss f col hc
    intro e he hk
    refine hno e (List.mem_filter.2 ⟨he, ?_⟩) hk
    obtain ⟨col', hc', _⟩ := hinv.box_ok e he
    simp [Data.has, hc']
  · exact ⟨hinv.poly_ok.1.filter _, fun e he => hinv.poly_ok.2 e (List.mem_filter.1 he).1⟩

/-- one `update` (current code) at settings without half-set range: no error, the invariant
is re-established for the new settings, and all four arrays equal their stateless
specification -/
theorem update_ok (choice : List Nat → Nat → List Nat) (pip : Nat → Val → Val → Bool)
    (d : Data) (hd : (d.cols.map (fun e => e.1)).Nodup) (cfg : Cfg) (reg : Nat → Poly)
    (force : List Feat) (st : FState) (hinv : Inv pip d st)
    (hh : anyHalf cfg.ranges = false) (hv2 : polysOK d reg cfg.polys = true) :
    (update .f25 choice pip d cfg reg force st).2 = .ok ∧
    Inv pip d (update .f25 choice pip d cfg reg force st).1 ∧
    (update .f25 choice pip d cfg reg force st).1.manual = st.manual ∧
    (update .f25 choice pip d cfg reg force st).1.aAll = spec choice pip d cfg reg st.manual ∧
    (update .f25 choice pip d cfg reg force st).1.aBox = toList d.n (specBox d cfg) ∧
    (update .f25 choice pip d cfg reg force st).1.aPoly = toList d.n (specPoly pip d cfg reg) ∧
    (update .f25 choice pip d cfg reg force st).1.aInv =
      toList d.n (invalidMask d cfg.removeInvalid) := by
  have hv1 : ∀ f, halfSet cfg.ranges f = false := by
    intro f
    cases h : halfSet cfg.ranges f with
    | false => rfl
    | true => rw [(anyHalf_iff _).2 ⟨f, h⟩] at hh; cases hh
  have hne : (Ver.f25 != Ver.orig) = true := rfl
  have hany0 := stage_any_eq cfg.ranges st.old force hinv.old_ok
  -- names for the intermediate caches
  generalize hfs : feat2filter true cfg.ranges st.old force = fs
  have hany : fs.any (halfSet cfg.ranges) = false := by rw [← hfs, hany0, hh]
  generalize hb0 : st.box.filter (fun e => d.has e.1) = box0
  generalize hp0 : st.poly.filter (fun e => cfg.polys.contains e.1 && d.has (reg e.1).ax
      && d.has (reg e.1).ay) = poly0
  have hupd : update .f25 choice pip d cfg reg force st =
      ({ box := boxFold cfg.ranges d fs box0,
         poly := cfg.polys.foldl (polyStep pip d reg) poly0,
         old := cfg.ranges, manual := st.manual,
         aAll := if cfg.enable then
             (if cfg.limit > 0 then limitL choice cfg.limit
                 (toList d.n (fun i => (boxFold cfg.ranges d fs box0).all (fun e => e.2 i) &&
                    invalidMask d cfg.removeInvalid i &&
                    (cfg.polys.foldl (polyStep pip d reg) poly0).all (fun e => e.2.2 i) &&
                    st.manual i))
              else toList d.n (fun i => (boxFold cfg.ranges d fs box0).all (fun e => e.2 i) &&
                    invalidMask d cfg.removeInvalid i &&
                    (cfg.polys.foldl (polyStep pip d reg) poly0).all (fun e => e.2.2 i) &&
                    st.manual i))
           else List.replicate d.n true,
         aBox := toList d.n (fun i => (boxFold cfg.ranges d fs box0).all (fun e => e.2 i)),
         aPoly := toList d.n
           (fun i => (cfg.polys.foldl (polyStep pip d reg) poly0).all (fun e => e.2.2 i)),
         aInv := toList d.n (invalidMask d cfg.removeInvalid) }, .ok) := by
    unfold update
    rw [if_pos hv2]
    simp only [boxStage, hne, if_true, hfs, hany, hb0, hp0, Bool.false_eq_true, if_false]
  rw [hupd]
  -- box cache facts
  have hbox0 : ∀ e ∈ box0, (getCol d.cols e.1).isSome = true := by
    intro e he
    rw [← hb0] at he
    exact (List.mem_filter.1 he).2
  have hbox0_sub : ∀ e ∈ box0, e ∈ st.box := by
    intro e he
    rw [← hb0] at he
    exact (List.mem_filter.1 he).1
  have hbox0_keep : ∀ e ∈ st.box, e ∈ box0 := by
    intro e he
    rw [← hb0]
    refine List.mem_filter.2 ⟨he, ?_⟩
    obtain ⟨col, hc, _⟩ := hinv.box_ok e he
    simp [Data.has, hc]
  have hsame : ∀ f, f ∉ fs → ∀ col, boxMask cfg.ranges f col = boxMask st.old f col := by
    intro f hf col
    rw [← hfs] at hf
    exact boxMask_congr _ _ f col (unchanged_keys _ _ force f hf false)
      (unchanged_keys _ _ force f hf true)
  -- (I1') every cached box filter is the one of the new settings
  have hbox_ok : ∀ e ∈ boxFold cfg.ranges d fs box0,
      ∃ col, getCol d.cols e.1 = some col ∧ e.2 = boxMask cfg.ranges e.1 col := by
    intro e he
    rcases boxFold_mem cfg.ranges d fs box0 hbox0 e he with h | h
    · exact h.2
    · obtain ⟨col, hc, hm⟩ := hinv.box_ok e (hbox0_sub e h.2)
      exact ⟨col, hc, by rw [hm, hsame e.1 h.1 col]⟩
  -- (I2') a feature without cache entry has no active range in the new settings
  have hbox_miss : ∀ f col, getCol d.cols f = some col →
      (∀ e ∈ boxFold cfg.ranges d fs box0, e.1 ≠ f) → boxMask cfg.ranges f col = fun _ => true := by
    intro f col hc hno
    have hf : f ∉ fs := by
      intro hf
      obtain ⟨e, he, hk⟩ := boxFold_key cfg.ranges d fs box0 f col hf hc
      exact hno e he hk
    rw [hsame f hf col]
    apply hinv.box_miss f col hc
    intro e he hk
    exact hno e (boxFold_keep cfg.ranges d fs box0 e (hbox0_keep e he) (by rw [hk]; exact hf)) hk
  -- polygon cache facts
  have hpinv0 : PInv pip d poly0 := by
    rw [← hp0]
    exact ⟨hinv.poly_ok.1.filter _, fun e he => hinv.poly_ok.2 e (List.mem_filter.1 he).1⟩
  have hpinv1 := polyFold_inv pip d reg cfg.polys poly0 hpinv0
  have hfresh := polyFold_fresh pip d reg cfg.polys poly0 hpinv0
  have hpkeys : ∀ e ∈ cfg.polys.foldl (polyStep pip d reg) poly0, e.1 ∈ cfg.polys := by
    intro e he
    rcases polyFold_mem pip d reg cfg.polys poly0 e he with h | h
    · exact h
    · rw [← hp0] at h
      have := (List.mem_filter.1 h).2
      simp only [Bool.and_eq_true, List.contains_iff_mem] at this
      exact this.1.1
  -- the arrays
  have harrBox : ∀ i, (boxFold cfg.ranges d fs box0).all (fun e => e.2 i) = specBox d cfg i := by
    intro i
    unfold specBox
    rw [Bool.eq_iff_iff, List.all_eq_true, List.all_eq_true]
    constructor
    · intro h c hcm
      have hc := getCol_of_mem hd (show (c.1, c.2) ∈ d.cols from hcm)
      by_cases hex : ∃ e ∈ boxFold cfg.ranges d fs box0, e.1 = c.1
      · obtain ⟨e, he, hk⟩ := hex
        obtain ⟨col, hc', hm⟩ := hbox_ok e he
        rw [hk, hc] at hc'
        injection hc' with hc'
        have := h e he
        rw [hm, hk, ← hc'] at this
        exact this
      · have := hbox_miss c.1 c.2 hc (fun e he hk => hex ⟨e, he, hk⟩)
        rw [this]
    · intro h e he
      obtain ⟨col, hc, hm⟩ := hbox_ok e he
      have := h (e.1, col) (getCol_some_mem hc)
      rw [hm]; exact this
  have harrPoly : ∀ i, (cfg.polys.foldl (polyStep pip d reg) poly0).all (fun e => e.2.2 i)
      = specPoly pip d cfg reg i := by
    intro i
    unfold specPoly
    rw [Bool.eq_iff_iff, List.all_eq_true, List.all_eq_true]
    constructor
    · intro h id hid
      obtain ⟨⟨e, he, hk⟩, hcont⟩ := hfresh id hid
      have := h e he
      rw [hpinv1.2 e he, hcont e he hk] at this
      exact this
    · intro h e he
      have hid := hpkeys e he
      obtain ⟨_, hcont⟩ := hfresh e.1 hid
      rw [hpinv1.2 e he, hcont e he rfl]
      exact h e.1 hid
  have hpre : ∀ i, ((boxFold cfg.ranges d fs box0).all (fun e => e.2 i) &&
        invalidMask d cfg.removeInvalid i &&
        (cfg.polys.foldl (polyStep pip d reg) poly0).all (fun e => e.2.2 i) && st.manual i)
      = specPre pip d cfg reg st.manual i := by
    intro i
    unfold specPre
    rw [harrBox i, harrPoly i]
  refine ⟨rfl, ⟨hbox_ok, hbox_miss, hpinv1, hv1⟩, rfl, ?_, ?_, ?_, rfl⟩
  · simp only [spec]
    rw [toList_congr d.n _ _ hpre]
  · exact toList_congr d.n _ _ harrBox
  · exact toList_congr d.n _ _ harrPoly

/-! ## the order on `Val` (IEEE comparisons of non-NaN values) -/

theorem vle_refl (x : Val) (h : x ≠ .nan) : vle x x = true := by
  cases x with
  | nan => exact absurd rfl h
  | ninf => rfl
  | pinf => rfl
  | fin q => simp [vle]

theorem vle_total (x y : Val) (hx : x ≠ .nan) (hy : y ≠ .nan) : vle x y = true ∨ vle y x = true := by
  cases x <;> cases y <;> simp_all [vle]
  exact Rat.le_total

theorem vle_antisymm (x y : Val) (h1 : vle x y = true) (h2 : vle y x = true) : x = y := by
  cases x <;> cases y <;> simp_all [vle]
  exact Rat.le_antisymm h1 h2

end DclabModel.Filter
