import DclabModel.Model.MetaWriter
import DclabModel.Lemmas.Meta
/-! Helper lemmas for the writer's completion (`rectify`): reading after `put`. -/
namespace DclabModel.Meta
open PyVal Except

theorem attrs_get_put (a : Attrs) (k k' : Str × Str) (v : PyVal) :
    (a.put k v).get? k' = if k = k' then some v else a.get? k' := by
  by_cases h : k = k'
  · subst h; simp [attrs_get_put_same]
  · simp [h, attrs_get_put_other _ _ _ _ h]

theorem dataKeys_distinct :
    kEventCount ≠ kSamples ∧ kEventCount ≠ kChannels ∧ kEventCount ≠ kRoiX ∧ kEventCount ≠ kRoiY ∧
    kSamples ≠ kChannels ∧ kSamples ≠ kRoiX ∧ kSamples ≠ kRoiY ∧ kChannels ≠ kRoiX ∧
    kChannels ≠ kRoiY ∧ kRoiX ≠ kRoiY := by decide

theorem not_dataKey {K : Str × Str} (h : K ∉ dataKeys) :
    kEventCount ≠ K ∧ kSamples ≠ K ∧ kChannels ≠ K ∧ kRoiX ≠ K ∧ kRoiY ≠ K := by
  simp only [dataKeys, List.mem_cons, List.not_mem_nil, or_false, not_or] at h
  obtain ⟨h1, h2, h3, h4, h5⟩ := h
  exact ⟨Ne.symm h1, Ne.symm h2, Ne.symm h3, Ne.symm h4, Ne.symm h5⟩

end DclabModel.Meta
