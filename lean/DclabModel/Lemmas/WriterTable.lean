import DclabModel.Model.WriterTable
/-! Lemmas for `Model/WriterTable.lean`: the transposition done by `store_table` for a dict. -/
namespace DclabModel.Writer

theorem getD_lt {α : Type} (l : List α) (i : Nat) (d : α) (h : i < l.length) :
    l.getD i d = l[i] := by
  simp [List.getD_eq_getElem?_getD, List.getElem?_eq_getElem h]

theorem dictRecords_length (c0 : List Tok) (cs : List (List Tok)) :
    (dictRecords (c0 :: cs)).length = c0.length := by
  simp [dictRecords]

/-- cell `(r, i)` of the stored table is entry `r` of column `i` -/
theorem dictRecords_cell (colvals : List (List Tok)) (n : Nat)
    (hrect : ∀ c ∈ colvals, c.length = n) (i r : Nat) (hi : i < colvals.length) (hr : r < n) :
    ((dictRecords colvals).getD r []).getD i fill = (colvals.getD i []).getD r fill := by
  cases colvals with
  | nil => simp at hi
  | cons c0 cs =>
    have h0 : c0.length = n := hrect c0 (by simp)
    have hr0 : r < ((List.range c0.length).map
        fun r => (c0 :: cs).map fun c => c.getD r fill).length := by simp [h0, hr]
    have e1 : (dictRecords (c0 :: cs)).getD r [] = (c0 :: cs).map fun c => c.getD r fill := by
      simp only [dictRecords]
      rw [getD_lt _ r [] hr0]
      simp
    have hi2 : i < ((c0 :: cs).map fun c => c.getD r fill).length := by simpa using hi
    rw [e1, getD_lt _ i fill hi2, getD_lt (c0 :: cs) i [] hi]
    simp only [List.getElem_map]

/-- every column is read back as passed in -/
theorem dictRecords_column (colvals : List (List Tok)) (n : Nat)
    (hrect : ∀ c ∈ colvals, c.length = n) (i : Nat) (hi : i < colvals.length) :
    column (dictRecords colvals) i = colvals.getD i [] := by
  have hlen : (colvals.getD i []).length = n := by
    rw [getD_lt _ _ _ hi]
    exact hrect _ (List.getElem_mem hi)
  have hl2 : (column (dictRecords colvals) i).length = n := by
    cases colvals with
    | nil => simp at hi
    | cons c0 cs =>
      have h0 : c0.length = n := hrect c0 (by simp)
      simp [column, dictRecords, h0]
  apply List.ext_getElem
  · rw [hlen, hl2]
  · intro r h1 h2
    have hr : r < n := by rw [← hlen]; exact h2
    have hc := dictRecords_cell colvals n hrect i r hi hr
    have hr2 : r < (dictRecords colvals).length := by simpa [column] using h1
    rw [getD_lt (dictRecords colvals) r [] hr2, getD_lt (colvals.getD i []) r fill h2] at hc
    simp only [column, List.getElem_map]
    exact hc

end DclabModel.Writer
