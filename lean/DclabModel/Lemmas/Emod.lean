import DclabModel.Model.Emod
import Mathlib.Tactic.Ring
import Mathlib.Tactic.FieldSimp
import Mathlib.Tactic.Linarith
import Mathlib.Tactic.Positivity
import Mathlib.Tactic.LinearCombination
import Mathlib.Algebra.Order.Field.Basic
import Mathlib.Algebra.Order.Field.Rat
/-!
Helper lemmas for property C05 (`Properties/C05.lean`).
-/
namespace DclabModel.Emod

/-! ## orientation determinant -/

theorem orient_sum (a b c p : P2) :
    orient a b p + orient b c p + orient c a p = orient a b c := by
  unfold orient; ring

/-- scaling the two axes multiplies every orientation determinant by `sx * sy` -/
theorem orient_scale (sx sy : Rat) (a b p : P2) :
    orient (sx * a.1, sy * a.2) (sx * b.1, sy * b.2) (sx * p.1, sy * p.2)
      = sx * sy * orient a b p := by
  unfold orient; simp only; ring


theorem xy_scalePt (sx sy : Rat) (v : Pt) : xy (scalePt sx sy v) = scaleP sx sy (xy v) := rfl
theorem val_scalePt (sx sy : Rat) (v : Pt) : val (scalePt sx sy v) = val v := rfl

theorem orient_scaleP (sx sy : Rat) (a b p : P2) :
    orient (scaleP sx sy a) (scaleP sx sy b) (scaleP sx sy p) = sx * sy * orient a b p :=
  orient_scale sx sy a b p

private theorem pos_mul_nonpos {k x : Rat} (h : 0 < k) : k * x ≤ 0 ↔ x ≤ 0 := by
  constructor
  · intro hh; by_contra hc; rw [not_le] at hc; have := mul_pos h hc; linarith
  · intro hh; exact mul_nonpos_of_nonneg_of_nonpos h.le hh

private theorem pos_mul_ne {k x : Rat} (h : 0 < k) : k * x ≠ 0 ↔ x ≠ 0 := by
  simp [h.ne']

theorem inTri_scale {sx sy : Rat} (hx : 0 < sx) (hy : 0 < sy) (a b c p : P2) :
    InTri (scaleP sx sy a) (scaleP sx sy b) (scaleP sx sy c) (scaleP sx sy p) ↔ InTri a b c p := by
  have h : 0 < sx * sy := mul_pos hx hy
  unfold InTri
  simp only [orient_scaleP, mul_nonneg_iff_of_pos_left h, pos_mul_nonpos h, pos_mul_ne h]

theorem triVal_scale {sx sy : Rat} (hx : 0 < sx) (hy : 0 < sy) (a b c : Pt) (p : P2) :
    triVal (scalePt sx sy a) (scalePt sx sy b) (scalePt sx sy c) (scaleP sx sy p)
      = triVal a b c p := by
  have h : sx * sy ≠ 0 := (mul_pos hx hy).ne'
  unfold triVal
  simp only [xy_scalePt, val_scalePt, orient_scaleP]
  rw [show sx * sy * orient (xy b) (xy c) p * val a + sx * sy * orient (xy c) (xy a) p * val b
        + sx * sy * orient (xy a) (xy b) p * val c
      = sx * sy * (orient (xy b) (xy c) p * val a + orient (xy c) (xy a) p * val b
        + orient (xy a) (xy b) p * val c) by ring]
  exact mul_div_mul_left _ _ h

theorem triAt_scale {sx sy : Rat} (hx : 0 < sx) (hy : 0 < sy) (a b c : Pt) (p : P2) :
    triAt (scalePt sx sy a) (scalePt sx sy b) (scalePt sx sy c) (scaleP sx sy p)
      = triAt a b c p := by
  unfold triAt
  simp only [xy_scalePt, inTri_scale hx hy, triVal_scale hx hy]

theorem resolve_map (f : Pt → Pt) (pts : LUT) (t : Tri) :
    resolve (pts.map f) t = (resolve pts t).map (fun r => (f r.1, f r.2.1, f r.2.2)) := by
  unfold resolve
  simp only [List.getElem?_map]
  cases pts[t.1]? <;> cases pts[t.2.1]? <;> cases pts[t.2.2]? <;> rfl

theorem triAtIdx_scale {sx sy : Rat} (hx : 0 < sx) (hy : 0 < sy) (pts : LUT) (p : P2) (t : Tri) :
    triAtIdx (pts.map (scalePt sx sy)) (scaleP sx sy p) t = triAtIdx pts p t := by
  unfold triAtIdx
  rw [resolve_map]
  cases resolve pts t with
  | none => rfl
  | some r => obtain ⟨a, b, c⟩ := r; exact triAt_scale hx hy a b c p


theorem bary_scale {sx sy : Rat} (hx : 0 < sx) (hy : 0 < sy) (T : List Tri) (pts : LUT) (p : P2) :
    bary T (pts.map (scalePt sx sy)) (scaleP sx sy p) = bary T pts p := by
  unfold bary
  congr 1
  funext t
  exact triAtIdx_scale hx hy pts p t

/-! ## linearity in the tabulated values -/


theorem triVal_scaleVal (f : Rat) (a b c : Pt) (p : P2) :
    triVal (scaleVal f a) (scaleVal f b) (scaleVal f c) p = triVal a b c p * f := by
  unfold triVal scaleVal xy val
  simp only
  rw [div_mul_eq_mul_div]
  congr 1
  ring

theorem triAt_scaleVal (f : Rat) (a b c : Pt) (p : P2) :
    triAt (scaleVal f a) (scaleVal f b) (scaleVal f c) p = (triAt a b c p).map (· * f) := by
  unfold triAt
  have h : ∀ v, xy (scaleVal f v) = xy v := fun _ => rfl
  simp only [h, triVal_scaleVal]
  split <;> rfl

theorem findSome?_map_out {α β γ : Type} (g : α → Option β) (h : β → γ) (l : List α) :
    l.findSome? (fun t => (g t).map h) = (l.findSome? g).map h := by
  induction l with
  | nil => rfl
  | cons x xs ih =>
    simp only [List.findSome?_cons]
    cases g x with
    | none => simpa using ih
    | some y => rfl

theorem bary_scaleVal (f : Rat) (T : List Tri) (pts : LUT) (p : P2) :
    bary T (pts.map (scaleVal f)) p = (bary T pts p).map (· * f) := by
  unfold bary
  rw [← findSome?_map_out]
  congr 1
  funext t
  unfold triAtIdx
  rw [resolve_map]
  cases resolve pts t with
  | none => rfl
  | some r => obtain ⟨a, b, c⟩ := r; exact triAt_scaleVal f a b c p

/-! ## scaling laws -/

theorem scaleX_eq (k : Nat) {Lin : Rat} (h : Lin ≠ 0) (Lout x : Rat) :
    scaleX k Lin Lout x = x * (Lout / Lin) ^ k := by
  unfold scaleX
  split
  · rename_i he; subst he; rw [div_self h, one_pow, mul_one]
  · rfl

theorem scaleE_eq {Lin Qin ein : Rat} (hL : Lin ≠ 0) (hQ : Qin ≠ 0) (he : ein ≠ 0)
    (Lout Qout eout : Rat) (arr : Bool) (e : Rat) :
    scaleE Lin Lout Qin Qout ein eout arr e = e * fE Lin Lout Qin Qout ein eout := by
  unfold scaleE
  split
  · rfl
  · rename_i hc
    simp only [not_or, not_not] at hc
    obtain ⟨h1, h2, _, h4⟩ := hc
    subst h1 h2 h4
    unfold fE
    rw [div_self hL, div_self hQ, div_self he]; ring

theorem fE_linear (Lin Lout Qin Qout ein eout c1 c2 : Rat) :
    fE Lin Lout Qin (c1 * Qout) ein (c2 * eout) = fE Lin Lout Qin Qout ein eout * (c1 * c2) := by
  unfold fE; ring

/-! ## maxima -/

private theorem foldl_max_mul {s : Rat} (hs : 0 ≤ s) (g : Pt → Pt) (hg : ∀ v, (g v).1 = v.1 * s)
    (vs : LUT) (m : Rat) :
    (vs.map g).foldl (fun m w => max m w.1) (m * s) = vs.foldl (fun m w => max m w.1) m * s := by
  induction vs generalizing m with
  | nil => rfl
  | cons v vs ih =>
    simp only [List.map_cons, List.foldl_cons]
    rw [hg v, ← max_mul_of_nonneg _ _ hs]
    exact ih _

theorem maxX_map_mul {s : Rat} (hs : 0 ≤ s) (g : Pt → Pt) (hg : ∀ v, (g v).1 = v.1 * s)
    (lut : LUT) : maxX (lut.map g) = maxX lut * s := by
  cases lut with
  | nil => simp [maxX]
  | cons v vs =>
    simp only [List.map_cons, maxX]
    rw [hg v]
    exact foldl_max_mul hs g hg vs _

theorem maxY_map_same (g : Pt → Pt) (hg : ∀ v, (g v).2.1 = v.2.1) (lut : LUT) :
    maxY (lut.map g) = maxY lut := by
  cases lut with
  | nil => rfl
  | cons v vs =>
    simp only [List.map_cons, maxY]
    rw [hg v]
    generalize v.2.1 = m
    induction vs generalizing m with
    | nil => rfl
    | cons w ws ih =>
      simp only [List.map_cons, List.foldl_cons]
      rw [hg w]
      exact ih _

theorem maxX_mem (lut : LUT) (h : lut ≠ []) : ∃ v ∈ lut, v.1 = maxX lut := by
  cases lut with
  | nil => exact absurd rfl h
  | cons v vs =>
    simp only [maxX]
    suffices H : ∀ (ws : LUT) (m : Rat), (m = ws.foldl (fun m w => max m w.1) m) ∨
        ∃ w ∈ ws, w.1 = ws.foldl (fun m w => max m w.1) m by
      rcases H vs v.1 with h1 | ⟨w, hw, h2⟩
      · exact ⟨v, List.mem_cons_self, h1⟩
      · exact ⟨w, List.mem_cons_of_mem _ hw, h2⟩
    intro ws
    induction ws with
    | nil => intro m; exact Or.inl rfl
    | cons w ws ih =>
      intro m
      simp only [List.foldl_cons]
      rcases ih (max m w.1) with h1 | ⟨u, hu, h2⟩
      · rcases max_choice m w.1 with hm | hm
        · left; rw [hm] at h1 ⊢; exact h1
        · right; exact ⟨w, List.mem_cons_self, by rw [hm] at h1 ⊢; exact h1⟩
      · right; exact ⟨u, List.mem_cons_of_mem _ hu, h2⟩

/-! ## nodes, edges -/

theorem triVal_node_a (a b c : Pt) (h : orient (xy a) (xy b) (xy c) ≠ 0) :
    triVal a b c (xy a) = val a := by
  unfold triVal
  have h1 : orient (xy b) (xy c) (xy a) = orient (xy a) (xy b) (xy c) := by unfold orient; ring
  have h2 : orient (xy c) (xy a) (xy a) = 0 := by unfold orient; ring
  have h3 : orient (xy a) (xy b) (xy a) = 0 := by unfold orient; ring
  rw [h1, h2, h3]; field_simp; ring

theorem triVal_node_b (a b c : Pt) (h : orient (xy a) (xy b) (xy c) ≠ 0) :
    triVal a b c (xy b) = val b := by
  unfold triVal
  have h1 : orient (xy b) (xy c) (xy b) = 0 := by unfold orient; ring
  have h2 : orient (xy c) (xy a) (xy b) = orient (xy a) (xy b) (xy c) := by unfold orient; ring
  have h3 : orient (xy a) (xy b) (xy b) = 0 := by unfold orient; ring
  rw [h1, h2, h3]; field_simp; ring

theorem triVal_node_c (a b c : Pt) (h : orient (xy a) (xy b) (xy c) ≠ 0) :
    triVal a b c (xy c) = val c := by
  unfold triVal
  have h1 : orient (xy b) (xy c) (xy c) = 0 := by unfold orient; ring
  have h2 : orient (xy c) (xy a) (xy c) = 0 := by unfold orient; ring
  rw [h1, h2]; field_simp; ring

theorem inTri_node_a (a b c : P2) (h : orient a b c ≠ 0) : InTri a b c a := by
  have h1 : orient b c a = orient a b c := by unfold orient; ring
  have h2 : orient c a a = 0 := by unfold orient; ring
  have h3 : orient a b a = 0 := by unfold orient; ring
  refine ⟨h, ?_⟩
  rw [h1, h2, h3]
  rcases lt_or_gt_of_ne h with hl | hl
  · right; exact ⟨le_refl _, hl.le, le_refl _⟩
  · left; exact ⟨le_refl _, hl.le, le_refl _⟩

theorem inTri_node_b (a b c : P2) (h : orient a b c ≠ 0) : InTri a b c b := by
  have h1 : orient b c b = 0 := by unfold orient; ring
  have h2 : orient c a b = orient a b c := by unfold orient; ring
  have h3 : orient a b b = 0 := by unfold orient; ring
  refine ⟨h, ?_⟩
  rw [h1, h2, h3]
  rcases lt_or_gt_of_ne h with hl | hl
  · right; exact ⟨le_refl _, le_refl _, hl.le⟩
  · left; exact ⟨le_refl _, le_refl _, hl.le⟩

theorem inTri_node_c (a b c : P2) (h : orient a b c ≠ 0) : InTri a b c c := by
  have h1 : orient b c c = 0 := by unfold orient; ring
  have h2 : orient c a c = 0 := by unfold orient; ring
  refine ⟨h, ?_⟩
  rw [h1, h2]
  rcases lt_or_gt_of_ne h with hl | hl
  · right; exact ⟨hl.le, le_refl _, le_refl _⟩
  · left; exact ⟨hl.le, le_refl _, le_refl _⟩

/-- the two numerators on a shared edge: polynomial identity behind `bary_edge_agree` -/
theorem edge_identity (a b c d : Pt) (p : P2) (h : orient (xy a) (xy b) p = 0) :
    (orient (xy b) (xy c) p * val a + orient (xy c) (xy a) p * val b
        + orient (xy a) (xy b) p * val c) * orient (xy a) (xy b) (xy d)
    = (orient (xy b) (xy d) p * val a + orient (xy d) (xy a) p * val b
        + orient (xy a) (xy b) p * val d) * orient (xy a) (xy b) (xy c) := by
  have k1 : orient (xy b) (xy c) p * orient (xy a) (xy b) (xy d)
      - orient (xy b) (xy d) p * orient (xy a) (xy b) (xy c)
      = orient (xy b) (xy c) (xy d) * orient (xy a) (xy b) p := by unfold orient; ring
  have k2 : orient (xy c) (xy a) p * orient (xy a) (xy b) (xy d)
      - orient (xy d) (xy a) p * orient (xy a) (xy b) (xy c)
      = orient (xy c) (xy a) (xy d) * orient (xy a) (xy b) p := by unfold orient; ring
  rw [h] at k1 k2 ⊢
  linear_combination (val a) * k1 + (val b) * k2


/-- barycentric expansion of the affine function `orient u v ·` over the triangle `a b c` -/
theorem orient_expand (u v a b c p : P2) :
    orient a b c * orient u v p
      = orient b c p * orient u v a + orient c a p * orient u v b + orient a b p * orient u v c := by
  unfold orient; ring

theorem getElem?_mem_of_some {pts : LUT} {i : Nat} {v : Pt} (h : pts[i]? = some v) : v ∈ pts :=
  List.mem_of_getElem? h

theorem resolve_mem {pts : LUT} {t : Tri} {a b c : Pt} (h : resolve pts t = some (a, b, c)) :
    a ∈ pts ∧ b ∈ pts ∧ c ∈ pts := by
  unfold resolve at h
  cases h1 : pts[t.1]? with
  | none => rw [h1] at h; cases h
  | some a' =>
    cases h2 : pts[t.2.1]? with
    | none => rw [h1, h2] at h; cases h
    | some b' =>
      cases h3 : pts[t.2.2]? with
      | none => rw [h1, h2, h3] at h; cases h
      | some c' =>
        rw [h1, h2, h3] at h
        simp only [Option.some.injEq, Prod.mk.injEq] at h
        obtain ⟨ha, hb, hc⟩ := h
        subst ha hb hc
        exact ⟨getElem?_mem_of_some h1, getElem?_mem_of_some h2, getElem?_mem_of_some h3⟩

/-- a point of a triangle whose vertices are on the closed non-negative side of a line is on
that side too -/
theorem inTri_side (u v a b c p : P2) (h : InTri a b c p)
    (ha : 0 ≤ orient u v a) (hb : 0 ≤ orient u v b) (hc : 0 ≤ orient u v c) :
    0 ≤ orient u v p := by
  obtain ⟨hD, hs⟩ := h
  have hsum := orient_sum a b c p
  have hexp := orient_expand u v a b c p
  rcases hs with ⟨h1, h2, h3⟩ | ⟨h1, h2, h3⟩
  · have hDpos : 0 < orient a b c := lt_of_le_of_ne (by linarith) (Ne.symm hD)
    have : 0 ≤ orient a b c * orient u v p := by
      rw [hexp]
      have := mul_nonneg h2 ha
      have := mul_nonneg h3 hb
      have := mul_nonneg h1 hc
      linarith
    exact nonneg_of_mul_nonneg_right this hDpos
  · have hDneg : orient a b c < 0 := lt_of_le_of_ne (by linarith) hD
    have : orient a b c * orient u v p ≤ 0 := by
      rw [hexp]
      have := mul_nonpos_of_nonpos_of_nonneg h2 ha
      have := mul_nonpos_of_nonpos_of_nonneg h3 hb
      have := mul_nonpos_of_nonpos_of_nonneg h1 hc
      linarith
    by_contra hneg
    rw [not_le] at hneg
    have := mul_pos_of_neg_of_neg hDneg hneg
    linarith

/-! ## canonical form of the two routes -/

theorem normLut_eq_map (nx ny : Rat) (lut : LUT) :
    normLut nx ny lut = lut.map (scalePt nx⁻¹ ny⁻¹) := by
  unfold normLut scalePt
  congr 1
  funext v
  rw [div_eq_inv_mul, div_eq_inv_mul]

/-- normalisation is transparent: interpolating the normalised table at the normalised point
equals interpolating the table itself -/
theorem bary_normLut {nx ny : Rat} (hx : 0 < nx) (hy : 0 < ny) (T : List Tri) (lut : LUT)
    (p : P2) : bary T (normLut nx ny lut) (p.1 / nx, p.2 / ny) = bary T lut p := by
  rw [normLut_eq_map]
  have : (p.1 / nx, p.2 / ny) = scaleP nx⁻¹ ny⁻¹ p := by
    unfold scaleP; rw [div_eq_inv_mul, div_eq_inv_mul]
  rw [this]
  exact bary_scale (inv_pos.mpr hx) (inv_pos.mpr hy) T lut p

theorem scaleLut_eq {m : Meta} {s : Setup} (h : Pos m s) (η : Rat) (lut : LUT) :
    scaleLut m s η lut = lut.map fun v =>
      (v.1 * (s.L / m.L0) ^ m.k, v.2.1, v.2.2 * fE m.L0 s.L m.Q0 s.Q m.eta0 η) := by
  unfold scaleLut
  congr 1
  funext v
  rw [scaleX_eq m.k h.L0.ne', scaleE_eq h.L0.ne' h.Q0 h.eta0]

/-- the global route in the form of the per-event route -/
theorem emodA_canon {m : Meta} {s : Setup} (h : Pos m s) (lut : LUT) (T : List Tri)
    (δ : Rat → Rat → Rat) (η : Rat) (ev : Rat × Rat) :
    emodA m lut T δ s η ev =
      (bary T (normLut (maxX lut) (maxY lut) lut)
        (ev.1 * (m.L0 / s.L) ^ m.k / maxX lut, corr δ s.px ev.1 ev.2 / maxY lut)).map
        (· * fE m.L0 s.L m.Q0 s.Q m.eta0 η) := by
  have hr : 0 < s.L / m.L0 := div_pos h.L h.L0
  have hs : 0 < (s.L / m.L0) ^ m.k := pow_pos hr _
  unfold emodA
  simp only
  have hY := maxY_map_same (fun v : Pt => ((v.1 * (s.L / m.L0) ^ m.k, v.2.1,
    v.2.2 * fE m.L0 s.L m.Q0 s.Q m.eta0 η) : Pt)) (fun _ => rfl) lut
  have hX := maxX_map_mul hs.le (fun v : Pt => ((v.1 * (s.L / m.L0) ^ m.k, v.2.1,
    v.2.2 * fE m.L0 s.L m.Q0 s.Q m.eta0 η) : Pt)) (fun _ => rfl) lut
  rw [scaleLut_eq h, hX, hY]
  have hl : normLut (maxX lut * (s.L / m.L0) ^ m.k) (maxY lut)
      (lut.map fun v => (v.1 * (s.L / m.L0) ^ m.k, v.2.1,
        v.2.2 * fE m.L0 s.L m.Q0 s.Q m.eta0 η))
      = (normLut (maxX lut) (maxY lut) lut).map (scaleVal (fE m.L0 s.L m.Q0 s.Q m.eta0 η)) := by
    unfold normLut scaleVal
    rw [List.map_map, List.map_map]
    congr 1
    funext v
    simp only [Function.comp]
    rw [mul_div_mul_right _ _ hs.ne']
  have hq : ev.1 / (maxX lut * (s.L / m.L0) ^ m.k) = ev.1 * (m.L0 / s.L) ^ m.k / maxX lut := by
    rw [← inv_div s.L m.L0, inv_pow, div_eq_mul_inv, div_eq_mul_inv, mul_inv]; ring
  rw [hl, hq, bary_scaleVal]

theorem emodB_canon {m : Meta} {s : Setup} (h : Pos m s) (lut : LUT) (T : List Tri)
    (δ : Rat → Rat → Rat) (ev : Rat × Rat × Rat) :
    emodB m lut T δ s ev =
      (bary T (normLut (maxX lut) (maxY lut) lut)
        (ev.1 * (m.L0 / s.L) ^ m.k / maxX lut, corr δ s.px ev.1 ev.2.1 / maxY lut)).map
        (· * fE m.L0 s.L m.Q0 s.Q m.eta0 ev.2.2) := by
  unfold emodB
  simp only
  rw [scaleX_eq m.k h.L.ne']
  congr 1
  funext e
  exact scaleE_eq h.L0.ne' h.Q0 h.eta0 _ _ _ _ _

end DclabModel.Emod
