import DclabModel.Model.Copy
/-! Helper lemmas for C08 (core Lean only). -/
namespace DclabModel.Copy

/-! ## attributes -/

theorem foldl_snoc (a : Attrs) : ∀ init : Attrs,
    a.foldl (fun acc kv => acc ++ [kv]) init = init ++ a := by
  induction a with
  | nil => intro init; simp
  | cons x xs ih => intro init; simp [List.foldl_cons, ih]

@[simp] theorem copyAttrs_eq (a : Attrs) : copyAttrs a = a := by
  simp only [copyAttrs, foldl_snoc, List.nil_append]

/-! ## strings -/

theorem dropWhile_replicate_zero (k : Nat) (t : Row) :
    (List.replicate k 0 ++ t).dropWhile (· == 0) = t.dropWhile (· == 0) := by
  induction k with
  | zero => simp
  | succ k ih => simp [List.replicate_succ, ih]

theorem dropWhile_nonzero (t : Row) (h : ∀ b, b ∈ t → b ≠ 0) : t.dropWhile (· == 0) = t := by
  cases t with
  | nil => rfl
  | cons x xs =>
    have : x ≠ 0 := h x (by simp)
    simp [this]

theorem rstrip_pad (s : Row) (k : Nat) (h : ∀ b, b ∈ s → b ≠ 0) :
    rstrip (s ++ List.replicate k 0) = s := by
  simp only [rstrip, List.reverse_append, List.reverse_replicate, dropWhile_replicate_zero]
  rw [dropWhile_nonzero _ (by intro b hb; exact h b (by simpa using hb))]
  simp

theorem rstrip_toFixed (w : Nat) (s : Row) (h : ∀ b, b ∈ s → b ≠ 0) (hw : s.length ≤ w) :
    rstrip (toFixed w s) = s := by
  have : (s ++ List.replicate (w - s.length) 0).length ≤ w := by simp; omega
  simp only [toFixed, List.take_of_length_le this]
  exact rstrip_pad s _ h

theorem length_le_maxLen : ∀ (rows : List Row) (r : Row), r ∈ rows → r.length ≤ maxLen rows := by
  intro rows
  induction rows with
  | nil => intro r h; cases h
  | cons x xs ih =>
    intro r h
    simp only [maxLen]
    rcases List.mem_cons.mp h with h | h
    · subst h; omega
    · have := ih r h; omega

theorem length_le_fixedWidth (rows : List Row) (r : Row) (h : r ∈ rows) :
    r.length ≤ fixedWidth rows := by
  have := length_le_maxLen rows r h
  simp only [fixedWidth]; omega

/-! ## the chunk loop -/

@[simp] theorem length_assign (dst src : List Row) (s e : Nat) :
    (assign dst src s e).length = dst.length := by simp [assign]

theorem getElem?_assign (dst src : List Row) (s e i : Nat) :
    (assign dst src s e)[i]? =
      (dst[i]?).map (fun d => if s ≤ i ∧ i < e then src.getD i d else d) := by
  simp [assign, List.getElem?_mapIdx]

theorem copyChunks_spec (src : List Row) : ∀ (grid : List (Nat × Nat)) (dst : List Row),
    dst.length = src.length →
    (∀ i, i < src.length → (∃ c, c ∈ grid ∧ c.1 ≤ i ∧ i < c.2) ∨ dst[i]? = src[i]?) →
    copyChunks grid src dst = src := by
  intro grid
  induction grid with
  | nil =>
    intro dst hl h
    simp only [copyChunks, List.foldl_nil]
    apply List.ext_getElem?
    intro i
    by_cases hi : i < src.length
    · rcases h i hi with ⟨c, hc, _⟩ | h
      · cases hc
      · exact h
    · rw [List.getElem?_eq_none (by omega), List.getElem?_eq_none (by omega)]
  | cons c g ih =>
    intro dst hl h
    simp only [copyChunks, List.foldl_cons]
    apply ih
    · simp [hl]
    · intro i hi
      have hd : i < dst.length := by omega
      by_cases hc : c.1 ≤ i ∧ i < c.2
      · right
        rw [getElem?_assign, List.getElem?_eq_getElem hd]
        simp [hc, List.getD_eq_getElem?_getD, List.getElem?_eq_getElem hi]
      · rcases h i hi with ⟨c', hc', h1, h2⟩ | h
        · rcases List.mem_cons.mp hc' with e | e
          · subst e; exact absurd ⟨h1, h2⟩ hc
          · left; exact ⟨c', e, h1, h2⟩
        · right
          rw [getElem?_assign, List.getElem?_eq_getElem hd]
          simp only [hc, if_false, Option.map_some]
          rw [← h, List.getElem?_eq_getElem hd]

theorem copyChunks_covers (grid : List (Nat × Nat)) (src : List Row)
    (h : Covers grid src.length) : copyChunks grid src (blank src.length) = src :=
  copyChunks_spec src grid _ (by simp [blank]) (fun i hi => Or.inl (h i hi))

/-! ## `h5dsCopy` -/

theorem h5dsCopy_none {grid : List (Nat × Nat)} {src : Dset} (h : h5dsCopy grid src = none) :
    src.rows = [] := by
  unfold h5dsCopy at h
  split at h
  · cases h
  · split at h
    · exact List.eq_nil_of_length_eq_zero (by assumption)
    · split at h <;> cases h

/-- the data of the re-created dataset are the data of the source (numeric and fixed-length
    string datasets), for every chunking and every covering chunk grid -/
theorem h5dsCopy_rows {grid : List (Nat × Nat)} {src d : Dset}
    (hg : Covers grid src.rows.length) (hs : src.str ≠ .vlen) (h : h5dsCopy grid src = some d) :
    d.rows = src.rows ∧ d.str = src.str := by
  unfold h5dsCopy at h
  split at h
  · cases h; exact ⟨rfl, rfl⟩
  · split at h
    · cases h
    · split at h
      · exact absurd (by assumption) hs
      · cases h
        refine ⟨?_, rfl⟩
        cases hc : src.chunks with
        | none => simp
        | some c => simp [copyChunks_covers grid src.rows hg]

theorem h5dsCopy_attrs {grid : List (Nat × Nat)} {src d : Dset} (h : h5dsCopy grid src = some d) :
    d.attrs = src.attrs := by
  unfold h5dsCopy at h
  split at h
  · cases h; rfl
  · split at h
    · cases h
    · split at h <;> (cases h; simp)

theorem h5dsCopy_compressed {grid : List (Nat × Nat)} {src d : Dset}
    (h : h5dsCopy grid src = some d) : d.compressed = true := by
  unfold h5dsCopy at h
  split at h
  · cases h; assumption
  · split at h
    · cases h
    · split at h <;> (cases h; rfl)

/-- a well-formed dataset: variable-length strings are NUL-free (HDF5 stores them
    NUL-terminated) -/
def WFD (d : Dset) : Prop := d.str = .vlen → ∀ r, r ∈ d.rows → ∀ b, b ∈ r → b ≠ 0

theorem map_rstrip_toFixed (rows : List Row) (w : Nat)
    (h0 : ∀ r, r ∈ rows → ∀ b, b ∈ r → b ≠ 0) (hw : ∀ r, r ∈ rows → r.length ≤ w) :
    (rows.map (toFixed w)).map rstrip = rows := by
  induction rows with
  | nil => rfl
  | cons x xs ih =>
    simp only [List.map_cons]
    rw [rstrip_toFixed w x (h0 x (by simp)) (hw x (by simp)),
        ih (fun r hr => h0 r (by simp [hr])) (fun r hr => hw r (by simp [hr]))]

/-- what is read from the copy is what is read from the source -/
theorem h5dsCopy_read {grid : List (Nat × Nat)} {src d : Dset}
    (hg : Covers grid src.rows.length) (hwf : WFD src) (h : h5dsCopy grid src = some d) :
    readRows d = readRows src ∧ d.rows.isEmpty = src.rows.isEmpty := by
  by_cases hs : src.str = .vlen
  · unfold h5dsCopy at h
    split at h
    · cases h; exact ⟨rfl, rfl⟩
    · split at h
      · cases h
      · rw [hs] at h
        simp only at h
        cases h
        constructor
        · simp only [readRows, hs]
          exact map_rstrip_toFixed _ _ (hwf hs) (fun r hr => length_le_fixedWidth _ r hr)
        · simp
  · obtain ⟨h1, h2⟩ := h5dsCopy_rows hg hs h
    simp [readRows, h1, h2]

theorem h5dsCopy_idem {grid grid' : List (Nat × Nat)} {src d : Dset}
    (h : h5dsCopy grid src = some d) : h5dsCopy grid' d = some d := by
  have := h5dsCopy_compressed h
  simp [h5dsCopy, this]

/-! ## `dedup` -/

theorem mem_dedup (x : String) : ∀ l : List String, x ∈ dedup l ↔ x ∈ l := by
  intro l
  induction l with
  | nil => simp [dedup]
  | cons y ys ih =>
    simp only [dedup]
    split
    · rw [ih]; constructor
      · intro h; exact List.mem_cons_of_mem _ h
      · intro h; rcases List.mem_cons.mp h with e | e
        · subst e; assumption
        · exact e
    · simp [ih]

theorem nodup_dedup : ∀ l : List String, (dedup l).Nodup := by
  intro l
  induction l with
  | nil => simp [dedup]
  | cons y ys ih =>
    simp only [dedup]
    split
    · exact ih
    · rw [List.nodup_cons]; exact ⟨by rw [mem_dedup]; assumption, ih⟩

/-! ## groups of datasets (logs, trace members) -/

theorem filterMap_congr' {α β : Type} {f g : α → Option β} : ∀ l : List α,
    (∀ x, x ∈ l → f x = g x) → l.filterMap f = l.filterMap g := by
  intro l
  induction l with
  | nil => intro _; rfl
  | cons x xs ih =>
    intro h
    simp only [List.filterMap_cons, h x (by simp), ih (fun y hy => h y (List.mem_cons_of_mem _ hy))]

theorem pairEntry_copy (env : Env) (hg : ∀ d, Covers (env.grid d) d.rows.length)
    (g : String → String) (kd : String × Dset) (hwf : WFD kd.2) :
    (copyPair env g kd).bind pairEntry = (pairEntry kd).map fun kl => (g kl.1, kl.2) := by
  simp only [copyPair]
  cases h : h5dsCopy (env.grid kd.2) kd.2 with
  | none => simp [pairEntry, h5dsCopy_none h]
  | some d =>
    obtain ⟨h1, h2⟩ := h5dsCopy_read (hg kd.2) hwf h
    simp only [Option.map_some, Option.bind_some, pairEntry, h1, h2]
    split <;> rfl

theorem pairs_copy (env : Env) (hg : ∀ d, Covers (env.grid d) d.rows.length)
    (g : String → String) (ls : List (String × Dset)) (hwf : ∀ kd, kd ∈ ls → WFD kd.2) :
    (ls.filterMap (copyPair env g)).filterMap pairEntry
      = (ls.filterMap pairEntry).map fun kl => (g kl.1, kl.2) := by
  rw [List.filterMap_filterMap, List.map_filterMap]
  exact filterMap_congr' ls fun kd hkd => pairEntry_copy env hg g kd (hwf kd hkd)

/-! ## nodes -/

def nodeDsets : Node → List Dset
  | .ds d => [d]
  | .grp ms => ms.map (·.2)

theorem copyNode_some (env : Env) (hg : ∀ d, Covers (env.grid d) d.rows.length) {n n' : Node}
    (hwf : ∀ d, d ∈ nodeDsets n → WFD d) (h : copyNode env n = some n') :
    nodeRows n' = nodeRows n := by
  cases n with
  | ds d =>
    simp only [copyNode] at h
    cases hc : h5dsCopy (env.grid d) d with
    | none => rw [hc] at h; cases h
    | some d' =>
      rw [hc] at h; cases h
      obtain ⟨h1, h2⟩ := h5dsCopy_read (hg d) (hwf d (by simp [nodeDsets])) hc
      simp [nodeRows, h1, h2]
  | grp ms =>
    simp only [copyNode] at h
    cases h
    have := pairs_copy env hg id ms (fun kd hkd => hwf kd.2 (by
      simp only [nodeDsets, List.mem_map]; exact ⟨kd, hkd, rfl⟩))
    simp only [nodeRows]
    rw [this]; simp

theorem copyNode_none (env : Env) {n : Node} (h : copyNode env n = none) : nodeRows n = [] := by
  cases n with
  | ds d =>
    simp only [copyNode] at h
    cases hc : h5dsCopy (env.grid d) d with
    | none => simp [nodeRows, h5dsCopy_none hc]
    | some d' => rw [hc] at h; cases h
  | grp ms => simp [copyNode] at h

@[simp] theorem nodeRows_completeSummary (env : Env) (n : Node) :
    nodeRows (completeSummary env n) = nodeRows n := by
  cases n <;> simp [completeSummary, nodeRows, readRows]

/-! ## whole files -/

def allDsets (f : File) : List Dset :=
  (f.events.map (·.node)).flatMap nodeDsets ++
  ((f.basinEvents.getD []).map (·.node)).flatMap nodeDsets ++
  (f.logs.getD []).map (·.2) ++ (f.tables.getD []).map (·.2) ++ (f.basins.getD []).map (·.body)

/-- assumptions about h5py and about the input that the preservation theorem needs -/
structure WF (env : Env) (src : File) : Prop where
  /-- `iter_chunks` covers the dataset -/
  grid : ∀ d, Covers (env.grid d) d.rows.length
  /-- variable-length strings are NUL-free -/
  dsets : ∀ d, d ∈ allDsets src → WFD d
  /-- a feature is stored either in `/events` or in `/basin_events` -/
  disjoint : ∀ f, f ∈ src.basinEvents.getD [] → (names src.events).contains f.name = false
  /-- internal basins name features that exist in the file; definitions are not empty -/
  basins : ∀ b, b ∈ src.basins.getD [] → b.body.rows ≠ [] ∧
    (b.internal = true → b.feats ≠ [] ∧ ∀ f, f ∈ b.feats →
      f ∈ names src.events ∨ f ∈ names (src.basinEvents.getD []))

/-- guard of F23 -/
def NoUnknownFeature (env : Env) (src : File) : Prop :=
  ∀ f, f ∈ src.events ++ src.basinEvents.getD [] → env.known f.name = true

/-- guard of F27 -/
def NoEmptyScalar (env : Env) (src : File) : Prop :=
  ∀ f, f ∈ src.events → env.scalar f.name = true → nodeRows f.node ≠ []

theorem featEntry_copy (env : Env) (hg : ∀ d, Covers (env.grid d) d.rows.length)
    (keep : String → Bool) (it : List String) (f : Feat)
    (hwf : ∀ d, d ∈ nodeDsets f.node → WFD d) (hk : env.known f.name = true) :
    (copyEntry env it f).bind (featEntry env keep)
      = if it.contains f.name then featEntry env keep f else none := by
  simp only [copyEntry, selected, hk, Bool.and_true]
  cases hin : it.contains f.name with
  | false => simp
  | true =>
    cases hdef : env.defective f.name with
    | true => simp [featEntry, hdef]
    | false =>
      simp only [Bool.not_false, Bool.and_true, if_true]
      cases hc : copyNode env f.node with
      | none => simp [featEntry, copyNode_none env hc]
      | some n =>
        have h1 := copyNode_some env hg hwf hc
        have : nodeRows (if env.scalar f.name then completeSummary env n else n)
            = nodeRows f.node := by
          split <;> simp [h1]
        simp only [Option.map_some, Option.bind_some, featEntry, this]

theorem featsView_copy (env : Env) (hg : ∀ d, Covers (env.grid d) d.rows.length)
    (keep : String → Bool) (it : List String) (evs : List Feat)
    (hwf : ∀ f, f ∈ evs → ∀ d, d ∈ nodeDsets f.node → WFD d)
    (hk : ∀ f, f ∈ evs → env.known f.name = true) :
    featsView env keep (evs.filterMap (copyEntry env it))
      = featsView env keep (evs.filter fun f => it.contains f.name) := by
  simp only [featsView]
  rw [List.filterMap_filterMap, List.filterMap_filter]
  exact filterMap_congr' evs fun f hf => featEntry_copy env hg keep it f (hwf f hf) (hk f hf)

theorem dataEntry_copy (env : Env) (hg : ∀ d, Covers (env.grid d) d.rows.length)
    (it : List String) (src : File) (f : Feat)
    (hwf : ∀ d, d ∈ nodeDsets f.node → WFD d)
    (hp : (it.contains f.name && env.known f.name && !(names src.events).contains f.name) = true) :
    (copyDataEntry env it src f).bind dataEntry = dataEntry f := by
  simp only [copyDataEntry, hp, if_true]
  cases hc : copyNode env f.node with
  | none => simp [dataEntry, copyNode_none env hc]
  | some n => simp [dataEntry, copyNode_some env hg hwf hc]

theorem dataView_copy (env : Env) (hg : ∀ d, Covers (env.grid d) d.rows.length)
    (it : List String) (src : File) (be : List Feat)
    (hwf : ∀ f, f ∈ be → ∀ d, d ∈ nodeDsets f.node → WFD d)
    (hp : ∀ f, f ∈ be →
      (it.contains f.name && env.known f.name && !(names src.events).contains f.name) = true) :
    dataView (some (be.filterMap (copyDataEntry env it src))) = dataView (some be) := by
  simp only [dataView, Option.getD_some]
  rw [List.filterMap_filterMap]
  exact filterMap_congr' be fun f hf => dataEntry_copy env hg it src f (hwf f hf) (hp f hf)

theorem dataView_none_of_empty (l : List Feat) :
    dataView (if l.isEmpty then none else some l) = dataView (some l) := by
  cases l <;> simp [dataView]

theorem tablesView_copy (o : Opts) (h : o.fixF09 = true) (ts : List (String × Dset)) :
    tablesView (some (ts.map (tableCopy o)))
      = (tablesView (some ts)).map fun t => (o.metaPrefix ++ t.1, t.2) := by
  simp [tablesView, tableCopy, h, readRows, Function.comp_def]

theorem basinEntry_show (env : Env) (it : List String) (b : BasinDef)
    (hb : b.body.rows ≠ [])
    (hi : b.internal = true → b.feats ≠ [] ∧ ∀ f, f ∈ b.feats → it.contains f = true) :
    (basinEntry env it b).map basinShow = some (basinShow b) := by
  have hcopy : ∃ bd, h5dsCopy (env.grid b.body) b.body = some bd := by
    cases hc : h5dsCopy (env.grid b.body) b.body with
    | none => exact absurd (h5dsCopy_none hc) hb
    | some bd => exact ⟨bd, rfl⟩
  obtain ⟨bd, hbd⟩ := hcopy
  unfold basinEntry
  cases hint : b.internal with
  | false => simp [hbd, basinShow, hint]
  | true =>
    obtain ⟨hne, hall⟩ := hi hint
    have hused : (b.feats.filter fun f => it.contains f) = b.feats :=
      List.filter_eq_self.mpr hall
    have hne' : b.feats.isEmpty = false := by
      cases hf : b.feats with
      | nil => exact absurd hf hne
      | cons _ _ => rfl
    simp only [hint, if_true, hused, hne', Bool.false_eq_true, if_false, ne_eq, not_true_eq_false,
      hbd, Option.map_some, basinShow]

theorem basinsView_copy (env : Env) (it : List String) (bs : List BasinDef)
    (h : ∀ b, b ∈ bs → b.body.rows ≠ [] ∧ (b.internal = true → b.feats ≠ [] ∧
      ∀ f, f ∈ b.feats → it.contains f = true)) :
    basinsView (some (basinDefCopy env it bs)) = basinsView (some bs) := by
  simp only [basinsView, Option.getD_some, basinDefCopy]
  rw [List.map_filterMap, ← List.filterMap_eq_map]
  exact filterMap_congr' bs fun b hb => basinEntry_show env it b (h b hb).1 (h b hb).2

/-! ## `feature_iter` -/

theorem mem_eventsSrc_of_events (o : Opts) (src : File) (f : String)
    (h : f ∈ names src.events) : f ∈ eventsSrc o src := by
  unfold eventsSrc
  split
  · rw [mem_dedup]; exact List.mem_append_left _ h
  · exact h

theorem mem_eventsSrc_of_basin (o : Opts) (src : File) (f : String)
    (hb : o.includeBasins = true) (h : f ∈ names (src.basinEvents.getD [])) :
    f ∈ eventsSrc o src := by
  unfold eventsSrc
  cases hbe : src.basinEvents with
  | none => simp [hbe, names] at h
  | some be =>
    simp only [hb]
    rw [mem_dedup]
    rw [hbe] at h
    exact List.mem_append_right _ h

theorem it_all_contains (env : Env) (o : Opts) (src : File) (f : String)
    (hall : o.features = .all) (h : f ∈ eventsSrc o src) :
    (featureIter env o src).contains f = (o.includeBasins || !env.basinmap f) := by
  unfold featureIter
  simp only [hall]
  cases hb : o.includeBasins with
  | true =>
    simp only [if_true, Bool.true_or]
    rw [List.contains_iff_mem]
    exact List.mem_append_left _ h
  | false =>
    simp only [Bool.false_eq_true, if_false, Bool.false_or]
    rw [Bool.eq_iff_iff]
    simp only [List.contains_iff_mem, List.mem_filter, Bool.not_eq_eq_eq_not, Bool.not_true]
    constructor
    · rintro ⟨_, h2⟩
      cases hm : env.basinmap f with
      | false => rfl
      | true =>
        have : (List.filter env.basinmap (eventsSrc o src)).contains f = true := by
          rw [List.contains_iff_mem, List.mem_filter]; exact ⟨h, hm⟩
        rw [this] at h2; cases h2
    · intro hm
      refine ⟨h, ?_⟩
      cases hc : (List.filter env.basinmap (eventsSrc o src)).contains f with
      | false => rfl
      | true =>
        rw [List.contains_iff_mem, List.mem_filter] at hc
        rw [hc.2] at hm; cases hm

/-! ## helpers of the task theorems -/

theorem wf_events {env : Env} {src : File} (hwf : WF env src) :
    ∀ f, f ∈ src.events → ∀ d, d ∈ nodeDsets f.node → WFD d := by
  intro f hf d hd
  apply hwf.dsets
  simp only [allDsets, List.mem_append, List.mem_flatMap, List.mem_map]
  exact Or.inl (Or.inl (Or.inl (Or.inl ⟨f.node, ⟨f, hf, rfl⟩, hd⟩)))

theorem wf_basinEvents {env : Env} {src : File} (hwf : WF env src) :
    ∀ f, f ∈ src.basinEvents.getD [] → ∀ d, d ∈ nodeDsets f.node → WFD d := by
  intro f hf d hd
  apply hwf.dsets
  simp only [allDsets, List.mem_append, List.mem_flatMap, List.mem_map]
  exact Or.inl (Or.inl (Or.inl (Or.inr ⟨f.node, ⟨f, hf, rfl⟩, hd⟩)))

theorem wf_logs {env : Env} {src : File} (hwf : WF env src) :
    ∀ kd, kd ∈ src.logs.getD [] → WFD kd.2 := by
  intro kd hkd
  apply hwf.dsets
  simp only [allDsets, List.mem_append, List.mem_map]
  exact Or.inl (Or.inl (Or.inr ⟨kd, hkd, rfl⟩))

theorem pairs_filter_cmd (isCmd : String → Bool) (ls : List (String × Dset))
    (h : ∀ kd, kd ∈ ls → isCmd kd.1 = true) :
    (ls.filterMap pairEntry).filter (fun kl => !isCmd kl.1) = [] := by
  rw [List.filter_eq_nil_iff]
  intro kl hkl
  rw [List.mem_filterMap] at hkl
  obtain ⟨kd, hkd, he⟩ := hkl
  simp only [pairEntry] at he
  split at he
  · cases he
  · cases he; simp [h kd hkd]

theorem pairs_rename (isCmd : String → Bool) (suffix : String) (ls : List (String × Dset))
    (hren : ∀ n, cmdLogNames.contains n = true →
      isCmd n = true ∧ isCmd (n ++ "_" ++ suffix) = true) :
    ((renameOldLogs suffix ls).filterMap pairEntry).filter (fun kl => !isCmd kl.1)
      = (ls.filterMap pairEntry).filter (fun kl => !isCmd kl.1) := by
  simp only [renameOldLogs, List.filterMap_map, List.filter_filterMap]
  apply filterMap_congr'
  intro kd _
  simp only [Function.comp]
  cases hc : cmdLogNames.contains kd.1 with
  | false => simp
  | true =>
    obtain ⟨h1, h2⟩ := hren kd.1 hc
    simp only [if_true, pairEntry]
    split
    · rfl
    · simp [Option.filter, h1, h2]

set_option linter.unusedSimpArgs false in
theorem mem_scBasin (env : Env) (c : CondIn) (f : String) :
    f ∈ scBasin env c ↔ c.storeBasin = true ∧ f ∈ c.basin ∧ f ∈ c.featsScalar ∧
      f ∉ scLoaded c ∧ f ∉ scBasInt env c := by
  unfold scBasin
  cases c.storeBasin <;>
    simp [exclude, List.mem_filter, List.contains_iff_mem, and_assoc]

set_option linter.unusedSimpArgs false in
theorem mem_scAnc (env : Env) (c : CondIn) (f : String) :
    f ∈ scAnc env c ↔ c.storeAnc = true ∧ f ∈ c.ancillary ∧ f ∈ c.featsScalar ∧
      f ∉ scLoaded c ∧ f ∉ scBasInt env c := by
  unfold scAnc
  cases c.storeAnc <;>
    simp [exclude, List.mem_filter, List.contains_iff_mem, and_assoc]

theorem sel_all (xs : List α) : sel (List.replicate xs.length true) xs = xs := by
  induction xs with
  | nil => rfl
  | cons x xs ih => simp [List.replicate_succ, sel, ih]

theorem sel_sublist : ∀ (m : List Bool) (xs : List α), (sel m xs).Sublist xs := by
  intro m
  induction m with
  | nil => intro xs; cases xs <;> simp [sel]
  | cons b m ih =>
    intro xs
    cases xs with
    | nil => cases b <;> simp [sel]
    | cons x xs =>
      cases b
      · exact List.Sublist.cons _ (ih xs)
      · exact List.Sublist.cons_cons _ (ih xs)

/-! ## tdms: the mask in closed form -/
def selFrom (p : Nat → Bool) (k : Nat) (xs : List α) : List α :=
  sel ((List.range' k xs.length).map p) xs

theorem selFrom_cons (p : Nat → Bool) (k : Nat) (x : α) (xs : List α) :
    selFrom p k (x :: xs) = if p k then x :: selFrom p (k + 1) xs else selFrom p (k + 1) xs := by
  simp only [selFrom, List.length_cons, List.range'_succ, List.map_cons]
  cases p k <;> simp [sel]

theorem selFrom_all (p : Nat → Bool) : ∀ (xs : List α) (k : Nat),
    (∀ i, k ≤ i → p i = true) → selFrom p k xs = xs := by
  intro xs
  induction xs with
  | nil => intro k _; simp [selFrom, sel]
  | cons x xs ih =>
    intro k h
    rw [selFrom_cons, h k (Nat.le_refl _), if_pos rfl, ih (k + 1) (fun i hi => h i (by omega))]

theorem selFrom_dropLast (p : Nat → Bool) (n : Nat) : ∀ (xs : List α) (k : Nat),
    n = k + xs.length → (∀ i, k ≤ i → p i = !(i + 1 == n)) → selFrom p k xs = xs.dropLast := by
  intro xs
  induction xs with
  | nil => intro k _ _; simp [selFrom, sel]
  | cons x xs ih =>
    intro k hn h
    rw [selFrom_cons, h k (Nat.le_refl _)]
    have ih' := ih (k + 1) (by simp only [List.length_cons] at hn; omega) (fun i hi => h i (by omega))
    cases xs with
    | nil =>
      have : (k + 1 == n) = true := by simp only [List.length_cons, List.length_nil] at hn; simp [hn]
      simp [this, selFrom, sel]
    | cons y ys =>
      have : (k + 1 == n) = false := by
        simp only [List.length_cons] at hn
        simp only [beq_eq_false_iff_ne, ne_eq]; omega
      simp only [this, Bool.not_false, if_true, ih', List.dropLast_cons_cons]

theorem tdms2rtdcRows_eq_selFrom (a b : Bool) (rows : List α) :
    tdms2rtdcRows a b rows
      = selFrom (fun i => !((a && i == 0) || (b && i + 1 == rows.length))) 0 rows := by
  simp [tdms2rtdcRows, skipMask, selFrom, List.range_eq_range']

theorem tdms2rtdcRows_closed (a b : Bool) (rows : List α) :
    tdms2rtdcRows a b rows = tdmsKept a b rows := by
  rw [tdms2rtdcRows_eq_selFrom]
  cases a with
  | false =>
    cases b with
    | false => simp [tdmsKept]; exact selFrom_all _ rows 0 (by intro i _; rfl)
    | true =>
      simp only [tdmsKept, Bool.false_and, Bool.false_or, Bool.true_and]
      exact selFrom_dropLast _ rows.length rows 0 (by omega) (by intro i _; rfl)
  | true =>
    cases rows with
    | nil => cases b <;> simp [tdmsKept, selFrom, sel]
    | cons x xs =>
      rw [selFrom_cons]
      simp only [Bool.true_and, beq_self_eq_true, Bool.true_or, Bool.not_true, Bool.false_eq_true,
        if_false, tdmsKept, if_true, List.drop_succ_cons, List.drop_zero]
      cases b with
      | false =>
        simp only [Bool.false_and, Bool.or_false]
        exact selFrom_all _ xs 1 (by intro i hi; have : (i == 0) = false := by simp; omega
                                     simp [this])
      | true =>
        simp only [Bool.true_and]
        exact selFrom_dropLast _ (xs.length + 1) xs 1 (by omega) (by
          intro i hi
          have : (i == 0) = false := by simp; omega
          simp [this])

/-! ## command-log history -/
theorem renamed_not_cmd (n s : String) (hn : cmdLogNames.contains n = true) :
    cmdLogNames.contains (n ++ "_" ++ s) = false := by
  simp only [cmdLogNames, List.contains_iff_mem, List.mem_cons, List.not_mem_nil, or_false] at hn
  rcases hn with h | h <;> subst h <;>
  · simp only [cmdLogNames, List.contains_eq_mem, List.mem_cons, List.not_mem_nil, or_false,
      decide_eq_false_iff_not, not_or]
    constructor <;>
    · intro h
      have h2 := congrArg String.toList h
      simp [String.toList_append] at h2

theorem rename_suffix_injective (a s t : String) (h : a ++ "_" ++ s = a ++ "_" ++ t) : s = t := by
  have h2 := congrArg String.toList h
  simp [String.toList_append] at h2
  exact String.toList_injective h2

theorem renameOldLogs_append (sfx : String) (a b : List (String × Dset)) :
    renameOldLogs sfx (a ++ b) = renameOldLogs sfx a ++ renameOldLogs sfx b := by
  simp [renameOldLogs]

theorem renameOldLogs_noop (sfx : String) (ls : List (String × Dset))
    (h : ∀ kd, kd ∈ ls → cmdLogNames.contains kd.1 = false) : renameOldLogs sfx ls = ls := by
  simp only [renameOldLogs]
  conv => rhs; rw [← List.map_id ls]
  apply List.map_congr_left
  intro kd hkd
  have hh := h kd hkd
  simp only [hh, Bool.false_eq_true, if_false, id]

theorem copyLogs_append (env : Env) (o : Opts) (a b : List (String × Dset)) :
    copyLogs env o (a ++ b) = copyLogs env o a ++ copyLogs env o b := by
  simp [copyLogs]

/-- logs that are already properly compressed are copied as they are -/
theorem copyLogs_compressed (env : Env) (ls : List (String × Dset))
    (h : ∀ kd, kd ∈ ls → kd.2.compressed = true) : copyLogs env {} ls = ls := by
  induction ls with
  | nil => rfl
  | cons kd ls ih =>
    have h1 := h kd (by simp)
    have : copyPair env (fun x => ("" : String) ++ x) kd = some kd := by
      simp [copyPair, h5dsCopy, h1]
    simp only [copyLogs] at ih ⊢
    rw [List.filterMap_cons, this, ih (fun kd' hkd' => h kd' (by simp [hkd']))]

theorem copyLogs_all_compressed (env : Env) (ls : List (String × Dset)) :
    ∀ kd, kd ∈ copyLogs env {} ls → kd.2.compressed = true := by
  intro kd hkd
  simp only [copyLogs, List.mem_filterMap, copyPair] at hkd
  obtain ⟨kd0, _, h⟩ := hkd
  cases hc : h5dsCopy (env.grid kd0.2) kd0.2 with
  | none => simp [hc] at h
  | some d => simp [hc] at h; rw [← h]; exact h5dsCopy_compressed hc

theorem copyLogs_keys (env : Env) (ls : List (String × Dset)) :
    ∀ kd, kd ∈ copyLogs env {} ls → kd.1 ∈ ls.map (·.1) := by
  intro kd hkd
  simp only [copyLogs, List.mem_filterMap, copyPair] at hkd
  obtain ⟨kd0, hm, h⟩ := hkd
  cases hc : h5dsCopy (env.grid kd0.2) kd0.2 with
  | none => simp [hc] at h
  | some d =>
    simp [hc] at h; rw [← h]
    simp only [List.mem_map]
    exact ⟨kd0, hm, rfl⟩

theorem cmdHistory_compressed (sfx : Nat → String) (cmd : Nat → Dset)
    (hc : ∀ k, (cmd k).compressed = true) (n : Nat) :
    ∀ kd, kd ∈ cmdHistory sfx cmd n → kd.2.compressed = true := by
  intro kd hkd
  cases n with
  | zero => simp [cmdHistory] at hkd
  | succ n =>
    simp only [cmdHistory, List.mem_append, List.mem_map, List.mem_range, List.mem_singleton] at hkd
    rcases hkd with ⟨j, _, h⟩ | h
    · rw [← h]; exact hc j
    · rw [h]; exact hc n

theorem rename_cmdHistory (sfx : Nat → String) (cmd : Nat → Dset) (n : Nat) :
    renameOldLogs (sfx (n + 1)) (cmdHistory sfx cmd (n + 1)) ++ [("dclab-compress", cmd (n + 1))]
      = cmdHistory sfx cmd (n + 2) := by
  simp only [cmdHistory, renameOldLogs_append]
  rw [renameOldLogs_noop _ ((List.range n).map _) (by
    intro kd hkd
    simp only [List.mem_map, List.mem_range] at hkd
    obtain ⟨j, _, h⟩ := hkd
    rw [← h]
    exact renamed_not_cmd "dclab-compress" _ (by decide))]
  simp [renameOldLogs, cmdLogNames, List.range_succ]

/-- the logs group after `n + 1` runs on a file without command logs: the user logs (as the first
    copy stores them) followed by the complete command-log history -/
theorem compressGen_logs (env : Env) (hook : Attrs → Attrs) (sfx : Nat → String) (cmd : Nat → Dset)
    (x : File) (hc : ∀ k, (cmd k).compressed = true)
    (hu : ∀ kd, kd ∈ x.logs.getD [] → cmdLogNames.contains kd.1 = false) (n : Nat) :
    (compressGen env hook sfx cmd (n + 1) x).logs
      = some (copyLogs env {} (x.logs.getD []) ++ cmdHistory sfx cmd (n + 1)) := by
  have hu' : ∀ kd, kd ∈ copyLogs env {} (x.logs.getD []) → cmdLogNames.contains kd.1 = false := by
    intro kd hkd
    have := copyLogs_keys env _ kd hkd
    simp only [List.mem_map] at this
    obtain ⟨kd0, h0, he⟩ := this
    rw [← he]; exact hu kd0 h0
  have hlogs : ∀ (sf : String) (nl : List (String × Dset)) (y : File),
      (compress env hook sf nl y).logs
        = some (renameOldLogs sf (copyLogs env {} (y.logs.getD [])) ++ nl) := by
    intro sf nl y
    simp only [compress, rtdcCopy, if_true]
    cases y.logs <;> simp [copyLogs]
  induction n with
  | zero =>
    simp only [compressGen, hlogs, cmdHistory, List.range_zero, List.map_nil, List.nil_append]
    rw [renameOldLogs_noop _ _ hu']
  | succ n ih =>
    rw [compressGen, hlogs, ih, Option.getD_some, copyLogs_append,
      copyLogs_compressed env (copyLogs env {} (x.logs.getD [])) (copyLogs_all_compressed env _),
      copyLogs_compressed env _ (cmdHistory_compressed sfx cmd hc (n + 1)),
      renameOldLogs_append, renameOldLogs_noop _ _ hu', List.append_assoc, rename_cmdHistory]

theorem cmdHistory_names_nodup (sfx : Nat → String) (cmd : Nat → Dset) (n : Nat)
    (hd : ∀ i j, i < n → j < n → sfx (i + 1) = sfx (j + 1) → i = j) :
    ((cmdHistory sfx cmd (n + 1)).map (·.1)).Nodup := by
  simp only [cmdHistory, List.map_append, List.map_map, List.map_cons, List.map_nil]
  rw [List.nodup_append]
  refine ⟨?_, by simp, ?_⟩
  · show List.Pairwise (· ≠ ·) _
    rw [List.pairwise_map]
    refine List.Pairwise.imp_of_mem ?_ (List.nodup_range (n := n))
    intro i j hi hj hne h
    simp only [Function.comp, List.mem_range] at h hi hj
    exact hne (hd i j hi hj (rename_suffix_injective _ _ _ h))
  · intro a ha b hb hab
    simp only [List.mem_map, List.mem_range, Function.comp] at ha
    obtain ⟨j, _, hj⟩ := ha
    simp only [List.mem_singleton] at hb
    subst hab
    have := renamed_not_cmd "dclab-compress" (sfx (j + 1)) (by decide)
    rw [hj, hb] at this
    simp [cmdLogNames] at this

/-! ## closure: the copy has no unknown feature -/
theorem copyEntry_known {env : Env} {it : List String} {f x : Feat}
    (h : copyEntry env it f = some x) : env.known x.name = true := by
  simp only [copyEntry] at h
  split at h
  · rename_i hs
    simp only [selected, Bool.and_eq_true] at hs
    cases hn : copyNode env f.node with
    | none => simp [hn] at h
    | some n => simp [hn] at h; rw [← h]; exact hs.1.2
  · cases h

theorem copyDataEntry_known {env : Env} {it : List String} {src : File} {f x : Feat}
    (h : copyDataEntry env it src f = some x) : env.known x.name = true := by
  simp only [copyDataEntry] at h
  split at h
  · rename_i hs
    simp only [Bool.and_eq_true] at hs
    cases hn : copyNode env f.node with
    | none => simp [hn] at h
    | some n => simp [hn] at h; rw [← h]; exact hs.1.2
  · cases h

/-- the copy never contains a feature unknown to dclab — for every source and all options -/
theorem noUnknown_rtdcCopy (env : Env) (o : Opts) (src : File) :
    NoUnknownFeature env (rtdcCopy env o src) := by
  intro x hx
  simp only [rtdcCopy, List.mem_append] at hx
  rcases hx with hx | hx
  · simp only [copyEvents, List.mem_filterMap] at hx
    obtain ⟨f, _, hf⟩ := hx
    exact copyEntry_known hf
  · unfold copyBasinEvents at hx
    split at hx
    · simp only at hx
      split at hx
      · simp at hx
      · simp only [Option.getD_some, List.mem_filterMap] at hx
        obtain ⟨f, _, hf⟩ := hx
        exact copyDataEntry_known hf
    · simp at hx

theorem noUnknown_compress (env : Env) (hook : Attrs → Attrs) (sfx : String)
    (nl : List (String × Dset)) (src : File) :
    NoUnknownFeature env (compress env hook sfx nl src) := by
  intro x hx
  exact noUnknown_rtdcCopy env {} src x (by simpa [compress] using hx)

end DclabModel.Copy
