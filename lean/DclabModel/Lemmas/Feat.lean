import DclabModel.Model.Feat
import Mathlib.Tactic.Ring
import Mathlib.Tactic.FieldSimp
import Mathlib.Tactic.Linarith
import Mathlib.Tactic.LinearCombination
import Mathlib.Algebra.Order.Field.Basic
/-! Helper lemmas for C18: cyclic sums, translation/axis-swap laws of the raw contour sums,
path sums of the cone formula, masked statistics, percentile, duplicate removal. -/
namespace DclabModel.Feat

/-! ## sums -/

@[simp] theorem rsum_nil : rsum [] = 0 := rfl
@[simp] theorem rsum_cons (a : Rat) (r : List Rat) : rsum (a :: r) = a + rsum r := rfl

theorem rsum_append (l r : List Rat) : rsum (l ++ r) = rsum l + rsum r := by
  induction l with
  | nil => simp
  | cons a l ih => simp [ih]; ring

theorem rsum_map_add (f g : α → Rat) (l : List α) :
    rsum (l.map (fun x => f x + g x)) = rsum (l.map f) + rsum (l.map g) := by
  induction l with
  | nil => simp
  | cons a l ih => simp [ih]; ring

theorem rsum_map_mul (k : Rat) (f : α → Rat) (l : List α) :
    rsum (l.map (fun x => k * f x)) = k * rsum (l.map f) := by
  induction l with
  | nil => simp
  | cons a l ih => simp [ih]; ring

theorem rsum_map_const (k : Rat) (l : List α) : rsum (l.map (fun _ => k)) = l.length * k := by
  induction l with
  | nil => simp
  | cons a l ih =>
    simp only [List.map_cons, rsum_cons, List.length_cons, ih]; push_cast; ring

/-! ## cyclic sums -/

theorem zsum_add (f g : Pt → Pt → Rat) : ∀ (l l' : List Pt),
    rsum (List.zipWith (fun p q => f p q + g p q) l l')
      = rsum (List.zipWith f l l') + rsum (List.zipWith g l l')
  | [], _ => by simp
  | _ :: _, [] => by simp
  | a :: l, b :: l' => by simp [zsum_add f g l l']; ring

theorem zsum_mul (k : Rat) (f : Pt → Pt → Rat) : ∀ (l l' : List Pt),
    rsum (List.zipWith (fun p q => k * f p q) l l') = k * rsum (List.zipWith f l l')
  | [], _ => by simp
  | _ :: _, [] => by simp
  | a :: l, b :: l' => by simp [zsum_mul k f l l']; ring

theorem cyc_add (f g : Pt → Pt → Rat) (c : List Pt) :
    cyc (fun p q => f p q + g p q) c = cyc f c + cyc g c := zsum_add f g _ _

theorem cyc_mul (k : Rat) (f : Pt → Pt → Rat) (c : List Pt) :
    cyc (fun p q => k * f p q) c = k * cyc f c := zsum_mul k f _ _

theorem cyc_neg (f : Pt → Pt → Rat) (c : List Pt) :
    cyc (fun p q => - f p q) c = - cyc f c := by
  have := cyc_mul (-1) f c
  simpa using this

theorem roll_map (τ : α → β) (l : List α) : roll (l.map τ) = (roll l).map τ := by
  cases l <;> simp [roll]

theorem cyc_map (f : Pt → Pt → Rat) (τ : Pt → Pt) (c : List Pt) :
    cyc f (c.map τ) = cyc (fun p q => f (τ p) (τ q)) c := by
  simp only [cyc, roll_map, List.zipWith_map]

theorem zsum_telescope (g : Pt → Rat) : ∀ (r : List Pt) (a b : Pt),
    rsum (List.zipWith (fun p q => g q - g p) (a :: r) (r ++ [b])) = g b - g a
  | [], a, b => by simp
  | x :: r, a, b => by
    have := zsum_telescope g r x b
    simp only [List.cons_append, List.zipWith_cons_cons, rsum_cons] at this ⊢
    rw [this]; ring

/-- a cyclic sum of differences `g(next) − g(this)` vanishes -/
theorem cyc_telescope (g : Pt → Rat) (c : List Pt) : cyc (fun p q => g q - g p) c = 0 := by
  cases c with
  | nil => simp [cyc, roll]
  | cons a r => simp only [cyc, roll]; rw [zsum_telescope]; ring

/-- two summands that differ by a telescoping term have the same cyclic sum -/
theorem cyc_shift (F G : Pt → Pt → Rat) (g : Pt → Rat)
    (h : ∀ p q, F p q = G p q + (g q - g p)) (c : List Pt) : cyc F c = cyc G c := by
  have : F = fun p q => G p q + (fun p q => g q - g p) p q := by
    funext p q; exact h p q
  rw [this, cyc_add, cyc_telescope]; ring

/-! ## translation of the raw sums `a00 … a12`

Every law below is a *cyclic* identity: the summands differ by the stated combination plus a
telescoping term `g(next) − g(this)`, where `g` is obtained by evaluating the difference at the
origin. -/

def O : Pt := (0, 0)

macro "tele_tac" defs:Lean.Parser.Tactic.simpLemma,* : tactic =>
  `(tactic| (intro p q; obtain ⟨x0, y0⟩ := p; obtain ⟨x1, y1⟩ := q
             simp only [translate, O, dxy, $defs,*]; ring))

theorem a00_translate (t s : Rat) (c : List Pt) :
    a00 (c.map (translate t s)) = a00 c := by
  unfold a00
  rw [cyc_map, cyc_shift (fun p q => t00 (translate t s p) (translate t s q))
    (fun p q => t00 p q)
    (fun p => t00 (translate t s O) (translate t s p) - (t00 O p)) ?_ c]
  tele_tac t00

theorem a10_translate (t s : Rat) (c : List Pt) :
    a10 (c.map (translate t s)) = a10 c + (3*t) * a00 c := by
  unfold a00 a10
  rw [cyc_map, cyc_shift (fun p q => t10 (translate t s p) (translate t s q))
    (fun p q => t10 p q + (3*t) * t00 p q)
    (fun p => t10 (translate t s O) (translate t s p) - (t10 O p + (3*t) * t00 O p)) ?_ c]
  · simp only [cyc_add, cyc_mul]
  · tele_tac t00, t10

theorem a01_translate (t s : Rat) (c : List Pt) :
    a01 (c.map (translate t s)) = a01 c + (3*s) * a00 c := by
  unfold a00 a01
  rw [cyc_map, cyc_shift (fun p q => t01 (translate t s p) (translate t s q))
    (fun p q => t01 p q + (3*s) * t00 p q)
    (fun p => t01 (translate t s O) (translate t s p) - (t01 O p + (3*s) * t00 O p)) ?_ c]
  · simp only [cyc_add, cyc_mul]
  · tele_tac t00, t01

theorem a20_translate (t s : Rat) (c : List Pt) :
    a20 (c.map (translate t s)) = a20 c + (4*t) * a10 c + (6*t*t) * a00 c := by
  unfold a00 a10 a20
  rw [cyc_map, cyc_shift (fun p q => t20 (translate t s p) (translate t s q))
    (fun p q => t20 p q + (4*t) * t10 p q + (6*t*t) * t00 p q)
    (fun p => t20 (translate t s O) (translate t s p) - (t20 O p + (4*t) * t10 O p + (6*t*t) * t00 O p)) ?_ c]
  · simp only [cyc_add, cyc_mul]
  · tele_tac t00, t10, t20

theorem a02_translate (t s : Rat) (c : List Pt) :
    a02 (c.map (translate t s)) = a02 c + (4*s) * a01 c + (6*s*s) * a00 c := by
  unfold a00 a01 a02
  rw [cyc_map, cyc_shift (fun p q => t02 (translate t s p) (translate t s q))
    (fun p q => t02 p q + (4*s) * t01 p q + (6*s*s) * t00 p q)
    (fun p => t02 (translate t s O) (translate t s p) - (t02 O p + (4*s) * t01 O p + (6*s*s) * t00 O p)) ?_ c]
  · simp only [cyc_add, cyc_mul]
  · tele_tac t00, t01, t02

theorem a11_translate (t s : Rat) (c : List Pt) :
    a11 (c.map (translate t s)) = a11 c + (4*t) * a01 c + (4*s) * a10 c + (12*t*s) * a00 c := by
  unfold a00 a01 a10 a11
  rw [cyc_map, cyc_shift (fun p q => t11 (translate t s p) (translate t s q))
    (fun p q => t11 p q + (4*t) * t01 p q + (4*s) * t10 p q + (12*t*s) * t00 p q)
    (fun p => t11 (translate t s O) (translate t s p) - (t11 O p + (4*t) * t01 O p + (4*s) * t10 O p + (12*t*s) * t00 O p)) ?_ c]
  · simp only [cyc_add, cyc_mul]
  · tele_tac t00, t01, t10, t11

theorem a30_translate (t s : Rat) (c : List Pt) :
    a30 (c.map (translate t s)) = a30 c + (5*t) * a20 c + (10*t*t) * a10 c + (10*t*t*t) * a00 c := by
  unfold a00 a10 a20 a30
  rw [cyc_map, cyc_shift (fun p q => t30 (translate t s p) (translate t s q))
    (fun p q => t30 p q + (5*t) * t20 p q + (10*t*t) * t10 p q + (10*t*t*t) * t00 p q)
    (fun p => t30 (translate t s O) (translate t s p) - (t30 O p + (5*t) * t20 O p + (10*t*t) * t10 O p + (10*t*t*t) * t00 O p)) ?_ c]
  · simp only [cyc_add, cyc_mul]
  · tele_tac t00, t10, t20, t30

theorem a03_translate (t s : Rat) (c : List Pt) :
    a03 (c.map (translate t s)) = a03 c + (5*s) * a02 c + (10*s*s) * a01 c + (10*s*s*s) * a00 c := by
  unfold a00 a01 a02 a03
  rw [cyc_map, cyc_shift (fun p q => t03 (translate t s p) (translate t s q))
    (fun p q => t03 p q + (5*s) * t02 p q + (10*s*s) * t01 p q + (10*s*s*s) * t00 p q)
    (fun p => t03 (translate t s O) (translate t s p) - (t03 O p + (5*s) * t02 O p + (10*s*s) * t01 O p + (10*s*s*s) * t00 O p)) ?_ c]
  · simp only [cyc_add, cyc_mul]
  · tele_tac t00, t01, t02, t03

theorem a21_translate (t s : Rat) (c : List Pt) :
    a21 (c.map (translate t s)) = a21 c + (5*s) * a20 c + (5*t) * a11 c + (20*t*s) * a10 c + (10*t*t) * a01 c + (30*t*t*s) * a00 c := by
  unfold a00 a01 a10 a11 a20 a21
  rw [cyc_map, cyc_shift (fun p q => t21 (translate t s p) (translate t s q))
    (fun p q => t21 p q + (5*s) * t20 p q + (5*t) * t11 p q + (20*t*s) * t10 p q + (10*t*t) * t01 p q + (30*t*t*s) * t00 p q)
    (fun p => t21 (translate t s O) (translate t s p) - (t21 O p + (5*s) * t20 O p + (5*t) * t11 O p + (20*t*s) * t10 O p + (10*t*t) * t01 O p + (30*t*t*s) * t00 O p)) ?_ c]
  · simp only [cyc_add, cyc_mul]
  · tele_tac t00, t01, t10, t11, t20, t21

theorem a12_translate (t s : Rat) (c : List Pt) :
    a12 (c.map (translate t s)) = a12 c + (5*t) * a02 c + (5*s) * a11 c + (20*t*s) * a01 c + (10*s*s) * a10 c + (30*s*s*t) * a00 c := by
  unfold a00 a01 a02 a10 a11 a12
  rw [cyc_map, cyc_shift (fun p q => t12 (translate t s p) (translate t s q))
    (fun p q => t12 p q + (5*t) * t02 p q + (5*s) * t11 p q + (20*t*s) * t01 p q + (10*s*s) * t10 p q + (30*s*s*t) * t00 p q)
    (fun p => t12 (translate t s O) (translate t s p) - (t12 O p + (5*t) * t02 O p + (5*s) * t11 O p + (20*t*s) * t01 O p + (10*s*s) * t10 O p + (30*s*s*t) * t00 O p)) ?_ c]
  · simp only [cyc_add, cyc_mul]
  · tele_tac t00, t01, t02, t10, t11, t12

/-! ## exchanging the axes -/

theorem a00_swap (c : List Pt) : a00 (c.map swapXY) = - a00 c := by
  unfold a00
  rw [cyc_map, ← cyc_neg]
  congr 1; funext p q; obtain ⟨x0, y0⟩ := p; obtain ⟨x1, y1⟩ := q
  simp only [swapXY, dxy, t00, t00]; ring

theorem a10_swap (c : List Pt) : a10 (c.map swapXY) = - a01 c := by
  unfold a10 a01
  rw [cyc_map, ← cyc_neg]
  congr 1; funext p q; obtain ⟨x0, y0⟩ := p; obtain ⟨x1, y1⟩ := q
  simp only [swapXY, dxy, t10, t01]; ring

theorem a01_swap (c : List Pt) : a01 (c.map swapXY) = - a10 c := by
  unfold a01 a10
  rw [cyc_map, ← cyc_neg]
  congr 1; funext p q; obtain ⟨x0, y0⟩ := p; obtain ⟨x1, y1⟩ := q
  simp only [swapXY, dxy, t01, t10]; ring

theorem a20_swap (c : List Pt) : a20 (c.map swapXY) = - a02 c := by
  unfold a20 a02
  rw [cyc_map, ← cyc_neg]
  congr 1; funext p q; obtain ⟨x0, y0⟩ := p; obtain ⟨x1, y1⟩ := q
  simp only [swapXY, dxy, t20, t02]; ring

theorem a02_swap (c : List Pt) : a02 (c.map swapXY) = - a20 c := by
  unfold a02 a20
  rw [cyc_map, ← cyc_neg]
  congr 1; funext p q; obtain ⟨x0, y0⟩ := p; obtain ⟨x1, y1⟩ := q
  simp only [swapXY, dxy, t02, t20]; ring

theorem a11_swap (c : List Pt) : a11 (c.map swapXY) = - a11 c := by
  unfold a11
  rw [cyc_map, ← cyc_neg]
  congr 1; funext p q; obtain ⟨x0, y0⟩ := p; obtain ⟨x1, y1⟩ := q
  simp only [swapXY, dxy, t11, t11]; ring

theorem a30_swap (c : List Pt) : a30 (c.map swapXY) = - a03 c := by
  unfold a30 a03
  rw [cyc_map, ← cyc_neg]
  congr 1; funext p q; obtain ⟨x0, y0⟩ := p; obtain ⟨x1, y1⟩ := q
  simp only [swapXY, dxy, t30, t03]; ring

theorem a03_swap (c : List Pt) : a03 (c.map swapXY) = - a30 c := by
  unfold a03 a30
  rw [cyc_map, ← cyc_neg]
  congr 1; funext p q; obtain ⟨x0, y0⟩ := p; obtain ⟨x1, y1⟩ := q
  simp only [swapXY, dxy, t03, t30]; ring

theorem a21_swap (c : List Pt) : a21 (c.map swapXY) = - a12 c := by
  unfold a21 a12
  rw [cyc_map, ← cyc_neg]
  congr 1; funext p q; obtain ⟨x0, y0⟩ := p; obtain ⟨x1, y1⟩ := q
  simp only [swapXY, dxy, t21, t12]; ring

theorem a12_swap (c : List Pt) : a12 (c.map swapXY) = - a21 c := by
  unfold a12 a21
  rw [cyc_map, ← cyc_neg]
  congr 1; funext p q; obtain ⟨x0, y0⟩ := p; obtain ⟨x1, y1⟩ := q
  simp only [swapXY, dxy, t12, t21]; ring

theorem sgn_neg {a : Rat} (h : a ≠ 0) : sgn (-a) = - sgn a := by
  unfold sgn
  rcases lt_or_gt_of_ne h with h | h
  · have : ¬ (-a < 0) := by linarith
    simp [h, this]
  · have h1 : -a < 0 := by linarith
    have h2 : ¬ a < 0 := by linarith
    simp [h1, h2]

theorem sgn_mul_self (a : Rat) : a * sgn a = rabs a := by
  unfold sgn rabs; split <;> ring

theorem sgn_sq (a : Rat) : sgn a * sgn a = 1 := by
  unfold sgn; split <;> ring

theorem rabs_eq_abs (a : Rat) : rabs a = |a| := by
  unfold rabs
  split
  · rename_i h; rw [abs_of_neg h]
  · rename_i h; rw [abs_of_nonneg (not_lt.mp h)]

def Raw.transpose (m : Raw) : Raw :=
  { m00 := m.m00, m10 := m.m01, m01 := m.m10, m20 := m.m02, m11 := m.m11, m02 := m.m20,
    m30 := m.m03, m21 := m.m12, m12 := m.m21, m03 := m.m30 }

/-- the dictionary of moments with the roles of x and y exchanged -/
def Moments.transpose (m : Moments) : Moments :=
  { m00 := m.m00, m10 := m.m01, m01 := m.m10, m20 := m.m02, m11 := m.m11, m02 := m.m20,
    m30 := m.m03, m21 := m.m12, m12 := m.m21, m03 := m.m30,
    mu20 := m.mu02, mu11 := m.mu11, mu02 := m.mu20,
    mu30 := m.mu03, mu21 := m.mu12, mu12 := m.mu21, mu03 := m.mu30 }

theorem rawMoments_swap (c : List Pt) (h : a00 c ≠ 0) :
    rawMoments (c.map swapXY) = (rawMoments c).transpose := by
  simp only [rawMoments, Raw.transpose, a00_swap, a10_swap, a01_swap, a20_swap, a02_swap,
    a11_swap, a30_swap, a03_swap, a21_swap, a12_swap, sgn_neg h, Raw.mk.injEq]
  refine ⟨?_, ?_, ?_, ?_, ?_, ?_, ?_, ?_, ?_, ?_⟩ <;> first | trivial | ring

theorem central_transpose (e : Rat) (m : Raw) :
    central e m.transpose = (central e m).transpose := by
  by_cases h : m.m00 > e
  · simp only [central, Raw.transpose, Moments.transpose, Moments.mk.injEq, h, if_true]
    (repeat' apply And.intro) <;> first | trivial | ring
  · simp only [central, Raw.transpose, Moments.transpose, Moments.mk.injEq, h, if_false]
    (repeat' apply And.intro) <;> first | trivial | ring

/-- raw moments of a translated shape (binomial expansion) -/
def Raw.shift (t s : Rat) (m : Raw) : Raw :=
  { m00 := m.m00
    m10 := m.m10 + t * m.m00
    m01 := m.m01 + s * m.m00
    m20 := m.m20 + 2 * t * m.m10 + t * t * m.m00
    m11 := m.m11 + t * m.m01 + s * m.m10 + t * s * m.m00
    m02 := m.m02 + 2 * s * m.m01 + s * s * m.m00
    m30 := m.m30 + 3 * t * m.m20 + 3 * t * t * m.m10 + t * t * t * m.m00
    m21 := m.m21 + s * m.m20 + 2 * t * m.m11 + 2 * t * s * m.m10 + t * t * m.m01
            + t * t * s * m.m00
    m12 := m.m12 + t * m.m02 + 2 * s * m.m11 + 2 * t * s * m.m01 + s * s * m.m10
            + s * s * t * m.m00
    m03 := m.m03 + 3 * s * m.m02 + 3 * s * s * m.m01 + s * s * s * m.m00 }

theorem rawMoments_translate (t s : Rat) (c : List Pt) :
    rawMoments (c.map (translate t s)) = (rawMoments c).shift t s := by
  simp only [rawMoments, Raw.shift, a00_translate, a10_translate, a01_translate, a20_translate,
    a02_translate, a11_translate, a30_translate, a03_translate, a21_translate, a12_translate,
    Raw.mk.injEq]
  refine ⟨?_, ?_, ?_, ?_, ?_, ?_, ?_, ?_, ?_, ?_⟩ <;> first | trivial | ring

/-- the central moments do not see a shift of the raw moments (area above the threshold) -/
theorem central_shift (e t s : Rat) (m : Raw) (h : m.m00 > e) (h0 : m.m00 ≠ 0) :
    (central e (m.shift t s)).m00 = (central e m).m00 ∧
    (central e (m.shift t s)).mu20 = (central e m).mu20 ∧
    (central e (m.shift t s)).mu11 = (central e m).mu11 ∧
    (central e (m.shift t s)).mu02 = (central e m).mu02 ∧
    (central e (m.shift t s)).mu30 = (central e m).mu30 ∧
    (central e (m.shift t s)).mu21 = (central e m).mu21 ∧
    (central e (m.shift t s)).mu12 = (central e m).mu12 ∧
    (central e (m.shift t s)).mu03 = (central e m).mu03 := by
  simp only [central, Raw.shift, h, if_true]
  refine ⟨trivial, ?_, ?_, ?_, ?_, ?_, ?_, ?_⟩ <;> (field_simp; ring)

/-! ## the cone formula and path sums -/

theorem rabs_mul_nonneg {k : Rat} (hk : 0 ≤ k) (x : Rat) : rabs (k * x) = k * rabs x := by
  rw [rabs_eq_abs, rabs_eq_abs, abs_mul, abs_of_nonneg hk]

/-- `3r² + 3r·dr + dr² = r² + rR + R²` -/
theorem cone_symmetric_form (r R : Rat) :
    3 * (r * r) + 3 * (r * (R - r)) + (R - r) * (R - r) = r * r + r * R + R * R := by ring

theorem coneTerm_antisymm (p q : Pt) : coneTerm q p = - coneTerm p q := by
  obtain ⟨r, z⟩ := p; obtain ⟨R, Z⟩ := q
  simp only [coneTerm]
  rw [cone_symmetric_form, cone_symmetric_form]
  have : R * R + R * r + r * r = r * r + r * R + R * R := by ring
  rw [this]; ring

def scalePt (k : Rat) (p : Pt) : Pt := (k * p.1, k * p.2)

theorem coneTerm_scale (k : Rat) (p q : Pt) :
    coneTerm (scalePt k p) (scalePt k q) = k * k * k * coneTerm p q := by
  obtain ⟨r, z⟩ := p; obtain ⟨R, Z⟩ := q
  simp only [coneTerm, scalePt]
  have : 3 * (k * r * (k * r)) + 3 * (k * r * (k * R - k * r)) + (k * R - k * r) * (k * R - k * r)
      = (k * k) * (3 * (r * r) + 3 * (r * (R - r)) + (R - r) * (R - r)) := by ring
  rw [this, rabs_mul_nonneg (mul_self_nonneg k)]; ring

theorem pathSum_cons_cons (f : Pt → Pt → Rat) (p q : Pt) (r : List Pt) :
    pathSum f (p :: q :: r) = f p q + pathSum f (q :: r) := rfl

/-- the closing summand `f last first` -/
def closing (f : Pt → Pt → Rat) (l : List Pt) : Rat :=
  match l.getLast?, l.head? with
  | some b, some a => f b a
  | _, _ => 0

theorem pathSum_append_singleton (f : Pt → Pt → Rat) (a : Pt) : ∀ (l : List Pt),
    pathSum f (l ++ [a]) = pathSum f l + (match l.getLast? with | some b => f b a | none => 0)
  | [] => by simp [pathSum]
  | [p] => by simp [pathSum]
  | p :: q :: r => by
    have ih := pathSum_append_singleton f a (q :: r)
    simp only [List.cons_append, pathSum_cons_cons] at ih ⊢
    rw [ih]
    simp only [List.getLast?_cons_cons]
    ring

theorem pathSum_reverse (f : Pt → Pt → Rat) (hf : ∀ p q, f q p = - f p q) : ∀ (l : List Pt),
    pathSum f l.reverse = - pathSum f l
  | [] => by simp [pathSum]
  | [p] => by simp [pathSum]
  | p :: q :: r => by
    have ih := pathSum_reverse f hf (q :: r)
    rw [List.reverse_cons, pathSum_append_singleton, ih, pathSum_cons_cons]
    simp only [List.getLast?_reverse, List.head?_cons]
    rw [hf p q]; ring

theorem pathSum_map (f : Pt → Pt → Rat) (τ : Pt → Pt) : ∀ (l : List Pt),
    pathSum f (l.map τ) = pathSum (fun p q => f (τ p) (τ q)) l
  | [] => rfl
  | [p] => rfl
  | p :: q :: r => by
    have ih := pathSum_map f τ (q :: r)
    simp only [List.map_cons, pathSum_cons_cons] at ih ⊢
    rw [ih]

theorem pathSum_mul (k : Rat) (f : Pt → Pt → Rat) : ∀ (l : List Pt),
    pathSum (fun p q => k * f p q) l = k * pathSum f l
  | [] => by simp [pathSum]
  | [p] => by simp [pathSum]
  | p :: q :: r => by
    have ih := pathSum_mul k f (q :: r)
    simp only [pathSum_cons_cons] at ih ⊢
    rw [ih]; ring

/-- closing a contour adds exactly the segment from the last to the first point (which is a
degenerate segment of volume 0 when the contour was already closed) -/
theorem pathSum_close (f : Pt → Pt → Rat) (hf : ∀ p q, f q p = - f p q) (l : List Pt) :
    pathSum f (close l) = pathSum f l + closing f l := by
  have hself : ∀ p, f p p = 0 := by
    intro p; have := hf p p; linarith
  unfold close closing
  cases hh : l.head? with
  | none =>
    have : l = [] := by simpa using hh
    subst this; simp [pathSum]
  | some a =>
    cases hl : l.getLast? with
    | none =>
      have : l = [] := by simpa using hl
      subst this; simp at hh
    | some b =>
      simp only
      by_cases hba : b = a
      · subst hba; simp [hself]
      · simp only [ne_eq, hba, not_false_eq_true, if_true]
        rw [pathSum_append_singleton, hl]

theorem closing_reverse (f : Pt → Pt → Rat) (hf : ∀ p q, f q p = - f p q) (l : List Pt) :
    closing f l.reverse = - closing f l := by
  unfold closing
  simp only [List.getLast?_reverse, List.head?_reverse]
  cases l.head? <;> cases l.getLast? <;> simp only [neg_zero]
  exact hf _ _

theorem close_map (τ : Pt → Pt) (hτ : ∀ p q, τ p = τ q → p = q) (l : List Pt) :
    close (l.map τ) = (close l).map τ := by
  unfold close
  simp only [List.head?_map, List.getLast?_map]
  cases l.head? <;> cases l.getLast? <;> simp
  rename_i a b
  by_cases h : b = a
  · simp [h]
  · have : τ b ≠ τ a := fun e => h (hτ _ _ e)
    simp [h, this]

theorem close_close (l : List Pt) : close (close l) = close l := by
  unfold close
  cases hh : l.head? with
  | none => simp [hh]
  | some a =>
    cases hl : l.getLast? with
    | none => simp [hh, hl]
    | some b =>
      by_cases hba : b = a
      · simp [hba, hh, hl]
      · have h1 : (l ++ [a]).head? = some a := by
          cases l with
          | nil => simp at hh
          | cons x r => simp at hh ⊢; exact hh
        simp [hba, h1]

/-! ## masked statistics -/

theorem mean_shift (d : Rat) (v : List Rat) (h : v ≠ []) :
    mean (v.map (fun x => x - d)) = mean v - d := by
  unfold mean
  have hl : (v.length : Rat) ≠ 0 := by
    have : v.length ≠ 0 := by simpa using h
    exact_mod_cast this
  have : rsum (v.map (fun x => x - d)) = rsum v - v.length * d := by
    have h1 := rsum_map_add (fun x => x) (fun _ => -d) v
    have h2 := rsum_map_const (-d) v
    simp only [List.map_id'] at h1
    have : (fun x : Rat => x - d) = fun x => x + -d := by funext x; ring
    rw [this, h1, h2]; ring
  rw [this, List.length_map]
  field_simp

theorem variance_shift (d : Rat) (v : List Rat) :
    variance (v.map (fun x => x - d)) = variance v := by
  by_cases h : v = []
  · subst h; rfl
  · unfold variance
    simp only [mean_shift d v h, List.map_map, List.length_map]
    congr 2
    apply List.map_congr_left
    intro x _
    simp only [Function.comp]; ring

theorem masked_bg_shift (d : Rat) (px : List Px) :
    masked (bgShift d px) = (masked px).map (fun x => x - d) := by
  unfold masked bgShift
  induction px with
  | nil => rfl
  | cons p r ih =>
    simp only [List.map_cons, List.filter_cons]
    cases p.m <;> simp_all
    ring

theorem nth_map_shift (d : Rat) (s : List Rat) (h : s ≠ []) (i : Nat) :
    nth (s.map (fun x => x - d)) i = nth s i - d := by
  unfold nth
  have hl : 0 < s.length := List.length_pos_iff.mpr h
  have hi : min i (s.length - 1) < s.length := by omega
  simp only [List.length_map, List.getD_eq_getElem?_getD, List.getElem?_map]
  rw [List.getElem?_eq_getElem hi]
  simp

theorem percentile_shift (q d : Rat) (v : List Rat) (h : v ≠ []) :
    percentile q (v.map (fun x => x - d)) = percentile q v - d := by
  unfold percentile
  have hs : (v.map (fun x => x - d)).mergeSort (fun a b => decide (a ≤ b))
      = (v.mergeSort (fun a b => decide (a ≤ b))).map (fun x => x - d) := by
    symm
    apply List.map_mergeSort
    intro a _ b _
    simp
  have hne : v.mergeSort (fun a b => decide (a ≤ b)) ≠ [] := by
    intro e
    have := congrArg List.length e
    simp at this
    exact h this
  simp only [hs, List.length_map, nth_map_shift d _ hne]
  ring

/-! ## duplicate removal -/

/-- no two neighbours are equal -/
def NoAdj [DecidableEq α] : List α → Prop
  | [] => True
  | [_] => True
  | a :: b :: r => a ≠ b ∧ NoAdj (b :: r)

theorem noAdj_compressFrom [DecidableEq α] : ∀ (l : List α) (a : α), NoAdj (a :: compressFrom a l)
  | [], a => trivial
  | b :: r, a => by
    unfold compressFrom
    by_cases h : b = a
    · subst h; simp only [if_true]; exact noAdj_compressFrom r b
    · simp only [h, if_false]
      exact ⟨fun e => h e.symm, noAdj_compressFrom r b⟩

theorem noAdj_compress [DecidableEq α] (l : List α) : NoAdj (compress l) := by
  cases l with
  | nil => trivial
  | cons a r => exact noAdj_compressFrom r a

theorem noAdj_dropLast [DecidableEq α] : ∀ (l : List α), NoAdj l → NoAdj l.dropLast
  | [], _ => trivial
  | [_], _ => trivial
  | [_, _], _ => trivial
  | a :: b :: c :: r, h => by
    have ih := noAdj_dropLast (b :: c :: r) h.2
    simp only [List.dropLast_cons_cons] at ih ⊢
    exact ⟨h.1, ih⟩

/-- the last selected point carries the value of the last point of the input -/
theorem getLast?_compressFrom [DecidableEq α] : ∀ (l : List α) (a : α),
    (a :: compressFrom a l).getLast? = (a :: l).getLast?
  | [], a => rfl
  | b :: r, a => by
    unfold compressFrom
    by_cases h : b = a
    · subst h; simp only [if_true]
      rw [getLast?_compressFrom r b]; simp [List.getLast?_cons_cons]
    · simp only [h, if_false, List.getLast?_cons_cons]
      exact getLast?_compressFrom r b

theorem compressFrom_sublist [DecidableEq α] : ∀ (l : List α) (a : α),
    (compressFrom a l).Sublist l
  | [], _ => List.Sublist.slnil
  | b :: r, a => by
    unfold compressFrom
    by_cases h : b = a
    · simp only [h, if_true]; exact (compressFrom_sublist r a).cons _
    · simp only [h, if_false]; exact (compressFrom_sublist r b).cons_cons _

theorem sublist_dropLast {l₁ l₂ : List α} (h : l₁.Sublist l₂) : l₁.dropLast.Sublist l₂.dropLast := by
  induction h with
  | slnil => exact List.Sublist.slnil
  | @cons l₁ l₂ a h ih =>
    cases l₂ with
    | nil => cases h; exact List.Sublist.slnil
    | cons b r => rw [List.dropLast_cons_cons]; exact ih.cons _
  | @cons_cons l₁ l₂ a h ih =>
    cases l₁ with
    | nil => simp
    | cons x xs =>
      cases l₂ with
      | nil => cases h
      | cons b r => rw [List.dropLast_cons_cons, List.dropLast_cons_cons]; exact ih.cons_cons _

theorem noAdj_append_singleton [DecidableEq α] : ∀ (l : List α) (x b : α),
    NoAdj (l ++ [x]) → l.getLast? = some b → b ≠ x
  | [], _, _, _, h => by simp at h
  | [a], x, b, hn, h => by
    simp at h; subst h; exact hn.1
  | a :: c :: r, x, b, hn, h => by
    rw [List.getLast?_cons_cons] at h
    exact noAdj_append_singleton (c :: r) x b hn.2 h

theorem zip_reverse' {l : List α} {l' : List β} (h : l.length = l'.length) :
    List.zip l.reverse l'.reverse = (List.zip l l').reverse := by
  simp only [List.zip_eq_zipWith]; exact (List.reverse_zipWith h).symm

/-! ## the `None` test of `cont_moments_cv` -/

theorem m00_pos_of_some {fltEps dblEps : Rat} {c : List Pt} {m : Moments}
    (h0 : 0 ≤ dblEps) (hε : dblEps ≤ fltEps / 2) (h : moments fltEps dblEps c = some m) :
    m = momentsCore dblEps c ∧ (rawMoments c).m00 > dblEps ∧ (rawMoments c).m00 ≠ 0 ∧ a00 c ≠ 0 := by
  unfold moments at h
  split at h
  · rename_i hgt
    have hm : m = momentsCore dblEps c := by simpa using h.symm
    have h1 : (rawMoments c).m00 = rabs (a00 c) / 2 := by
      simp only [rawMoments]; rw [← sgn_mul_self]; ring
    have h2 : (rawMoments c).m00 > dblEps := by rw [h1]; linarith
    refine ⟨hm, h2, by linarith, ?_⟩
    intro h00
    rw [h00] at hgt
    have : rabs 0 = 0 := by decide +kernel
    rw [this] at hgt; linarith
  · cases h

theorem ne_zero_of_rabs_gt {e a : Rat} (he : 0 ≤ e) (h : rabs a > e) : a ≠ 0 := by
  intro h0
  subst h0
  have : rabs 0 = 0 := by decide +kernel
  rw [this] at h; linarith

/-! ## batch brightness, contour cache -/

theorem subOff_none (v : List Rat) : subOff v .none = some v := rfl

theorem subOff_scalar (v : List Rat) (o : Rat) : subOff v (.scalar o) = some (v.map (· - o)) := rfl

theorem subOff_array_eq_len (v os : List Rat) (h : os.length = v.length) :
    subOff v (.array os) = some (List.zipWith (· - ·) v os) := by
  simp [subOff, h]

theorem zipWith_map_shift (g : List Px → Rat) (hg : ∀ d px, masked px ≠ [] → g (bgShift d px) = g px - d) :
    ∀ (os : List Rat) (ev : List (List Px)), os.length = ev.length → (∀ px ∈ ev, masked px ≠ []) →
      (bgShiftEach os ev).map g = List.zipWith (· - ·) (ev.map g) os := by
  intro os
  induction os with
  | nil => intro ev h _; cases ev <;> simp_all [bgShiftEach]
  | cons o os ih =>
    intro ev h hne
    cases ev with
    | nil => simp at h
    | cons px ev =>
      simp only [List.length_cons, Nat.add_right_cancel_iff] at h
      have h1 := ih ev h (fun p hp => hne p (List.mem_cons_of_mem _ hp))
      simp only [bgShiftEach] at h1 ⊢
      simp only [List.zipWith_cons_cons, List.map_cons, h1, hg o px (hne px List.mem_cons_self)]

theorem map_const_shift (g : List Px → Rat) (hg : ∀ d px, g (bgShift d px) = g px) :
    ∀ (os : List Rat) (ev : List (List Px)), os.length = ev.length →
      (bgShiftEach os ev).map g = ev.map g := by
  intro os
  induction os with
  | nil => intro ev h; cases ev <;> simp_all [bgShiftEach]
  | cons o os ih =>
    intro ev h
    cases ev with
    | nil => simp at h
    | cons px ev =>
      simp only [List.length_cons, Nat.add_right_cancel_iff] at h
      have h1 := ih ev h
      simp only [bgShiftEach] at h1 ⊢
      simp only [List.zipWith_cons_cons, List.map_cons, h1, hg o px]

theorem zipWith_sub_replicate (v : List Rat) (o : Rat) :
    List.zipWith (· - ·) v (List.replicate v.length o) = v.map (· - o) := by
  induction v with
  | nil => rfl
  | cons a v ih => simp only [List.length_cons, List.replicate_succ, List.zipWith_cons_cons, ih, List.map_cons]

theorem lclFind_get (i : Nat) : ∀ (l : List Nat) (q : Nat), lclFind i l = some q → l[q]? = some i := by
  intro l
  induction l with
  | nil => intro q h; simp [lclFind] at h
  | cons j r ih =>
    intro q h
    simp only [lclFind] at h
    split at h
    · rename_i hj; cases h; simp [hj]
    · cases hq : lclFind i r with
      | none => simp [hq] at h
      | some q' =>
        simp only [hq, Option.map_some, Option.some.injEq] at h
        subst h
        simpa using ih q' hq

theorem lclFind_none (i : Nat) : ∀ (l : List Nat), lclFind i l = none → i ∉ l := by
  intro l
  induction l with
  | nil => intro _; simp
  | cons j r ih =>
    intro h
    simp only [lclFind] at h
    split at h
    · cases h
    · rename_i hj
      cases hq : lclFind i r with
      | none =>
        have := ih hq
        simp only [List.mem_cons, not_or]
        exact ⟨fun e => hj e.symm, this⟩
      | some q' => simp [hq] at h

theorem lclPush_map (f : α → β) (m : Nat) (l : List α) (x : α) :
    (lclPush m l x).map f = lclPush m (l.map f) (f x) := by
  unfold lclPush
  simp only [List.length_append, List.length_map, List.length_singleton]
  split
  · simp [List.map_drop]
  · simp

theorem lclPush_length_le (m : Nat) (l : List α) (x : α) (hm : m ≠ 0) (hl : l.length ≤ m) :
    (lclPush m l x).length ≤ m := by
  unfold lclPush
  simp only [List.length_append, List.length_singleton]
  split
  · simp only [List.length_drop, List.length_append, List.length_singleton]; omega
  · rename_i h
    simp only [List.length_append, List.length_singleton]
    have : ¬ (l.length + 1 > m) := fun hh => h ⟨hm, hh⟩
    omega

theorem lclPush_mem (m : Nat) (l : List α) (x y : α) (h : y ∈ lclPush m l x) : y ∈ l ∨ y = x := by
  unfold lclPush at h
  simp only at h
  split at h
  · have := List.mem_of_mem_drop h
    simpa using this
  · simpa using h

/-! ## rotation -/

theorem a00_rot (c s : Rat) (h : c * c + s * s = 1) (cont : List Pt) :
    a00 (cont.map (rot c s)) = a00 cont := by
  unfold a00
  rw [cyc_map]
  have : (fun p q => t00 (rot c s p) (rot c s q)) = fun p q => (c * c + s * s) * t00 p q := by
    funext p q; obtain ⟨x0, y0⟩ := p; obtain ⟨x1, y1⟩ := q
    simp only [rot, dxy, t00]; ring
  rw [this, h, cyc_mul]; ring

theorem a10_rot (c s : Rat) (h : c * c + s * s = 1) (cont : List Pt) :
    a10 (cont.map (rot c s)) = c * a10 cont + (-s) * a01 cont := by
  unfold a10 a01
  rw [cyc_map]
  have : (fun p q => t10 (rot c s p) (rot c s q))
      = fun p q => (c * c + s * s) * (c * t10 p q + (-s) * t01 p q) := by
    funext p q; obtain ⟨x0, y0⟩ := p; obtain ⟨x1, y1⟩ := q
    simp only [rot, dxy, t10, t01]; ring
  rw [this, h]
  simp only [cyc_add, cyc_mul]; ring

theorem a01_rot (c s : Rat) (h : c * c + s * s = 1) (cont : List Pt) :
    a01 (cont.map (rot c s)) = s * a10 cont + c * a01 cont := by
  unfold a10 a01
  rw [cyc_map]
  have : (fun p q => t01 (rot c s p) (rot c s q))
      = fun p q => (c * c + s * s) * (s * t10 p q + c * t01 p q) := by
    funext p q; obtain ⟨x0, y0⟩ := p; obtain ⟨x1, y1⟩ := q
    simp only [rot, dxy, t10, t01]; ring
  rw [this, h]
  simp only [cyc_add, cyc_mul]; ring

theorem a20_rot (c s : Rat) (h : c * c + s * s = 1) (cont : List Pt) :
    a20 (cont.map (rot c s)) = (c * c) * a20 cont + (-(c * s)) * a11 cont + (s * s) * a02 cont := by
  unfold a20 a11 a02
  rw [cyc_map]
  have : (fun p q => t20 (rot c s p) (rot c s q))
      = fun p q => (c * c + s * s) * ((c * c) * t20 p q + (-(c * s)) * t11 p q + (s * s) * t02 p q) := by
    funext p q; obtain ⟨x0, y0⟩ := p; obtain ⟨x1, y1⟩ := q
    simp only [rot, dxy, t20, t11, t02]; ring
  rw [this, h]
  simp only [cyc_add, cyc_mul]; ring

theorem a02_rot (c s : Rat) (h : c * c + s * s = 1) (cont : List Pt) :
    a02 (cont.map (rot c s)) = (s * s) * a20 cont + (c * s) * a11 cont + (c * c) * a02 cont := by
  unfold a20 a11 a02
  rw [cyc_map]
  have : (fun p q => t02 (rot c s p) (rot c s q))
      = fun p q => (c * c + s * s) * ((s * s) * t20 p q + (c * s) * t11 p q + (c * c) * t02 p q) := by
    funext p q; obtain ⟨x0, y0⟩ := p; obtain ⟨x1, y1⟩ := q
    simp only [rot, dxy, t20, t11, t02]; ring
  rw [this, h]
  simp only [cyc_add, cyc_mul]; ring

theorem a11_rot (c s : Rat) (h : c * c + s * s = 1) (cont : List Pt) :
    a11 (cont.map (rot c s))
      = (2 * (c * s)) * a20 cont + (c * c - s * s) * a11 cont + (-(2 * (c * s))) * a02 cont := by
  unfold a20 a11 a02
  rw [cyc_map]
  have : (fun p q => t11 (rot c s p) (rot c s q))
      = fun p q => (c * c + s * s) * ((2 * (c * s)) * t20 p q + (c * c - s * s) * t11 p q
          + (-(2 * (c * s))) * t02 p q) := by
    funext p q; obtain ⟨x0, y0⟩ := p; obtain ⟨x1, y1⟩ := q
    simp only [rot, dxy, t20, t11, t02]; ring
  rw [this, h]
  simp only [cyc_add, cyc_mul]; ring

/-- the four numbers `get_inert_ratio_prnc` uses transform as a tensor -/
theorem rotatedSecond_eq (e c s : Rat) (h : c * c + s * s = 1) (cont : List Pt) :
    rotatedSecond e c s cont =
      ((momentsCore e cont).m00,
       c * c * (momentsCore e cont).mu20 - 2 * (c * s) * (momentsCore e cont).mu11
         + s * s * (momentsCore e cont).mu02,
       c * s * ((momentsCore e cont).mu20 - (momentsCore e cont).mu02)
         + (c * c - s * s) * (momentsCore e cont).mu11,
       s * s * (momentsCore e cont).mu20 + 2 * (c * s) * (momentsCore e cont).mu11
         + c * c * (momentsCore e cont).mu02) := by
  simp only [rotatedSecond, momentsCore, central, rawMoments, a00_rot c s h, a10_rot c s h,
    a01_rot c s h, a20_rot c s h, a02_rot c s h, a11_rot c s h]
  by_cases hc : a00 cont * (sgn (a00 cont) * (1 / 2)) > e
  · simp only [hc, if_true, Prod.mk.injEq]
    refine ⟨trivial, ?_, ?_, ?_⟩ <;> ring
  · simp only [hc, if_false, Prod.mk.injEq]
    refine ⟨trivial, ?_, ?_, ?_⟩ <;> ring


theorem rot_rot (c s c' s' : Rat) (cont : List Pt) :
    (cont.map (rot c s)).map (rot c' s') = cont.map (rot (c' * c - s' * s) (s' * c + c' * s)) := by
  rw [List.map_map]
  congr 1; funext p; obtain ⟨x, y⟩ := p
  simp only [Function.comp, rot, Prod.mk.injEq]; constructor <;> ring

theorem rot_unit (c s c' s' : Rat) (h : c * c + s * s = 1) (h' : c' * c' + s' * s' = 1) :
    (c' * c - s' * s) * (c' * c - s' * s) + (s' * c + c' * s) * (s' * c + c' * s) = 1 := by
  linear_combination (c' * c' + s' * s') * h + h'

/-- two ordered pairs with the same sum and product are equal -/
theorem ordered_pair_unique (x1 y1 x2 y2 : Rat) (hs : x1 + y1 = x2 + y2) (hp : x1 * y1 = x2 * y2)
    (o1 : y1 ≤ x1) (o2 : y2 ≤ x2) : x1 = x2 ∧ y1 = y2 := by
  have hsq : ((x1 - y1) - (x2 - y2)) * ((x1 - y1) + (x2 - y2)) = 0 := by
    linear_combination (x1 + y1 + x2 + y2) * hs - 4 * hp
  rcases mul_eq_zero.mp hsq with hd | hd
  · constructor <;> linarith
  · have h1 : x1 - y1 = 0 := by linarith
    have h2 : x2 - y2 = 0 := by linarith
    constructor <;> linarith

end DclabModel.Feat
