import DclabModel.Lemmas.Anc
import DclabModel.Model.AncRank
/-!
Fuel sufficiency for the ancillary-feature model (C06): along a rank that strictly decreases
over the call relation `depends`, `recAvail`, `avail`, `selected`, `fresh` (and `getitem`'s
answer) do not depend on the fuel once it exceeds the rank — the recursion of
`is_available` / `__getitem__` terminates with that fixpoint value.  Plus: equal hashes give
equal computations across arbitrary states (the hash covers the chain of dependencies).
Core Lean only.
-/
namespace DclabModel.Anc
variable {D V : Type}

theorem any_congr_mem {α : Type} {p q : α → Bool} :
    ∀ {l : List α}, (∀ x ∈ l, p x = q x) → l.any p = l.any q
  | [], _ => rfl
  | x :: xs, h => by
    simp only [List.any_cons]
    rw [h x List.mem_cons_self, any_congr_mem (fun y hy => h y (List.mem_cons_of_mem _ hy))]

theorem all_congr_mem {α : Type} {p q : α → Bool} :
    ∀ {l : List α}, (∀ x ∈ l, p x = q x) → l.all p = l.all q
  | [], _ => rfl
  | x :: xs, h => by
    simp only [List.all_cons]
    rw [h x List.mem_cons_self, all_congr_mem (fun y hy => h y (List.mem_cons_of_mem _ hy))]

theorem filter_congr_mem {α : Type} {p q : α → Bool} :
    ∀ {l : List α}, (∀ x ∈ l, p x = q x) → l.filter p = l.filter q
  | [], _ => rfl
  | x :: xs, h => by
    simp only [List.filter_cons]
    rw [h x List.mem_cons_self, filter_congr_mem (fun y hy => h y (List.mem_cons_of_mem _ hy))]

theorem le_maxL {x : Nat} : ∀ {l : List Nat}, x ∈ l → x ≤ maxL l
  | [], h => by cases h
  | y :: ys, h => by
    simp only [maxL]
    rcases List.mem_cons.mp h with rfl | h
    · exact Nat.le_max_left _ _
    · exact Nat.le_trans (le_maxL h) (Nat.le_max_right _ _)

theorem maxL_le {b : Nat} : ∀ {l : List Nat}, (∀ x ∈ l, x ≤ b) → maxL l ≤ b
  | [], _ => Nat.zero_le _
  | y :: ys, h => by
    simp only [maxL]
    exact Nat.max_le.mpr ⟨h y List.mem_cons_self, maxL_le (fun x hx => h x (List.mem_cons_of_mem _ hx))⟩

/-- a recipe of feature `f` has rank below `featFuel f` -/
theorem rk_lt_featFuel {e : Env D V} (rk : Recipe D V → Nat) {r : Recipe D V} (hr : r ∈ e.reg) :
    rk r < featFuel e rk r.name := by
  have : rk r + 1 ∈ (e.reg.filter (fun o => o.name == r.name)).map (fun o => rk o + 1) := by
    rw [List.mem_map]
    exact ⟨r, by rw [List.mem_filter]; exact ⟨hr, by simp⟩, rfl⟩
  exact le_maxL this

/-- a feature required by `r` needs less fuel than `r` has rank -/
theorem featFuel_req_le {e : Env D V} {rk : Recipe D V → Nat} (hk : RankOK e rk)
    {r : Recipe D V} (hr : r ∈ e.reg) {g : Feat} (hg : g ∈ r.reqF) :
    featFuel e rk g ≤ rk r := by
  apply maxL_le
  intro x hx
  rw [List.mem_map] at hx
  obtain ⟨o, ho, rfl⟩ := hx
  rw [List.mem_filter] at ho
  have hname : o.name = g := by simpa using ho.2
  have hd : depends r o = true := by
    simp only [depends, Bool.or_eq_true, List.contains_eq_mem, decide_eq_true_eq]
    exact Or.inl (hname ▸ hg)
  exact hk r hr o ho.1 hd

/-- no recipe, no fuel needed -/
theorem nonAnc_of_featFuel_zero {e : Env D V} {rk : Recipe D V → Nat} {f : Feat}
    (h : featFuel e rk f ≤ 0) : ¬ isAnc e f := by
  rintro ⟨r, hr, hn⟩
  have := rk_lt_featFuel rk hr
  rw [hn] at this
  omega

theorem recAvail_fuel {e : Env D V} {rk : Recipe D V → Nat} (hk : RankOK e rk) (s : St D V) :
    ∀ (n m : Nat) (r : Recipe D V), r ∈ e.reg → rk r < n → rk r < m →
      recAvail e n s r = recAvail e m s r
  | 0, _, _, _, h, _ => absurd h (Nat.not_lt_zero _)
  | _ + 1, 0, _, _, _, h => absurd h (Nat.not_lt_zero _)
  | n + 1, m + 1, r, hr, hn, hm => by
    have ih : ∀ o ∈ e.reg, depends r o = true → recAvail e n s o = recAvail e m s o := by
      intro o ho hd
      have := hk r hr o ho hd
      exact recAvail_fuel hk s n m o ho (by omega) (by omega)
    have hB : r.reqF.all (fun g => (base e s g).isSome
                  || e.reg.any (fun o => o.name == g && recAvail e n s o))
            = r.reqF.all (fun g => (base e s g).isSome
                  || e.reg.any (fun o => o.name == g && recAvail e m s o)) := by
      apply all_congr_mem
      intro g hg
      congr 1
      apply any_congr_mem
      intro o ho
      by_cases hname : o.name = g
      · have hd : depends r o = true := by
          simp only [depends, Bool.or_eq_true, List.contains_eq_mem, decide_eq_true_eq]
          exact Or.inl (hname ▸ hg)
        rw [ih o ho hd]
      · have : (o.name == g) = false := by simpa using hname
        simp [this]
    have hC : e.reg.any (fun o => o.name == r.name && decide (r.priority < o.priority)
                  && recAvail e n s o)
            = e.reg.any (fun o => o.name == r.name && decide (r.priority < o.priority)
                  && recAvail e m s o) := by
      apply any_congr_mem
      intro o ho
      by_cases hc : (o.name == r.name && decide (r.priority < o.priority)) = true
      · have hd : depends r o = true := by
          simp only [depends, Bool.or_eq_true]
          exact Or.inr hc
        rw [ih o ho hd]
      · have : (o.name == r.name && decide (r.priority < o.priority)) = false := by
          simpa using hc
        simp [this]
    simp only [recAvail, hB, hC]

theorem avail_fuel {e : Env D V} {rk : Recipe D V → Nat} (hk : RankOK e rk) (s : St D V)
    (n m : Nat) (f : Feat) (hn : featFuel e rk f ≤ n) (hm : featFuel e rk f ≤ m) :
    avail e n s f = avail e m s f := by
  simp only [avail]
  congr 1
  apply any_congr_mem
  intro r hr
  by_cases hname : r.name = f
  · have := rk_lt_featFuel rk hr
    rw [hname] at this
    rw [recAvail_fuel hk s n m r hr (by omega) (by omega)]
  · have : (r.name == f) = false := by simpa using hname
    simp [this]

theorem selected_fuel {e : Env D V} {rk : Recipe D V → Nat} (hk : RankOK e rk) (s : St D V)
    (n m : Nat) (f : Feat) (hn : featFuel e rk f ≤ n) (hm : featFuel e rk f ≤ m) :
    selected e n s f = selected e m s f := by
  simp only [selected]
  congr 1
  apply filter_congr_mem
  intro r hr
  by_cases hname : r.name = f
  · have := rk_lt_featFuel rk hr
    rw [hname] at this
    rw [recAvail_fuel hk s n m r hr (by omega) (by omega)]
  · have : (r.name == f) = false := by simpa using hname
    simp [this]

/-- the value a fresh dataset computes does not depend on the fuel beyond `featFuel` -/
theorem fresh_fuel {e : Env D V} (hs : Sound e) {rk : Recipe D V → Nat} (hk : RankOK e rk)
    (s : St D V) :
    ∀ (n m : Nat) (f : Feat), featFuel e rk f ≤ n → featFuel e rk f ≤ m →
      fresh e n s f = fresh e m s f
  | 0, m, f, hn, _ => by
    have hna := nonAnc_of_featFuel_zero hn
    rw [fresh_nonAnc hna, fresh_nonAnc hna]
  | n + 1, 0, f, _, hm => by
    have hna := nonAnc_of_featFuel_zero hm
    rw [fresh_nonAnc hna, fresh_nonAnc hna]
  | n + 1, m + 1, f, hn, hm => by
    simp only [fresh]
    cases base e s f with
    | some d => rfl
    | none =>
      simp only
      rw [selected_fuel hk s (n + 1) (m + 1) f hn hm]
      cases hsel : selected e (m + 1) s f with
      | none => rfl
      | some r =>
        obtain ⟨hr, hname, _⟩ := selected_some hsel
        have hrk : rk r ≤ n ∧ rk r ≤ m := by
          have := rk_lt_featFuel rk hr
          rw [hname] at this
          omega
        have hreq : ∀ g ∈ r.reqF, fresh e n s g = fresh e m s g := by
          intro g hg
          have := featFuel_req_le hk hr hg
          exact fresh_fuel hs hk s n m g (by omega) (by omega)
        have hreads : ∀ g ∈ r.readsF, fresh e n s g = fresh e m s g := by
          intro g hg
          rcases (hs.covered r hr).1 g hg with h | h | h
          · exact hreq g h
          · have hna := hs.nonAnc r hr g (Or.inl h)
            rw [fresh_nonAnc hna, fresh_nonAnc hna]
          · have hna := hs.nonAnc r hr g (Or.inr h)
            rw [fresh_nonAnc hna, fresh_nonAnc hna]
        have h1 : r.reqF.map (fun g => (g, fresh e n s g))
            = r.reqF.map (fun g => (g, fresh e m s g)) :=
          List.map_congr_left (fun g hg => by rw [hreq g hg])
        have h2 : r.readsF.map (fresh e n s) = r.readsF.map (fresh e m s) :=
          List.map_congr_left hreads
        simp only [h1, h2]

/-- … and so does the answer of the long-lived dataset (any cache satisfying the invariant) -/
theorem getitem_fuel [DecidableEq D] [DecidableEq V] {e : Env D V} (hs : Sound e)
    {rk : Recipe D V → Nat} (hk : RankOK e rk) (s : St D V) (C : Cache D V) (hw : Wf e s)
    (hC : Inv e C) (n m : Nat) (f : Feat) (hn : featFuel e rk f ≤ n) (hm : featFuel e rk f ≤ m) :
    (getitem e n C s f).2 = (getitem e m C s f).2 := by
  rw [(getitem_spec hs n C s f hw hC).1, (getitem_spec hs m C s f hw hC).1]
  exact fresh_fuel hs hk s n m f hn hm

/-! ## the concrete registry -/

theorem rankOK_of_rankedB (ps : List Spec) (innate : List (Feat × String)) (tbl : RankTable)
    (h : rankedB ps tbl = true) : RankOK (envOf ps innate) (rkOf tbl) := by
  intro r hr o ho hd
  simp only [envOf, List.mem_map] at hr ho
  obtain ⟨p, hp, rfl⟩ := hr
  obtain ⟨q, hq, rfl⟩ := ho
  simp only [rankedB, List.all_eq_true, Bool.or_eq_true, Bool.not_eq_true',
    decide_eq_true_eq] at h
  rcases h p hp q hq with h | h
  · have : dependsS p q = true := hd
    rw [this] at h; cases h
  · exact h

theorem rankOf_le_bound (tbl : RankTable) (name : String) (prio : Int) :
    rankOf tbl name prio + 1 ≤ fuelBound tbl := by
  simp only [fuelBound]
  apply Nat.succ_le_succ
  induction tbl with
  | nil => simp [rankOf]
  | cons t rest ih =>
    obtain ⟨n, p, k⟩ := t
    simp only [rankOf, List.map_cons, maxL]
    split
    · exact Nat.le_max_left _ _
    · exact Nat.le_trans ih (Nat.le_max_right _ _)

/-- `fuelBound` suffices for every feature -/
theorem featFuel_le_bound (e : Env D V) (tbl : RankTable) (f : Feat) :
    featFuel e (rkOf tbl) f ≤ fuelBound tbl := by
  apply maxL_le
  intro x hx
  rw [List.mem_map] at hx
  obtain ⟨o, _, rfl⟩ := hx
  exact rankOf_le_bound tbl _ _

/-! ## the hash covers the chain of dependencies -/

/-- Two arbitrary states in which recipe `r` has the same (fresh) hash make `r`'s method see
the same inputs: whatever was edited in between — configuration keys or temporary features,
read by `r` directly or only through ancillary features it depends on, at any depth — either
changed the hash (the data of the required features are hashed, not their names) or cannot
influence the result. -/
theorem hash_covers_chain {e : Env D V} (hs : Sound e) (n : Nat) {s s' : St D V}
    (hw : Wf e s) (hw' : Wf e s') {r : Recipe D V} (hr : r ∈ e.reg)
    (hh : freshHash e n s r = freshHash e n s' r) :
    r.readsF.map (fresh e n s) = r.readsF.map (fresh e n s') ∧
    r.readsC.map (getC s) = r.readsC.map (getC s') := by
  simp only [freshHash, mkHash, Hash.mk.injEq] at hh
  obtain ⟨hfs, hcs, hxc, hxf⟩ := hh
  obtain ⟨_, vF⟩ := map_pair_eq _ _ _ _ hfs
  obtain ⟨_, vC⟩ := map_pair_eq _ _ _ _ hcs
  obtain ⟨_, vXC⟩ := map_pair_eq _ _ _ _ hxc
  obtain ⟨_, vXF⟩ := map_pair_eq _ _ _ _ hxf
  obtain ⟨covF, covC⟩ := hs.covered r hr
  refine ⟨List.map_congr_left ?_, List.map_congr_left ?_⟩
  · intro g hg
    rcases covF g hg with h | h | h
    · exact vF g h
    · have hna := hs.nonAnc r hr g (Or.inl h)
      rw [fresh_nonAnc hna, fresh_nonAnc hna]; exact vXF g h
    · have hna := hs.nonAnc r hr g (Or.inr h)
      rw [fresh_nonAnc hna, fresh_nonAnc hna]; exact base_fixed hw hw' h
  · intro k hk
    rcases covC k hk with h | h
    · exact vC k h
    · exact vXC k h

end DclabModel.Anc
