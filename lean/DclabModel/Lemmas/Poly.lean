import DclabModel.Model.Poly
import Mathlib.Algebra.Order.Field.Basic
import Mathlib.Tactic.FieldSimp
import Mathlib.Tactic.Linarith
import Mathlib.Tactic.Ring
import Mathlib.Tactic.LinearCombination
/-!
Helper lemmas for C15: list combinatorics of the cyclic edge list and of parities, and the
order/field facts about a single edge.
-/
set_option linter.unusedSectionVars false
namespace DclabModel.Poly

/-! ### parity -/

theorem parity_append (l₁ l₂ : List Bool) : parity (l₁ ++ l₂) = xor (parity l₁) (parity l₂) := by
  induction l₁ with
  | nil => simp [parity]
  | cons b r ih => simp [parity, ih]

theorem parity_reverse (l : List Bool) : parity l.reverse = parity l := by
  induction l with
  | nil => rfl
  | cons b r ih => simp [parity, parity_append, ih, Bool.xor_comm]

theorem parity_map_congr {α : Type} (f g : α → Bool) (l : List α)
    (h : ∀ e ∈ l, f e = g e) : parity (l.map f) = parity (l.map g) := by
  induction l with
  | nil => rfl
  | cons a r ih =>
    simp only [List.map_cons, parity]
    rw [h a (by simp), ih (fun e he => h e (by simp [he]))]

theorem parity_eq_countP {α : Type} (f : α → Bool) (l : List α) :
    parity (l.map f) = (l.countP f % 2 == 1) := by
  induction l with
  | nil => rfl
  | cons a r ih =>
    simp only [List.map_cons, parity, ih, List.countP_cons]
    cases hf : f a <;> rcases Nat.mod_two_eq_zero_or_one (List.countP f r) with h | h <;>
      simp [h, Nat.add_mod]

/-! ### the edge list -/

section Edges
variable {α : Type}

theorem lastD_append (d : α) (l₁ l₂ : List α) : lastD d (l₁ ++ l₂) = lastD (lastD d l₁) l₂ := by
  induction l₁ generalizing d with
  | nil => rfl
  | cons v r ih => simp [lastD, ih]

theorem lastD_mem (d : α) (l : List α) : lastD d l ∈ d :: l := by
  induction l generalizing d with
  | nil => simp [lastD]
  | cons v r ih =>
    have := ih v
    simp only [lastD, List.mem_cons] at this ⊢
    rcases this with h | h
    · exact Or.inr (Or.inl h)
    · exact Or.inr (Or.inr h)

end Edges

section EdgesK
variable {K : Type}

theorem edgesFrom_append (prev : Pt K) (l₁ l₂ : List (Pt K)) :
    edgesFrom prev (l₁ ++ l₂) = edgesFrom prev l₁ ++ edgesFrom (lastD prev l₁) l₂ := by
  induction l₁ generalizing prev with
  | nil => rfl
  | cons v r ih => simp [edgesFrom, lastD, ih]

theorem edgesFrom_mem (prev : Pt K) (l : List (Pt K)) (e : Pt K × Pt K)
    (h : e ∈ edgesFrom prev l) : e.1 ∈ l ∧ e.2 ∈ prev :: l := by
  induction l generalizing prev with
  | nil => simp [edgesFrom] at h
  | cons v r ih =>
    simp only [edgesFrom, List.mem_cons] at h
    rcases h with h | h
    · subst h; simp
    · have := ih v h
      refine ⟨by simp [this.1], ?_⟩
      have h2 := this.2
      simp only [List.mem_cons] at h2 ⊢
      rcases h2 with h2 | h2
      · exact Or.inr (Or.inl h2)
      · exact Or.inr (Or.inr h2)

theorem edges_mem (poly : List (Pt K)) (e : Pt K × Pt K) (h : e ∈ edges poly) :
    e.1 ∈ poly ∧ e.2 ∈ poly := by
  cases poly with
  | nil => simp [edges] at h
  | cons v r =>
    simp only [edges] at h
    have := edgesFrom_mem _ _ e h
    refine ⟨this.1, ?_⟩
    have h2 := this.2
    simp only [List.mem_cons] at h2
    rcases h2 with h2 | h2
    · rw [h2]; exact lastD_mem v r
    · simpa using h2

/-- consecutive pairs `(next, previous)` along a path -/
def pathEdges : List (Pt K) → List (Pt K × Pt K)
  | [] => []
  | [_] => []
  | a :: b :: r => (b, a) :: pathEdges (b :: r)

theorem edgesFrom_eq_path (prev : Pt K) (l : List (Pt K)) :
    edgesFrom prev l = pathEdges (prev :: l) := by
  induction l generalizing prev with
  | nil => rfl
  | cons v r ih => simp [edgesFrom, pathEdges, ih]

theorem pathEdges_snoc (a : Pt K) (l : List (Pt K)) (z : Pt K) :
    pathEdges (a :: l ++ [z]) = pathEdges (a :: l) ++ [(z, lastD a l)] := by
  induction l generalizing a with
  | nil => rfl
  | cons v r ih =>
    have := ih v
    simp only [List.cons_append] at this
    simp [pathEdges, lastD, this]

theorem pathEdges_reverse (l : List (Pt K)) :
    pathEdges l.reverse = ((pathEdges l).map Prod.swap).reverse := by
  induction l with
  | nil => rfl
  | cons a r ih =>
    cases r with
    | nil => rfl
    | cons b r' =>
      -- reverse (a :: b :: r') = reverse (b :: r') ++ [a]
      have hrev : (a :: b :: r').reverse = (b :: r').reverse ++ [a] := by simp
      rw [hrev]
      -- (b :: r').reverse is nonempty: write it as  h :: t
      cases hc : (b :: r').reverse with
      | nil => simp at hc
      | cons h t =>
        have hl : lastD h t = b := by
          have h1 : (h :: t).reverse = b :: r' := by rw [← hc]; simp
          have h2 : h :: t = (b :: r').reverse := hc.symm
          have : h :: t = r'.reverse ++ [b] := by simpa using h2
          rcases hr : r'.reverse with _ | ⟨h', t'⟩
          · rw [hr] at this; simp at this; obtain ⟨rfl, rfl⟩ := this; rfl
          · rw [hr] at this
            simp only [List.cons_append, List.cons.injEq] at this
            obtain ⟨rfl, rfl⟩ := this
            rw [lastD_append]; rfl
        rw [pathEdges_snoc, hl, ← hc, ih]
        simp [pathEdges]

end EdgesK

/-! ### one edge, over a linearly ordered field -/

section Field
variable {K : Type} [Field K] [LinearOrder K] [IsStrictOrderedRing K]

theorem crosses_iff (a b p : Pt K) :
    crosses a b p = true ↔
      ((a.y ≤ p.y ∧ p.y < b.y) ∨ (b.y ≤ p.y ∧ p.y < a.y)) ∧
        p.x < (b.x - a.x) * (p.y - a.y) / (b.y - a.y) + a.x := by
  simp [crosses]

/-- the crossing abscissa does not depend on which end point is used as the base -/
theorem xint_swap (xi yi xj yj y : K) (hne : yj - yi ≠ 0) :
    (xi - xj) * (y - yj) / (yi - yj) + xj = (xj - xi) * (y - yi) / (yj - yi) + xi := by
  have hne' : yi - yj ≠ 0 := by
    intro h; apply hne; linear_combination -h
  field_simp
  ring

theorem crosses_degenerate (v p : Pt K) : crosses v v p = false := by
  rw [Bool.eq_false_iff]
  intro h
  rw [crosses_iff] at h
  rcases h.1 with ⟨h1, h2⟩ | ⟨h1, h2⟩ <;> exact absurd (lt_of_le_of_lt h1 h2) (lt_irrefl _)

/-- a horizontal edge never crosses -/
theorem crosses_horizontal (a b p : Pt K) (h : a.y = b.y) : crosses a b p = false := by
  rw [Bool.eq_false_iff]
  intro hc
  rw [crosses_iff, h] at hc
  rcases hc.1 with ⟨h1, h2⟩ | ⟨h1, h2⟩ <;> exact absurd (lt_of_le_of_lt h1 h2) (lt_irrefl _)

end Field

/-! ### vocabulary of the geometric specification -/

section Spec
variable {K : Type} [Field K] [LinearOrder K] [IsStrictOrderedRing K]

/-- the point of edge `ab` with parameter `t` lies on the horizontal ray that starts at `p`
and goes to the right, strictly right of `p` -/
def RayHitsAt (a b p : Pt K) (t : K) : Prop :=
  a.y + t * (b.y - a.y) = p.y ∧ p.x < a.x + t * (b.x - a.x)

/-- the open segment `ab` meets the open right ray of `p` -/
def OpenHit (a b p : Pt K) : Prop := ∃ t, 0 < t ∧ t < 1 ∧ RayHitsAt a b p t

open Classical in
/-- number of edges of the polygon whose open segment meets the open right ray of `p` -/
noncomputable def rayCount (poly : List (Pt K)) (p : Pt K) : Nat :=
  (edges poly).countP fun e => decide (OpenHit e.1 e.2 p)

/-- `p` lies on the closed segment `ab` -/
def OnSeg (a b p : Pt K) : Prop :=
  ∃ t, 0 ≤ t ∧ t ≤ 1 ∧ p.x = a.x + t * (b.x - a.x) ∧ p.y = a.y + t * (b.y - a.y)

/-- `p` lies on the boundary of the polygon (the union of its closed edges) -/
def OnBoundary (poly : List (Pt K)) (p : Pt K) : Prop := ∃ e ∈ edges poly, OnSeg e.1 e.2 p

/-- `p` moved up by `δ` -/
def up (p : Pt K) (δ : K) : Pt K := ⟨p.x, p.y + δ⟩

theorem OnSeg_swap (a b p : Pt K) (h : OnSeg a b p) : OnSeg b a p := by
  obtain ⟨t, h0, h1, hx, hy⟩ := h
  exact ⟨1 - t, by linarith, by linarith, by rw [hx]; ring, by rw [hy]; ring⟩

theorem crosses_false_of (a b q : Pt K)
    (h : ¬ ((a.y ≤ q.y ∧ q.y < b.y) ∨ (b.y ≤ q.y ∧ q.y < a.y))) : crosses a b q = false := by
  rw [Bool.eq_false_iff]
  intro hc
  rw [crosses_iff] at hc
  exact h hc.1

theorem crosses_in_range (a b q : Pt K) (h1 : a.y ≤ q.y) (h2 : q.y < b.y) :
    crosses a b q = decide (q.x < (b.x - a.x) / (b.y - a.y) * (q.y - a.y) + a.x) := by
  rw [Bool.eq_iff_iff, crosses_iff, decide_eq_true_iff]
  have : (b.x - a.x) * (q.y - a.y) / (b.y - a.y) = (b.x - a.x) / (b.y - a.y) * (q.y - a.y) := by
    ring
  rw [this]
  exact ⟨fun h => h.2, fun h => ⟨Or.inl ⟨h1, h2⟩, h⟩⟩

/-- an edge off which `p` lies classifies `p` and every point slightly above `p` alike
(case `a.y ≤ b.y`) -/
theorem crosses_stable_up_aux (a b p : Pt K) (hab : a.y ≤ b.y) (hoff : ¬ OnSeg a b p) :
    ∃ ε, 0 < ε ∧ ∀ δ, 0 < δ → δ < ε → crosses a b (up p δ) = crosses a b p := by
  rcases lt_or_ge p.y a.y with h1 | h1
  · refine ⟨a.y - p.y, by linarith, fun δ hδ hlt => ?_⟩
    rw [crosses_false_of a b (up p δ), crosses_false_of a b p]
    · rintro (⟨h, _⟩ | ⟨h, _⟩) <;> linarith
    · simp only [up]; rintro (⟨h, _⟩ | ⟨h, _⟩) <;> linarith
  rcases le_or_gt b.y p.y with h2 | h2
  · refine ⟨1, one_pos, fun δ hδ _ => ?_⟩
    rw [crosses_false_of a b (up p δ), crosses_false_of a b p]
    · rintro (⟨_, h⟩ | ⟨_, h⟩) <;> linarith
    · simp only [up]; rintro (⟨_, h⟩ | ⟨_, h⟩) <;> linarith
  -- a.y ≤ p.y < b.y
  have hd : 0 < b.y - a.y := by linarith
  obtain ⟨m, hm⟩ : ∃ m, m = (b.x - a.x) / (b.y - a.y) := ⟨_, rfl⟩
  obtain ⟨X, hX⟩ : ∃ X, X = m * (p.y - a.y) + a.x := ⟨_, rfl⟩
  have hne : p.x ≠ X := by
    intro hx
    apply hoff
    refine ⟨(p.y - a.y) / (b.y - a.y), div_nonneg (by linarith) (le_of_lt hd), ?_, ?_, ?_⟩
    · rw [div_le_one hd]; linarith
    · rw [hx, hX, hm]; ring
    · rw [div_mul_cancel₀ _ (ne_of_gt hd)]; ring
  obtain ⟨g, hg⟩ : ∃ g, g = |p.x - X| := ⟨_, rfl⟩
  have hgpos : 0 < g := by rw [hg]; exact abs_pos.mpr (sub_ne_zero.mpr hne)
  have hm1 : 0 < |m| + 1 := by linarith [abs_nonneg m]
  refine ⟨min (b.y - p.y) (g / (|m| + 1)), lt_min (by linarith) (div_pos hgpos hm1), ?_⟩
  intro δ hδ hlt
  have hδ1 : δ < b.y - p.y := lt_of_lt_of_le hlt (min_le_left _ _)
  have hδ2 : δ < g / (|m| + 1) := lt_of_lt_of_le hlt (min_le_right _ _)
  have hδ3 : δ * (|m| + 1) < g := (lt_div_iff₀ hm1).mp hδ2
  have hmd : |m * δ| < g := by
    rw [abs_mul, abs_of_pos hδ]
    have : δ * (|m| + 1) = |m| * δ + δ := by ring
    linarith
  obtain ⟨hlo, hhi⟩ := abs_lt.mp hmd
  rw [crosses_in_range a b (up p δ) (by simp only [up]; linarith) (by simp only [up]; linarith),
      crosses_in_range a b p h1 h2, ← hm]
  rw [decide_eq_decide]
  simp only [up]
  have hsplit : m * (p.y + δ - a.y) + a.x = X + m * δ := by rw [hX]; ring
  rw [hsplit, ← hX]
  rcases lt_or_gt_of_ne hne with hlt' | hgt'
  · have : g = -(p.x - X) := by rw [hg]; exact abs_of_neg (by linarith)
    constructor <;> intro _ <;> linarith
  · have : g = p.x - X := by rw [hg]; exact abs_of_pos (by linarith)
    constructor <;> intro h <;> exfalso <;> linarith

theorem crosses_swap' (a b p : Pt K) : crosses a b p = crosses b a p := by
  rw [Bool.eq_iff_iff, crosses_iff, crosses_iff]
  have key : ∀ a b : Pt K,
      (((a.y ≤ p.y ∧ p.y < b.y) ∨ (b.y ≤ p.y ∧ p.y < a.y)) ∧
        p.x < (b.x - a.x) * (p.y - a.y) / (b.y - a.y) + a.x) →
      (((b.y ≤ p.y ∧ p.y < a.y) ∨ (a.y ≤ p.y ∧ p.y < b.y)) ∧
        p.x < (a.x - b.x) * (p.y - b.y) / (a.y - b.y) + b.x) := by
    rintro a b ⟨hy, hx⟩
    refine ⟨hy.symm, ?_⟩
    have hne : b.y - a.y ≠ 0 := by
      rcases hy with ⟨h1, h2⟩ | ⟨h1, h2⟩
      · exact sub_ne_zero.mpr (ne_of_gt (lt_of_le_of_lt h1 h2))
      · exact sub_ne_zero.mpr (ne_of_lt (lt_of_le_of_lt h1 h2))
    rw [xint_swap _ _ _ _ _ hne]; exact hx
  exact ⟨key a b, key b a⟩

theorem crosses_stable_up (a b p : Pt K) (hoff : ¬ OnSeg a b p) :
    ∃ ε, 0 < ε ∧ ∀ δ, 0 < δ → δ < ε → crosses a b (up p δ) = crosses a b p := by
  rcases le_total a.y b.y with h | h
  · exact crosses_stable_up_aux a b p h hoff
  · obtain ⟨ε, hε, hs⟩ := crosses_stable_up_aux b a p h (fun hc => hoff (OnSeg_swap _ _ _ hc))
    refine ⟨ε, hε, fun δ h0 h1 => ?_⟩
    rw [crosses_swap' a b, crosses_swap' a b p]
    exact hs δ h0 h1

/-- finitely many "for all sufficiently small δ" statements hold simultaneously -/
theorem exists_eps_forall {α : Type} (L : List α) (P : α → K → Prop)
    (h : ∀ e ∈ L, ∃ ε, 0 < ε ∧ ∀ δ, 0 < δ → δ < ε → P e δ) :
    ∃ ε, 0 < ε ∧ ∀ δ, 0 < δ → δ < ε → ∀ e ∈ L, P e δ := by
  induction L with
  | nil => exact ⟨1, one_pos, fun _ _ _ e he => by simp at he⟩
  | cons a r ih =>
    obtain ⟨ε₁, h1, hp1⟩ := h a (by simp)
    obtain ⟨ε₂, h2, hp2⟩ := ih (fun e he => h e (by simp [he]))
    refine ⟨min ε₁ ε₂, lt_min h1 h2, fun δ h0 hlt e he => ?_⟩
    simp only [List.mem_cons] at he
    rcases he with rfl | he
    · exact hp1 δ h0 (lt_of_lt_of_le hlt (min_le_left _ _))
    · exact hp2 δ h0 (lt_of_lt_of_le hlt (min_le_right _ _)) e he

theorem not_level_up (v p : Pt K) :
    ∃ ε, 0 < ε ∧ ∀ δ, 0 < δ → δ < ε → v.y ≠ p.y + δ := by
  rcases le_or_gt v.y p.y with h | h
  · exact ⟨1, one_pos, fun δ h0 _ hc => by linarith⟩
  · exact ⟨v.y - p.y, by linarith, fun δ _ h1 hc => by linarith⟩

end Spec

/-! ### persistence -/

section Persist

/-- what a filter looks like after its text has been written and parsed again -/
def PF.through (fmt : Rat → Rat) (lower : String → String) (f : PF) : PF :=
  { f with xaxis := lower f.xaxis, yaxis := lower f.yaxis,
           points := f.points.map fun q => ⟨fmt q.x, fmt q.y⟩ }

def bodyLines (fmt : Rat → Rat) (f : PF) : List Line :=
  [Line.xaxis f.xaxis, Line.yaxis f.yaxis, Line.name f.name, Line.inverted f.inverted]
    ++ pointLines fmt 0 f.points

def enumPts (fmt : Rat → Rat) : Nat → List (Pt Rat) → List (Nat × Pt Rat)
  | _, [] => []
  | i, q :: r => (i, ⟨fmt q.x, fmt q.y⟩) :: enumPts fmt (i + 1) r

theorem save_eq (fmt : Rat → Rat) (f : PF) : save fmt f = Line.hdr f.uid :: bodyLines fmt f := rfl

theorem pointLines_noHdr (fmt : Rat → Rat) (i : Nat) (ps : List (Pt Rat)) :
    ∀ l ∈ pointLines fmt i ps, l.isHdr = false := by
  induction ps generalizing i with
  | nil => intro l hl; simp [pointLines] at hl
  | cons q r ih =>
    intro l hl
    simp only [pointLines, List.mem_cons] at hl
    rcases hl with rfl | hl
    · rfl
    · exact ih _ l hl

theorem bodyLines_noHdr (fmt : Rat → Rat) (f : PF) : ∀ l ∈ bodyLines fmt f, l.isHdr = false := by
  intro l hl
  simp only [bodyLines, List.mem_append, List.mem_cons] at hl
  rcases hl with (rfl | rfl | rfl | rfl | hl) | hl
  · rfl
  · rfl
  · rfl
  · rfl
  · simp at hl
  · exact pointLines_noHdr fmt 0 _ l hl

theorem saveAll_cons (fmt : Rat → Rat) (f : PF) (fs : List PF) :
    saveAll fmt (f :: fs) = Line.hdr f.uid :: (bodyLines fmt f ++ saveAll fmt fs) := by
  simp [saveAll, save_eq]

theorem sectionBody_saveAll (fmt : Rat → Rat) (fs : List PF) :
    sectionBody (saveAll fmt fs) = [] := by
  cases fs with
  | nil => rfl
  | cons f r => rw [saveAll_cons]; simp [sectionBody, Line.isHdr]

theorem sectionBody_append (fmt : Rat → Rat) (B : List Line) (fs : List PF)
    (hB : ∀ l ∈ B, l.isHdr = false) : sectionBody (B ++ saveAll fmt fs) = B := by
  induction B with
  | nil => exact sectionBody_saveAll fmt fs
  | cons l r ih =>
    have hl : l.isHdr = false := hB l (by simp)
    simp only [List.cons_append, sectionBody, hl, Bool.false_eq_true, if_false]
    rw [ih (fun l' hl' => hB l' (by simp [hl']))]

theorem nthSection_skip (l : Line) (r : List Line) (k : Nat) (hl : l.isHdr = false) :
    nthSection (l :: r) k = nthSection r k := by
  cases l <;> first | (cases k <;> simp [nthSection]; done) | (simp [Line.isHdr] at hl)

theorem nthSection_append (B rest : List Line) (k : Nat) (hB : ∀ l ∈ B, l.isHdr = false) :
    nthSection (B ++ rest) k = nthSection rest k := by
  induction B with
  | nil => rfl
  | cons l r ih =>
    rw [List.cons_append, nthSection_skip l _ k (hB l (by simp))]
    exact ih (fun l' hl' => hB l' (by simp [hl']))

theorem nthSection_saveAll (fmt : Rat → Rat) (fs : List PF) (k : Nat) :
    nthSection (saveAll fmt fs) k = (fs[k]?).map fun f => (f.uid, bodyLines fmt f) := by
  induction fs generalizing k with
  | nil => simp [saveAll, nthSection]
  | cons f r ih =>
    rw [saveAll_cons]
    cases k with
    | zero =>
      simp only [nthSection, List.getElem?_cons_zero, Option.map_some]
      rw [sectionBody_append fmt _ _ (bodyLines_noHdr fmt f)]
    | succ k =>
      simp only [nthSection, List.getElem?_cons_succ]
      rw [nthSection_append _ _ _ (bodyLines_noHdr fmt f)]
      exact ih k

theorem parseBody_points (fmt : Rat → Rat) (lower : String → String) (i : Nat)
    (ps : List (Pt Rat)) (acc : Parsed) :
    parseBody lower (pointLines fmt i ps) acc = { acc with pts := acc.pts ++ enumPts fmt i ps } := by
  induction ps generalizing i acc with
  | nil => simp [pointLines, parseBody, enumPts]
  | cons q r ih => simp [pointLines, parseBody, enumPts, ih]

theorem parseBody_body (fmt : Rat → Rat) (lower : String → String) (f : PF) :
    parseBody lower (bodyLines fmt f) {} =
      { xaxis := lower f.xaxis, yaxis := lower f.yaxis, name := f.name, inverted := f.inverted,
        pts := enumPts fmt 0 f.points } := by
  simp only [bodyLines, List.cons_append, List.nil_append, parseBody]
  rw [parseBody_points]
  cases f.inverted <;> simp

theorem insertPt_enum (fmt : Rat → Rat) (i : Nat) (q : Pt Rat) (r : List (Pt Rat)) :
    insertPt (i, q) (enumPts fmt (i + 1) r) = (i, q) :: enumPts fmt (i + 1) r := by
  cases r with
  | nil => rfl
  | cons q' r' => simp [enumPts, insertPt]

theorem sortPts_enum (fmt : Rat → Rat) (i : Nat) (ps : List (Pt Rat)) :
    sortPts (enumPts fmt i ps) = enumPts fmt i ps := by
  induction ps generalizing i with
  | nil => rfl
  | cons q r ih => simp only [enumPts, sortPts, ih, insertPt_enum]

theorem enumPts_snd (fmt : Rat → Rat) (i : Nat) (ps : List (Pt Rat)) :
    (enumPts fmt i ps).map Prod.snd = ps.map fun q => ⟨fmt q.x, fmt q.y⟩ := by
  induction ps generalizing i with
  | nil => rfl
  | cons q r ih => simp [enumPts, ih]

theorem load_saveAll (fmt : Rat → Rat) (lower : String → String) (fs : List PF) (k : Nat)
    (reg : Reg) :
    load lower (saveAll fmt fs) k reg =
      (fs[k]?).map fun f =>
        ((setUniqueId reg f.uid).1, { PF.through fmt lower f with uid := (setUniqueId reg f.uid).2 }) := by
  unfold load
  rw [nthSection_saveAll]
  cases fs[k]? with
  | none => rfl
  | some f =>
    simp only [Option.map_some, parseBody_body, sortPts_enum, enumPts_snd, PF.through]

theorem setUniqueId_fresh (reg : Reg) (u : Nat) (h : u ∉ reg.ids) :
    setUniqueId reg u = ({ ids := reg.ids ++ [u], counter := max reg.counter (u + 1) }, u) := by
  simp [setUniqueId, h]

theorem saveAll_length (fmt : Rat → Rat) (fs : List PF) : fs.length ≤ (saveAll fmt fs).length := by
  induction fs with
  | nil => simp
  | cons f r ih => rw [saveAll_cons]; simp only [List.length_cons, List.length_append]; omega

theorem importLoop_saveAll (fmt : Rat → Rat) (lower : String → String) (fs : List PF)
    (hid : (fs.map (·.uid)).Nodup) :
    ∀ (fuel k : Nat) (reg : Reg) (acc : List PF),
      fs.length + 1 ≤ k + fuel → reg.ids = (fs.take k).map (·.uid) →
      (importLoop lower (saveAll fmt fs) fuel k reg acc).2
          = acc ++ (fs.drop k).map (PF.through fmt lower) ∧
      (importLoop lower (saveAll fmt fs) fuel k reg acc).1.ids = fs.map (·.uid) := by
  intro fuel
  induction fuel with
  | zero =>
    intro k reg acc hk hreg
    have hd : fs.drop k = [] := List.drop_eq_nil_of_le (by omega)
    have ht : fs.take k = fs := List.take_of_length_le (by omega)
    simp [importLoop, hd, hreg, ht]
  | succ fuel ih =>
    intro k reg acc hk hreg
    unfold importLoop
    rw [load_saveAll]
    by_cases hlt : k < fs.length
    · have hget : fs[k]? = some fs[k] := List.getElem?_eq_getElem hlt
      rw [hget]
      simp only [Option.map_some]
      have hfresh : fs[k].uid ∉ reg.ids := by
        rw [hreg]
        intro hmem
        -- the ids are pairwise different
        have hsplit : fs = fs.take k ++ fs[k] :: fs.drop (k + 1) := by
          rw [← List.drop_eq_getElem_cons hlt, List.take_append_drop]
        rw [hsplit, List.map_append, List.map_cons] at hid
        have := (List.nodup_append.mp hid).2.2 _ hmem (fs[k].uid) (by simp)
        exact this rfl
      rw [setUniqueId_fresh reg _ hfresh]
      have := ih (k + 1) { ids := reg.ids ++ [fs[k].uid], counter := max reg.counter (fs[k].uid + 1) }
        (acc ++ [{ PF.through fmt lower fs[k] with uid := fs[k].uid }]) (by omega)
        (by rw [List.take_succ_eq_append_getElem hlt, List.map_append, hreg]; rfl)
      obtain ⟨h1, h2⟩ := this
      refine ⟨?_, h2⟩
      rw [h1, List.drop_eq_getElem_cons hlt, List.map_cons, List.append_assoc]
      rfl
    · have hnone : fs[k]? = none := List.getElem?_eq_none (by omega)
      have hd : fs.drop k = [] := List.drop_eq_nil_of_le (by omega)
      have ht : fs.take k = fs := List.take_of_length_le (by omega)
      rw [hnone]
      simp [hd, hreg, ht]

end Persist

end DclabModel.Poly
