import DclabModel.Model.Cache
/-! Helper lemmas for property C17. Core Lean only. -/
namespace DclabModel.Cache

/-! ### prefix-free codes -/

/-- concatenating a prefix-free, non-empty code is injective on lists -/
theorem flatten_map_injective {α β : Type} (c : α → List β)
    (pf : ∀ x y, c x <+: c y → x = y) (ne : ∀ x, c x ≠ []) :
    ∀ xs ys : List α, (xs.map c).flatten = (ys.map c).flatten → xs = ys := by
  intro xs
  induction xs with
  | nil =>
    intro ys h
    cases ys with
    | nil => rfl
    | cons y ys =>
      simp only [List.map_nil, List.flatten_nil, List.map_cons, List.flatten_cons] at h
      have : c y = [] := (List.append_eq_nil_iff.mp h.symm).1
      exact absurd this (ne y)
  | cons x xs ih =>
    intro ys h
    cases ys with
    | nil =>
      simp only [List.map_nil, List.flatten_nil, List.map_cons, List.flatten_cons] at h
      exact absurd (List.append_eq_nil_iff.mp h).1 (ne x)
    | cons y ys =>
      simp only [List.map_cons, List.flatten_cons] at h
      have h1 : c x <+: c y ++ (ys.map c).flatten := ⟨_, h⟩
      have h2 : c y <+: c y ++ (ys.map c).flatten := List.prefix_append _ _
      have hxy : x = y := by
        rcases List.prefix_or_prefix_of_prefix h1 h2 with h3 | h3
        · exact pf x y h3
        · exact (pf y x h3).symm
      subst hxy
      rw [ih ys (List.append_cancel_left h)]

/-- prefix version for lists of equal length -/
theorem flatten_map_prefix {α β : Type} (c : α → List β)
    (pf : ∀ x y, c x <+: c y → x = y) :
    ∀ xs ys : List α, xs.length = ys.length →
      (xs.map c).flatten <+: (ys.map c).flatten → xs = ys := by
  intro xs
  induction xs with
  | nil => intro ys hl _; cases ys with
    | nil => rfl
    | cons _ _ => simp at hl
  | cons x xs ih =>
    intro ys hl h
    cases ys with
    | nil => simp at hl
    | cons y ys =>
      simp only [List.map_cons, List.flatten_cons] at h
      have h1 : c x <+: c y ++ (ys.map c).flatten :=
        List.IsPrefix.trans (List.prefix_append _ _) h
      have h2 : c y <+: c y ++ (ys.map c).flatten := List.prefix_append _ _
      have hxy : x = y := by
        rcases List.prefix_or_prefix_of_prefix h1 h2 with h3 | h3
        · exact pf x y h3
        · exact (pf y x h3).symm
      subst hxy
      have h' : (xs.map c).flatten <+: (ys.map c).flatten :=
        (List.prefix_append_right_inj _).mp h
      rw [ih ys (by simpa using hl) h']

theorem map_byte_injective : ∀ a b : List Nat, a.map Tok.byte = b.map Tok.byte → a = b := by
  intro a
  induction a with
  | nil => intro b h; cases b with
    | nil => rfl
    | cons _ _ => simp at h
  | cons x xs ih =>
    intro b h
    cases b with
    | nil => simp at h
    | cons y ys =>
      simp only [List.map_cons, List.cons.injEq, Tok.byte.injEq] at h
      rw [h.1, ih ys h.2]

theorem encLeaf_prefix_free (x y : Leaf) (h : encLeaf x <+: encLeaf y) : x = y := by
  cases x with
  | arr d s b =>
    cases y with
    | arr d' s' b' =>
      simp only [encLeaf, List.cons_prefix_cons, Tok.hArr.injEq] at h
      obtain ⟨⟨hd, hs, hn⟩, hp⟩ := h
      have : b.map Tok.byte = b'.map Tok.byte := hp.eq_of_length (by simp [hn])
      rw [hd, hs, map_byte_injective _ _ this]
    | other t r => simp [encLeaf] at h
  | other t r =>
    cases y with
    | arr d' s' b' => simp [encLeaf] at h
    | other t' r' =>
      simp only [encLeaf, List.cons_prefix_cons, Tok.hOther.injEq] at h
      obtain ⟨⟨ht, hn⟩, hp⟩ := h
      have : r.map Tok.byte = r'.map Tok.byte := hp.eq_of_length (by simp [hn])
      rw [ht, map_byte_injective _ _ this]

theorem encLeaf_ne_nil (x : Leaf) : encLeaf x ≠ [] := by cases x <;> simp [encLeaf]

theorem encArg_prefix_free (x y : Arg) (h : encArg x <+: encArg y) : x = y := by
  cases x with
  | leaf l =>
    cases y with
    | leaf l' => rw [encLeaf_prefix_free l l' h]
    | lst ls' => cases l <;> simp [encArg, encLeaf] at h
  | lst ls =>
    cases y with
    | leaf l' => cases l' <;> simp [encArg, encLeaf] at h
    | lst ls' =>
      simp only [encArg, List.cons_prefix_cons, Tok.hList.injEq] at h
      rw [flatten_map_prefix encLeaf encLeaf_prefix_free ls ls' h.1 h.2]

theorem encArg_ne_nil (x : Arg) : encArg x ≠ [] := by cases x <;> simp [encArg, encLeaf_ne_nil]

/-! ### the memo table -/

/-- every stored value is the function value of some argument with that key -/
def Inv (c : Cfg A K V) (s : St K V) : Prop :=
  ∀ k v, (k, v) ∈ s.store → ∃ a, c.enc a = k ∧ c.f a = v

theorem lookup_mem [DecidableEq K] {k : K} {v : V} {l : List (K × V)} :
    lookup k l = some v → (k, v) ∈ l := by
  induction l with
  | nil => simp [lookup]
  | cons h t ih =>
    obtain ⟨k', v'⟩ := h
    simp only [lookup]
    split
    · rename_i heq; intro h; cases h; subst heq; simp
    · intro h; exact List.mem_cons_of_mem _ (ih h)

theorem erase_subset [DecidableEq K] {d : K} {l : List (K × V)} {p : K × V} :
    p ∈ erase d l → p ∈ l := by
  induction l with
  | nil => simp [erase]
  | cons h t ih =>
    obtain ⟨k', v'⟩ := h
    simp only [erase]
    split
    · intro hp; exact List.mem_cons_of_mem _ (ih hp)
    · intro hp
      rcases List.mem_cons.mp hp with h | h
      · subst h; simp
      · exact List.mem_cons_of_mem _ (ih h)

theorem call_correct [DecidableEq K] (c : Cfg A K V)
    (hinj : ∀ a b, c.enc a = c.enc b → c.f a = c.f b)
    (s : St K V) (a : A) (h : Inv c s) :
    (call c s a).2 = c.f a ∧ Inv c (call c s a).1 := by
  unfold call
  cases hl : lookup (c.enc a) s.store with
  | some v =>
    simp only [hl]
    obtain ⟨b, hb1, hb2⟩ := h _ _ (lookup_mem hl)
    exact ⟨by rw [← hb2]; exact hinj b a hb1, h⟩
  | none =>
    simp only [hl]
    have hInv' : Inv c { store := (c.enc a, c.f a) :: s.store, keys := s.keys ++ [c.enc a] } := by
      intro k v hm
      rcases List.mem_cons.mp hm with h1 | h1
      · cases h1; exact ⟨a, rfl, rfl⟩
      · exact h k v h1
    split
    · split
      · exact ⟨rfl, hInv'⟩
      · refine ⟨rfl, ?_⟩
        intro k v hm
        exact hInv' k v (erase_subset hm)
    · exact ⟨rfl, hInv'⟩

/-- the FIFO key list never exceeds the capacity -/
theorem call_keys_bounded [DecidableEq K] (c : Cfg A K V) (s : St K V) (a : A)
    (h : s.keys.length ≤ c.cap) : (call c s a).1.keys.length ≤ c.cap := by
  unfold call
  cases hl : lookup (c.enc a) s.store with
  | some v => simp only [hl]; exact h
  | none =>
    simp only [hl]
    by_cases hover : (s.keys ++ [c.enc a]).length > c.cap
    · simp only [hover, if_true]
      cases hk : s.keys ++ [c.enc a] with
      | nil => simp at hk
      | cons d rest =>
        simp only
        have : (s.keys ++ [c.enc a]).length = rest.length + 1 := by rw [hk]; simp
        simp only [List.length_append, List.length_singleton] at this
        omega
    · simp only [hover, if_false]; omega

/-! ### tables with an eviction policy -/

/-- a policy is sound when it never invents entries: after a hit the table holds only entries it
held before, after a miss only those and the new one -/
structure Evict.Sound [DecidableEq K] (e : Evict K V) : Prop where
  hit  : ∀ k v s, lookup k s = some v → ∀ p, p ∈ e.onHit k v s → p ∈ s
  miss : ∀ cap k v s p, p ∈ e.onMiss cap k v s → p = (k, v) ∨ p ∈ s

theorem mem_pushCap {cap : Nat} {s : List (K × V)} {k : K} {v : V} {p : K × V}
    (h : p ∈ pushCap cap s k v) : p = (k, v) ∨ p ∈ s := by
  unfold pushCap at h
  rcases List.mem_append.mp (List.mem_of_mem_drop h) with h1 | h1
  · exact Or.inr h1
  · exact Or.inl (by simpa using h1)

theorem pushCap_length (cap : Nat) (s : List (K × V)) (k : K) (v : V) :
    (pushCap cap s k v).length ≤ cap := by
  unfold pushCap
  simp only [List.length_drop, List.length_append, List.length_singleton]
  omega

theorem lru_sound [DecidableEq K] : (lru : Evict K V).Sound where
  hit := by
    intro k v s hl p hp
    simp only [lru] at hp
    rcases List.mem_append.mp hp with h1 | h1
    · exact erase_subset h1
    · have : p = (k, v) := by simpa using h1
      rw [this]; exact lookup_mem hl
  miss := by
    intro cap k v s p hp
    exact mem_pushCap hp

theorem fifo_sound [DecidableEq K] : (fifo : Evict K V).Sound where
  hit := by intro k v s _ p hp; exact hp
  miss := by intro cap k v s p hp; exact mem_pushCap hp

/-- every stored value is the function value of some admissible call with that key -/
def TInv (c : Cfg A K V) (H : A → Prop) (s : List (K × V)) : Prop :=
  ∀ k v, (k, v) ∈ s → ∃ a, H a ∧ c.enc a = k ∧ c.f a = v

theorem tcall_correct [DecidableEq K] (e : Evict K V) (he : e.Sound) (c : Cfg A K V)
    (H : A → Prop) (hinj : ∀ a b, H a → H b → c.enc a = c.enc b → c.f a = c.f b)
    (s : List (K × V)) (a : A) (ha : H a) (h : TInv c H s) :
    (tcall e c s a).2 = c.f a ∧ TInv c H (tcall e c s a).1 := by
  unfold tcall
  cases hl : lookup (c.enc a) s with
  | some v =>
    simp only
    obtain ⟨b, hb, hb1, hb2⟩ := h _ _ (lookup_mem hl)
    refine ⟨by rw [← hb2]; exact hinj b a hb ha hb1, ?_⟩
    intro k w hm
    exact h k w (he.hit _ _ _ hl _ hm)
  | none =>
    simp only
    refine ⟨by trivial, ?_⟩
    intro k w hm
    rcases he.miss _ _ _ _ _ hm with h1 | h1
    · cases h1; exact ⟨a, ha, rfl, rfl⟩
    · exact h k w h1

theorem erase_length_le [DecidableEq K] (k : K) :
    ∀ l : List (K × V), (erase k l).length ≤ l.length := by
  intro l
  induction l with
  | nil => simp [erase]
  | cons h t ih =>
    obtain ⟨k', v'⟩ := h
    simp only [erase]
    split
    · simp only [List.length_cons]; omega
    · simp only [List.length_cons]; omega

theorem erase_length_lt [DecidableEq K] (k : K) (v : V) :
    ∀ l : List (K × V), lookup k l = some v → (erase k l).length + 1 ≤ l.length := by
  intro l
  induction l with
  | nil => intro h; simp [lookup] at h
  | cons h t ih =>
    obtain ⟨k', v'⟩ := h
    intro hl
    simp only [lookup] at hl
    simp only [erase]
    split
    · have := erase_length_le (V := V) k t
      simp only [List.length_cons]; omega
    · rename_i hk
      simp only [hk, if_false] at hl
      have := ih hl
      simp only [List.length_cons]; omega

/-! ### contour deques -/

theorem findIdx?_get (i : Nat) : ∀ (l : List Nat) (q : Nat), findIdx? i l = some q → l[q]? = some i := by
  intro l
  induction l with
  | nil => intro q h; simp [findIdx?] at h
  | cons j r ih =>
    intro q h
    simp only [findIdx?] at h
    split at h
    · rename_i hj; cases h; simp [hj]
    · cases hq : findIdx? i r with
      | none => simp [hq] at h
      | some q' =>
        simp only [hq, Option.map_some, Option.some.injEq] at h
        subst h
        simpa using ih q' hq

theorem pushBounded_map (f : α → β) (m : Nat) (l : List α) (x : α) :
    (pushBounded m l x).map f = pushBounded m (l.map f) (f x) := by
  unfold pushBounded
  simp only [List.length_append, List.length_map, List.length_singleton]
  split
  · simp [List.map_drop]
  · simp

end DclabModel.Cache
