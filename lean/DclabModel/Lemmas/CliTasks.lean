import DclabModel.Model.CliTasks
import DclabModel.Lemmas.Cli
/-! Helper lemmas for the task templates of property C10. Core Lean only. -/
namespace DclabModel.Cli

/-! ## operations that are allowed whatever the state of the file system -/

/-- a non-rename operation whose paths have the right role -/
def localOk (r : Roles) : Op → Bool
  | .rename _ _ => false
  | .create p => r.temps.contains p
  | .write p _ => r.temps.contains p
  | .openAppend p => r.temps.contains p
  | .unlink p => r.temps.contains p || r.outs.contains p
  | .close _ => true
  | .openRead _ => true

theorem wf_temp_not_in {r : Roles} (hw : r.wf = true) {p : Path} (h : r.temps.contains p = true) :
    r.ins.contains p = false := by
  simp only [Roles.wf, Bool.and_eq_true, List.all_eq_true] at hw
  have := hw.1 p (by simpa using h)
  simp only [Bool.not_eq_true'] at this
  exact this.2

theorem wf_out_not_in {r : Roles} (hw : r.wf = true) {p : Path} (h : r.outs.contains p = true) :
    r.ins.contains p = false := by
  simp only [Roles.wf, Bool.and_eq_true, List.all_eq_true] at hw
  have := hw.2 p (by simpa using h)
  simpa using this

theorem okOp_of_local (r : Roles) (hw : r.wf = true) (fs : FS) (dead : List Path) (op : Op)
    (hl : localOk r op = true) (hd : ∀ p ∈ mutated op, dead.contains p = false) :
    okOp r fs dead op = true := by
  have hi : ∀ p, (r.temps.contains p = true ∨ r.outs.contains p = true) →
      r.ins.contains p = false := by
    intro p h
    rcases h with h | h
    · exact wf_temp_not_in hw h
    · exact wf_out_not_in hw h
  cases op <;> simp_all [okOp, mutated, localOk]

/-- a prefix of local operations can be executed without looking at the protocol state -/
theorem conformsFrom_local_append (r : Roles) (hw : r.wf = true) (dead : List Path) :
    ∀ (pre : List Op) (fs : FS) (rest : List Op),
      (∀ op ∈ pre, localOk r op = true ∧ ∀ p ∈ mutated op, dead.contains p = false) →
      conformsFrom r fs dead (pre ++ rest) = conformsFrom r (run fs pre) dead rest := by
  intro pre
  induction pre with
  | nil => intro fs rest _; rfl
  | cons op pre ih =>
    intro fs rest h
    obtain ⟨hl, hd⟩ := h op (by simp)
    have hok := okOp_of_local r hw fs dead op hl hd
    have hda : deadAfter dead op = dead := by
      cases op <;> simp_all [deadAfter, localOk]
    simp only [List.cons_append, conformsFrom, hok, Bool.true_and, hda, run_cons]
    exact ih _ _ (fun op' h' => h op' (List.mem_cons_of_mem _ h'))

/-! ## state of a temporary after a writing session -/

/-- `t` exists and no writing handle is open on it -/
def ClosedAt (fs : FS) (t : Path) : Prop := ∃ f, get fs t = some f ∧ f.openW = false

theorem ClosedAt.quiet {fs : FS} {t : Path} (h : ClosedAt fs t) : quiet (get fs t) = true := by
  obtain ⟨f, hf, hc⟩ := h
  rw [hf]; simp [Cli.quiet, hc]

theorem closedAt_step_other {fs : FS} {t : Path} (op : Op) (hm : t ∉ mutated op)
    (h : ClosedAt fs t) : ClosedAt (step fs op) t := by
  unfold ClosedAt
  rw [step_other fs op t hm h.quiet]
  exact h

theorem closedAt_run_other {t : Path} : ∀ (tr : List Op) (fs : FS),
    (∀ op ∈ tr, t ∉ mutated op) → ClosedAt fs t → ClosedAt (run fs tr) t := by
  intro tr
  induction tr with
  | nil => intro fs _ h; exact h
  | cons op tr ih =>
    intro fs hm h
    rw [run_cons]
    exact ih _ (fun op' h' => hm op' (List.mem_cons_of_mem _ h'))
      (closedAt_step_other op (hm op (by simp)) h)

/-- the operation does not remove `t` -/
def keeps (t : Path) : Op → Bool
  | .unlink p => !decide (p = t)
  | .rename p _ => !decide (p = t)
  | _ => true

theorem isSome_step_keeps {fs : FS} {t : Path} (op : Op) (hk : keeps t op = true)
    (h : (get fs t).isSome = true) : (get (step fs op) t).isSome = true := by
  cases op with
  | unlink p =>
    have : ¬ t = p := by intro e; simp [keeps, e] at hk
    simp [step, get_upd, this, h]
  | create p => by_cases e : t = p <;> simp [step, get_upd, e, h]
  | write p id =>
    simp only [step]
    cases hp : get fs p with
    | none => exact h
    | some f => by_cases e : t = p <;> simp [get_upd, e, h]
  | close p =>
    simp only [step]
    cases hp : get fs p with
    | none => exact h
    | some f => by_cases e : t = p <;> simp [get_upd, e, h]
  | openRead p => exact h
  | openAppend p =>
    simp only [step]
    cases hp : get fs p with
    | none => by_cases e : t = p <;> simp [get_upd, e, h]
    | some f => by_cases e : t = p <;> simp [get_upd, e, h]
  | rename p q =>
    have hne : ¬ t = p := by intro e; simp [keeps, e] at hk
    simp only [step]
    cases hp : get fs p with
    | none => exact h
    | some f => by_cases e : t = q <;> simp [get_upd, e, hne, h]

theorem isSome_run_keeps {t : Path} : ∀ (tr : List Op) (fs : FS),
    (∀ op ∈ tr, keeps t op = true) → (get fs t).isSome = true →
    (get (run fs tr) t).isSome = true := by
  intro tr
  induction tr with
  | nil => intro fs _ h; exact h
  | cons op tr ih =>
    intro fs hk h
    rw [run_cons]
    exact ih _ (fun op' h' => hk op' (List.mem_cons_of_mem _ h'))
      (isSome_step_keeps op (hk op (by simp)) h)

/-- open (`create` or `openAppend`), anything that does not remove the file, close: the file exists
and is closed — whatever the file system looked like before -/
theorem closedAt_session (fs : FS) (t : Path) (opn : Op) (hopn : opn = .create t ∨ opn = .openAppend t)
    (mid : List Op) (hk : ∀ op ∈ mid, keeps t op = true) :
    ClosedAt (run fs (opn :: mid ++ [.close t])) t := by
  have h1 : (get (step fs opn) t).isSome = true := by
    rcases hopn with e | e <;> subst e
    · simp [step, get_upd]
    · simp only [step]; cases get fs t <;> simp [get_upd]
  have h2 := isSome_run_keeps mid _ hk h1
  rw [List.cons_append, run_cons, run_append]
  generalize run (step fs opn) mid = fs2 at h2
  cases hf : get fs2 t with
  | none => simp [hf] at h2
  | some f => exact ⟨{ f with openW := false }, by simp [run, step, hf, get_upd], rfl⟩

theorem keeps_of_not_mutated {t : Path} {op : Op} (h : t ∉ mutated op) : keeps t op = true := by
  cases op with
  | unlink p =>
    have : ¬ p = t := fun e => h (by simp [mutated, e])
    simp [keeps, this]
  | rename p q =>
    have : ¬ p = t := fun e => h (by simp [mutated, e])
    simp [keeps, this]
  | _ => rfl

theorem mem_writes {p : Path} {n : Nat} {op : Op} (h : op ∈ writes p n) : op = .write p 0 := by
  unfold writes at h
  exact (List.mem_replicate.mp h).2

/-! ## a task with one output -/

theorem single_output_conforms (r : Roles) (hw : r.wf = true) (t o : Path)
    (ht : r.temps.contains t = true) (ho : r.outs.contains o = true) (pre : List Op) (fs0 : FS)
    (hl : ∀ op ∈ pre, localOk r op = true) (hc : ClosedAt (run fs0 pre) t) :
    Conforms r fs0 (pre ++ [.rename t o]) = true := by
  simp only [Conforms, hw, Bool.true_and]
  rw [conformsFrom_local_append r hw [] pre fs0 _ (fun op h => ⟨hl op h, by simp⟩)]
  obtain ⟨f, hf, hcl⟩ := hc
  have h1 : t ∉ r.ins := by simpa using wf_temp_not_in hw ht
  have h2 : o ∉ r.ins := by simpa using wf_out_not_in hw ho
  have h3 : t ∈ r.temps := by simpa using ht
  have h4 : o ∈ r.outs := by simpa using ho
  simp [conformsFrom, okOp, mutated, hf, hcl, h1, h2, h3, h4]

/-! ## several outputs -/

/-- the paths of two parts are all different -/
def Part.apart (a b : Part) : Prop := a.t ≠ b.t ∧ a.t ≠ b.o ∧ a.o ≠ b.t ∧ a.o ≠ b.o

/-- the final renames of `split`: every temporary closed, all paths distinct -/
theorem conforms_renames (r : Roles) (hw : r.wf = true) :
    ∀ (parts : List Part) (fs : FS) (dead : List Path),
      parts.Pairwise Part.apart →
      (∀ pt ∈ parts, ClosedAt fs pt.t ∧ r.temps.contains pt.t = true ∧ r.outs.contains pt.o = true ∧
        dead.contains pt.t = false ∧ dead.contains pt.o = false) →
      conformsFrom r fs dead (parts.map (fun pt => Op.rename pt.t pt.o)) = true := by
  intro parts
  induction parts with
  | nil => intro fs dead _ _; rfl
  | cons a rest ih =>
    intro fs dead hn h
    obtain ⟨⟨f, hf, hcl⟩, hat, hao, hdt, hdo⟩ := h a (by simp)
    rw [List.pairwise_cons] at hn
    have h1 : a.t ∉ r.ins := by simpa using wf_temp_not_in hw hat
    have h2 : a.o ∉ r.ins := by simpa using wf_out_not_in hw hao
    have h3 : a.t ∈ r.temps := by simpa using hat
    have h4 : a.o ∈ r.outs := by simpa using hao
    have h5 : a.t ∉ dead := by simpa using hdt
    have h6 : a.o ∉ dead := by simpa using hdo
    simp only [List.map_cons, conformsFrom, Bool.and_eq_true]
    refine ⟨by simp [okOp, mutated, hf, hcl, h1, h2, h3, h4, h5, h6], ?_⟩
    apply ih _ _ hn.2
    intro pt hpt
    obtain ⟨hc, g1, g2, g3, g4⟩ := h pt (List.mem_cons_of_mem _ hpt)
    obtain ⟨e1, e2, e3, e4⟩ := hn.1 pt hpt
    refine ⟨closedAt_step_other _ (by simp [mutated, Ne.symm e1, Ne.symm e3]) hc, g1, g2, ?_, ?_⟩
    · have : pt.t ∉ dead := by simpa using g3
      simp [deadAfter, Ne.symm e1, Ne.symm e3, this]
    · have : pt.o ∉ dead := by simpa using g4
      simp [deadAfter, Ne.symm e2, Ne.symm e4, this]

/-- a writing session on the temporary of a part: open, writes, close -/
def IsSession (blk : Part → List Op) : Prop :=
  ∀ pt, ∃ opn mid, blk pt = opn :: mid ++ [.close pt.t] ∧
    (opn = .create pt.t ∨ opn = .openAppend pt.t) ∧ (∀ op ∈ mid, op = .write pt.t 0)

theorem session_mutates {blk : Part → List Op} (hblk : IsSession blk) (q : Part) (op : Op)
    (hop : op ∈ blk q) (p : Path) (hp : p ∈ mutated op) : p = q.t := by
  obtain ⟨opn, mid, hb, hopn, hmid⟩ := hblk q
  rw [hb] at hop
  simp only [List.mem_cons, List.mem_append, List.not_mem_nil, or_false] at hop
  rcases hop with (e | h) | e
  · subst e; rcases hopn with e | e <;> subst e <;> simpa [mutated] using hp
  · rw [hmid op h] at hp; simpa [mutated] using hp
  · subst e; simp [mutated] at hp

/-- after the sessions of all parts every temporary exists and is closed -/
theorem closedAt_blocks (blk : Part → List Op) (hblk : IsSession blk) :
    ∀ (parts : List Part) (fs : FS), parts.Pairwise (fun a b => a.t ≠ b.t) →
      ∀ pt ∈ parts, ClosedAt (run fs (parts.flatMap blk)) pt.t := by
  intro parts
  induction parts with
  | nil => intro fs _ pt h; simp at h
  | cons a rest ih =>
    intro fs hn pt hpt
    simp only [List.flatMap_cons, run_append]
    rw [List.pairwise_cons] at hn
    rcases List.mem_cons.mp hpt with e | hmem
    · rw [e]
      obtain ⟨opn, mid, hb, hopn, hmid⟩ := hblk a
      have hc : ClosedAt (run fs (blk a)) a.t := by
        rw [hb]
        exact closedAt_session fs a.t opn hopn mid
          (fun op h => by rw [hmid op h]; rfl)
      apply closedAt_run_other _ _ _ hc
      intro op hop hm
      obtain ⟨q, hq, hopq⟩ := List.mem_flatMap.mp hop
      exact hn.1 q hq (session_mutates hblk q op hopq a.t hm)
    · exact ih _ hn.2 pt hmem

theorem isSession_exportBlock : IsSession exportBlock :=
  fun _ => ⟨_, _, rfl, Or.inr rfl, fun _ h => mem_writes h⟩

theorem isSession_logBlock : IsSession logBlock :=
  fun _ => ⟨_, _, rfl, Or.inr rfl, fun _ h => mem_writes h⟩

/-- state of `t` after `X ++ session ++ Y` when `Y` does not mutate `t` -/
theorem closedAt_after_session (fs : FS) (t : Path) (X Y : List Op) (opn : Op)
    (hopn : opn = .create t ∨ opn = .openAppend t) (mid : List Op)
    (hk : ∀ op ∈ mid, keeps t op = true) (hY : ∀ op ∈ Y, t ∉ mutated op) :
    ClosedAt (run fs (X ++ session opn t mid ++ Y)) t := by
  rw [run_append, run_append]
  exact closedAt_run_other _ _ hY (closedAt_session _ t opn hopn mid hk)

/-- `tdms2rtdc`: file after file (export, logs, rename), all paths distinct -/
theorem conforms_files (r : Roles) (hw : r.wf = true) :
    ∀ (parts : List Part) (fs : FS) (dead : List Path),
      parts.Pairwise Part.apart →
      (∀ pt ∈ parts, r.temps.contains pt.t = true ∧ r.outs.contains pt.o = true ∧
        dead.contains pt.t = false ∧ dead.contains pt.o = false) →
      conformsFrom r fs dead (parts.flatMap tdmsFile) = true := by
  intro parts
  induction parts with
  | nil => intro fs dead _ _; rfl
  | cons a rest ih =>
    intro fs dead hn h
    obtain ⟨hat, hao, hdt, hdo⟩ := h a (by simp)
    rw [List.pairwise_cons] at hn
    have h1 : a.t ∉ r.ins := by simpa using wf_temp_not_in hw hat
    have h2 : a.o ∉ r.ins := by simpa using wf_out_not_in hw hao
    have h3 : a.t ∈ r.temps := by simpa using hat
    have h4 : a.o ∈ r.outs := by simpa using hao
    have h5 : a.t ∉ dead := by simpa using hdt
    have h6 : a.o ∉ dead := by simpa using hdo
    have hshape : List.flatMap tdmsFile (a :: rest) =
        (exportBlock a ++ logBlock a) ++ (.rename a.t a.o :: rest.flatMap tdmsFile) := by
      simp [tdmsFile, List.append_assoc]
    rw [hshape, conformsFrom_local_append r hw dead]
    · have hc : ClosedAt (run fs (exportBlock a ++ logBlock a)) a.t := by
        have := closedAt_after_session fs a.t (exportBlock a) [] (.openAppend a.t) (Or.inr rfl)
          (writes a.t a.n2) (fun op h => by rw [mem_writes h]; rfl) (by simp)
        simpa [logBlock] using this
      obtain ⟨f, hf, hcl⟩ := hc
      simp only [conformsFrom, Bool.and_eq_true]
      refine ⟨by simp [okOp, mutated, hf, hcl, h1, h2, h3, h4, h5, h6], ?_⟩
      apply ih _ _ hn.2
      intro pt hpt
      obtain ⟨g1, g2, g3, g4⟩ := h pt (List.mem_cons_of_mem _ hpt)
      obtain ⟨e1, e2, e3, e4⟩ := hn.1 pt hpt
      refine ⟨g1, g2, ?_, ?_⟩
      · have : pt.t ∉ dead := by simpa using g3
        simp [deadAfter, Ne.symm e1, Ne.symm e3, this]
      · have : pt.o ∉ dead := by simpa using g4
        simp [deadAfter, Ne.symm e2, Ne.symm e4, this]
    · intro op hop
      rw [List.mem_append] at hop
      have hm : ∀ p ∈ mutated op, p = a.t := by
        intro p hp
        rcases hop with hop | hop
        · exact session_mutates isSession_exportBlock a op hop p hp
        · exact session_mutates isSession_logBlock a op hop p hp
      refine ⟨?_, fun p hp => by rw [hm p hp]; exact hdt⟩
      have : op = .openAppend a.t ∨ op = .write a.t 0 ∨ op = .close a.t := by
        rcases hop with hop | hop <;>
          simp only [exportBlock, logBlock, session, List.mem_cons, List.mem_append,
            List.not_mem_nil, or_false] at hop <;>
          rcases hop with (e | hmem) | e
        all_goals first
          | exact Or.inl e
          | exact Or.inr (Or.inl (mem_writes hmem))
          | exact Or.inr (Or.inr e)
      rcases this with e | e | e <;> subst e <;> simp [localOk, h3]

/-- a trace without mutating operations leaves every path without writing handle as it was -/
theorem run_nonMutating (p : Path) : ∀ (tr : List Op) (fs : FS),
    (∀ op ∈ tr, mutated op = []) → quiet (get fs p) = true → get (run fs tr) p = get fs p := by
  intro tr
  induction tr with
  | nil => intro fs _ _; rfl
  | cons op tr ih =>
    intro fs h hq
    have hs := step_other fs op p (by rw [h op (by simp)]; simp) hq
    rw [run_cons, ih _ (fun op' h' => h op' (List.mem_cons_of_mem _ h')) (by rw [hs]; exact hq), hs]

/-! ## the protocol does not look at write ids -/

/-- two file systems with the same paths and the same writing handles -/
def Sim (a b : FS) : Prop := ∀ p, (get a p).map (·.openW) = (get b p).map (·.openW)

theorem sim_step (a b : FS) (op : Op) (h : Sim a b) : Sim (step a op) (step b (eraseId op)) := by
  intro p
  cases op with
  | unlink q => simp only [eraseId, step, get_upd]; split <;> first | rfl | exact h p
  | create q => simp only [eraseId, step, get_upd]; split <;> first | rfl | exact h p
  | openRead q => exact h p
  | write q id =>
    have h1 := h q
    simp only [eraseId, step]
    cases ha : get a q <;> cases hb : get b q <;> simp [ha, hb] at h1
    · exact h p
    · simp only [get_upd]
      split
      · simpa using h1
      · exact h p
  | close q =>
    have h1 := h q
    simp only [eraseId, step]
    cases ha : get a q <;> cases hb : get b q <;> simp [ha, hb] at h1
    · exact h p
    · simp only [get_upd]
      split
      · rfl
      · exact h p
  | openAppend q =>
    have h1 := h q
    simp only [eraseId, step]
    cases ha : get a q <;> cases hb : get b q <;> simp [ha, hb] at h1
    · simp only [get_upd]; split <;> first | rfl | exact h p
    · simp only [get_upd]; split <;> first | rfl | exact h p
  | rename q q' =>
    have h1 := h q
    simp only [eraseId, step]
    cases ha : get a q <;> cases hb : get b q <;> simp [ha, hb] at h1
    · exact h p
    · simp only [get_upd]
      split
      · simpa using h1
      · split <;> first | rfl | exact h p

theorem okOp_sim (r : Roles) (a b : FS) (dead : List Path) (op : Op) (h : Sim a b) :
    okOp r a dead op = okOp r b dead (eraseId op) := by
  cases op with
  | rename t o =>
    have h1 := h t
    simp only [eraseId, okOp]
    cases ha : get a t <;> cases hb : get b t <;> simp [ha, hb] at h1 ⊢
    rw [h1]
  | _ => rfl

theorem conformsFrom_eraseIds (r : Roles) : ∀ (tr : List Op) (a b : FS) (dead : List Path),
    Sim a b → conformsFrom r a dead tr = conformsFrom r b dead (eraseIds tr) := by
  intro tr
  induction tr with
  | nil => intro _ _ _ _; rfl
  | cons op tr ih =>
    intro a b dead h
    have hd : deadAfter dead (eraseId op) = deadAfter dead op := by cases op <;> rfl
    simp only [eraseIds, List.map_cons, conformsFrom, hd]
    rw [okOp_sim r a b dead op h]
    congr 1
    exact ih _ _ _ (sim_step a b op h)

theorem firstDiff_none : ∀ (a b : List Op) (k : Nat), firstDiff a b k = none → a = b := by
  intro a
  induction a with
  | nil => intro b k h; cases b <;> simp_all [firstDiff]
  | cons x a ih =>
    intro b k h
    cases b with
    | nil => simp [firstDiff] at h
    | cons y b =>
      simp only [firstDiff] at h
      by_cases e : x = y
      · simp only [e, if_true] at h
        rw [e, ih b _ h]
      · simp [e] at h

/-! ## freshness -/

theorem freshFrom_mono (temps : List Path) : ∀ (tr : List Op) (k1 k2 : List Path),
    (∀ p, k1.contains p = true → k2.contains p = true) →
    freshFrom temps k1 tr = true → freshFrom temps k2 tr = true := by
  intro tr
  induction tr with
  | nil => intro _ _ _ _; rfl
  | cons op tr ih =>
    intro k1 k2 hsub h
    simp only [freshFrom, Bool.and_eq_true, List.all_eq_true, Bool.or_eq_true,
      Bool.not_eq_true'] at h ⊢
    refine ⟨fun p hp => ?_, ih _ _ ?_ h.2⟩
    · rcases h.1 p hp with h' | h'
      · exact Or.inl h'
      · exact Or.inr (hsub p h')
    · intro p hp
      simp only [List.contains_eq_mem, List.mem_append, decide_eq_true_eq] at hp ⊢
      rcases hp with hp | hp
      · left; simpa using hsub p (by simpa using hp)
      · right; exact hp

/-- a trace whose every look at a temporary is covered by `known` is fresh -/
theorem freshFrom_of_known (temps : List Path) : ∀ (tr : List Op) (known : List Path),
    (∀ op ∈ tr, ∀ p ∈ reads op, temps.contains p = true → known.contains p = true) →
    freshFrom temps known tr = true := by
  intro tr
  induction tr with
  | nil => intro _ _; rfl
  | cons op tr ih =>
    intro known h
    simp only [freshFrom, Bool.and_eq_true, List.all_eq_true, Bool.or_eq_true,
      Bool.not_eq_true']
    refine ⟨fun p hp => ?_, ?_⟩
    · cases ht : temps.contains p with
      | false => exact Or.inl rfl
      | true => exact Or.inr (h op (by simp) p hp ht)
    · apply freshFrom_mono temps tr known _ (fun p hp => by simp_all)
      exact ih known (fun op' h' => h op' (List.mem_cons_of_mem _ h'))

theorem freshFrom_append (temps : List Path) : ∀ (a : List Op) (known : List Path) (b : List Op),
    freshFrom temps known (a ++ b) =
      (freshFrom temps known a && freshFrom temps (known ++ a.flatMap resets) b) := by
  intro a
  induction a with
  | nil => intro known b; simp [freshFrom]
  | cons op a ih =>
    intro known b
    simp only [List.cons_append, freshFrom, ih, List.flatMap_cons, List.append_assoc,
      Bool.and_assoc]

end DclabModel.Cli
