import DclabModel.Model.PolyText
import DclabModel.Lemmas.Poly
/-! Lemmas about the text layer of `.poly` files: the parser inverts the printer line by line,
header detection on the text agrees with the structured model, hence the text-level `import_all`
refines the structured one. -/
namespace DclabModel.Poly

/-- a string survives `str.strip()` (no leading / trailing blank) -/
def Stripped (s : String) : Prop := strip (cs s.toList) = cs s.toList

/-- the lines for which the printer is invertible: names and axes without surrounding blanks -/
def Line.WF : Line → Prop
  | .xaxis s => Stripped s
  | .yaxis s => Stripped s
  | .name s => Stripped s
  | _ => True

theorem unchars_cs (l : List Char) : unchars (cs l) = some l := by
  induction l with
  | nil => rfl
  | cons c r ih => simp only [cs, List.map_cons, unchars] at *; rw [ih]; rfl

theorem strip_blank_cons (l : TLine) : strip (Sym.ch ' ' :: l) = strip l := by
  simp [strip, stripL, List.dropWhile, Sym.isBlank]

theorem stripL_cs_cons (c : Char) (l : TLine) (h : (Sym.ch c).isBlank = false) :
    stripL (Sym.ch c :: l) = Sym.ch c :: l := by
  simp [stripL, List.dropWhile, h]

theorem isHeadT_render (l : Line) : isHeadT (renderLine l) = l.isHdr := by
  cases l <;> simp [isHeadT, renderLine, cs, stripL, List.dropWhile, Sym.isBlank, Line.isHdr, kPoint]

theorem hdrIdT_render (u : Nat) : hdrIdT (renderLine (.hdr u)) = some u := by
  simp [hdrIdT, renderLine, cs, strip, stripL, stripR, stripChars, List.dropWhile, Sym.isBlank,
    Sym.inSet]

theorem splitEq_prefix (k : List Char) (hk : '=' ∉ k) (rest : TLine) :
    splitEq (cs k ++ Sym.ch '=' :: rest) = some (cs k, rest) := by
  induction k with
  | nil => simp [cs, splitEq]
  | cons c r ih =>
    have hc : c ≠ '=' := fun h => hk (by simp [h])
    have hr : '=' ∉ r := fun h => hk (by simp [h])
    simp only [cs, List.map_cons, List.cons_append, splitEq, Sym.ch.injEq, hc, if_false]
    have := ih hr
    simp only [cs] at this
    rw [this]
    rfl

theorem parse_key_line (key : List Char) (low : List Char) (s : String) (hs : Stripped s)
    (hk : '=' ∉ key) (hlow : lowerT (strip (cs key)) = cs low) :
    splitEq (cs key ++ Sym.ch '=' :: Sym.ch ' ' :: cs s.toList) = some (cs key, Sym.ch ' ' :: cs s.toList)
    ∧ lowerT (strip (cs key)) = cs low
    ∧ unchars (strip (Sym.ch ' ' :: cs s.toList)) = some s.toList := by
  refine ⟨splitEq_prefix key hk _, hlow, ?_⟩
  rw [strip_blank_cons, hs, unchars_cs]

theorem cs_append (a b : List Char) : cs (a ++ b) = cs a ++ cs b := by simp [cs]

theorem parseLineT_xaxis (s : String) (hs : Stripped s) :
    parseLineT (renderLine (.xaxis s)) = some (.xaxis s) := by
  have h := parse_key_line ['X', ' ', 'A', 'x', 'i', 's', ' '] kXAxis s hs (by decide) (by decide)
  have e : renderLine (.xaxis s)
      = cs ['X', ' ', 'A', 'x', 'i', 's', ' '] ++ Sym.ch '=' :: Sym.ch ' ' :: cs s.toList := by
    simp [renderLine, cs]
  rw [e]
  unfold parseLineT
  rw [h.1]
  simp only [h.2.1, h.2.2, if_true, Option.map_some, String.ofList_toList]

theorem parseLineT_yaxis (s : String) (hs : Stripped s) :
    parseLineT (renderLine (.yaxis s)) = some (.yaxis s) := by
  have h := parse_key_line ['Y', ' ', 'A', 'x', 'i', 's', ' '] kYAxis s hs (by decide) (by decide)
  have e : renderLine (.yaxis s)
      = cs ['Y', ' ', 'A', 'x', 'i', 's', ' '] ++ Sym.ch '=' :: Sym.ch ' ' :: cs s.toList := by
    simp [renderLine, cs]
  have ne : cs kYAxis ≠ cs kXAxis := by decide
  rw [e]
  unfold parseLineT
  rw [h.1]
  simp only [h.2.1, h.2.2, ne, if_true, if_false, Option.map_some, String.ofList_toList]

theorem parseLineT_name (s : String) (hs : Stripped s) :
    parseLineT (renderLine (.name s)) = some (.name s) := by
  have h := parse_key_line ['N', 'a', 'm', 'e', ' '] kName s hs (by decide) (by decide)
  have e : renderLine (.name s)
      = cs ['N', 'a', 'm', 'e', ' '] ++ Sym.ch '=' :: Sym.ch ' ' :: cs s.toList := by
    simp [renderLine, cs]
  have n1 : cs kName ≠ cs kXAxis := by decide
  have n2 : cs kName ≠ cs kYAxis := by decide
  rw [e]
  unfold parseLineT
  rw [h.1]
  simp only [h.2.1, h.2.2, n1, n2, if_true, if_false, Option.map_some, String.ofList_toList]

theorem parseLineT_inverted (b : Bool) :
    parseLineT (renderLine (.inverted b)) = some (.inverted b) := by
  cases b <;> decide

theorem parseLineT_point (i : Nat) (x y : Rat) :
    parseLineT (renderLine (.point i x y)) = some (.point i x y) := by
  have e : renderLine (.point i x y)
      = cs kPoint ++ Sym.nat i :: Sym.ch ' ' :: Sym.ch '=' :: Sym.ch ' ' ::
          [Sym.num x, Sym.ch ' ', Sym.num y] := by
    simp [renderLine, cs, kPoint]
  have hs : splitEq (renderLine (.point i x y))
      = some (cs kPoint ++ [Sym.nat i, Sym.ch ' '], [Sym.ch ' ', Sym.num x, Sym.ch ' ', Sym.num y]) := by
    rw [e]
    simp [cs, kPoint, splitEq]
  unfold parseLineT
  rw [hs]
  have hvar : strip (cs kPoint ++ [Sym.nat i, Sym.ch ' ']) = cs kPoint ++ [Sym.nat i] := by
    simp [strip, stripL, stripR, cs, kPoint, List.dropWhile, Sym.isBlank]
  have hval : strip [Sym.ch ' ', Sym.num x, Sym.ch ' ', Sym.num y]
      = [Sym.num x, Sym.ch ' ', Sym.num y] := by
    simp [strip, stripL, stripR, List.dropWhile, Sym.isBlank]
  have hlow : lowerT (cs kPoint ++ [Sym.nat i]) = cs kPoint ++ [Sym.nat i] := by
    simp [lowerT, lowerSym, cs, kPoint]
  have hw : splitWords (stripChars ['[', ']'] [Sym.num x, Sym.ch ' ', Sym.num y])
      = [[Sym.num x], [Sym.num y]] := by
    simp [splitWords, wordsAux, stripChars, List.dropWhile, Sym.inSet, Sym.isBlank]
  simp only [hvar, hval, hlow, hw]
  have n1 : cs kPoint ++ [Sym.nat i] ≠ cs kXAxis := by simp [cs, kPoint, kXAxis]
  have n2 : cs kPoint ++ [Sym.nat i] ≠ cs kYAxis := by simp [cs, kPoint, kYAxis]
  have n3 : cs kPoint ++ [Sym.nat i] ≠ cs kName := by simp [cs, kPoint, kName]
  have n4 : cs kPoint ++ [Sym.nat i] ≠ cs kInverted := by simp [cs, kPoint, kInverted]
  have t5 : (cs kPoint ++ [Sym.nat i]).take 5 = cs kPoint := by simp [cs, kPoint]
  have d5 : (cs kPoint ++ [Sym.nat i]).drop 5 = [Sym.nat i] := by simp [cs, kPoint]
  simp only [n1, n2, n3, n4, t5, d5, if_true, if_false]

/-- **The parser inverts the printer**, line by line (names may contain `=`). -/
theorem parseLineT_render (l : Line) (hwf : l.WF) (hh : l.isHdr = false) :
    parseLineT (renderLine l) = some l := by
  cases l with
  | hdr u => simp [Line.isHdr] at hh
  | xaxis s => exact parseLineT_xaxis s hwf
  | yaxis s => exact parseLineT_yaxis s hwf
  | name s => exact parseLineT_name s hwf
  | inverted b => exact parseLineT_inverted b
  | point i x y => exact parseLineT_point i x y

theorem parseLinesT_render (b : List Line) (hwf : ∀ l ∈ b, l.WF) (hh : ∀ l ∈ b, l.isHdr = false) :
    parseLinesT (b.map renderLine) = some b := by
  induction b with
  | nil => rfl
  | cons l r ih =>
    simp only [List.map_cons, parseLinesT]
    rw [parseLineT_render l (hwf l (by simp)) (hh l (by simp)),
      ih (fun x hx => hwf x (by simp [hx])) (fun x hx => hh x (by simp [hx]))]

theorem sectionBodyT_render (L : List Line) :
    sectionBodyT (L.map renderLine) = (sectionBody L).map renderLine := by
  induction L with
  | nil => rfl
  | cons l r ih =>
    simp only [List.map_cons, sectionBodyT, sectionBody, isHeadT_render]
    cases l.isHdr <;> simp [ih]

theorem sectionBody_noHdr (L : List Line) : ∀ l ∈ sectionBody L, l.isHdr = false := by
  induction L with
  | nil => intro l hl; simp [sectionBody] at hl
  | cons a r ih =>
    intro l hl
    simp only [sectionBody] at hl
    cases ha : a.isHdr with
    | true => simp [ha] at hl
    | false =>
      simp only [ha, Bool.false_eq_true, if_false, List.mem_cons] at hl
      rcases hl with rfl | hl
      · exact ha
      · exact ih l hl

theorem sectionBody_sub (L : List Line) : ∀ l ∈ sectionBody L, l ∈ L := by
  induction L with
  | nil => intro l hl; simp [sectionBody] at hl
  | cons a r ih =>
    intro l hl
    simp only [sectionBody] at hl
    cases ha : a.isHdr with
    | true => simp [ha] at hl
    | false =>
      simp only [ha, Bool.false_eq_true, if_false, List.mem_cons] at hl
      rcases hl with rfl | hl
      · simp
      · exact List.mem_cons_of_mem _ (ih l hl)

theorem nthSectionT_render (L : List Line) (k : Nat) :
    nthSectionT (L.map renderLine) k
      = (nthSection L k).map fun ub => (renderLine (.hdr ub.1), ub.2.map renderLine) := by
  induction L generalizing k with
  | nil => rfl
  | cons l r ih =>
    simp only [List.map_cons, nthSectionT, isHeadT_render]
    cases l with
    | hdr u =>
      cases k with
      | zero => simp [Line.isHdr, nthSection, sectionBodyT_render]
      | succ k => simp [Line.isHdr, nthSection, ih]
    | xaxis s => cases k <;> simp [Line.isHdr, nthSection, ih]
    | yaxis s => cases k <;> simp [Line.isHdr, nthSection, ih]
    | name s => cases k <;> simp [Line.isHdr, nthSection, ih]
    | inverted b => cases k <;> simp [Line.isHdr, nthSection, ih]
    | point i x y => cases k <;> simp [Line.isHdr, nthSection, ih]

theorem nthSection_body (L : List Line) (k u : Nat) (b : List Line)
    (h : nthSection L k = some (u, b)) :
    (∀ l ∈ b, l.isHdr = false) ∧ (∀ l ∈ b, l ∈ L) := by
  induction L generalizing k with
  | nil => simp [nthSection] at h
  | cons l r ih =>
    have lift : ((∀ x ∈ b, x.isHdr = false) ∧ (∀ x ∈ b, x ∈ r)) →
        ((∀ x ∈ b, x.isHdr = false) ∧ (∀ x ∈ b, x ∈ l :: r)) :=
      fun ⟨h1, h2⟩ => ⟨h1, fun x hx => List.mem_cons_of_mem _ (h2 x hx)⟩
    cases l with
    | hdr v =>
      cases k with
      | zero =>
        simp only [nthSection, Option.some.injEq, Prod.mk.injEq] at h
        obtain ⟨_, rfl⟩ := h
        exact ⟨sectionBody_noHdr r, fun x hx => List.mem_cons_of_mem _ (sectionBody_sub r x hx)⟩
      | succ k => simp only [nthSection] at h; exact lift (ih k h)
    | xaxis s => cases k <;> (simp only [nthSection] at h; exact lift (ih _ h))
    | yaxis s => cases k <;> (simp only [nthSection] at h; exact lift (ih _ h))
    | name s => cases k <;> (simp only [nthSection] at h; exact lift (ih _ h))
    | inverted c => cases k <;> (simp only [nthSection] at h; exact lift (ih _ h))
    | point i x y => cases k <;> (simp only [nthSection] at h; exact lift (ih _ h))

/-- the structured result seen as a text-level result -/
def LoadRes.ofOption : Option (Reg × PF) → LoadRes
  | none => .indexError
  | some (r, f) => .ok r f

theorem loadT_render (lower : String → String) (L : List Line) (hwf : ∀ l ∈ L, l.WF)
    (k : Nat) (reg : Reg) :
    loadT lower (L.map renderLine) k reg = LoadRes.ofOption (load lower L k reg) := by
  unfold loadT load
  rw [nthSectionT_render]
  cases h : nthSection L k with
  | none => rfl
  | some ub =>
    obtain ⟨u, b⟩ := ub
    obtain ⟨h1, h2⟩ := nthSection_body L k u b h
    simp only [Option.map_some]
    rw [parseLinesT_render b (fun l hl => hwf l (h2 l hl)) h1, hdrIdT_render]
    rfl

theorem importLoopT_render (lower : String → String) (L : List Line) (hwf : ∀ l ∈ L, l.WF) :
    ∀ (fuel k : Nat) (reg : Reg) (acc : List PF),
      importLoopT lower (L.map renderLine) fuel k reg acc = some (importLoop lower L fuel k reg acc) := by
  intro fuel
  induction fuel with
  | zero => intro k reg acc; rfl
  | succ fuel ih =>
    intro k reg acc
    unfold importLoopT importLoop
    rw [loadT_render lower L hwf]
    cases load lower L k reg with
    | none => rfl
    | some rf => obtain ⟨r, f⟩ := rf; exact ih (k + 1) r (acc ++ [f])

theorem saveAll_wf (fmt : Rat → Rat) (fs : List PF)
    (h : ∀ f ∈ fs, Stripped f.name ∧ Stripped f.xaxis ∧ Stripped f.yaxis) :
    ∀ l ∈ saveAll fmt fs, l.WF := by
  intro l hl
  simp only [saveAll, List.mem_flatMap] at hl
  obtain ⟨f, hf, hl⟩ := hl
  obtain ⟨hn, hx, hy⟩ := h f hf
  simp only [save, List.mem_append, List.mem_cons, List.not_mem_nil, or_false] at hl
  rcases hl with (rfl | rfl | rfl | rfl | rfl) | hl
  · trivial
  · exact hx
  · exact hy
  · exact hn
  · trivial
  · -- point lines
    have : ∀ (i : Nat) (ps : List (Pt Rat)), ∀ l ∈ pointLines fmt i ps, l.WF := by
      intro i ps
      induction ps generalizing i with
      | nil => intro l hl; simp [pointLines] at hl
      | cons q r ih =>
        intro l hl
        simp only [pointLines, List.mem_cons] at hl
        rcases hl with rfl | hl
        · trivial
        · exact ih _ l hl
    exact this 0 _ l hl

end DclabModel.Poly
