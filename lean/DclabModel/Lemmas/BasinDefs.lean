import DclabModel.Lemmas.Basin
import DclabModel.Model.BasinDefs
/-! Helper lemmas for `Model/BasinDefs.lean` (C07, session 4). Core Lean only. -/
namespace DclabModel.Basin

/-! ## streamed map features -/

theorem lk_map_same {k : Nat} {c : List Nat} : ∀ {maps : Maps} {m : List Nat},
    lk k maps = some m →
    lk k (maps.map fun p => if p.1 = k then (p.1, p.2 ++ c) else p) = some (m ++ c)
  | [], _, h => by cases h
  | (a, b) :: t, m, h => by
    by_cases ha : a = k
    · simp [lk, ha] at h ⊢
      exact h
    · simp only [lk, ha, if_false, List.map_cons] at h ⊢
      exact lk_map_same h

theorem lk_map_other {k j : Nat} {c : List Nat} (hj : j ≠ k) : ∀ {maps : Maps},
    lk j (maps.map fun p => if p.1 = k then (p.1, p.2 ++ c) else p) = lk j maps
  | [] => rfl
  | (a, b) :: t => by
    simp only [List.map_cons]
    by_cases ha : a = k
    · have haj : ¬ a = j := fun h => hj (h ▸ ha)
      simp only [ha, if_true, lk]
      have : ¬ k = j := fun h => hj h.symm
      simp only [this, if_false]
      exact lk_map_other hj
    · simp only [ha, if_false, lk]
      by_cases haj : a = j
      · simp [haj]
      · simp only [haj, if_false]; exact lk_map_other hj

theorem lk_append_other {k j : Nat} {v : List Nat} (hj : j ≠ k) : ∀ {maps : Maps},
    lk j (maps ++ [(k, v)]) = lk j maps
  | [] => by
    have : ¬ k = j := fun h => hj h.symm
    simp [lk, this]
  | (a, b) :: t => by
    simp only [List.cons_append, lk]
    by_cases haj : a = j
    · simp [haj]
    · simp only [haj, if_false]; exact lk_append_other hj

/-- the named feature afterwards holds the old content followed by the chunk -/
theorem lk_appendOne_same (maps : Maps) (k : Nat) (c : List Nat) :
    lk k (appendOne maps k c) = some ((lk k maps).getD [] ++ c) := by
  unfold appendOne
  cases h : lk k maps with
  | none => simpa using lk_append_new h
  | some m => simpa using lk_map_same h

/-- every other map feature is untouched -/
theorem lk_appendOne_other (maps : Maps) {k j : Nat} (c : List Nat) (hj : j ≠ k) :
    lk j (appendOne maps k c) = lk j maps := by
  unfold appendOne
  cases h : lk k maps with
  | none => exact lk_append_other hj
  | some m => exact lk_map_other hj

theorem append1_sound {s : SFile} (k : Nat) (c : List Nat) (hs : Sound s) :
    Sound (s.append1 k c) := by
  intro d' hd'
  simp only [SFile.append1, List.mem_map] at hd'
  obtain ⟨d, hd, rfl⟩ := hd'
  have h := hs d hd
  unfold SFile.mapOf at h ⊢
  unfold SDef.grow
  by_cases hk : d.mapping = some k
  · simp only [hk, if_true] at h ⊢
    simp only [SFile.append1, lk_appendOne_same]
    cases hl : lk k s.maps with
    | none => simp [hl] at h
    | some m =>
      simp only [hl, Option.map_some, Option.some.injEq] at h
      simp [← h]
  · simp only [hk, if_false]
    cases hm : d.mapping with
    | none => simpa [hm] using h
    | some j =>
      have hj : j ≠ k := fun e => hk (by rw [hm, e])
      simp only [hm] at h ⊢
      simp only [SFile.append1, lk_appendOne_other _ _ hj]
      exact h

theorem append_sound : ∀ (chunks : Maps) {s : SFile}, Sound s → Sound (s.append chunks)
  | [], _, hs => hs
  | (k, c) :: rest, _, hs => by
    simp only [SFile.append]
    exact append_sound rest (append1_sound k c hs)

theorem runOps_sound : ∀ (ops : List WOp) {s : SFile}, Sound s → Sound (runOps s ops)
  | [], _, hs => hs
  | .store t r :: rest, s, hs => by
    simp only [runOps]
    cases h : storeBasin s t r with
    | none => simpa using runOps_sound rest hs
    | some s1 => simpa using runOps_sound rest (storeBasin_sound hs h).1
  | .append ch :: rest, _, hs => by
    simp only [runOps]
    exact runOps_sound rest (append_sound ch hs)

/-! ## definition records of an export -/

/-- a history of `store_basin` calls never changes a map feature that is already in the file -/
theorem storeAll_maps_kept : ∀ (reqs : List (Nat × MapReq)) {s s' : SFile}, Sound s →
    storeAll s reqs = some s' → ∀ j c, lk j s.maps = some c → lk j s'.maps = some c
  | [], s, s', _, h => by
    simp only [storeAll, Option.some.injEq] at h; subst h; exact fun _ _ hj => hj
  | (t, r) :: rest, s, s', hs, h => by
    simp only [storeAll] at h
    cases h1 : storeBasin s t r with
    | none => simp [h1] at h
    | some s1 =>
      simp only [h1, Option.bind_some] at h
      have h2 := storeBasin_sound hs h1
      exact fun j c hj => storeAll_maps_kept rest h2.1 h j c (h2.2.1 j c hj)

theorem storeAll_intended : ∀ (reqs : List (Nat × MapReq)) {s s' : SFile}, Sound s →
    storeAll s reqs = some s' →
    s'.defs.map (·.intended) = s.defs.map (·.intended) ++ reqs.map (·.2.content)
  | [], s, s', _, h => by
    simp only [storeAll, Option.some.injEq] at h; subst h; simp
  | (t, r) :: rest, s, s', hs, h => by
    simp only [storeAll] at h
    cases h1 : storeBasin s t r with
    | none => simp [h1] at h
    | some s1 =>
      simp only [h1, Option.bind_some] at h
      obtain ⟨hs1, _, d, hd, _, hi⟩ := storeBasin_sound hs h1
      rw [storeAll_intended rest hs1 h, hd]
      simp [hi]

theorem defReqsFrom_content : ∀ (i : Nat) (bs : List RBasin),
    (defReqsFrom i bs).map (·.2.content) = bs.map (·.map)
  | _, [] => rfl
  | i, b :: t => by
    simp only [defReqsFrom, List.map_cons, defReqsFrom_content (i + 1) t]
    cases hb : b.map <;> simp [reqOf, hb, MapReq.content]

/-! ## record keys -/

theorem addRec_nodup {recs : List RecKey} (d : SDef) (h : recs.Nodup) : (addRec recs d).Nodup := by
  unfold addRec
  by_cases hc : recs.contains d.key = true
  · rw [if_pos hc]; exact h
  · rw [if_neg hc]
    have hn : d.key ∉ recs := fun hm => hc (List.contains_iff_mem.mpr hm)
    rw [List.nodup_append]
    refine ⟨h, by simp, ?_⟩
    intro a ha b hb
    simp only [List.mem_singleton] at hb
    subst hb
    intro e; subst e; exact hn ha

theorem mem_addRec_self (recs : List RecKey) (d : SDef) : d.key ∈ addRec recs d := by
  unfold addRec
  by_cases hc : recs.contains d.key = true
  · rw [if_pos hc]; exact List.contains_iff_mem.mp hc
  · rw [if_neg hc]; simp

theorem mem_addRec_of_mem {recs : List RecKey} (d : SDef) {r : RecKey} (h : r ∈ recs) :
    r ∈ addRec recs d := by
  unfold addRec
  by_cases hc : recs.contains d.key = true
  · rw [if_pos hc]; exact h
  · rw [if_neg hc]; exact List.mem_append_left _ h

theorem mem_addRec_iff {recs : List RecKey} {d : SDef} {r : RecKey} :
    r ∈ addRec recs d ↔ r ∈ recs ∨ r = d.key := by
  constructor
  · unfold addRec
    by_cases hc : recs.contains d.key = true
    · rw [if_pos hc]; exact Or.inl
    · rw [if_neg hc]
      intro h
      rcases List.mem_append.mp h with h | h
      · exact Or.inl h
      · exact Or.inr (List.mem_singleton.mp h)
  · rintro (h | h)
    · exact mem_addRec_of_mem d h
    · subst h; exact mem_addRec_self recs d

theorem recsFrom_spec : ∀ (defs : List SDef) (recs : List RecKey), recs.Nodup →
    (recsFrom recs defs).Nodup ∧
    ∀ r, r ∈ recsFrom recs defs ↔ r ∈ recs ∨ ∃ d ∈ defs, r = d.key
  | [], recs, h => ⟨h, fun r => by simp [recsFrom]⟩
  | d :: t, recs, h => by
    obtain ⟨h1, h2⟩ := recsFrom_spec t (addRec recs d) (addRec_nodup d h)
    refine ⟨h1, fun r => ?_⟩
    simp only [recsFrom]
    rw [h2 r, mem_addRec_iff]
    simp only [List.mem_cons, exists_eq_or_imp]
    constructor
    · rintro ((h | h) | h)
      · exact Or.inl h
      · exact Or.inr (Or.inl h)
      · exact Or.inr (Or.inr h)
    · rintro (h | h | h)
      · exact Or.inl (Or.inl h)
      · exact Or.inl (Or.inr h)
      · exact Or.inr h

/-! ## copies -/

theorem lk_filter_sel {sel : Feat → Bool} {f : Feat} (hf : sel f = true) :
    ∀ (l : List (Feat × List Row)), lk f (l.filter fun p => sel p.1) = lk f l
  | [] => rfl
  | (a, b) :: t => by
    rw [List.filter_cons]
    by_cases ha : a = f
    · subst ha; simp only [hf, if_true, lk]
    · cases hs : sel a with
      | true => simp only [hs, if_true, lk, ha, if_false]; exact lk_filter_sel hf t
      | false => simp only [hs, Bool.false_eq_true, lk, ha, if_false]; exact lk_filter_sel hf t

theorem lk_filter_unsel {sel : Feat → Bool} {f : Feat} (hf : sel f = false) :
    ∀ (l : List (Feat × List Row)), lk f (l.filter fun p => sel p.1) = none
  | [] => rfl
  | (a, b) :: t => by
    rw [List.filter_cons]
    cases hs : sel a with
    | true =>
      have ha : ¬ a = f := fun e => by rw [e, hf] at hs; cases hs
      simp only [if_true, lk, ha, if_false]; exact lk_filter_unsel hf t
    | false => simp only [Bool.false_eq_true, if_false]; exact lk_filter_unsel hf t

theorem contains_filter (l : List Feat) (sel : Feat → Bool) (f : Feat) :
    (l.filter sel).contains f = (l.contains f && sel f) := by
  rw [Bool.eq_iff_iff]; simp [List.mem_filter]

theorem route_internal (sub : Sub) (d : List (Feat × List Row)) (fe : Option (List Feat))
    (m : Option (List Nat)) (f : Feat) :
    route sub ⟨.internal d, fe, m⟩ f =
      if offers ⟨.internal d, fe, m⟩ f then (lk f d).bind (applyMap m) else none := rfl

/-- a selected feature takes the same route through the copied definition; a definition that is
not written could not deliver it -/
theorem route_copyBasin_sel {sub : Sub} {sel : Feat → Bool} {f : Feat} (hf : sel f = true)
    (b : RBasin) :
    match copyBasin sel b with
    | none => route sub b f = none
    | some b' => route sub b' f = route sub b f := by
  obtain ⟨src, fe, m⟩ := b
  cases src with
  | file loc => simp only [copyBasin]
  | internal d =>
    cases fe with
    | none =>
      simp only [copyBasin, route_internal, lk_filter_sel hf d]
      rfl
    | some l =>
      simp only [copyBasin]
      by_cases he : (l.filter sel).isEmpty = true
      · rw [if_pos he]
        have hc := contains_filter l sel f
        rw [List.isEmpty_iff.mp he, hf, Bool.and_true] at hc
        simp only [route_internal, offers, ← hc]
        rfl
      · rw [if_neg he]
        have hc := contains_filter l sel f
        rw [hf, Bool.and_true] at hc
        cases hl : l.contains f with
        | true =>
          rw [hl] at hc
          simp only [route_internal, offers, hc, hl, if_true, lk_filter_sel hf d]
        | false =>
          rw [hl] at hc
          simp only [route_internal, offers, hc, hl, Bool.false_eq_true, if_false]

/-- a feature outside the selection cannot come from a copied internal definition -/
theorem route_copyBasin_unsel {sub : Sub} {sel : Feat → Bool} {f : Feat}
    (hf : sel f = false) (b : RBasin) :
    match copyBasin sel b with
    | none => isInternal b = true
    | some b' => if isInternal b then route sub b' f = none else b' = b := by
  obtain ⟨src, fe, m⟩ := b
  cases src with
  | file loc => simp [copyBasin, isInternal]
  | internal d =>
    cases fe with
    | none =>
      simp only [copyBasin, isInternal, if_true, route_internal, lk_filter_unsel hf d,
        Option.bind_none, ite_self]
    | some l =>
      simp only [copyBasin]
      by_cases he : (l.filter sel).isEmpty = true
      · rw [if_pos he]; rfl
      · rw [if_neg he]
        have hc := contains_filter l sel f
        rw [hf, Bool.and_false] at hc
        simp only [isInternal, if_true, route_internal, offers, hc, Bool.false_eq_true, if_false]

theorem firstSome_copy_sel {sub : Sub} {sel : Feat → Bool} {f : Feat} (hf : sel f = true) :
    ∀ (bs : List RBasin), firstSome (fun b => route sub b f) (bs.filterMap (copyBasin sel))
      = firstSome (fun b => route sub b f) bs
  | [] => rfl
  | b :: t => by
    have hb := route_copyBasin_sel (sub := sub) hf b
    simp only [List.filterMap_cons]
    cases hc : copyBasin sel b with
    | none =>
      simp only [hc] at hb ⊢
      simp only [firstSome, hb]
      exact firstSome_copy_sel hf t
    | some b' =>
      simp only [hc] at hb ⊢
      simp only [firstSome, hb]
      rw [firstSome_copy_sel hf t]

theorem firstSome_copy_unsel {sub : Sub} {sel : Feat → Bool} {f : Feat}
    (hf : sel f = false) :
    ∀ (bs : List RBasin), firstSome (fun b => route sub b f) (bs.filterMap (copyBasin sel))
      = firstSome (fun b => route sub b f) (bs.filter fun b => !isInternal b)
  | [] => rfl
  | b :: t => by
    have hb := route_copyBasin_unsel (sub := sub) hf b
    simp only [List.filterMap_cons, List.filter_cons]
    cases hc : copyBasin sel b with
    | none =>
      simp only [hc] at hb ⊢
      simp only [hb, Bool.not_true, Bool.false_eq_true, if_false]
      exact firstSome_copy_unsel hf t
    | some b' =>
      simp only [hc] at hb ⊢
      cases hi : isInternal b with
      | true =>
        simp only [hi, if_true] at hb
        simp only [Bool.not_true, Bool.false_eq_true, if_false, firstSome, hb]
        exact firstSome_copy_unsel hf t
      | false =>
        simp only [hi, Bool.false_eq_true, if_false] at hb
        subst hb
        simp only [Bool.not_false, if_true, firstSome]
        rw [firstSome_copy_unsel hf t]

theorem firstSome_Coh {sub : Sub} {f : Feat} {rows : List Row} :
    ∀ (bs : List RBasin), (∀ b ∈ bs, Coh sub b f rows) →
      firstSome (fun b => route sub b f) bs = some rows ∨
      firstSome (fun b => route sub b f) bs = none
  | [], _ => Or.inr rfl
  | b :: t, h => by
    simp only [firstSome]
    rcases route_of_Coh (h b (List.mem_cons_self ..)) with hr | hr
    · simp [hr]
    · simp only [hr]
      exact firstSome_Coh t fun c hc => h c (List.mem_cons_of_mem _ hc)

/-! ## invalid maps -/

theorem gather_eq_none_iff {o : List α} : ∀ {m : List Nat},
    gather o m = none ↔ ∃ i ∈ m, o.length ≤ i
  | [] => by simp [gather]
  | i :: is => by
    have ih := @gather_eq_none_iff _ o is
    simp only [gather, List.mem_cons, exists_eq_or_imp]
    cases hx : o[i]? with
    | none =>
      have : o.length ≤ i := by
        rcases Nat.lt_or_ge i o.length with hlt | hge
        · simp [List.getElem?_eq_getElem hlt] at hx
        · exact hge
      simp [this]
    | some x =>
      have hlt : ¬ o.length ≤ i := by
        intro hge
        simp [List.getElem?_eq_none hge] at hx
      cases hg : gather o is with
      | none => simpa [hlt] using ih.mp hg
      | some xs =>
        simp only [hlt, false_or]
        constructor
        · intro h; cases h
        · intro h; rw [ih.mpr h] at hg; cases hg

end DclabModel.Basin
