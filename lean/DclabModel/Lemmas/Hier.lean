import DclabModel.Model.Hier
/-! Helper lemmas for C04 (core Lean only). -/
namespace DclabModel.Hier

/-! ## sel / whereIdx -/

theorem sel_nil_right {α : Type} (m : List Bool) : sel m ([] : List α) = [] := by
  cases m with
  | nil => rfl
  | cons b m => cases b <;> rfl

theorem sel_map {α β : Type} (f : α → β) : ∀ (m : List Bool) (xs : List α),
    sel m (xs.map f) = (sel m xs).map f
  | [], _ => by simp [sel]
  | b :: m, [] => by simp [sel_nil_right]
  | true :: m, x :: xs => by simp [sel, sel_map f m xs]
  | false :: m, x :: xs => by simp [sel, sel_map f m xs]

theorem length_sel {α : Type} : ∀ (m : List Bool) (xs : List α), xs.length = m.length →
    (sel m xs).length = cnt m
  | [], _, _ => by simp [sel, cnt]
  | b :: m, [], h => by simp at h
  | true :: m, x :: xs, h => by
    have := length_sel m xs (by simpa using h)
    simp [sel, cnt] at *; omega
  | false :: m, x :: xs, h => by
    have := length_sel m xs (by simpa using h)
    simp [sel, cnt] at *; omega

theorem sel_sublist {α : Type} : ∀ (m : List Bool) (xs : List α), (sel m xs).Sublist xs
  | [], _ => by simp [sel]
  | b :: m, [] => by simp [sel_nil_right]
  | true :: m, x :: xs => by simp [sel, sel_sublist m xs]
  | false :: m, x :: xs => by simpa [sel] using (sel_sublist m xs).cons x

theorem length_whereIdx : ∀ m : List Bool, (whereIdx m).length = cnt m
  | [] => rfl
  | b :: m => by
    have := length_whereIdx m
    cases b <;> simp [whereIdx, cnt] at * <;> omega

theorem mem_whereIdx : ∀ (m : List Bool) (q : Nat), q ∈ whereIdx m ↔ m.getD q false = true
  | [], q => by simp [whereIdx]
  | b :: m, q => by
    have ih := mem_whereIdx m
    cases q with
    | zero => cases b <;> simp [whereIdx]
    | succ q => cases b <;> simp [whereIdx, ih]

theorem lt_of_mem_whereIdx {m : List Bool} {q : Nat} (h : q ∈ whereIdx m) : q < m.length := by
  rw [mem_whereIdx] at h
  by_cases hq : q < m.length
  · exact hq
  · simp [List.getD_eq_getElem?_getD, List.getElem?_eq_none (Nat.le_of_not_lt hq)] at h

theorem pairwise_whereIdx : ∀ m : List Bool, (whereIdx m).Pairwise (· < ·)
  | [] => by simp [whereIdx]
  | b :: m => by
    have ih := pairwise_whereIdx m
    have h1 : ((whereIdx m).map (· + 1)).Pairwise (· < ·) := by
      rw [List.pairwise_map]; exact ih.imp (by intro a b h; omega)
    cases b
    · simpa [whereIdx] using h1
    · simp only [whereIdx, if_true, List.pairwise_cons]
      refine ⟨?_, h1⟩
      intro a ha; simp at ha; obtain ⟨a', _, rfl⟩ := ha; omega

/-- boolean indexing is integer indexing with `np.where` -/
theorem sel_eq_map {α : Type} (d : α) : ∀ (m : List Bool) (xs : List α), xs.length = m.length →
    sel m xs = (whereIdx m).map (fun i => xs.getD i d)
  | [], _, _ => by simp [sel, whereIdx]
  | b :: m, [], h => by simp at h
  | true :: m, x :: xs, h => by
    have := sel_eq_map d m xs (by simpa using h)
    simp [sel, whereIdx, this, List.map_map, Function.comp_def]
  | false :: m, x :: xs, h => by
    have := sel_eq_map d m xs (by simpa using h)
    simp [sel, whereIdx, this, List.map_map, Function.comp_def]

theorem sel_map_self {α : Type} (g : α → Bool) : ∀ xs : List α, sel (xs.map g) xs = xs.filter g
  | [] => by simp [sel]
  | x :: xs => by
    have := sel_map_self g xs
    cases h : g x <;> simp [sel, h, this]


/-! ## strictly increasing lists -/

theorem sorted_ext : ∀ (l1 l2 : List Nat), l1.Pairwise (· < ·) → l2.Pairwise (· < ·) →
    (∀ a, a ∈ l1 ↔ a ∈ l2) → l1 = l2
  | [], [], _, _, _ => rfl
  | [], b :: l2, _, _, h => by have := (h b).2 (by simp); simp at this
  | a :: l1, [], _, _, h => by have := (h a).1 (by simp); simp at this
  | a :: l1, b :: l2, h1, h2, h => by
    rw [List.pairwise_cons] at h1 h2
    have hab : a = b := by
      have ha := (h a).1 (by simp)
      have hb := (h b).2 (by simp)
      simp only [List.mem_cons] at ha hb
      rcases ha with ha | ha
      · exact ha
      · rcases hb with hb | hb
        · exact hb.symm
        · have := h2.1 a ha; have := h1.1 b hb; omega
    subst hab
    congr 1
    apply sorted_ext l1 l2 h1.2 h2.2
    intro x
    constructor
    · intro hx
      have := (h x).1 (by simp [hx])
      simp only [List.mem_cons] at this
      rcases this with rfl | this
      · have := h1.1 x hx; omega
      · exact this
    · intro hx
      have := (h x).2 (by simp [hx])
      simp only [List.mem_cons] at this
      rcases this with rfl | this
      · have := h2.1 x hx; omega
      · exact this

theorem getD_lt_getD_of_pairwise {W : List Nat} (hW : W.Pairwise (· < ·)) {i j : Nat}
    (hij : i < j) (hj : j < W.length) : W.getD i 0 < W.getD j 0 := by
  have hi : i < W.length := by omega
  rw [List.pairwise_iff_getElem] at hW
  simpa [List.getD_eq_getElem?_getD, hi, hj] using hW i j hi hj hij

theorem getD_inj_of_pairwise {W : List Nat} (hW : W.Pairwise (· < ·)) {i j : Nat}
    (hi : i < W.length) (hj : j < W.length) (h : W.getD i 0 = W.getD j 0) : i = j := by
  rcases Nat.lt_trichotomy i j with hlt | heq | hgt
  · have := getD_lt_getD_of_pairwise hW hlt hj; omega
  · exact heq
  · have := getD_lt_getD_of_pairwise hW hgt hi; omega

theorem mem_whereIdx_map {α : Type} (g : α → Bool) (xs : List α) (q : Nat) :
    q ∈ whereIdx (xs.map g) ↔ ∃ h : q < xs.length, g xs[q] = true := by
  rw [mem_whereIdx]
  by_cases hq : q < xs.length
  · simp [List.getD_eq_getElem?_getD, hq]
  · simp [List.getD_eq_getElem?_getD, hq]

/-- the indices where the characteristic mask of a strictly increasing `I` is set are `I` -/
theorem whereIdx_char (L : Nat) (I : List Nat) (hI : I.Pairwise (· < ·)) (hL : ∀ i ∈ I, i < L) :
    whereIdx ((List.range L).map (fun p => I.contains p)) = I := by
  apply sorted_ext _ _ (pairwise_whereIdx _) hI
  intro a
  rw [mem_whereIdx_map]
  constructor
  · rintro ⟨h, hc⟩; simpa using hc
  · intro ha
    have : a < L := hL a ha
    exact ⟨by simpa using this, by simpa using ha⟩

/-! ## mapper.py, one level -/

theorem c2p_eq_sel {α : Type} (d : α) (pf : List Bool) (xs : List α) (I : List Nat)
    (h : xs.length = pf.length) (hI : ∀ i ∈ I, i < cnt pf) :
    (c2p pf I).map (fun q => xs.getD q d) = I.map (fun i => (sel pf xs).getD i d) := by
  simp only [c2p, List.map_map]
  apply List.map_congr_left
  intro i hi
  have hi' : i < (whereIdx pf).length := by rw [length_whereIdx]; exact hI i hi
  simp [sel_eq_map d pf xs h, List.getD_eq_getElem?_getD, hi']

theorem c2p_lt {pf : List Bool} {I : List Nat} (hI : ∀ i ∈ I, i < cnt pf) :
    ∀ q ∈ c2p pf I, q < pf.length := by
  intro q hq
  simp only [c2p, List.mem_map] at hq
  obtain ⟨i, hi, rfl⟩ := hq
  have hi' : i < (whereIdx pf).length := by rw [length_whereIdx]; exact hI i hi
  apply lt_of_mem_whereIdx (m := pf)
  simp [List.getD_eq_getElem?_getD, hi']

theorem c2p_pairwise {pf : List Bool} {I : List Nat} (hI : I.Pairwise (· < ·))
    (hr : ∀ i ∈ I, i < cnt pf) : (c2p pf I).Pairwise (· < ·) := by
  simp only [c2p, List.pairwise_map]
  have : ∀ i ∈ I, ∀ j ∈ I, i < j → (whereIdx pf).getD i 0 < (whereIdx pf).getD j 0 := by
    intro i _ j hj hij
    exact getD_lt_getD_of_pairwise (pairwise_whereIdx pf) hij (by rw [length_whereIdx]; exact hr j hj)
  exact hI.imp_of_mem (fun ha hb h => this _ ha _ hb h)

theorem p2c_pairwise (pf : List Bool) (J : List Nat) : (p2c pf J).Pairwise (· < ·) :=
  pairwise_whereIdx _

theorem p2c_lt {pf : List Bool} {J : List Nat} : ∀ i ∈ p2c pf J, i < cnt pf := by
  intro i hi
  have := lt_of_mem_whereIdx hi
  simpa [length_whereIdx] using this

theorem p2c_c2p (pf : List Bool) (I : List Nat) (hI : I.Pairwise (· < ·))
    (hr : ∀ i ∈ I, i < cnt pf) : p2c pf (c2p pf I) = I := by
  have hW := pairwise_whereIdx pf
  have key : (whereIdx pf).map (fun q => (c2p pf I).contains q)
      = (List.range (whereIdx pf).length).map (fun p => I.contains p) := by
    apply List.ext_getElem
    · simp
    · intro k h1 h2
      have hk : k < (whereIdx pf).length := by simpa using h1
      simp only [List.getElem_map, List.getElem_range]
      rw [Bool.eq_iff_iff]
      simp only [List.contains_iff_mem, c2p, List.mem_map]
      constructor
      · rintro ⟨i, hi, hEq⟩
        have hi' : i < (whereIdx pf).length := by rw [length_whereIdx]; exact hr i hi
        have : i = k := by
          apply getD_inj_of_pairwise hW hi' hk
          simpa [List.getD_eq_getElem?_getD, hk] using hEq
        exact this ▸ hi
      · intro hk'
        exact ⟨k, hk', by simp [List.getD_eq_getElem?_getD, hk]⟩
  unfold p2c
  rw [key]
  exact whereIdx_char _ I hI (by intro i hi; rw [length_whereIdx]; exact hr i hi)

theorem c2p_p2c (pf : List Bool) (J : List Nat) :
    c2p pf (p2c pf J) = (whereIdx pf).filter (fun q => J.contains q) := by
  unfold c2p p2c
  rw [← sel_eq_map 0 _ (whereIdx pf) (by simp)]
  exact sel_map_self _ _


/-! ## chains of filter arrays -/

/-- the `filter.all` arrays of parent, grandparent, …, root fit together -/
def WF (n : Nat) : List (List Bool) → Prop
  | [] => True
  | pf :: rest => pf.length = (idsOf n rest).length ∧ WF n rest

theorem idsOf_pairwise (n : Nat) : ∀ alls, (idsOf n alls).Pairwise (· < ·)
  | [] => by simpa [idsOf] using List.pairwise_lt_range
  | pf :: rest => (idsOf_pairwise n rest).sublist (sel_sublist pf _)

theorem idsOf_lt (n : Nat) : ∀ alls, ∀ r ∈ idsOf n alls, r < n
  | [], r, h => by simpa [idsOf] using h
  | pf :: rest, r, h => idsOf_lt n rest r ((sel_sublist pf _).subset h)

theorem length_idsOf_cons {n : Nat} {pf : List Bool} {rest : List (List Bool)}
    (h : WF n (pf :: rest)) : (idsOf n (pf :: rest)).length = cnt pf :=
  length_sel pf _ h.1.symm

theorem c2rootOk_of_lt {n : Nat} : ∀ (alls : List (List Bool)) (I : List Nat), WF n alls →
    (∀ i ∈ I, i < (idsOf n alls).length) → c2rootOk alls I = true
  | [], _, _, _ => rfl
  | pf :: rest, I, hwf, hI => by
    have hI' : ∀ i ∈ I, i < cnt pf := by rw [← length_idsOf_cons hwf]; exact hI
    simp only [c2rootOk, Bool.and_eq_true]
    refine ⟨by simpa [c2pOk] using hI', c2rootOk_of_lt rest _ hwf.2 ?_⟩
    intro q hq; rw [← hwf.1]; exact c2p_lt hI' q hq

/-- `map_indices_child2root` reads the root index of the child's events -/
theorem c2root_eq {n : Nat} : ∀ (alls : List (List Bool)) (I : List Nat), WF n alls →
    (∀ i ∈ I, i < (idsOf n alls).length) →
    c2root alls I = I.map (fun i => (idsOf n alls).getD i 0)
  | [], I, _, hI => by
    simp only [c2root, idsOf]
    rw [eq_comm, List.map_congr_left (g := id)]
    · simp
    · intro i hi
      have : i < n := by simpa [idsOf] using hI i hi
      simp [List.getD_eq_getElem?_getD, this]
  | pf :: rest, I, hwf, hI => by
    have hI' : ∀ i ∈ I, i < cnt pf := by rw [← length_idsOf_cons hwf]; exact hI
    have hlt : ∀ q ∈ c2p pf I, q < (idsOf n rest).length := by
      intro q hq; rw [← hwf.1]; exact c2p_lt hI' q hq
    simp only [c2root]
    rw [c2root_eq rest (c2p pf I) hwf.2 hlt]
    exact c2p_eq_sel 0 pf (idsOf n rest) I hwf.1.symm hI'

theorem sel_range (pf : List Bool) : sel pf (List.range pf.length) = whereIdx pf := by
  rw [sel_eq_map 0 pf _ (by simp), List.map_congr_left (g := id)]
  · simp
  · intro i hi
    have := lt_of_mem_whereIdx hi
    simp [List.getD_eq_getElem?_getD, this]

theorem p2c_of_mask (pf : List Bool) (X : List Nat) (mask : List Bool)
    (hlen : mask.length = pf.length) (hX : ∀ q, X.contains q = mask.getD q false) :
    p2c pf X = whereIdx (sel pf mask) := by
  unfold p2c
  rw [sel_eq_map false pf mask hlen]
  congr 1
  apply List.map_congr_left
  intro q _; exact hX q

theorem contains_whereIdx (m : List Bool) (q : Nat) : (whereIdx m).contains q = m.getD q false := by
  rw [Bool.eq_iff_iff, List.contains_iff_mem, mem_whereIdx]

/-- `map_indices_root2child` finds the positions of the given root indices in the child -/
theorem r2c_eq {n : Nat} : ∀ (alls : List (List Bool)) (R : List Nat), alls ≠ [] → WF n alls →
    r2c alls R = whereIdx ((idsOf n alls).map (fun r => R.contains r))
  | [], _, h, _ => absurd rfl h
  | [pf], R, _, hwf => by
    have hlen : pf.length = n := by simpa [idsOf] using hwf.1
    simp only [r2c, idsOf, p2c]
    rw [← hlen, sel_range]
  | pf :: pf' :: rest, R, _, hwf => by
    have ih := r2c_eq (pf' :: rest) R (by simp) hwf.2
    simp only [r2c] at ih ⊢
    rw [ih, p2c_of_mask pf _ ((idsOf n (pf' :: rest)).map (fun r => R.contains r))
      (by simpa using hwf.1.symm) (contains_whereIdx _), sel_map]
    rfl

theorem r2c_c2root {n : Nat} : ∀ (alls : List (List Bool)) (I : List Nat), WF n alls →
    I.Pairwise (· < ·) → (∀ i ∈ I, i < (idsOf n alls).length) → r2c alls (c2root alls I) = I
  | [], I, _, _, _ => rfl
  | pf :: rest, I, hwf, hI, hr => by
    have hI' : ∀ i ∈ I, i < cnt pf := by rw [← length_idsOf_cons hwf]; exact hr
    simp only [r2c, c2root]
    rw [r2c_c2root rest (c2p pf I) hwf.2 (c2p_pairwise hI hI')
      (by intro q hq; rw [← hwf.1]; exact c2p_lt hI' q hq)]
    exact p2c_c2p pf I hI hI'


/-! ## sets of root ids -/

theorem mem_insSorted (a x : Nat) : ∀ l : List Nat, a ∈ insSorted x l ↔ a = x ∨ a ∈ l
  | [] => by simp [insSorted]
  | y :: ys => by
    have ih := mem_insSorted a x ys
    unfold insSorted
    split
    · simp
    · split
      · rename_i h; subst h; simp
      · simp [ih]; grind

theorem mem_normSet (a : Nat) : ∀ xs : List Nat, a ∈ normSet xs ↔ a ∈ xs
  | [] => by simp [normSet]
  | x :: xs => by
    have ih := mem_normSet a xs
    simp only [normSet, List.foldr_cons, List.mem_cons] at ih ⊢
    rw [mem_insSorted, ih]

theorem mem_sel {α : Type} (d : α) (m : List Bool) (xs : List α) (h : xs.length = m.length)
    (r : α) : r ∈ sel m xs ↔ ∃ i, i < xs.length ∧ m.getD i false = true ∧ xs.getD i d = r := by
  rw [sel_eq_map d m xs h, List.mem_map]
  constructor
  · rintro ⟨i, hi, rfl⟩
    exact ⟨i, h ▸ lt_of_mem_whereIdx hi, (mem_whereIdx m i).1 hi, rfl⟩
  · rintro ⟨i, _, hm, rfl⟩
    exact ⟨i, (mem_whereIdx m i).2 hm, rfl⟩

theorem range_map_getD {α : Type} (d : α) (m : List α) :
    (List.range m.length).map (fun p => m.getD p d) = m := by
  apply List.ext_getElem
  · simp
  · intro i h1 h2
    have : i < m.length := by simpa using h1
    simp [List.getD_eq_getElem?_getD, this]

/-- which root ids `manual` excludes at a level -/
theorem mem_excl (c : Level) (h : c.manual.length = c.ev.length) (r : Nat) :
    r ∈ excl c ↔ ∃ i, i < c.ev.length ∧ c.manual.getD i true = false ∧ c.ev.getD i 0 = r := by
  unfold excl
  rw [mem_sel 0 _ _ (by simpa using h.symm)]
  constructor
  · rintro ⟨i, hi, hm, hr⟩
    refine ⟨i, hi, ?_, hr⟩
    have hi' : i < c.manual.length := by omega
    simpa [List.getD_eq_getElem?_getD, hi'] using hm
  · rintro ⟨i, hi, hm, hr⟩
    refine ⟨i, hi, ?_, hr⟩
    have hi' : i < c.manual.length := by omega
    simpa [List.getD_eq_getElem?_getD, hi'] using hm


/-! ## synchronised chains -/

/-- every member is the view of its parent, sizes agree, and the stored parent hash is current -/
def Synced (fixed : Bool) (D : Data) : List Level → Prop
  | [] => True
  | [r] => r.ev = List.range D.n ∧ r.len = D.n ∧ r.all.length = D.n ∧ r.manual.length = D.n
  | c :: p :: rest =>
    c.ev = sel p.all p.ev ∧ c.len = cnt p.all ∧ c.ev.length = c.len ∧ c.all.length = c.len ∧
      c.manual.length = c.len ∧ c.phash = key fixed (p :: rest) ∧ Synced fixed D (p :: rest)

theorem synced_len {fixed : Bool} {D : Data} {c : Level} {anc : List Level}
    (h : Synced fixed D (c :: anc)) :
    c.ev.length = c.len ∧ c.all.length = c.len ∧ c.manual.length = c.len := by
  cases anc with
  | nil => obtain ⟨h1, h2, h3, h4⟩ := h; simp [h1, h2, h3, h4]
  | cons p rest => obtain ⟨_, _, h3, h4, h5, _⟩ := h; exact ⟨h3, h4, h5⟩

theorem synced_tail {fixed : Bool} {D : Data} {c : Level} {anc : List Level}
    (h : Synced fixed D (c :: anc)) : Synced fixed D anc := by
  cases anc with
  | nil => trivial
  | cons p rest => exact h.2.2.2.2.2.2

theorem synced_ids {fixed : Bool} {D : Data} : ∀ (anc : List Level) (c : Level),
    Synced fixed D (c :: anc) →
    c.ev = idsOf D.n (anc.map (·.all)) ∧ WF D.n (anc.map (·.all))
  | [], c, h => ⟨h.1, trivial⟩
  | p :: rest, c, h => by
    obtain ⟨ih1, ih2⟩ := synced_ids rest p (synced_tail h)
    have hl := synced_len (synced_tail h)
    refine ⟨?_, ?_, ih2⟩
    · rw [h.1, ih1]; rfl
    · show p.all.length = _
      rw [← ih1]; omega

theorem synced_mem {fixed : Bool} {D : Data} : ∀ (s : List Level), Synced fixed D s →
    ∀ c ∈ s, c.ev.Pairwise (· < ·) ∧ c.manual.length = c.ev.length ∧ c.ev.length = c.len
  | [], _, c, hc => by simp at hc
  | d :: anc, h, c, hc => by
    rcases List.mem_cons.1 hc with rfl | hc
    · have := synced_len h
      exact ⟨(synced_ids anc _ h).1 ▸ idsOf_pairwise _ _, by omega, this.1⟩
    · exact synced_mem anc (synced_tail h) c hc

/-- what `apply_filter` needs to know about the state it starts from -/
def LenOK (c : Level) : Prop := ∀ a t, c.phash = a :: t → c.manual.length = cnt a

def Pre (D : Data) : List Level → Prop
  | [] => True
  | [r] => r.ev = List.range D.n ∧ r.len = D.n ∧ r.manual.length = D.n
  | c :: p :: rest => LenOK c ∧ Pre D (p :: rest)

theorem key_cons (fixed : Bool) (p : Level) (rest : List Level) :
    ∃ t, key fixed (p :: rest) = p.all :: t := by
  cases fixed <;> simp [key]

theorem pre_of_synced {fixed : Bool} {D : Data} : ∀ s, Synced fixed D s → Pre D s
  | [], _ => trivial
  | [r], h => ⟨h.1, h.2.1, h.2.2.2⟩
  | c :: p :: rest, h => by
    refine ⟨?_, pre_of_synced _ (synced_tail h)⟩
    intro a t hk
    obtain ⟨t', ht'⟩ := key_cons fixed p rest
    have h6 := h.2.2.2.2.2.1
    rw [h6, ht'] at hk
    injection hk with hk _
    rw [← hk, h.2.2.2.2.1, h.2.1]

theorem retrieve_eq (fixed snap : Bool) (c : Level) (anc : List Level) :
    ∃ R, retrieve fixed snap c anc = { c with manRoot := R } := by
  unfold retrieve
  cases snap
  · simp only [Bool.false_eq_true, if_false]
    unfold retrieveOld
    split
    · exact ⟨c.manRoot, rfl⟩
    · split
      · exact ⟨c.manRoot, rfl⟩
      · exact ⟨_, rfl⟩
  · exact ⟨_, rfl⟩

theorem length_combine (len : Nat) (box : List (List Bool)) (manual : List Bool) :
    (combine len box manual).length = len := by simp [combine]

theorem applyFilter_ne_nil (fixed snap : Bool) (D : Data) :
    ∀ s, s ≠ [] → applyFilter fixed snap D s ≠ []
  | [], h => absurd rfl h
  | [r], _ => by simp [applyFilter]
  | c :: p :: rest, _ => by simp [applyFilter]

theorem synced_refresh {fixed : Bool} {D : Data} (c : Level) (q : Level) (qs : List Level)
    (hps : Synced fixed D (q :: qs)) (hc : LenOK c) :
    Synced fixed D (refresh fixed D c (q :: qs) :: q :: qs) := by
  have hq := synced_len hps
  have hlen : (sel q.all q.ev).length = cnt q.all := length_sel _ _ (by omega)
  obtain ⟨t, ht⟩ := key_cons fixed q qs
  unfold refresh
  simp only [headAll, headEv]
  split
  · refine ⟨rfl, rfl, hlen, ?_, ?_, rfl, hps⟩
    · simp [filterUpdate, length_combine, recreate]
    · simp [filterUpdate, recreate]
  · rename_i hk
    have hk' : key fixed (q :: qs) = c.phash := by simpa using hk
    refine ⟨rfl, rfl, hlen, ?_, ?_, hk'.symm, hps⟩
    · simp [filterUpdate, length_combine]
    · simpa [filterUpdate] using hc q.all t (by rw [← hk', ht])

/-- theorem 2, strong form: `apply_filter` of the youngest member leaves a synchronised chain -/
theorem synced_applyFilter {fixed snap : Bool} {D : Data} : ∀ s, Pre D s →
    Synced fixed D (applyFilter fixed snap D s)
  | [], _ => trivial
  | [r], h => by
    obtain ⟨h1, h2, h3⟩ := h
    exact ⟨by simpa [filterUpdate] using h1, by simpa [filterUpdate] using h2,
      by simp [filterUpdate, length_combine, h2], by simpa [filterUpdate] using h3⟩
  | c :: p :: rest, h => by
    have ih := synced_applyFilter (fixed := fixed) (snap := snap) (p :: rest) h.2
    simp only [applyFilter]
    obtain ⟨R, hR⟩ := retrieve_eq fixed snap c (p :: rest)
    cases hps : applyFilter fixed snap D (p :: rest) with
    | nil => exact absurd hps (applyFilter_ne_nil fixed snap D _ (by simp))
    | cons q qs =>
      rw [hps] at ih
      apply synced_refresh _ q qs ih
      rw [hR]; exact h.1


/-! ## per-level invariants -/

/-- what the user excluded (and did not re-include) and still sees is excluded; nothing else is -/
def GI2 (c : Level) : Prop :=
  (∀ r, r ∈ c.gM → r ∈ c.ev → r ∈ excl c) ∧ (∀ r, r ∈ excl c → r ∈ c.gM)

/-- exclusions of events that are currently hidden are remembered in `_man_root_ids`; what is
remembered is either still wanted or visible (then `manual` decides) -/
def GI4 (c : Level) : Prop :=
  (∀ r, r ∈ c.gM → r ∉ c.ev → r ∈ c.manRoot) ∧ (∀ r, r ∈ c.manRoot → r ∈ c.gM ∨ r ∈ c.ev)

/-- every cached box filter is the one of `_old_config` on the level's current events -/
def BoxInv (D : Data) (c : Level) : Prop :=
  c.old.length = c.cfg.length ∧
    ∀ f, f < c.cfg.length →
      c.box.getD f (List.replicate c.len true) = boxOf D c.ev f (c.old.getD f none)

def LI (D : Data) (c : Level) : Prop := GI2 c ∧ GI4 c ∧ BoxInv D c

theorem excl_filterUpdate (D : Data) (c : Level) : excl (filterUpdate D c) = excl c := rfl

theorem excl_eq_nil_of_all {c : Level} (h : c.manual.all id = true)
    (hl : c.manual.length = c.ev.length) : ∀ r, r ∉ excl c := by
  intro r hr
  rw [mem_excl c hl] at hr
  obtain ⟨i, hi, hm, _⟩ := hr
  have hi' : i < c.manual.length := by omega
  rw [List.all_eq_true] at h
  have := h (c.manual[i]) (List.getElem_mem hi')
  simp [List.getD_eq_getElem?_getD, hi'] at hm
  simp [hm] at this

/-- `retrieve_manual_indices` (F32 repair), for a filter whose `_root_ids` are the member's
cached events: the new `_man_root_ids` contain every currently excluded root id and every
remembered id that is hidden, and nothing else — whatever the state of the ancestors -/
theorem retrieveSnap_spec (c : Level) (hr : c.rootIds = c.ev) :
    ∃ R, retrieveSnap c = { c with manRoot := R } ∧
      (∀ r, r ∈ R → r ∈ excl c ∨ (r ∈ c.manRoot ∧ r ∉ c.ev)) ∧ (∀ r, r ∈ excl c → r ∈ R) ∧
      (∀ r, r ∈ c.manRoot → r ∉ c.ev → r ∈ R) := by
  refine ⟨_, rfl, ?_, ?_, ?_⟩
  · intro r h
    simp only [mem_normSet, List.mem_append, List.mem_filter, hr] at h
    rcases h with h | ⟨h, hv⟩
    · exact Or.inl h
    · exact Or.inr ⟨h, by simpa using hv⟩
  · intro r h
    simp only [mem_normSet, List.mem_append, hr]
    exact Or.inl h
  · intro r h hv
    simp only [mem_normSet, List.mem_append, List.mem_filter, hr]
    exact Or.inr ⟨h, by simpa using hv⟩

theorem bne_false_eq {a b : Rng} (h : (a != b) = false) : a = b := by
  simpa using h

theorem getD_boxOf (D : Data) (ev : List Nat) (f : Nat) (r : Rng) (p : Nat) (hp : p < ev.length) :
    (boxOf D ev f r).getD p true = inR r (D.val f (ev.getD p 0)) := by
  simp [boxOf, List.getD_eq_getElem?_getD, hp]

theorem updBox_eq {D : Data} {c : Level} (hb : BoxInv D c) :
    updBox D c = (List.range c.cfg.length).map (fun f => boxOf D c.ev f (c.cfg.getD f none)) := by
  unfold updBox
  apply List.map_congr_left
  intro f hf
  have hf' : f < c.cfg.length := by simpa using hf
  split
  · rfl
  · rename_i h
    have h' : c.cfg.getD f none = c.old.getD f none := bne_false_eq (by simpa using h)
    rw [hb.2 f hf', h']

/-- `Filter.update`: afterwards every cached box belongs to the current configuration, and
`filter.all` is the configured filter on the current events -/
theorem filterUpdate_box {D : Data} {c : Level} (hb : BoxInv D c) (hl : c.ev.length = c.len) :
    BoxInv D (filterUpdate D c) ∧ (filterUpdate D c).all = specAll D (filterUpdate D c) := by
  have hu := updBox_eq hb
  constructor
  · refine ⟨rfl, ?_⟩
    intro f hf
    have hf' : f < c.cfg.length := hf
    show (updBox D c).getD f _ = boxOf D c.ev f (c.cfg.getD f none)
    rw [hu]
    simp [List.getD_eq_getElem?_getD, hf']
  · show combine c.len (updBox D c) c.manual = _
    unfold specAll combine
    apply List.map_congr_left
    intro p hp
    have hp' : p < c.ev.length := by rw [hl]; simpa using hp
    show (_ && _) = (c.manual.getD p true && _)
    congr 1
    rw [hu, List.all_map]
    congr 1
    funext f
    exact getD_boxOf D c.ev f _ p hp'

theorem getD_map_const {α β : Type} (l : List α) (a : β) (f : Nat) :
    (l.map (fun _ => a)).getD f a = a := by
  rw [List.getD_eq_getElem?_getD, List.getElem?_map]
  cases l[f]? <;> rfl

theorem boxOf_none (D : Data) (ev : List Nat) (f : Nat) :
    boxOf D ev f none = List.replicate ev.length true := by
  simp only [boxOf, inR]
  exact List.map_const' ..

theorem idsOf_headSel {fixed : Bool} {D : Data} {q : Level} {qs : List Level}
    (h : Synced fixed D (q :: qs)) :
    sel q.all q.ev = idsOf D.n ((q :: qs).map (·.all)) ∧ WF D.n ((q :: qs).map (·.all)) := by
  obtain ⟨h1, h2⟩ := synced_ids qs q h
  have := synced_len h
  refine ⟨by rw [h1]; rfl, ⟨?_, h2⟩⟩
  show q.all.length = _
  rw [← h1]; omega

/-- one member of the chain during `apply_filter`, after its ancestors have been refreshed -/
theorem refresh_level {D : Data} (c1 : Level) (q : Level) (qs : List Level)
    (hps : Synced true D (q :: qs))
    (hstar : ∀ r, r ∈ c1.gM → r ∈ c1.manRoot) (hstar2 : ∀ r, r ∈ c1.manRoot → r ∈ c1.gM)
    (hframe : key true (q :: qs) = c1.phash →
      c1.ev = sel q.all q.ev ∧ c1.len = cnt q.all ∧ c1.manual.length = c1.len ∧ GI2 c1)
    (hbox : BoxInv D c1) :
    LI D (refresh true D c1 (q :: qs)) ∧
      (refresh true D c1 (q :: qs)).all = specAll D (refresh true D c1 (q :: qs)) := by
  have hq := synced_len hps
  have hlen : (sel q.all q.ev).length = cnt q.all := length_sel _ _ (by omega)
  obtain ⟨hids, hwf⟩ := idsOf_headSel hps
  unfold refresh
  simp only [headAll, headEv]
  split
  · -- the parent changed: new filter, manual rebuilt from the root ids
    have hcidx : r2c ((q :: qs).map (·.all)) c1.manRoot
        = whereIdx ((sel q.all q.ev).map (fun r => c1.manRoot.contains r)) := by
      rw [r2c_eq _ _ (by simp) hwf, hids]
    have hman : ((List.range (cnt q.all)).map
          (fun p => !(r2c ((q :: qs).map (·.all)) c1.manRoot).contains p)).map not
        = (sel q.all q.ev).map (fun r => c1.manRoot.contains r) := by
      rw [hcidx, List.map_map]
      conv => rhs; rw [← range_map_getD false ((sel q.all q.ev).map (fun r => c1.manRoot.contains r))]
      simp only [List.length_map, hlen]
      apply List.map_congr_left
      intro p _
      show (!(!(whereIdx _).contains p)) = _
      rw [contains_whereIdx, Bool.not_not]
    have hex : ∀ r, r ∈ excl (recreate true
        { c1 with len := cnt q.all, ev := sel q.all q.ev } (q :: qs)) ↔
          r ∈ sel q.all q.ev ∧ r ∈ c1.manRoot := by
      intro r
      unfold excl recreate
      simp only [hman, sel_map_self, List.mem_filter, List.contains_iff_mem]
    have hbx : BoxInv D (recreate true { c1 with len := cnt q.all, ev := sel q.all q.ev } (q :: qs)) := by
      refine ⟨by simp [recreate], ?_⟩
      intro f hf
      show (c1.cfg.map (fun _ => List.replicate (cnt q.all) true)).getD f
            (List.replicate (cnt q.all) true)
          = boxOf D (sel q.all q.ev) f ((c1.cfg.map (fun _ => (none : Rng))).getD f none)
      rw [getD_map_const, getD_map_const, boxOf_none, hlen]
    obtain ⟨hb', hfresh⟩ := filterUpdate_box hbx (by simpa [recreate] using hlen)
    refine ⟨⟨⟨?_, ?_⟩, ⟨?_, ?_⟩, hb'⟩, hfresh⟩
    · intro r hM hV
      rw [excl_filterUpdate, hex]
      exact ⟨hV, hstar r hM⟩
    · intro r hr
      rw [excl_filterUpdate, hex] at hr
      exact hstar2 r hr.2
    · intro r hM _; exact hstar r hM
    · intro r hr; exact Or.inl (hstar2 r hr)
  · -- same parent filters, hence the same events: nothing moves
    rename_i hk
    have hk' : key true (q :: qs) = c1.phash := by simpa using hk
    obtain ⟨hev, hln, hml, hgi⟩ := hframe hk'
    have hsame : ({ c1 with len := cnt q.all, ev := sel q.all q.ev } : Level) = c1 := by
      rw [← hev, ← hln]
    rw [hsame]
    obtain ⟨hb', hfresh⟩ := filterUpdate_box hbox (by rw [hev, hln]; exact hlen)
    refine ⟨⟨hgi, ⟨?_, ?_⟩, hb'⟩, hfresh⟩
    · intro r hM _; exact hstar r hM
    · intro r hr; exact Or.inl (hstar2 r hr)


/-! ## invariants of arbitrary (also partially refreshed) chains -/

/-- what every hierarchy child knows about itself, whatever the state of its ancestors: its
cached events are the ones its stored parent hash describes, `_root_ids` are these events, and
`manual` / `_length` have their size -/
def CI (D : Data) (c : Level) : Prop :=
  (∀ a t, c.phash = a :: t → c.ev = idsOf D.n c.phash ∧ WF D.n c.phash) ∧
    c.rootIds = c.ev ∧ c.manual.length = c.ev.length ∧ c.ev.length = c.len ∧
    c.ev.Pairwise (· < ·)

theorem lenOK_of_ci {D : Data} {c : Level} (h : CI D c) : LenOK c := by
  intro a t hk
  obtain ⟨h1, h2⟩ := h.1 a t hk
  rw [h.2.2.1, h1, hk]
  rw [hk] at h2
  exact length_idsOf_cons h2

theorem key_true (s : List Level) : key true s = s.map (·.all) := by simp [key]

theorem refresh_ci {D : Data} (c1 : Level) (q : Level) (qs : List Level)
    (hps : Synced true D (q :: qs)) (hci : CI D c1) : CI D (refresh true D c1 (q :: qs)) := by
  have hq := synced_len hps
  have hlen : (sel q.all q.ev).length = cnt q.all := length_sel _ _ (by omega)
  obtain ⟨hids, hwf⟩ := idsOf_headSel hps
  simp only [refresh, headAll, headEv]
  split
  · refine ⟨?_, ?_, ?_, ?_, ?_⟩
    · intro a t _
      show sel q.all q.ev = idsOf D.n (key true (q :: qs)) ∧ WF D.n (key true (q :: qs))
      rw [key_true]; exact ⟨hids, hwf⟩
    · show c2root ((q :: qs).map (·.all)) (List.range (cnt q.all)) = sel q.all q.ev
      rw [c2root_eq _ _ hwf]
      · rw [← hids, ← hlen]; exact range_map_getD 0 _
      · intro i hi; rw [← hids, hlen]; simpa using hi
    · show ((List.range (cnt q.all)).map _).length = (sel q.all q.ev).length
      simp [hlen]
    · exact hlen
    · show (sel q.all q.ev).Pairwise (· < ·)
      rw [hids]; exact idsOf_pairwise _ _
  · rename_i hk
    have hk' : key true (q :: qs) = c1.phash := by simpa using hk
    have hph : c1.phash = q.all :: qs.map (·.all) := by rw [← hk', key_true]; rfl
    obtain ⟨h1, h2⟩ := hci.1 _ _ hph
    have hev : c1.ev = sel q.all q.ev := by rw [h1, ← hk', key_true]; exact hids.symm
    refine ⟨?_, ?_, ?_, ?_, ?_⟩
    · intro a t _
      show sel q.all q.ev = idsOf D.n c1.phash ∧ _
      exact ⟨by rw [← hev]; exact h1, h2⟩
    · show c1.rootIds = sel q.all q.ev
      rw [hci.2.1, hev]
    · show c1.manual.length = (sel q.all q.ev).length
      rw [hci.2.2.1, hev]
    · exact hlen
    · show (sel q.all q.ev).Pairwise (· < ·)
      rw [hids]; exact idsOf_pairwise _ _

def GInv (D : Data) : List Level → Prop
  | [] => False
  | [r] => (r.ev = List.range D.n ∧ r.len = D.n ∧ r.manual.length = D.n) ∧ LI D r
  | c :: p :: rest => CI D c ∧ LI D c ∧ GInv D (p :: rest)

theorem ginv_ne_nil {D : Data} {s : List Level} (h : GInv D s) : s ≠ [] := by
  intro hs; subst hs; exact h

theorem pre_of_ginv {D : Data} : ∀ s, GInv D s → Pre D s
  | [], h => h.elim
  | [_], h => h.1
  | _ :: _ :: _, h => ⟨lenOK_of_ci h.1, pre_of_ginv _ h.2.2⟩

theorem ginv_mem {D : Data} : ∀ s, GInv D s →
    ∀ c ∈ s, LI D c ∧ c.manual.length = c.ev.length ∧ c.ev.Pairwise (· < ·)
  | [], h, _, _ => h.elim
  | [r], h, c, hc => by
    simp only [List.mem_singleton] at hc
    subst hc
    exact ⟨h.2, by rw [h.1.1, h.1.2.2]; simp, by rw [h.1.1]; exact List.pairwise_lt_range⟩
  | d :: p :: rest, h, c, hc => by
    rcases List.mem_cons.1 hc with rfl | hc
    · exact ⟨h.2.1, h.1.2.2.1, h.1.2.2.2.2⟩
    · exact ginv_mem _ h.2.2 c hc

/-- the invariants survive a refresh of the head of a chain (any earlier partial refreshes
allowed), and afterwards every `filter.all` is the configured filter on the member's events -/
theorem ginv_applyFilter {D : Data} : ∀ s, GInv D s →
    GInv D (applyFilter true true D s) ∧ ∀ c ∈ applyFilter true true D s, c.all = specAll D c
  | [], h => h.elim
  | [r], h => by
    obtain ⟨⟨h1, h2, h3⟩, g2, g4, hb⟩ := h
    obtain ⟨hb', hf⟩ := filterUpdate_box hb (by rw [h1, h2]; simp)
    refine ⟨⟨⟨h1, h2, h3⟩, g2, g4, hb'⟩, ?_⟩
    intro c hc
    simp only [applyFilter, List.mem_singleton] at hc
    subst hc; exact hf
  | c :: p :: rest, h => by
    obtain ⟨hci, ⟨g2, g4, hb⟩, hrest⟩ := h
    obtain ⟨ih1, ih2⟩ := ginv_applyFilter (p :: rest) hrest
    have hps := synced_applyFilter (fixed := true) (snap := true) (p :: rest) (pre_of_ginv _ hrest)
    simp only [applyFilter]
    cases hq : applyFilter true true D (p :: rest) with
    | nil => exact absurd hq (applyFilter_ne_nil true true D _ (by simp))
    | cons q qs =>
      rw [hq] at ih1 ih2 hps
      have hret : retrieve true true c (p :: rest) = retrieveSnap c := by simp [retrieve]
      obtain ⟨R, hR, h1, h2, h3⟩ := retrieveSnap_spec c hci.2.1
      rw [hret, hR]
      have hci' : CI D { c with manRoot := R } := hci
      have hlev := refresh_level { c with manRoot := R } q qs hps
        (by
          intro r hM
          by_cases hv : r ∈ c.ev
          · exact h2 r (g2.1 r hM hv)
          · exact h3 r (g4.1 r hM hv) hv)
        (by
          intro r hr
          rcases h1 r hr with h | ⟨h, hv⟩
          · exact g2.2 r h
          · rcases g4.2 r h with h' | h'
            · exact h'
            · exact absurd h' hv)
        (by
          intro hk
          have hq' := synced_len hps
          have hlen : (sel q.all q.ev).length = cnt q.all := length_sel _ _ (by omega)
          have hph : c.phash = q.all :: qs.map (·.all) := by
            have : key true (q :: qs) = c.phash := hk
            rw [← this, key_true]; rfl
          obtain ⟨e1, _⟩ := hci.1 _ _ hph
          have hev : c.ev = sel q.all q.ev := by
            rw [e1, hph]; exact (idsOf_headSel hps).1.symm
          refine ⟨hev, ?_, ?_, g2⟩
          · show c.len = _; rw [← hci.2.2.2.1, hev, hlen]
          · show c.manual.length = c.len; rw [hci.2.2.1, hci.2.2.2.1])
        hb
      refine ⟨⟨refresh_ci _ q qs hps hci', hlev.1, ih1⟩, ?_⟩
      intro d hd
      rcases List.mem_cons.1 hd with rfl | hd
      · exact hlev.2
      · exact ih2 d hd

theorem ginv_cons {D : Data} {c : Level} {X : List Level} (hc : CI D c) (hl : LI D c)
    (hX : GInv D X) : GInv D (c :: X) := by
  cases X with
  | nil => exact hX.elim
  | cons q qs => exact ⟨hc, hl, hX⟩

/-- … and a refresh of an intermediate member (`rejuvenate` / `set_temporary_feature` there) -/
theorem ginv_rejuvAt {D : Data} : ∀ (k : Nat) (s : List Level), GInv D s →
    GInv D (rejuvAt true true D k s)
  | 0, s, h => by simpa [rejuvAt] using (ginv_applyFilter s h).1
  | _ + 1, [], h => h.elim
  | _ + 1, [_], h => by simpa [rejuvAt, applyFilter] using h
  | k + 1, c :: p :: rest, h => by
    have ih := ginv_rejuvAt k (p :: rest) h.2.2
    have : rejuvAt true true D (k + 1) (c :: p :: rest) = c :: rejuvAt true true D k (p :: rest) := by
      simp [rejuvAt]
    rw [this]
    exact ginv_cons h.1 h.2.1 ih

/-! ## user edits -/

theorem getD_set_bool (l : List Bool) (p i : Nat) (b d : Bool) :
    (l.set p b).getD i d = if p = i ∧ p < l.length then b else l.getD i d := by
  simp only [List.getD_eq_getElem?_getD, List.getElem?_set]
  by_cases h : p = i
  · subst h
    by_cases hp : p < l.length
    · simp [hp]
    · simp [hp]
  · simp [h]

theorem li_manualEdit {D : Data} (p : Nat) (b : Bool) (c : Level) (h : LI D c)
    (hl : c.manual.length = c.ev.length) (hpw : c.ev.Pairwise (· < ·)) :
    LI D (manualEdit p b c) := by
  obtain ⟨⟨g21, g22⟩, ⟨g41, g42⟩, hb⟩ := h
  unfold manualEdit
  split
  · exact ⟨⟨g21, g22⟩, ⟨g41, g42⟩, hb⟩
  · rename_i r hr
    have hp : p < c.ev.length := by
      by_cases hp : p < c.ev.length
      · exact hp
      · simp [List.getElem?_eq_none (Nat.le_of_not_lt hp)] at hr
    have hrv : c.ev.getD p 0 = r := by simp [List.getD_eq_getElem?_getD, hr]
    have hrm : r ∈ c.ev := by
      have := List.mem_of_getElem? hr; exact this
    rw [if_pos (by omega)]
    have hl' : (c.manual.set p b).length = c.ev.length := by simpa using hl
    have hpm : p < c.manual.length := by omega
    cases b
    · -- exclude event p
      refine ⟨⟨?_, ?_⟩, ⟨?_, ?_⟩, hb⟩
      · intro x hx hv
        rw [mem_excl _ hl']
        simp only [if_false, Bool.false_eq_true, List.mem_cons] at hx
        rcases hx with rfl | hx
        · exact ⟨p, hp, by simp [hpm], hrv⟩
        · obtain ⟨i, hi, hm, he⟩ := (mem_excl c hl x).1 (g21 x hx hv)
          refine ⟨i, hi, ?_, he⟩
          show (c.manual.set p false).getD i true = false
          rw [getD_set_bool]; split
          · rfl
          · exact hm
      · intro x hx
        obtain ⟨i, hi, hm, he⟩ := (mem_excl _ hl' x).1 hx
        simp only [if_false, Bool.false_eq_true, List.mem_cons]
        by_cases hpi : p = i
        · subst hpi; left; rw [← he]; exact hrv
        · right
          apply g22
          rw [mem_excl c hl]
          refine ⟨i, hi, ?_, he⟩
          have : (c.manual.set p false).getD i true = false := hm
          rw [getD_set_bool, if_neg (by simp [hpi])] at this
          exact this
      · intro x hx hv
        simp only [if_false, Bool.false_eq_true, List.mem_cons] at hx
        rcases hx with rfl | hx
        · exact absurd hrm hv
        · exact g41 x hx hv
      · intro x hx
        simp only [if_false, Bool.false_eq_true, List.mem_cons]
        rcases g42 x hx with h | h
        · exact Or.inl (Or.inr h)
        · exact Or.inr h
    · -- re-include event p
      refine ⟨⟨?_, ?_⟩, ⟨?_, ?_⟩, hb⟩
      · intro x hx hv
        simp only [if_true, List.mem_filter, bne_iff_ne, ne_eq] at hx
        obtain ⟨i, hi, hm, he⟩ := (mem_excl c hl x).1 (g21 x hx.1 hv)
        rw [mem_excl _ hl']
        refine ⟨i, hi, ?_, he⟩
        show (c.manual.set p true).getD i true = false
        have hpi : p ≠ i := by
          intro hpi; subst hpi; rw [hrv] at he; exact hx.2 he.symm
        rw [getD_set_bool, if_neg (by simp [hpi])]; exact hm
      · intro x hx
        obtain ⟨i, hi, hm, he⟩ := (mem_excl _ hl' x).1 hx
        have hm' : (c.manual.set p true).getD i true = false := hm
        rw [getD_set_bool] at hm'
        split at hm'
        · simp at hm'
        · rename_i hne
          have hpi : p ≠ i := fun h => hne ⟨h, hpm⟩
          simp only [if_true, List.mem_filter, bne_iff_ne, ne_eq]
          refine ⟨g22 x ((mem_excl c hl x).2 ⟨i, hi, hm', he⟩), ?_⟩
          intro hxr
          apply hpi
          exact getD_inj_of_pairwise hpw hp hi (by rw [hrv, he, hxr])
      · intro x hx hv
        simp only [if_true, List.mem_filter] at hx
        exact g41 x hx.1 hv
      · intro x hx
        simp only [if_true, List.mem_filter, bne_iff_ne, ne_eq]
        rcases g42 x hx with h | h
        · by_cases hxr : x = r
          · exact Or.inr (hxr ▸ hrm)
          · exact Or.inl ⟨h, hxr⟩
        · exact Or.inr h

theorem shape_manualEdit (p : Nat) (b : Bool) (c : Level) :
    (manualEdit p b c).ev = c.ev ∧ (manualEdit p b c).len = c.len ∧
      (manualEdit p b c).all = c.all ∧ (manualEdit p b c).manual.length = c.manual.length ∧
      (manualEdit p b c).phash = c.phash ∧ (manualEdit p b c).rootIds = c.rootIds := by
  unfold manualEdit
  split
  · simp
  · split <;> simp

/-- edits that leave `ev`, `len`, `phash`, `_root_ids` and the size of `manual` alone
(configuration and manual edits) keep the invariants -/
theorem ginv_modAt {D : Data} (f : Level → Level)
    (hf : ∀ c, (f c).ev = c.ev ∧ (f c).len = c.len ∧ (f c).all = c.all ∧
      (f c).manual.length = c.manual.length ∧ (f c).phash = c.phash ∧ (f c).rootIds = c.rootIds)
    (hli : ∀ c, c.manual.length = c.ev.length → c.ev.Pairwise (· < ·) → LI D c → LI D (f c)) :
    ∀ (k : Nat) (s : List Level), GInv D s → GInv D (modAt k f s)
  | _, [], h => h.elim
  | 0, [r], h => by
    obtain ⟨h1, h2, _, h4, _, _⟩ := hf r
    obtain ⟨⟨e1, e2, e3⟩, hl⟩ := h
    exact ⟨⟨by rw [h1]; exact e1, by rw [h2]; exact e2, by rw [h4]; exact e3⟩,
      hli r (by rw [e1, e3]; simp) (by rw [e1]; exact List.pairwise_lt_range) hl⟩
  | k + 1, [r], h => by simpa [modAt] using h
  | 0, c :: p :: rest, h => by
    obtain ⟨h1, h2, _, h4, h5, h6⟩ := hf c
    obtain ⟨hci, hl, hrest⟩ := h
    refine ⟨?_, hli c hci.2.2.1 hci.2.2.2.2 hl, hrest⟩
    unfold CI
    rw [h1, h2, h4, h5, h6]; exact hci
  | k + 1, c :: p :: rest, h => by
    have ih := ginv_modAt f hf hli k (p :: rest) h.2.2
    exact ginv_cons h.1 h.2.1 ih

/-! ## the ghost fields are not part of the implementation -/

def erase (c : Level) : Level := { c with gM := [] }

theorem key_erase (fixed : Bool) (s : List Level) : key fixed (s.map erase) = key fixed s := by
  cases fixed
  · cases s <;> simp [key, erase]
  · simp [key, erase, Function.comp_def]

theorem map_all_erase (s : List Level) : (s.map erase).map (·.all) = s.map (·.all) := by
  simp [erase, Function.comp_def]

theorem retrieve_erase (fixed snap : Bool) (c : Level) (anc : List Level) :
    retrieve fixed snap (erase c) (anc.map erase) = erase (retrieve fixed snap c anc) := by
  unfold retrieve
  cases snap
  case true => rfl
  simp only [Bool.false_eq_true, if_false]
  unfold retrieveOld
  rw [key_erase, map_all_erase]
  show (if (key fixed anc != c.phash) = true then erase c else
        if c.manual.all id = true then erase c else _) = _
  split
  · rfl
  · split <;> rfl

theorem headAll_erase (s : List Level) : headAll (s.map erase) = headAll s := by
  cases s <;> rfl
theorem headEv_erase (s : List Level) : headEv (s.map erase) = headEv s := by
  cases s <;> rfl

theorem refresh_erase (fixed : Bool) (D : Data) (c : Level) (ps : List Level) :
    refresh fixed D (erase c) (ps.map erase) = erase (refresh fixed D c ps) := by
  simp only [refresh, headAll_erase, headEv_erase, key_erase]
  show filterUpdate D (if (key fixed ps != c.phash) = true then _ else _) = _
  split
  · simp only [recreate, map_all_erase, key_erase]; rfl
  · rfl

/-- the ghost fields are never read: erasing them commutes with `apply_filter` -/
theorem applyFilter_erase (fixed snap : Bool) (D : Data) : ∀ s : List Level,
    applyFilter fixed snap D (s.map erase) = (applyFilter fixed snap D s).map erase
  | [] => rfl
  | [r] => rfl
  | c :: p :: rest => by
    have ih := applyFilter_erase fixed snap D (p :: rest)
    simp only [List.map_cons] at ih ⊢
    simp only [applyFilter]
    rw [ih]
    have := retrieve_erase fixed snap c (p :: rest)
    simp only [List.map_cons] at this
    rw [this, refresh_erase]
    simp

end DclabModel.Hier
