import DclabModel.Model.Stats
import DclabModel.Lemmas.Export
/-!
Helper lemmas for C12 (core Lean only).
-/
namespace DclabModel.Stats
open DclabModel.Export (sel countTrue isort insertBy indices)

variable {α : Type}

/-! ## selection -/

theorem sel_map {β : Type} (f : α → β) : ∀ (m : List Bool) (xs : List α),
    sel m (xs.map f) = (sel m xs).map f := by
  intro m
  induction m with
  | nil => intro xs; simp
  | cons b m ih =>
    intro xs
    cases xs with
    | nil => simp
    | cons x xs => cases b <;> simp [ih]

theorem sel_length_le : ∀ (m : List Bool) (xs : List α), (sel m xs).length ≤ countTrue m := by
  intro m
  induction m with
  | nil => intro xs; simp
  | cons b m ih =>
    intro xs
    cases xs with
    | nil => simp
    | cons x xs =>
      have := ih xs
      cases b <;> simp [countTrue] at this ⊢ <;> omega

theorem sel_length_eq : ∀ (m : List Bool) (xs : List α), m.length ≤ xs.length →
    (sel m xs).length = countTrue m := by
  intro m
  induction m with
  | nil => intro xs _; simp [countTrue]
  | cons b m ih =>
    intro xs h
    cases xs with
    | nil => simp at h
    | cons x xs =>
      have := ih xs (by simpa using h)
      cases b <;> simp [countTrue] at this ⊢ <;> omega

theorem allTrue_all (k : Nat) : (allTrue k).all id = true := by
  simp [allTrue]

/-- selecting everything from the already selected events changes nothing -/
theorem sel_allTrue_sel (m : List Bool) (xs : List α) (k : Nat) (hk : countTrue m ≤ k) :
    sel (allTrue k) (sel m xs) = sel m xs := by
  apply DclabModel.Export.sel_allTrue _ (allTrue_all k)
  have := sel_length_le m xs
  simp [allTrue]; omega

/-! ## the shape of the entry points -/

/-- two tables agree on the selected events (any values elsewhere) -/
def AgreeOn (m : List Bool) (c c' : List Val) : Prop :=
  c.length = c'.length ∧
    ∀ i (h1 : i < c.length) (h2 : i < c'.length), m.getD i false = true → c[i] = c'[i]

/-- column-wise agreement of two datasets on the selected events -/
inductive AgreeAll (m : List Bool) : List (List Val) → List (List Val) → Prop where
  | nil : AgreeAll m [] []
  | cons {c c' : List Val} {t t' : List (List Val)} :
      AgreeOn m c c' → AgreeAll m t t' → AgreeAll m (c :: t) (c' :: t')

theorem view_congr (lg : Val → Val) (m : List Bool) : ∀ (cols cols' : List (List Val))
    (scs : List Scale), AgreeAll m cols cols' →
    view lg scs m cols = view lg scs m cols' := by
  intro cols cols' scs h
  induction h generalizing scs with
  | nil => rfl
  | @cons c c' t t' hc _ ih =>
    cases scs with
    | nil => rfl
    | cons sc scs =>
      simp only [view, List.zipWith_cons_cons]
      rw [DclabModel.Export.sel_congr m c c' hc.1 hc.2]
      congr 1
      exact ih scs

theorem view_sub (lg : Val → Val) (m : List Bool) (k : Nat) (hk : countTrue m ≤ k) :
    ∀ (cols : List (List Val)) (scs : List Scale),
    view lg scs (allTrue k) (sub m cols) = view lg scs m cols := by
  intro cols
  induction cols with
  | nil => intro scs; cases scs <;> rfl
  | cons c t ih =>
    intro scs
    cases scs with
    | nil => rfl
    | cons sc scs =>
      simp only [view, sub, List.map_cons, List.zipWith_cons_cons]
      rw [sel_allTrue_sel m c k hk]
      congr 1
      exact ih scs

/-! ## purge -/

theorem fins_purge : ∀ xs : List Val, fins (purge xs) = fins xs := by
  intro xs
  induction xs with
  | nil => rfl
  | cons v t ih =>
    cases v <;> simp [purge, fins, Val.isBad] at ih ⊢ <;> exact ih

theorem fins_append : ∀ (a b : List Val), fins (a ++ b) = fins a ++ fins b := by
  intro a
  induction a with
  | nil => intro b; rfl
  | cons v t ih => intro b; cases v <;> simp [fins, ih]

/-! ## histograms -/

theorem countP_split {β : Type} (p q r : β → Bool) (hpq : ∀ x, r x = (p x || q x))
    (hdis : ∀ x, p x = true → q x = false) : ∀ d : List β,
    d.countP p + d.countP q = d.countP r := by
  intro d
  induction d with
  | nil => rfl
  | cons x t ih =>
    simp only [List.countP_cons, hpq x]
    cases hp : p x
    · cases hq : q x <;> simp <;> omega
    · have := hdis x hp
      simp [this]; omega

theorem hist_prefix_sum (f : α → Nat) (d : List α) : ∀ nb,
    (histCounts f nb d).sum = d.countP (fun x => decide (f x < nb)) := by
  intro nb
  induction nb with
  | zero => simp [histCounts]
  | succ n ih =>
    unfold histCounts at ih ⊢
    rw [List.range_succ, List.map_append, List.sum_append, ih]
    simp only [List.map_cons, List.map_nil, List.sum_cons, List.sum_nil, Nat.add_zero]
    apply countP_split
    · intro x
      by_cases h1 : f x < n
      · have : f x < n + 1 := by omega
        simp [h1, this]
      · by_cases h2 : f x = n
        · simp [h2]
        · have : ¬ f x < n + 1 := by omega
          simp [h1, h2, this]
    · intro x hx
      simp only [decide_eq_true_eq] at hx
      simp; omega

theorem binOf_lt (edges : List Rat) (h : 2 ≤ edges.length) (x : Rat) :
    binOf edges x < edges.length - 1 := by
  unfold binOf
  have h1 := List.length_filter_le (fun e => decide (e ≤ x)) ((edges.drop 1).dropLast)
  simp only [List.length_dropLast, List.length_drop] at h1
  omega

/-! ## sorting -/

theorem countP_insertBy {β : Type} (le : β → β → Bool) (p : β → Bool) (a : β) : ∀ l : List β,
    (insertBy le a l).countP p = (a :: l).countP p := by
  intro l
  induction l with
  | nil => rfl
  | cons b t ih =>
    simp only [insertBy]
    split
    · rfl
    · simp only [List.countP_cons] at ih ⊢
      rw [ih]; omega

theorem countP_isort {β : Type} (le : β → β → Bool) (p : β → Bool) : ∀ l : List β,
    (isort le l).countP p = l.countP p := by
  intro l
  induction l with
  | nil => rfl
  | cons a t ih =>
    simp only [isort, countP_insertBy, List.countP_cons, ih]

theorem length_isort {β : Type} (le : β → β → Bool) (l : List β) : (isort le l).length = l.length := by
  have := countP_isort le (fun _ => true) l
  simpa using this

theorem sorted_insert (a : Rat) : ∀ l : List Rat, l.Pairwise (· ≤ ·) →
    (insertBy (fun a b => decide (a ≤ b)) a l).Pairwise (· ≤ ·) := by
  intro l
  induction l with
  | nil => intro _; simp [insertBy]
  | cons b t ih =>
    intro h
    have hb := List.pairwise_cons.mp h
    simp only [insertBy]
    split
    · rename_i hab
      simp only [decide_eq_true_eq] at hab
      refine List.pairwise_cons.mpr ⟨?_, h⟩
      intro x hx
      rcases List.mem_cons.mp hx with hx | hx
      · rw [hx]; exact hab
      · exact Rat.le_trans hab (hb.1 x hx)
    · rename_i hab
      simp only [decide_eq_true_eq] at hab
      have hba : b ≤ a := by
        rcases @Rat.le_total a b with h1 | h1
        · exact absurd h1 hab
        · exact h1
      refine List.pairwise_cons.mpr ⟨?_, ih hb.2⟩
      intro x hx
      rcases (DclabModel.Export.mem_insertBy _ a x t).mp hx with hx | hx
      · rw [hx]; exact hba
      · exact hb.1 x hx

theorem sorted_sortR (d : List Rat) : (sortR d).Pairwise (· ≤ ·) := by
  unfold sortR
  induction d with
  | nil => simp [isort]
  | cons a t ih => exact sorted_insert a _ ih

theorem sorted_mono (s : List Rat) (hs : s.Pairwise (· ≤ ·)) (i j : Nat) (hij : i ≤ j)
    (hj : j < s.length) : s[i]'(by omega) ≤ s[j] := by
  by_cases h : i = j
  · subst h; exact Rat.le_refl
  · exact (List.pairwise_iff_getElem.mp hs) i j (by omega) hj (by omega)

/-! ## percentiles -/

theorem interp_between (a b fr : Rat) (hab : a ≤ b) (h0 : 0 ≤ fr) (h1 : fr ≤ 1) :
    a ≤ a + fr * (b - a) ∧ a + fr * (b - a) ≤ b := by
  have e1 : 0 ≤ fr * (b - a) := Rat.mul_nonneg h0 (by grind)
  have e2 : 0 ≤ (1 - fr) * (b - a) := Rat.mul_nonneg (by grind) (by grind)
  constructor <;> grind

theorem floor_facts (h : Rat) (h0 : 0 ≤ h) :
    ((h.floor.toNat : Nat) : Rat) ≤ h ∧ h < ((h.floor.toNat : Nat) : Rat) + 1 := by
  have hf : 0 ≤ h.floor := Rat.le_floor_iff.mpr (by simpa using h0)
  have hc : ((h.floor.toNat : Nat) : Rat) = ((h.floor : Int) : Rat) := by
    rw [← Rat.intCast_natCast, Int.toNat_of_nonneg hf]
  rw [hc]
  constructor
  · exact Rat.floor_le h
  · have := Rat.lt_floor_add_one h
    simpa using this

/-- in a sorted list at most `k` elements are below a level that does not exceed `s[k]`… -/
theorem count_lt_le (s : List Rat) (k : Nat) (L : Rat)
    (hL : ∀ j (hj : j < s.length), k ≤ j → L ≤ s[j]) :
    s.countP (fun x => decide (x < L)) ≤ k := by
  rw [← List.take_append_drop k s, List.countP_append]
  have h1 : (s.take k).countP (fun x => decide (x < L)) ≤ k := by
    have := List.countP_le_length (p := fun x => decide (x < L)) (l := s.take k)
    simp only [List.length_take] at this
    omega
  have h2 : (s.drop k).countP (fun x => decide (x < L)) = 0 := by
    rw [List.countP_eq_zero]
    intro x hx
    obtain ⟨i, hi, rfl⟩ := List.mem_iff_getElem.mp hx
    simp only [List.length_drop] at hi
    simp only [List.getElem_drop, decide_eq_true_eq, Rat.not_lt]
    exact hL (k + i) (by omega) (by omega)
  omega

/-- … and at least `k` elements are `≤` a level that is not below `s[k-1]` -/
theorem count_le_ge (s : List Rat) (k : Nat) (hk : k ≤ s.length) (L : Rat)
    (hL : ∀ j (hj : j < s.length), j < k → s[j] ≤ L) :
    k ≤ s.countP (fun x => decide (x ≤ L)) := by
  rw [← List.take_append_drop k s, List.countP_append]
  have h1 : (s.take k).countP (fun x => decide (x ≤ L)) = (s.take k).length := by
    rw [List.countP_eq_length]
    intro x hx
    obtain ⟨i, hi, rfl⟩ := List.mem_iff_getElem.mp hx
    simp only [List.length_take] at hi
    simp only [List.getElem_take, decide_eq_true_eq]
    exact hL i (by omega) (by omega)
  simp only [List.length_take] at h1
  omega

theorem percentile_bounds (d : List Rat) (hd : d ≠ []) (q : Rat) (h0 : 0 ≤ q) (h1 : q ≤ 1)
    (L : Rat) (hL : percentile d q = some L) :
    ((d.countP (fun x => decide (x < L)) : Nat) : Rat) ≤ q * ((d.length : Rat) - 1) + 1 ∧
    q * ((d.length : Rat) - 1) < ((d.countP (fun x => decide (x ≤ L)) : Nat) : Rat) := by
  unfold percentile at hL
  have hemp : d.isEmpty = false := by cases d <;> simp_all
  simp only [hemp, Bool.false_eq_true, if_false, Option.some.injEq] at hL
  have hlen : (sortR d).length = d.length := length_isort _ d
  have hn : 1 ≤ d.length := by cases d <;> simp_all
  have hs := sorted_sortR d
  rw [hlen] at hL
  generalize hh : q * ((d.length : Rat) - 1) = h at hL ⊢
  have hn1 : (0 : Rat) ≤ (d.length : Rat) - 1 := by
    have : ((1 : Nat) : Rat) ≤ (d.length : Rat) := Rat.natCast_le_natCast.mpr hn
    simp at this; grind
  have hh0 : 0 ≤ h := by rw [← hh]; exact Rat.mul_nonneg h0 hn1
  have hhn : h ≤ (d.length : Rat) - 1 := by
    have := Rat.mul_nonneg (by grind : (0 : Rat) ≤ 1 - q) hn1
    rw [← hh]; grind
  obtain ⟨hfl1, hfl2⟩ := floor_facts h hh0
  generalize hlo : h.floor.toNat = lo at hL hfl1 hfl2
  have hlon : lo + 1 ≤ d.length := by
    have : ((lo + 1 : Nat) : Rat) ≤ ((d.length : Nat) : Rat) := by
      simp only [Rat.natCast_add]; simp; grind
    exact Rat.natCast_le_natCast.mp this
  -- the two order statistics
  have hlo_lt : lo < (sortR d).length := by omega
  have hhi_lt : min (lo + 1) (d.length - 1) < (sortR d).length := by omega
  rw [← List.getElem_eq_getD (h := hlo_lt) 0, ← List.getElem_eq_getD (h := hhi_lt) 0] at hL
  have hab : (sortR d)[lo] ≤ (sortR d)[min (lo + 1) (d.length - 1)] :=
    sorted_mono _ hs _ _ (by omega) hhi_lt
  obtain ⟨hLa, hLb⟩ := interp_between _ _ (h - (lo : Rat)) hab (by grind) (by grind)
  rw [hL] at hLa hLb
  rw [← countP_isort (fun a b => decide (a ≤ b)) _ d, ← countP_isort (fun a b => decide (a ≤ b)) (fun x => decide (x ≤ L)) d]
  have c1 := count_lt_le (sortR d) (lo + 1) L (by
    intro j hj hkj
    exact Rat.le_trans hLb (sorted_mono _ hs _ _ (by omega) hj))
  have c2 := count_le_ge (sortR d) (lo + 1) (by omega) L (by
    intro j hj hjk
    exact Rat.le_trans (sorted_mono _ hs _ _ (by omega) hlo_lt) hLa)
  have c1' : ((List.countP (fun x => decide (x < L)) (sortR d) : Nat) : Rat) ≤ ((lo + 1 : Nat) : Rat) :=
    Rat.natCast_le_natCast.mpr c1
  have c2' : ((lo + 1 : Nat) : Rat) ≤ ((List.countP (fun x => decide (x ≤ L)) (sortR d) : Nat) : Rat) :=
    Rat.natCast_le_natCast.mpr c2
  simp only [Rat.natCast_add] at c1' c2'
  unfold sortR at c1' c2'
  constructor <;> grind

/-! ## permutations, monotonicity in `q` -/

theorem perm_insertBy {β : Type} (le : β → β → Bool) (a : β) : ∀ l : List β,
    (insertBy le a l).Perm (a :: l) := by
  intro l
  induction l with
  | nil => exact List.Perm.refl _
  | cons b t ih =>
    simp only [insertBy]
    split
    · exact List.Perm.refl _
    · exact ((List.Perm.cons b ih).trans (List.Perm.swap a b t))

theorem perm_isort {β : Type} (le : β → β → Bool) : ∀ l : List β, (isort le l).Perm l := by
  intro l
  induction l with
  | nil => exact List.Perm.refl _
  | cons a t ih => exact (perm_insertBy le a _).trans (List.Perm.cons a ih)

/-- sorting forgets the order of the events -/
theorem sortR_perm (d d' : List Rat) (h : d.Perm d') : sortR d = sortR d' := by
  have hp : (sortR d).Perm (sortR d') :=
    ((perm_isort _ d).trans h).trans (perm_isort _ d').symm
  exact List.Perm.eq_of_pairwise (le := fun a b : Rat => a ≤ b)
    (fun a b _ _ hab hba => Rat.le_antisymm hab hba) (sorted_sortR d) (sorted_sortR d') hp

theorem floor_toNat_mono (h h' : Rat) (hh : h ≤ h') : h.floor.toNat ≤ h'.floor.toNat := by
  have : h.floor ≤ h'.floor := Rat.le_floor_iff.mpr (Rat.le_trans (Rat.floor_le h) hh)
  exact Int.toNat_le_toNat this

/-- the linear interpolant between the order statistics of a sorted list -/
def interp (s : List Rat) (h : Rat) : Rat :=
  s.getD h.floor.toNat 0 + (h - (h.floor.toNat : Rat)) *
    (s.getD (min (h.floor.toNat + 1) (s.length - 1)) 0 - s.getD h.floor.toNat 0)

theorem interp_mono (s : List Rat) (hs : s.Pairwise (· ≤ ·)) (h h' : Rat) (h0 : 0 ≤ h)
    (hh : h ≤ h') (hn : h' ≤ (s.length : Rat) - 1) : interp s h ≤ interp s h' := by
  have h0' : 0 ≤ h' := Rat.le_trans h0 hh
  obtain ⟨f1, f2⟩ := floor_facts h h0
  obtain ⟨g1, g2⟩ := floor_facts h' h0'
  have hlo := floor_toNat_mono h h' hh
  unfold interp
  generalize h.floor.toNat = lo at f1 f2 hlo ⊢
  generalize h'.floor.toNat = lo' at g1 g2 hlo ⊢
  have hlo'n : lo' + 1 ≤ s.length := by
    have : ((lo' + 1 : Nat) : Rat) ≤ ((s.length : Nat) : Rat) := by
      simp only [Rat.natCast_add]; simp; grind
    exact Rat.natCast_le_natCast.mp this
  have i1 : lo < s.length := by omega
  have i2 : min (lo + 1) (s.length - 1) < s.length := by omega
  have i3 : lo' < s.length := by omega
  have i4 : min (lo' + 1) (s.length - 1) < s.length := by omega
  rw [← List.getElem_eq_getD (h := i1) 0, ← List.getElem_eq_getD (h := i2) 0,
    ← List.getElem_eq_getD (h := i3) 0, ← List.getElem_eq_getD (h := i4) 0]
  have ab : s[lo] ≤ s[min (lo + 1) (s.length - 1)] := sorted_mono _ hs _ _ (by omega) i2
  have ab' : s[lo'] ≤ s[min (lo' + 1) (s.length - 1)] := sorted_mono _ hs _ _ (by omega) i4
  by_cases hc : lo = lo'
  · subst hc
    have e : 0 ≤ (h' - h) * (s[min (lo + 1) (s.length - 1)] - s[lo]) :=
      Rat.mul_nonneg (by grind) (by grind)
    grind
  · have hlt : lo + 1 ≤ lo' := by omega
    obtain ⟨_, u1⟩ := interp_between _ _ (h - (lo : Rat)) ab (by grind) (by grind)
    obtain ⟨u2, _⟩ := interp_between _ _ (h' - (lo' : Rat)) ab' (by grind) (by grind)
    have mid : s[min (lo + 1) (s.length - 1)] ≤ s[lo'] := sorted_mono _ hs _ _ (by omega) i3
    exact Rat.le_trans u1 (Rat.le_trans mid u2)

theorem percentile_eq_interp (d : List Rat) (hd : d ≠ []) (q : Rat) :
    percentile d q = some (interp (sortR d) (q * ((d.length : Rat) - 1))) := by
  unfold percentile interp
  have hemp : d.isEmpty = false := by cases d <;> simp_all
  have hlen : (sortR d).length = d.length := length_isort _ d
  simp only [hemp, Bool.false_eq_true, if_false, hlen]

/-- pairs of valid coordinates as a `filterMap` over the zipped events -/
def goodOf : Val × Val → Option (Rat × Rat)
  | (.fin a, .fin b) => some (a, b)
  | _ => none

theorem goodPairs_eq_filterMap : ∀ (xs ys : List Val),
    goodPairs xs ys = (xs.zip ys).filterMap goodOf := by
  intro xs
  induction xs with
  | nil => intro ys; cases ys <;> simp [goodPairs]
  | cons x t ih =>
    intro ys
    cases ys with
    | nil => cases x <;> simp [goodPairs]
    | cons y u =>
      cases x <;> cases y <;> simp [goodPairs, goodOf, ih, List.filterMap_cons]

theorem fins_eq_filterMap : ∀ xs : List Val,
    fins xs = xs.filterMap (fun v => match v with | .fin q => some q | _ => none) := by
  intro xs
  induction xs with
  | nil => rfl
  | cons v t ih => cases v <;> simp [fins, ih]

/-- columns of two `get_statistics` requests agree on the selected events (same names, same
availability) -/
def AgreeFeat (m : List Bool) (a b : String × Option (List Val)) : Prop :=
  a.1 = b.1 ∧ match a.2, b.2 with
    | some x, some y => AgreeOn m x y
    | none, none => True
    | _, _ => False

inductive AgreeFeats (m : List Bool) :
    List (String × Option (List Val)) → List (String × Option (List Val)) → Prop where
  | nil : AgreeFeats m [] []
  | cons {a b : String × Option (List Val)} {t t' : List (String × Option (List Val))} :
      AgreeFeat m a b → AgreeFeats m t t' → AgreeFeats m (a :: t) (b :: t')

/-! ## median = 50th percentile; positions in a `flatMap` of equally long blocks -/

theorem floor_eq_of (x : Rat) (z : Int) (h1 : (z : Rat) ≤ x) (h2 : x < ((z + 1 : Int) : Rat)) :
    x.floor = z := by
  have a : z ≤ x.floor := Rat.le_floor_iff.mpr h1
  have b : x.floor < z + 1 := Rat.floor_lt_iff.mpr h2
  omega

theorem median_eq_percentile (d : List Rat) : median d = percentile d (1 / 2) := by
  unfold median percentile
  by_cases he : d.isEmpty = true
  · simp [he]
  · simp only [he, Bool.false_eq_true, if_false]
    generalize sortR d = s
    rcases Nat.mod_two_eq_zero_or_one s.length with h2 | h2
    · -- even
      have hne : ¬ (s.length % 2 = 1) := by omega
      simp only [hne, if_false]
      by_cases hk0 : s.length = 0
      · have : s = [] := List.eq_nil_of_length_eq_zero hk0
        subst this
        simp
        decide +kernel
      · obtain ⟨j, hk⟩ : ∃ j, s.length = 2 * (j + 1) := ⟨s.length / 2 - 1, by omega⟩
        have hfl : ((1 : Rat) / 2 * (((s.length : Nat) : Rat) - 1)).floor = ((j : Nat) : Int) := by
          apply floor_eq_of
          · rw [hk]; simp [Rat.natCast_mul, Rat.natCast_add, Rat.intCast_natCast]; grind
          · rw [hk]; simp [Rat.natCast_mul, Rat.natCast_add, Rat.intCast_natCast]; grind
        rw [hfl]
        simp only [Int.toNat_natCast]
        have e1 : s.length / 2 - 1 = j := by omega
        have e2 : s.length / 2 = j + 1 := by omega
        have e3 : min (j + 1) (s.length - 1) = j + 1 := by omega
        rw [e1, e2, e3, hk]
        simp [Rat.natCast_mul, Rat.natCast_add]
        grind
    · simp only [h2, if_true]
      obtain ⟨k, hk⟩ : ∃ k, s.length = 2 * k + 1 := ⟨s.length / 2, by omega⟩
      have hfl : ((1 : Rat) / 2 * (((s.length : Nat) : Rat) - 1)).floor = ((k : Nat) : Int) := by
        apply floor_eq_of
        · rw [hk]; simp [Rat.natCast_mul, Rat.natCast_add, Rat.intCast_natCast]; grind
        · rw [hk]; simp [Rat.natCast_mul, Rat.natCast_add, Rat.intCast_natCast]; grind
      rw [hfl]
      simp only [Int.toNat_natCast]
      have e2 : s.length / 2 = k := by omega
      rw [e2, hk]
      simp [Rat.natCast_mul, Rat.natCast_add]
      grind
theorem flatMap_const_getElem? {α β : Type} (f : α → List β) (k : Nat)
    (hk : ∀ a, (f a).length = k) : ∀ (l : List α) (i j : Nat), j < k →
    (l.flatMap f)[i * k + j]? = (l[i]?).bind (fun a => (f a)[j]?) := by
  intro l
  induction l with
  | nil => intro i j _; simp
  | cons a t ih =>
    intro i j hj
    rw [List.flatMap_cons]
    cases i with
    | zero =>
      simp only [Nat.zero_mul, Nat.zero_add, List.getElem?_cons_zero, Option.bind_some]
      exact List.getElem?_append_left (by rw [hk a]; exact hj)
    | succ i =>
      have hge : (f a).length ≤ (i + 1) * k + j := by
        rw [hk a, Nat.succ_mul]; omega
      rw [List.getElem?_append_right hge, List.getElem?_cons_succ, ← ih i j hj]
      congr 1
      rw [hk a, Nat.succ_mul]; omega

end DclabModel.Stats
