import DclabModel.Lemmas.Check
import DclabModel.Model.CheckLevels
/-! Helper lemmas for the second part of the integrity-check model (C13): size-exact index
    comparison, the tolerant variant, which component of `violations` emits which cue. -/
namespace DclabModel.Check
open DclabModel.Gen.CheckTable

/-! ## element-wise enumeration -/

theorem enumFrom_iff : ∀ (xs : List Nat) (k : Nat),
    enumFrom k xs = true ↔ xs = List.range' k xs.length
  | [], k => by simp [enumFrom]
  | x :: xs, k => by
    simp only [enumFrom, Bool.and_eq_true, beq_iff_eq, List.length_cons, List.range'_succ,
      List.cons.injEq, enumFrom_iff xs (k + 1)]

theorem indexOk_iff (xs : List Nat) (n : Nat) : indexOk xs n = true ↔ xs = List.range' 1 n := by
  simp only [indexOk, Bool.and_eq_true, beq_iff_eq, enumFrom_iff]
  constructor
  · rintro ⟨hl, h⟩
    rw [← hl]; exact h
  · intro h
    have hl : xs.length = n := by rw [h]; simp
    exact ⟨hl, by rw [hl]; exact h⟩

theorem enumFromTol_append : ∀ (xs ys : List Nat) (k : Nat),
    enumFromTol k (xs ++ ys) = (enumFromTol k xs && enumFromTol (k + xs.length) ys)
  | [], ys, k => by simp [enumFromTol]
  | x :: xs, ys, k => by
    simp only [List.cons_append, enumFromTol, enumFromTol_append xs ys (k + 1), List.length_cons,
      Bool.and_assoc]
    congr 3
    omega

theorem closeNat_self (k : Nat) : closeNat k k = true := by
  simp [closeNat]

theorem closeNat_succ (k : Nat) (h : 100000 ≤ k) : closeNat (k + 1) k = true := by
  simp only [closeNat, decide_eq_true_eq]
  split <;> omega

theorem enumFromTol_range_self : ∀ (m k : Nat), enumFromTol k (List.range' k m) = true
  | 0, k => by simp [enumFromTol]
  | m + 1, k => by
    simp [List.range'_succ, enumFromTol, closeNat_self, enumFromTol_range_self m (k + 1)]

theorem enumFromTol_range_shift : ∀ (m k : Nat), 100000 ≤ k →
    enumFromTol k (List.range' (k + 1) m) = true
  | 0, k, _ => by simp [enumFromTol]
  | m + 1, k, h => by
    simp [List.range'_succ, enumFromTol, closeNat_succ k h,
      enumFromTol_range_shift m (k + 1) (by omega)]

theorem skipIndex_length (p n : Nat) (h : p ≤ n) : (skipIndex p n).length = n := by
  simp [skipIndex]; omega

theorem skipIndex_ne (p n : Nat) (h : p < n) : skipIndex p n ≠ List.range' 1 n := by
  intro heq
  have hsplit : List.range' 1 n = List.range' 1 p ++ List.range' (1 + p) (n - p) := by
    have := List.range'_append (s := 1) (m := p) (n := n - p) (step := 1)
    simp only [Nat.one_mul] at this
    rw [this]; congr 1; omega
  rw [skipIndex, hsplit] at heq
  have h2 := List.append_cancel_left heq
  obtain ⟨q, hq⟩ : ∃ q, n - p = q + 1 := ⟨n - p - 1, by omega⟩
  rw [hq] at h2
  simp [List.range'_succ] at h2
  omega

/-! ## which component of `violations` emits which cue -/

theorem index_cue_iff (d : D) :
    Cue.indexNotEnumerated ∈ violations d ↔
      ∃ xs, d.index = some xs ∧ xs ≠ List.range' 1 (lends (cfgGet d.cfg) d) := by
  rw [mem_violations]
  have hB : Cue.indexNotEnumerated ∉ vBasin d := by
    simp only [vBasin, List.mem_flatMap, not_exists, not_and]
    intro b _
    split
    · simp
    · split <;> simp
  have hE : Cue.indexNotEnumerated ∉ vExternal d := by
    simp only [vExternal]; split <;> simp
  have hS : Cue.indexNotEnumerated ∉ vSize (cfgGet d.cfg) d := by simp [vSize]
  have hU : Cue.indexNotEnumerated ∉ vUnknown d := by simp [vUnknown]
  have hF : Cue.indexNotEnumerated ∉ vFl (cfgGet d.cfg) d := by
    simp only [vFl]
    split
    · simp
    · simp only [List.mem_append, not_or]
      refine ⟨⟨?_, ?_⟩, ?_⟩
      · split
        · split <;> simp
        · simp
      · split
        · split <;> simp
        · simp
      · split <;> simp
  have hR : Cue.indexNotEnumerated ∉ vRoi (cfgGet d.cfg) d := by
    simp only [vRoi]; split <;> simp
  have hP : Cue.indexNotEnumerated ∉ vPositive (cfgGet d.cfg) := by simp [vPositive]
  have hG : Cue.indexNotEnumerated ∉ vPolygon d := by simp [vPolygon]
  have hM : Cue.indexNotEnumerated ∉ vMissing (cfgGet d.cfg) d := by
    simp only [vMissing, List.mem_flatMap, not_exists, not_and]
    intro sec _
    split
    · split <;> simp
    · simp
  have hD : Cue.indexNotEnumerated ∉ vData d := by
    simp only [vData, List.mem_append, not_or]
    constructor <;> (split <;> simp)
  simp only [hB, hE, hS, hU, hF, hR, hP, hG, hM, hD, false_or, or_false]
  simp only [vIndex]
  cases hi : d.index with
  | none => simp
  | some xs =>
    by_cases h : xs = List.range' 1 (lends (cfgGet d.cfg) d) <;> simp [h]

theorem featSize_cue_iff (d : D) (f : String) :
    Cue.featSize f ∈ violations d ↔ ∃ l, (f, l) ∈ d.events ∧ l ≠ lends (cfgGet d.cfg) d := by
  rw [mem_violations]
  have hB : Cue.featSize f ∉ vBasin d := by
    simp only [vBasin, List.mem_flatMap, not_exists, not_and]
    intro b _
    split
    · simp
    · split <;> simp
  have hE : Cue.featSize f ∉ vExternal d := by
    simp only [vExternal]; split <;> simp
  have hI : Cue.featSize f ∉ vIndex (cfgGet d.cfg) d := by
    simp only [vIndex]; split
    · simp
    · split <;> simp
  have hU : Cue.featSize f ∉ vUnknown d := by simp [vUnknown]
  have hF : Cue.featSize f ∉ vFl (cfgGet d.cfg) d := by
    simp only [vFl]
    split
    · simp
    · simp only [List.mem_append, not_or]
      refine ⟨⟨?_, ?_⟩, ?_⟩
      · split
        · split <;> simp
        · simp
      · split
        · split <;> simp
        · simp
      · split <;> simp
  have hR : Cue.featSize f ∉ vRoi (cfgGet d.cfg) d := by
    simp only [vRoi]; split <;> simp
  have hP : Cue.featSize f ∉ vPositive (cfgGet d.cfg) := by simp [vPositive]
  have hG : Cue.featSize f ∉ vPolygon d := by simp [vPolygon]
  have hM : Cue.featSize f ∉ vMissing (cfgGet d.cfg) d := by
    simp only [vMissing, List.mem_flatMap, not_exists, not_and]
    intro sec _
    split
    · split <;> simp
    · simp
  have hD : Cue.featSize f ∉ vData d := by
    simp only [vData, List.mem_append, not_or]
    constructor <;> (split <;> simp)
  simp only [hB, hE, hI, hU, hF, hR, hP, hG, hM, hD, false_or, or_false]
  simp only [vSize, List.mem_append, List.mem_map, List.mem_filter]
  constructor
  · rintro (⟨⟨f', l⟩, ⟨hm, hl⟩, he⟩ | ⟨t, _, he⟩)
    · simp only [Cue.featSize.injEq] at he
      subst he
      exact ⟨l, hm, by simpa using hl⟩
    · simp at he
  · rintro ⟨l, hm, hl⟩
    exact Or.inl ⟨(f, l), ⟨hm, by simpa using hl⟩, rfl⟩

/-! ## levels of the missing-metadata cues -/

theorem mem_alerts {d : D} {c : ACue} :
    c ∈ alerts d ↔
      c ∈ aBasin d ∨ c ∈ aEmpty (cfgGet d.cfg) d ∨ c ∈ aChannelNames (cfgGet d.cfg) d ∨
      c ∈ aFlow (cfgGet d.cfg) ∨ c ∈ aMissing (cfgGet d.cfg) d := by
  simp only [alerts, alertsWith, List.mem_append, or_assoc]

theorem missingKey_viol_iff (d : D) (s k : String) :
    Cue.missingKey s k ∈ violations d ↔ Cue.missingKey s k ∈ vMissing (cfgGet d.cfg) d := by
  rw [mem_violations]
  have hB : Cue.missingKey s k ∉ vBasin d := by
    simp only [vBasin, List.mem_flatMap, not_exists, not_and]
    intro b _
    split
    · simp
    · split <;> simp
  have hE : Cue.missingKey s k ∉ vExternal d := by
    simp only [vExternal]; split <;> simp
  have hI : Cue.missingKey s k ∉ vIndex (cfgGet d.cfg) d := by
    simp only [vIndex]; split
    · simp
    · split <;> simp
  have hS : Cue.missingKey s k ∉ vSize (cfgGet d.cfg) d := by simp [vSize]
  have hU : Cue.missingKey s k ∉ vUnknown d := by simp [vUnknown]
  have hF : Cue.missingKey s k ∉ vFl (cfgGet d.cfg) d := by
    simp only [vFl]
    split
    · simp
    · simp only [List.mem_append, not_or]
      refine ⟨⟨?_, ?_⟩, ?_⟩
      · split
        · split <;> simp
        · simp
      · split
        · split <;> simp
        · simp
      · split <;> simp
  have hR : Cue.missingKey s k ∉ vRoi (cfgGet d.cfg) d := by
    simp only [vRoi]; split <;> simp
  have hP : Cue.missingKey s k ∉ vPositive (cfgGet d.cfg) := by simp [vPositive]
  have hG : Cue.missingKey s k ∉ vPolygon d := by simp [vPolygon]
  have hD : Cue.missingKey s k ∉ vData d := by
    simp only [vData, List.mem_append, not_or]
    constructor <;> (split <;> simp)
  simp only [hB, hE, hI, hS, hU, hF, hR, hP, hG, hD, false_or, or_false]

/-- a key reported missing at violation level is mandatory -/
theorem viol_missingKey_mandatory (d : D) (s k : String)
    (h : Cue.missingKey s k ∈ violations d) :
    (keysOf (important (hasFl d)) s).contains k = true := by
  rw [missingKey_viol_iff] at h
  simp only [vMissing, List.mem_flatMap] at h
  obtain ⟨sec, _, h⟩ := h
  split at h
  · split at h <;> simp at h
  · simp only [List.mem_map, List.mem_filter, Bool.and_eq_true] at h
    obtain ⟨key, ⟨_, ⟨_, himp⟩⟩, he⟩ := h
    simp only [Cue.missingKey.injEq] at he
    obtain ⟨h1, h2⟩ := he
    subst h1; subst h2
    exact himp

def chanNamesNotMandatory : Bool :=
  chanKeys.all fun ce => !(keysOf (important true) "fluorescence").contains ce.1 &&
    !(keysOf (important false) "fluorescence").contains ce.1

theorem chan_names_not_mandatory : chanNamesNotMandatory = true := by decide

/-- a key reported missing at alert level is not mandatory -/
theorem alert_missingKey_not_mandatory (d : D) (s k : String)
    (h : ACue.missingKey s k ∈ alerts d) :
    (keysOf (important (hasFl d)) s).contains k = false := by
  rw [mem_alerts] at h
  rcases h with h | h | h | h | h
  · simp only [aBasin, List.mem_flatMap] at h
    obtain ⟨b, _, h⟩ := h
    split at h <;> simp at h
  · simp only [aEmpty] at h
    split at h <;> simp at h
  · simp only [aChannelNames] at h
    split at h
    · simp at h
    · simp only [List.mem_flatMap] at h
      obtain ⟨ce, hce, h⟩ := h
      have htab := chan_names_not_mandatory
      simp only [chanNamesNotMandatory, List.all_eq_true, Bool.and_eq_true,
        Bool.not_eq_true'] at htab
      split at h
      · simp only [List.mem_singleton, ACue.missingKey.injEq] at h
        obtain ⟨h1, h2⟩ := h
        subst h1; subst h2
        cases hasFl d
        · exact (htab ce hce).2
        · exact (htab ce hce).1
      · split at h <;> simp at h
  · simp only [aFlow] at h
    split at h
    · split at h <;> simp at h
    · simp at h
  · simp only [aMissing, List.mem_append, List.mem_flatMap] at h
    rcases h with ⟨sec, _, h⟩ | h
    · split at h
      · split at h <;> simp at h
      · simp only [List.mem_map, List.mem_filter, Bool.and_eq_true, Bool.not_eq_true'] at h
        obtain ⟨key, ⟨_, ⟨_, himp⟩⟩, he⟩ := h
        simp only [ACue.missingKey.injEq] at he
        obtain ⟨h1, h2⟩ := he
        subst h1; subst h2
        exact himp
    · split at h <;> simp at h

theorem exitCode_ge_two (a v : Nat) : (exitCode a v = 2 ∨ exitCode a v = 3) ↔ v ≠ 0 := by
  unfold exitCode
  by_cases ha : a = 0 <;> by_cases hv : v = 0 <;> simp [ha, hv]

/-! ## export: `m` rows of every feature written into a new file -/

theorem hasEvent_resizeD (s : D) (m : Nat) (f : String) : hasEvent (resizeD s m) f = hasEvent s f := by
  simp only [hasEvent, resizeD, List.map_map]
  rfl

theorem hasFl_resizeD (s : D) (m : Nat) : hasFl (resizeD s m) = hasFl s := by
  simp only [hasFl, hasEvent_resizeD]

theorem resize_get_other (s : D) (m : Nat) (k : Key) (h : k ≠ kEventCount) :
    cfgGet (resizeD s m).cfg k = cfgGet s.cfg k := by
  simp only [resizeD]
  exact setIf_other _ _ _ _ h

theorem resize_get_isSome (s : D) (m : Nat) (k : Key) (h : (cfgGet s.cfg k).isSome) :
    (cfgGet (resizeD s m).cfg k).isSome := by
  simp only [resizeD]
  exact setIf_isSome _ _ _ _ h

theorem lends_resizeD (s : D) (m : Nat) (h : stored s = true) :
    lends (cfgGet (resizeD s m).cfg) (resizeD s m) = m := by
  have : cfgGet (resizeD s m).cfg ("experiment", "event count") = some (natVal m) := by
    simp only [resizeD, h, if_true]
    exact setIf_same _ _ _
  rw [lends_of_some _ _ _ this]
  simp [toNat, natVal]

theorem stored_of_hasEvent (s : D) (f : String) (h : hasEvent s f = true) : stored s = true := by
  simp only [hasEvent, List.contains_iff_mem, List.mem_map] at h
  obtain ⟨e, he, _⟩ := h
  simp only [stored, Bool.or_eq_true, Bool.not_eq_true', List.isEmpty_eq_false_iff]
  left
  intro h0
  rw [h0] at he
  cases he

/-- a clean description stays clean when `m` rows of each of its features are written into a
    new file -/
theorem resize_guarantees (s : D) (m : Nat) (g : Guarantees s) : Guarantees (resizeD s m) := by
  have hne : ∀ k, k ∈ positiveKeys ∨ k = kRoiX ∨ k = kRoiY ∨ k = kChannels ∨ k = kSamples ∨
      k = ("fluorescence", "laser count") → k ≠ kEventCount := by
    intro k hk
    simp only [positiveKeys, List.mem_cons, List.not_mem_nil, or_false] at hk
    rcases hk with (rfl | rfl | rfl | rfl) | rfl | rfl | rfl | rfl | rfl <;> decide
  refine
    { lengths := ?_, traceLens := ?_, index := ?_, known := ?_, noExternal := rfl,
      roi := ?_, channels := ?_, lasers := ?_, samples := ?_, positive := ?_,
      polygons := g.polygons, basins := ?_, complete := ?_, data := g.data }
  · intro fl hfl
    simp only [resizeD, List.mem_map] at hfl
    obtain ⟨e, he, rfl⟩ := hfl
    have hs : stored s = true := by
      simp only [stored, Bool.or_eq_true, Bool.not_eq_true', List.isEmpty_eq_false_iff]
      left; intro h0; rw [h0] at he; cases he
    rw [lends_resizeD s m hs]
  · intro t ht
    simp only [resizeD, List.mem_map] at ht
    obtain ⟨e, he, rfl⟩ := ht
    have hs : stored s = true := by
      simp only [stored, Bool.or_eq_true, Bool.not_eq_true', List.isEmpty_eq_false_iff]
      right; intro h0; rw [h0] at he; cases he
    rw [lends_resizeD s m hs]
  · intro xs hxs
    simp only [resizeD] at hxs
    split at hxs
    · rename_i hi
      rw [lends_resizeD s m (stored_of_hasEvent s _ hi)]
      cases hxs; rfl
    · cases hxs
  · intro fk hfk
    simp only [resizeD] at hfk
    exact (List.mem_filter.mp hfk).2
  · intro vx vy hx hy i hi
    rw [resize_get_other s m _ (hne _ (Or.inr (Or.inl rfl)))] at hx
    rw [resize_get_other s m _ (hne _ (Or.inr (Or.inr (Or.inl rfl))))] at hy
    exact g.roi vx vy hx hy i hi
  · intro hs v hv
    rw [hasFl_resizeD] at hs
    rw [resize_get_other s m _ (hne _ (Or.inr (Or.inr (Or.inr (Or.inl rfl)))))] at hv
    have hcf : channelsFound (cfgGet (resizeD s m).cfg) (resizeD s m)
        = channelsFound (cfgGet s.cfg) s := by
      simp only [channelsFound]
      congr 1
      apply List.filter_congr
      intro ce _
      rw [hasEvent_resizeD, resize_get_other s m _ (by simp [kEventCount])]
    rw [hcf]
    exact g.channels hs v hv
  · intro hs v hv
    rw [hasFl_resizeD] at hs
    rw [resize_get_other s m _ (hne _ (Or.inr (Or.inr (Or.inr (Or.inr (Or.inr rfl))))))] at hv
    have : lasersFound (cfgGet (resizeD s m).cfg) = lasersFound (cfgGet s.cfg) := by
      apply lasersFound_congr
      intro k hk
      apply resize_get_other
      intro h
      apply hk
      rw [h]; simp [autoKeys]
    rw [this]
    exact g.lasers hs v hv
  · intro hs v hv t ht
    rw [hasFl_resizeD] at hs
    rw [resize_get_other s m _ (hne _ (Or.inr (Or.inr (Or.inr (Or.inr (Or.inl rfl))))))] at hv
    simp only [resizeD, List.mem_map] at ht
    obtain ⟨e, he, rfl⟩ := ht
    exact g.samples hs v hv e he
  · intro k hk v hv
    rw [resize_get_other s m _ (hne _ (Or.inl hk))] at hv
    exact g.positive k hk v hv
  · intro b hb
    simp only [resizeD] at hb
    cases hb
  · intro sec hsec
    rw [hasFl_resizeD] at hsec ⊢
    obtain ⟨hp, hk⟩ := g.complete sec hsec
    refine ⟨?_, fun key hkey himp hopt => resize_get_isSome s m _ (hk key hkey himp hopt)⟩
    simp only [sectionPresent, Bool.or_eq_true, List.any_eq_true] at hp ⊢
    rcases hp with hp | ⟨k, hk1, hk2⟩
    · exact Or.inl hp
    · exact Or.inr ⟨k, hk1, resize_get_isSome s m _ hk2⟩

end DclabModel.Check
