import DclabModel.Model.WriterMeta
import DclabModel.Lemmas.MetaWriter
import DclabModel.Lemmas.Writer
/-! Helper lemmas for the metadata part of C01 (`Model/WriterMeta.lean`): the attribute list
refines the finite map, metadata calls commute with the data model, closed form of one call. -/
namespace DclabModel.WriterMeta
open DclabModel.Writer DclabModel.Meta

theorem attrs_get_nil (K : Key) : Attrs.get? [] K = none := by
  simp [Attrs.get?]

theorem storeAll_refines (t : Tbl) (es : List Entry) (a : Attrs) (m : MMap)
    (h : ∀ K, a.get? K = m K) : ∀ K, (storeAll t a es).1.get? K = specStore t m es K := by
  induction es generalizing a m with
  | nil => simpa [storeAll, specStore] using h
  | cons e r ih =>
    obtain ⟨sec, key, v⟩ := e
    simp only [storeAll, specStore]
    cases hs : t.storedValue sec key v with
    | error e => simpa using h
    | ok w =>
      apply ih
      intro K
      rw [attrs_get_put]
      simp only [MMap.set, h]

theorem xstep_data (cfg : Cfg) (t : Tbl) (x : XSt) (op : XOp) :
    (xstep cfg t x op).1.s = (match op with | .w o => (step cfg x.s o).1 | .store _ => x.s) := by
  cases op <;> rfl

theorem xstep_refines (cfg : Cfg) (t : Tbl) (x : XSt) (m : MMap) (op : XOp)
    (h : ∀ K, x.a.get? K = m K) :
    ∀ K, (xstep cfg t x op).1.a.get? K = mspecStep cfg.count t x.s.f m op K := by
  intro K
  cases op with
  | store es =>
    simp only [xstep, storeMetadata, mspecStep]
    by_cases ha : admissible t es = true
    · simp only [ha, if_true]
      exact storeAll_refines t es x.a m h K
    · simp only [ha]
      exact h K
  | w o =>
    cases o with
    | openW mode =>
      simp only [xstep, attrsAfter, mspecStep]
      by_cases hm : mode = .reset
      · simp only [hm, if_true]; exact attrs_get_nil K
      · simp only [hm, if_false]; exact h K
    | close =>
      simp only [xstep, attrsAfter, mspecStep]
      cases exitCount cfg.count x.s.f with
      | none => exact h K
      | some n =>
        simp only []
        rw [attrs_get_put]
        simp only [MMap.set, h]
    | feat _ _ _ _ => exact h K
    | trace _ _ _ => exact h K
    | contour _ => exact h K
    | log _ _ => exact h K
    | table _ _ => exact h K

theorem xrun_refines (cfg : Cfg) (t : Tbl) (ops : List XOp) (x : XSt) (m : MMap)
    (h : ∀ K, x.a.get? K = m K) :
    ∀ K, (xrun cfg t x ops).a.get? K = mspecRun cfg t x.s m ops K := by
  induction ops generalizing x m with
  | nil => simpa [xrun, mspecRun] using h
  | cons op r ih =>
    intro K
    simp only [xrun, mspecRun]
    rw [ih (xstep cfg t x op).1 (mspecStep cfg.count t x.s.f m op) (xstep_refines cfg t x m op h) K,
      xstep_data]
    cases op <;> rfl

theorem xrun_append (cfg : Cfg) (t : Tbl) (x : XSt) (a b : List XOp) :
    xrun cfg t x (a ++ b) = xrun cfg t (xrun cfg t x a) b := by
  induction a generalizing x with
  | nil => rfl
  | cons op r ih => simp only [List.cons_append, xrun, ih]

/-- metadata calls do not touch the data: the data component of a history is the run of
`Model/Writer.lean` on the history without its metadata calls -/
theorem xrun_data (cfg : Cfg) (t : Tbl) (x : XSt) (ops : List XOp) :
    (xrun cfg t x ops).s = run cfg x.s (dataOps ops) := by
  induction ops generalizing x with
  | nil => rfl
  | cons op r ih =>
    cases op with
    | w o => simp only [xrun, dataOps, run, ih, xstep]
    | store es => simp only [xrun, dataOps, ih, xstep]

/-- one call all of whose entries convert: key-wise the value written last, other keys kept -/
theorem specStore_last (t : Tbl) (es : List Entry) (m : MMap) (hc : allConvert t es = true)
    (K : Key) :
    specStore t m es K = match lastWrite es K with
      | some v => (t.storedValue K.1 K.2 v).toOption
      | none => m K := by
  induction es generalizing m with
  | nil => rfl
  | cons e r ih =>
    obtain ⟨sec, key, v⟩ := e
    simp only [allConvert, List.all_cons, Bool.and_eq_true] at hc
    obtain ⟨h1, h2⟩ := hc
    simp only [specStore, lastWrite]
    cases hs : t.storedValue sec key v with
    | error e => simp [hs, Except.toOption] at h1
    | ok w =>
      simp only []
      rw [ih _ (by simpa [allConvert] using h2)]
      cases hl : lastWrite r K with
      | some x => rfl
      | none =>
        simp only [MMap.set]
        by_cases hk : (sec, key) = K
        · subst hk; simp [hs, Except.toOption]
        · simp [hk]

/-- calls that do not touch `K` keep its value -/
theorem untouched_keeps (cfg : Cfg) (t : Tbl) (K : Key) (ops : List XOp)
    (hu : ops.all (fun op => !touches K op) = true) (x : XSt) :
    (xrun cfg t x ops).a.get? K = x.a.get? K := by
  induction ops generalizing x with
  | nil => rfl
  | cons op r ih =>
    simp only [List.all_cons, Bool.and_eq_true, Bool.not_eq_true'] at hu
    obtain ⟨h1, h2⟩ := hu
    simp only [xrun]
    rw [ih (by simpa using h2)]
    rw [xstep_refines cfg t x (fun K => x.a.get? K) op (fun _ => rfl) K]
    cases op with
    | store es =>
      simp only [touches] at h1
      simp only [mspecStep]
      by_cases ha : admissible t es = true
      · simp only [ha, if_true]
        -- the accepted prefix does not contain K
        have : ∀ (es : List Entry) (m : MMap), lastWrite es K = none → specStore t m es K = m K := by
          intro es
          induction es with
          | nil => intro m _; rfl
          | cons e r ih2 =>
            intro m hl
            obtain ⟨sec, key, v⟩ := e
            simp only [lastWrite] at hl
            cases hr : lastWrite r K with
            | some y => simp [hr] at hl
            | none =>
              simp only [hr] at hl
              have hk : (sec, key) ≠ K := by
                intro hk; simp [hk] at hl
              simp only [specStore]
              cases t.storedValue sec key v with
              | error e => rfl
              | ok w =>
                simp only []
                rw [ih2 _ hr]
                simp [MMap.set, hk]
        exact this es _ (by simpa using h1)
      · simp only [ha]; rfl
    | w o =>
      cases o with
      | openW mode =>
        simp only [touches, decide_eq_false_iff_not] at h1
        simp only [mspecStep, h1, if_false]
      | close =>
        simp only [touches, decide_eq_false_iff_not] at h1
        simp only [mspecStep]
        cases exitCount cfg.count x.s.f with
        | none => rfl
        | some n =>
          simp only [MMap.set]
          have : kEventCount ≠ K := fun h => h1 h.symm
          simp [this]
      | feat _ _ _ _ => rfl
      | trace _ _ _ => rfl
      | contour _ => rfl
      | log _ _ => rfl
      | table _ _ => rfl

theorem rectify_evcount (rule : CountRule) (f : File) :
    (Writer.rectify rule f).evcount = (match exitCount rule f with | some n => some n | none => f.evcount) := by
  unfold Writer.rectify exitCount
  cases minKey (topKeys f) <;> rfl

end DclabModel.WriterMeta
