import DclabModel.Model.Http
/-! Helper lemmas for property C19 (chunk cache of `HTTPFile`). Core Lean only. -/
namespace DclabModel.Http

/-- the `i`-th chunk of the resource -/
def chunkOf (blob : Bytes) (cs i : Nat) : Bytes := (blob.drop (i * cs)).take cs

/-- cache invariant: correct content for every chunk that starts inside the resource,
bounded size, distinct keys -/
structure Inv (sv : Server) (cfg : Cfg) (cache : List (Nat × Bytes)) : Prop where
  content : ∀ p ∈ cache, p.1 * cfg.cs < sv.len → p.2 = chunkOf sv.blob cfg.cs p.1
  bounded : cache.length ≤ cfg.keep
  nodup   : (cache.map Prod.fst).Nodup

theorem lookup_mem {i : Nat} {c : Bytes} {l : List (Nat × Bytes)} :
    lookup i l = some c → (i, c) ∈ l := by
  induction l with
  | nil => simp [lookup]
  | cons h t ih =>
    obtain ⟨k, v⟩ := h
    simp only [lookup]
    split
    · rename_i heq; intro h; cases h; subst heq; simp
    · intro h; exact List.mem_cons_of_mem _ (ih h)

theorem lookup_none_iff {i : Nat} {l : List (Nat × Bytes)} :
    lookup i l = none ↔ i ∉ l.map Prod.fst := by
  induction l with
  | nil => simp [lookup]
  | cons h t ih =>
    obtain ⟨k, v⟩ := h
    simp only [lookup, List.map_cons, List.mem_cons, not_or]
    split
    · rename_i heq; subst heq; simp
    · rename_i hne
      rw [ih]
      constructor
      · intro h; exact ⟨fun e => hne e.symm, h⟩
      · intro h; exact h.2

theorem lookup_append_new {i : Nat} {v : Bytes} {l : List (Nat × Bytes)}
    (h : i ∉ l.map Prod.fst) : lookup i (l ++ [(i, v)]) = some v := by
  induction l with
  | nil => simp [lookup]
  | cons hd t ih =>
    obtain ⟨k, w⟩ := hd
    simp only [List.map_cons, List.mem_cons, not_or] at h
    simp only [List.cons_append, lookup]
    split
    · rename_i heq; exact absurd heq.symm h.1
    · exact ih h.2

theorem pop_sublist (l : List (Nat × Bytes)) : (popFirstNonzero l).Sublist l := by
  induction l with
  | nil => simp [popFirstNonzero]
  | cons h t ih =>
    obtain ⟨k, v⟩ := h
    simp only [popFirstNonzero]
    split
    · exact List.sublist_cons_self _ _
    · exact ih.cons_cons _

/-- a list with at least two distinct keys has a non-zero key -/
def HasNonzero (l : List (Nat × Bytes)) : Prop := ∃ p ∈ l, p.1 ≠ 0

theorem hasNonzero_of_two {l : List (Nat × Bytes)} (hl : 2 ≤ l.length)
    (hn : (l.map Prod.fst).Nodup) : HasNonzero l := by
  match l, hl, hn with
  | a :: b :: r, _, hn =>
    by_cases ha : a.1 = 0
    · refine ⟨b, by simp, ?_⟩
      intro hb
      simp only [List.map_cons, List.nodup_cons, List.mem_cons, not_or] at hn
      exact hn.1.1 (by rw [ha, hb])
    · exact ⟨a, by simp, ha⟩

theorem pop_append {l : List (Nat × Bytes)} (x : Nat × Bytes) (h : HasNonzero l) :
    popFirstNonzero (l ++ [x]) = popFirstNonzero l ++ [x] := by
  induction l with
  | nil => obtain ⟨p, hp, _⟩ := h; cases hp
  | cons hd t ih =>
    obtain ⟨k, v⟩ := hd
    simp only [List.cons_append, popFirstNonzero]
    split
    · rfl
    · rename_i hk
      have hk0 : k = 0 := by
        exact Decidable.byContradiction (fun hc => hk hc)
      have : HasNonzero t := by
        obtain ⟨p, hp, hp0⟩ := h
        rcases List.mem_cons.mp hp with h1 | h1
        · subst h1; exact absurd hk0 hp0
        · exact ⟨p, h1, hp0⟩
      rw [ih this]; rfl

theorem pop_length {l : List (Nat × Bytes)} (h : HasNonzero l) :
    (popFirstNonzero l).length + 1 = l.length := by
  induction l with
  | nil => obtain ⟨p, hp, _⟩ := h; cases hp
  | cons hd t ih =>
    obtain ⟨k, v⟩ := hd
    simp only [popFirstNonzero]
    split
    · simp
    · rename_i hk
      have hk0 : k = 0 := Decidable.byContradiction (fun hc => hk hc)
      have : HasNonzero t := by
        obtain ⟨p, hp, hp0⟩ := h
        rcases List.mem_cons.mp hp with h1 | h1
        · subst h1; exact absurd hk0 hp0
        · exact ⟨p, h1, hp0⟩
      simp [ih this]

theorem take_min_length {α} (l : List α) (n : Nat) : l.take (min n l.length) = l.take n := by
  by_cases h : n ≤ l.length
  · rw [Nat.min_eq_left h]
  · have h' : l.length ≤ n := by omega
    rw [Nat.min_eq_right h', List.take_of_length_le h', List.take_of_length_le (Nat.le_refl _)]

theorem serve_chunk (sv : Server) (cs i : Nat) (hcs : 0 < cs) (hi : i * cs < sv.len) :
    sv.serve (i * cs) (min ((i + 1) * cs) sv.len) = chunkOf sv.blob cs i := by
  unfold Server.serve chunkOf
  have e : (i + 1) * cs = i * cs + cs := Nat.succ_mul i cs
  have h2 : i * cs < min ((i + 1) * cs) sv.len := by
    rw [e]; exact Nat.lt_min.mpr ⟨by omega, hi⟩
  rw [if_pos ⟨hi, h2⟩]
  have e2 : min ((i + 1) * cs) sv.len - i * cs = min cs (sv.blob.drop (i * cs)).length := by
    rw [e, List.length_drop]; unfold Server.len; omega
  rw [e2, take_min_length]

end DclabModel.Http

namespace DclabModel.Http

/-- `get_cache_chunk` returns the right chunk and keeps the invariant (capacity ≥ 2) -/
theorem getChunk_spec (sv : Server) (cfg : Cfg) (st : St) (i : Nat)
    (hcs : 0 < cfg.cs) (hk : 2 ≤ cfg.keep) (hinv : Inv sv cfg st.cache) :
    ∃ c, (getChunk sv cfg st i).2 = some c ∧
      (i * cfg.cs < sv.len → c = chunkOf sv.blob cfg.cs i) ∧
      Inv sv cfg (getChunk sv cfg st i).1.cache ∧ (getChunk sv cfg st i).1.pos = st.pos := by
  unfold getChunk
  cases hl : lookup i st.cache with
  | some c =>
    have hle : ¬ st.cache.length > cfg.keep := by have := hinv.bounded; omega
    simp only [Option.isNone_some, Bool.false_eq_true, if_false, hle]
    exact ⟨c, hl, fun hi => hinv.content _ (lookup_mem hl) hi, hinv, trivial⟩
  | none =>
    have hnot : i ∉ st.cache.map Prod.fst := lookup_none_iff.mp hl
    simp only [Option.isNone_none, if_true]
    have hv0 := serve_chunk sv cfg.cs i hcs
    generalize sv.serve (i * cfg.cs) (min ((i + 1) * cfg.cs) sv.len) = v at hv0 ⊢
    have hv : i * cfg.cs < sv.len → v = chunkOf sv.blob cfg.cs i := hv0
    have hcont1 : ∀ p ∈ st.cache ++ [(i, v)], p.1 * cfg.cs < sv.len →
        p.2 = chunkOf sv.blob cfg.cs p.1 := by
      intro p hp hlt
      rcases List.mem_append.mp hp with h1 | h1
      · exact hinv.content p h1 hlt
      · simp only [List.mem_singleton] at h1; subst h1; exact hv hlt
    have hnd1 : ((st.cache ++ [(i, v)]).map Prod.fst).Nodup := by
      rw [List.map_append, List.nodup_append]
      refine ⟨hinv.nodup, by simp, ?_⟩
      intro a ha b hb
      simp only [List.map_cons, List.map_nil, List.mem_singleton] at hb
      subst hb; intro e; subst e; exact hnot ha
    by_cases hover : (st.cache ++ [(i, v)]).length > cfg.keep
    · simp only [hover, if_true]
      have hlen : st.cache.length = cfg.keep := by
        have := hinv.bounded; simp only [List.length_append, List.length_singleton] at hover; omega
      have hnz : HasNonzero st.cache := hasNonzero_of_two (by omega) hinv.nodup
      rw [pop_append _ hnz]
      have hsub := pop_sublist st.cache
      have hnot' : i ∉ (popFirstNonzero st.cache).map Prod.fst := by
        intro h; exact hnot ((hsub.map Prod.fst).subset h)
      refine ⟨v, lookup_append_new hnot', hv, ?_, trivial⟩
      refine ⟨?_, ?_, ?_⟩
      · intro p hp hlt
        apply hcont1 p _ hlt
        rcases List.mem_append.mp hp with h1 | h1
        · exact List.mem_append_left _ (hsub.subset h1)
        · exact List.mem_append_right _ h1
      · have := pop_length hnz
        simp only [List.length_append, List.length_singleton]; omega
      · have : ((popFirstNonzero st.cache ++ [(i, v)]).map Prod.fst).Sublist
            ((st.cache ++ [(i, v)]).map Prod.fst) :=
          (List.Sublist.append hsub (List.Sublist.refl _)).map _
        exact hnd1.sublist this
    · simp only [hover, if_false]
      refine ⟨v, lookup_append_new hnot, hv, ⟨hcont1, by omega, hnd1⟩, trivial⟩

theorem chunk_drop (blob : Bytes) (cs i a : Nat) :
    (chunkOf blob cs i).drop a = (blob.drop (i * cs + a)).take (cs - a) := by
  unfold chunkOf
  rw [List.drop_take, List.drop_drop]

end DclabModel.Http

namespace DclabModel.Http

theorem div_next (pos cs : Nat) (hcs : 0 < cs) : (pos + (cs - pos % cs)) / cs = pos / cs + 1 := by
  have h1 := Nat.div_add_mod pos cs
  have h2 := Nat.mod_lt pos hcs
  have : pos + (cs - pos % cs) = cs * (pos / cs + 1) := by
    rw [Nat.mul_add, Nat.mul_one]; omega
  rw [this, Nat.mul_div_cancel_left _ hcs]

theorem mod_add_small (pos t cs : Nat) (h : pos % cs + t < cs) :
    (pos + t) % cs = pos % cs + t ∧ (pos + t) / cs = pos / cs := by
  have hcs : 0 < cs := by omega
  have h1 := Nat.div_add_mod pos cs
  have e : pos + t = (pos % cs + t) + cs * (pos / cs) := by omega
  constructor
  · rw [e, Nat.add_mul_mod_self_left, Nat.mod_eq_of_lt h]
  · rw [e, Nat.add_mul_div_left _ _ hcs, Nat.div_eq_of_lt h, Nat.zero_add]

/-- loop invariant of `read_range_cached`: what is appended is exactly the requested slice -/
theorem readLoop_spec (sv : Server) (cfg : Cfg) (stop : Nat)
    (hcs : 0 < cfg.cs) (hk : 2 ≤ cfg.keep) (hstop : stop ≤ sv.len) :
    ∀ (count idx pos toread : Nat) (st : St) (data : Bytes),
      Inv sv cfg st.cache → pos + toread = stop → idx = pos / cfg.cs →
      idx + count = stop / cfg.cs + 1 →
      ∃ st', readLoop sv cfg stop count idx pos toread st data
              = (st', some (data ++ (sv.blob.drop pos).take toread)) ∧
             Inv sv cfg st'.cache ∧ st'.pos = st.pos := by
  intro count
  induction count with
  | zero =>
    intro idx pos toread st data _ hsum hidx hcnt
    exfalso
    have : pos / cfg.cs ≤ stop / cfg.cs := Nat.div_le_div_right (by omega)
    omega
  | succ c ih =>
    intro idx pos toread st data hinv hsum hidx hcnt
    unfold readLoop
    obtain ⟨chunk, hget, hchunk, hinv', hpos'⟩ := getChunk_spec sv cfg st idx hcs hk hinv
    have hsplit : getChunk sv cfg st idx = ((getChunk sv cfg st idx).1, some chunk) := by
      rw [← hget]
    rw [hsplit]
    simp only
    have hdm := Nat.div_add_mod pos cfg.cs
    have hmod := Nat.mod_lt pos hcs
    have e1 : idx * cfg.cs + pos % cfg.cs = pos := by
      rw [hidx, Nat.mul_comm]; exact hdm
    by_cases h0 : toread = 0
    · subst h0
      simp only [if_true, List.take_zero, List.append_nil]
      exact ⟨_, rfl, hinv', hpos'⟩
    · simp only [h0, if_false]
      have hin : idx * cfg.cs < sv.len := by omega
      have hc := hchunk hin
      by_cases hbig : pos % cfg.cs + toread ≥ cfg.cs
      · simp only [hbig, if_true]
        obtain ⟨st'', hrun, hinv'', hpos''⟩ :=
          ih (idx + 1) (pos + (cfg.cs - pos % cfg.cs)) (toread - (cfg.cs - pos % cfg.cs))
            (getChunk sv cfg st idx).1 (data ++ chunk.drop (pos % cfg.cs)) hinv'
            (by omega) (by rw [div_next pos cfg.cs hcs, hidx]) (by omega)
        refine ⟨st'', ?_, hinv'', by rw [hpos'', hpos']⟩
        rw [hrun, hc, chunk_drop, e1, List.append_assoc]
        congr 2
        have : toread = (cfg.cs - pos % cfg.cs) + (toread - (cfg.cs - pos % cfg.cs)) := by omega
        conv => rhs; rw [this, List.take_add]
        rw [List.drop_drop]
      · simp only [hbig, if_false]
        have hsm : pos % cfg.cs + toread < cfg.cs := by omega
        obtain ⟨hm, hd⟩ := mod_add_small pos toread cfg.cs hsm
        rw [hsum] at hm hd
        have hc0 : c = 0 := by omega
        subst hc0
        simp only [readLoop]
        refine ⟨_, ?_, hinv', hpos'⟩
        congr 3
        rw [hc]
        unfold chunkOf
        rw [hm, List.take_take, Nat.min_eq_left (by omega), List.drop_take, List.drop_drop, e1]
        congr 1
        omega

/-- `read_range_cached(start, stop)` inside the resource returns `blob[start:stop]` -/
theorem readRange_spec (sv : Server) (cfg : Cfg) (st : St) (start stop : Nat)
    (hcs : 0 < cfg.cs) (hk : 2 ≤ cfg.keep) (hle : start ≤ stop) (hstop : stop ≤ sv.len)
    (hinv : Inv sv cfg st.cache) :
    ∃ st', readRange sv cfg st start stop = (st', some ((sv.blob.drop start).take (stop - start))) ∧
      Inv sv cfg st'.cache ∧ st'.pos = st.pos := by
  unfold readRange
  have hdiv : start / cfg.cs ≤ stop / cfg.cs := Nat.div_le_div_right hle
  obtain ⟨st', h, hi, hp⟩ := readLoop_spec sv cfg stop hcs hk hstop
    (stop / cfg.cs + 1 - start / cfg.cs) (start / cfg.cs) start (stop - start) st [] hinv
    (by omega) rfl (by omega)
  exact ⟨st', by simpa using h, hi, hp⟩

end DclabModel.Http
