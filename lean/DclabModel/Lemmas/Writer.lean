import DclabModel.Model.Writer
/-!
Helper lemmas for C01: association lists, slice assignment, the chunk-wise populate loop,
ragged group names, text storage.
-/
namespace DclabModel.Writer

/-! ### association lists -/
section alist
variable {κ α : Type} [DecidableEq κ]

theorem lookup_put (a k : κ) (v : α) (l : List (κ × α)) :
    lookup a (put k v l) = if k = a then some v else lookup a l := by
  induction l with
  | nil => simp [put, lookup]
  | cons h t ih =>
    obtain ⟨k', v'⟩ := h
    simp only [put]
    by_cases h1 : k' = k
    · subst h1
      simp only [if_true, lookup]
      by_cases h2 : k' = a <;> simp [h2]
    · simp only [h1, if_false, lookup, ih]
      by_cases h2 : k' = a
      · subst h2
        simp [Ne.symm h1]
      · simp [h2]

theorem lookup_erase (a k : κ) (l : List (κ × α)) :
    lookup a (erase k l) = if k = a then none else lookup a l := by
  induction l with
  | nil => simp [erase, lookup]
  | cons h t ih =>
    obtain ⟨k', v'⟩ := h
    simp only [erase]
    by_cases h1 : k' = k
    · subst h1
      simp only [if_true, ih, lookup]
      by_cases h2 : k' = a <;> simp [h2]
    · simp only [h1, if_false, lookup, ih]
      by_cases h2 : k' = a
      · subst h2
        simp [Ne.symm h1]
      · simp [h2]

theorem lookup_append (a : κ) (l₁ l₂ : List (κ × α)) :
    lookup a (l₁ ++ l₂) = match lookup a l₁ with
      | some v => some v
      | none => lookup a l₂ := by
  induction l₁ with
  | nil => simp [lookup]
  | cons h t ih =>
    obtain ⟨k', v'⟩ := h
    simp only [List.cons_append, lookup]
    by_cases h2 : k' = a <;> simp [h2, ih]

end alist

/-! ### slices and the populate loop -/

theorem setSlice_mid (a m z d : List Tok) (h : m.length = d.length) :
    setSlice (a ++ m ++ z) a.length d = a ++ d ++ z := by
  unfold setSlice
  have h1 : (a ++ m ++ z).take a.length = a := by
    rw [List.append_assoc, List.take_left']
    rfl
  have h2 : (a ++ m ++ z).drop (a.length + d.length) = z := by
    rw [← h, ← List.length_append, List.drop_left']
    rfl
  rw [h1, h2]

theorem resize_grow (old : List Tok) (n : Nat) :
    resize old (old.length + n) = old ++ List.replicate n fill := by
  unfold resize
  rw [List.take_of_length_le (by omega)]
  congr 2
  omega

/-- loop invariant of the chunk-wise population -/
theorem chunkLoop_inv (cs : Nat) (old data : List Tok) :
    ∀ k, k * cs ≤ data.length →
      chunkLoop cs old.length data k (old ++ List.replicate data.length fill) =
        old ++ data.take (k * cs) ++ List.replicate (data.length - k * cs) fill := by
  intro k
  induction k with
  | zero => intro _; simp [chunkLoop]
  | succ k ih =>
    intro hk
    have hk' : k * cs ≤ data.length := by
      have : k * cs ≤ (k + 1) * cs := Nat.mul_le_mul_right cs (Nat.le_succ k)
      omega
    have hsucc : (k + 1) * cs = k * cs + cs := Nat.succ_mul k cs
    simp only [chunkLoop]
    rw [ih hk']
    have hrep : List.replicate (data.length - k * cs) fill =
        List.replicate cs fill ++ List.replicate (data.length - (k + 1) * cs) fill := by
      rw [List.replicate_append_replicate]
      congr 1
      omega
    have hlen : (old ++ data.take (k * cs)).length = old.length + k * cs := by
      rw [List.length_append, List.length_take, Nat.min_eq_left hk']
    have hd : ((data.drop (k * cs)).take cs).length = cs := by
      rw [List.length_take, List.length_drop]
      omega
    rw [hrep, ← List.append_assoc, ← hlen,
      setSlice_mid (old ++ data.take (k * cs)) (List.replicate cs fill) _ _
        (by rw [hd, List.length_replicate])]
    rw [hsucc, List.take_add, List.append_assoc old]

/-- **the resize-and-populate loop with remainder appends the data** -/
theorem populateNd_eq_append (cs : Nat) (old data : List Tok) :
    populateNd cs old.length (resize old (old.length + data.length)) data = old ++ data := by
  unfold populateNd
  rw [resize_grow]
  simp only
  have hdm := Nat.div_add_mod data.length cs
  have hle : data.length / cs * cs ≤ data.length := by
    rw [Nat.mul_comm]; omega
  rw [chunkLoop_inv cs old data _ hle]
  by_cases hr : data.length % cs = 0
  · simp only [hr, ne_eq, not_true_eq_false, if_false]
    have : data.length / cs * cs = data.length := by
      rw [Nat.mul_comm]; omega
    rw [this, List.take_length, Nat.sub_self]
    simp
  · simp only [ne_eq, hr, not_false_eq_true, if_true]
    have hlen : (old ++ data.take (data.length / cs * cs)).length =
        old.length + data.length / cs * cs := by
      rw [List.length_append, List.length_take, Nat.min_eq_left hle]
    have hsub : data.length - data.length / cs * cs = data.length % cs := by
      rw [Nat.mul_comm]; omega
    have hd : ((data.drop (data.length / cs * cs)).take (data.length % cs)).length =
        data.length % cs := by
      rw [List.length_take, List.length_drop]
      omega
    have h := setSlice_mid (old ++ data.take (data.length / cs * cs))
      (List.replicate (data.length % cs) fill) []
      ((data.drop (data.length / cs * cs)).take (data.length % cs))
      (by rw [hd, List.length_replicate])
    simp only [List.append_nil] at h
    rw [hsub, ← hlen, h, List.append_assoc old, ← List.take_add]
    have : data.length / cs * cs + data.length % cs = data.length := by
      rw [Nat.mul_comm]; omega
    rw [this, List.take_length]

theorem setSlice_tail (old data : List Tok) :
    setSlice (resize old (old.length + data.length)) old.length data = old ++ data := by
  rw [resize_grow]
  have h := setSlice_mid old (List.replicate data.length fill) [] data (by simp)
  simpa using h

theorem resize_nil (n : Nat) : resize [] n = List.replicate n fill := by
  simp [resize]

theorem bestChunk_pos (cb esize : Nat) : 0 < bestChunk cb esize := by
  unfold bestChunk
  omega

/-- `write_ndarray` appends, whatever the chunk size of the dataset -/
theorem writeNd_rows (cb : Nat) (scalar : Bool) (esize : Nat) (old : Option Dset)
    (data : List Tok) :
    (writeNd cb scalar esize old data).rows = (old.map (·.rows)).getD [] ++ data := by
  cases old with
  | none =>
    simp only [writeNd, Option.map_none, Option.getD_none, List.nil_append]
    have h1 := setSlice_tail [] data
    have h2 := populateNd_eq_append (bestChunk cb esize) [] data
    simp only [List.length_nil, List.nil_append, Nat.zero_add, resize_nil] at h1 h2
    cases scalar
    · simpa using h2
    · simpa using h1
  | some d =>
    simp only [writeNd, Option.map_some, Option.getD_some]
    cases scalar
    · simpa using populateNd_eq_append d.chunk d.rows data
    · simpa using setSlice_tail d.rows data

theorem writeNd_chunk_pos (cb : Nat) (scalar : Bool) (esize : Nat) (old : Option Dset)
    (hpos : ∀ d, old = some d → 0 < d.chunk) (data : List Tok) :
    0 < (writeNd cb scalar esize old data).chunk := by
  cases old with
  | none => exact bestChunk_pos _ _
  | some d => exact hpos d rfl

/-! ### ragged groups -/

/-- the group that holds `rows` under the names `s, s+1, …` -/
def enum : Nat → List Tok → List (Nat × Tok)
  | _, [] => []
  | s, r :: rs => (s, r) :: enum (s + 1) rs

theorem enum_length (s : Nat) (rows : List Tok) : (enum s rows).length = rows.length := by
  induction rows generalizing s with
  | nil => rfl
  | cons r rs ih => simp [enum, ih]

theorem enum_fst (s : Nat) (rows : List Tok) :
    (enum s rows).map Prod.fst = List.range' s rows.length := by
  induction rows generalizing s with
  | nil => rfl
  | cons r rs ih => simp [enum, ih, List.range'_succ]

theorem enum_append (s : Nat) (a b : List Tok) :
    enum s (a ++ b) = enum s a ++ enum (s + a.length) b := by
  induction a generalizing s with
  | nil => simp [enum]
  | cons r rs ih =>
    simp only [List.cons_append, enum, ih, List.length_cons]
    congr 3
    omega

theorem lookup_enum_out (s k : Nat) (rows : List Tok) (h : k < s ∨ s + rows.length ≤ k) :
    lookup k (enum s rows) = none := by
  induction rows generalizing s with
  | nil => rfl
  | cons r rs ih =>
    simp only [enum, lookup]
    have : s ≠ k := by
      simp only [List.length_cons] at h
      omega
    simp only [this, if_false]
    apply ih
    simp only [List.length_cons] at h
    omega

theorem map_lookup_enum (s : Nat) (rows : List Tok) :
    (List.range' s rows.length).map (fun i => lookup i (enum s rows)) = rows.map some := by
  induction rows generalizing s with
  | nil => rfl
  | cons r rs ih =>
    simp only [List.length_cons, List.range'_succ, List.map_cons, enum, lookup, if_true]
    congr 1
    rw [← ih (s + 1)]
    apply List.map_congr_left
    intro i hi
    have : s ≠ i := by
      have := (List.mem_range'_1.mp hi).1
      omega
    simp [this]

theorem addRagged_dense (rows data : List Tok) :
    addRagged (enum 0 rows) rows.length data =
      (enum 0 (rows ++ data), rows.length + data.length, .ok) := by
  induction data generalizing rows with
  | nil => simp [addRagged]
  | cons c cs ih =>
    simp only [addRagged]
    rw [lookup_enum_out 0 rows.length rows (Or.inr (by omega))]
    simp only
    have h1 : enum 0 rows ++ [(rows.length, c)] = enum 0 (rows ++ [c]) := by
      rw [enum_append]; simp [enum]
    have h2 : rows.length + 1 = (rows ++ [c]).length := by simp
    rw [h1, h2, ih (rows ++ [c])]
    simp only [List.append_assoc, List.singleton_append, List.length_append, List.length_cons,
      List.length_nil]
    congr 2
    omega

/-! ### text -/

theorem le_foldl_max (lines : List Line) (m : Nat) :
    m ≤ lines.foldl (fun m l => max m l.length) m ∧
    ∀ l ∈ lines, l.length ≤ lines.foldl (fun m l => max m l.length) m := by
  induction lines generalizing m with
  | nil => exact ⟨Nat.le_refl _, by intro l hl; cases hl⟩
  | cons h t ih =>
    simp only [List.foldl_cons]
    obtain ⟨h1, h2⟩ := ih (max m h.length)
    refine ⟨by omega, ?_⟩
    intro l hl
    rcases List.mem_cons.mp hl with rfl | hl
    · omega
    · exact h2 l hl

theorem le_maxLen (lines : List Line) : ∀ l ∈ lines, l.length ≤ maxLen lines :=
  (le_foldl_max lines 100).2

theorem map_take_maxLen (lines : List Line) (w : Nat) (h : maxLen lines ≤ w) :
    lines.map (·.take w) = lines := by
  have : ∀ l ∈ lines, l.take w = l := by
    intro l hl
    apply List.take_of_length_le
    have := le_maxLen lines l hl
    omega
  rw [List.map_congr_left this, List.map_id']

/-- `write_text` (repaired rule) stores exactly the lines; every stored line fits the width -/
theorem writeText_spec (mode : Mode) (logs : List (String × Log)) (name : String)
    (lines : List Line)
    (hw : ∀ k lg, lookup k logs = some lg → ∀ l ∈ lg.lines, l.length ≤ lg.width) :
    (∀ k, ((lookup k (writeText .fixed mode logs name lines)).map (·.lines)).getD [] =
      if name = k then
        (if mode = .replace then [] else ((lookup name logs).map (·.lines)).getD []) ++ lines
      else ((lookup k logs).map (·.lines)).getD []) ∧
    (∀ k lg, lookup k (writeText .fixed mode logs name lines) = some lg →
      ∀ l ∈ lg.lines, l.length ≤ lg.width) := by
  -- the group after the optional deletion
  generalize hl1 : (if mode = .replace then erase name logs else logs) = logs1
  have hlk : ∀ k, lookup k logs1 =
      if mode = .replace ∧ name = k then none else lookup k logs := by
    intro k
    rw [← hl1]
    by_cases hm : mode = .replace
    · simp only [hm, if_true, lookup_erase, true_and]
    · simp [hm]
  have hw1 : ∀ k lg, lookup k logs1 = some lg → ∀ l ∈ lg.lines, l.length ≤ lg.width := by
    intro k lg h
    rw [hlk] at h
    split at h
    · cases h
    · exact hw k lg h
  have htake : ∀ (w : Nat) (l : Line), l ∈ lines.map (·.take w) → l.length ≤ w := by
    intro w l hl
    obtain ⟨l0, _, rfl⟩ := List.mem_map.mp hl
    exact List.length_take_le _ _
  unfold writeText
  simp only [hl1]
  cases hlook : lookup name logs1 with
  | none =>
    simp only
    refine ⟨?_, ?_⟩
    · intro k
      rw [lookup_put]
      by_cases hk : name = k
      · subst hk
        simp only [if_true, Option.map_some, Option.getD_some]
        rw [map_take_maxLen lines _ (Nat.le_refl _)]
        by_cases hm : mode = .replace
        · simp [hm]
        · have := hlk name
          simp only [hm, false_and, if_false] at this
          rw [← this, hlook]
          simp
      · simp only [hk, if_false]
        rw [hlk]
        simp [hk]
    · intro k lg h
      rw [lookup_put] at h
      split at h
      · injection h with h
        subst h
        exact htake _
      · exact hw1 k lg h
  | some lg0 =>
    have hm : mode ≠ .replace := by
      intro hm
      have := hlk name
      simp [hm, hlook] at this
    have hl0 : lookup name logs = some lg0 := by
      have := hlk name
      simp only [hm, false_and, if_false] at this
      rw [← this, hlook]
    simp only [true_and]
    by_cases hgt : maxLen lines > lg0.width
    · simp only [hgt, if_true]
      refine ⟨?_, ?_⟩
      · intro k
        rw [lookup_put]
        by_cases hk : name = k
        · subst hk
          simp only [if_true, Option.map_some, Option.getD_some, hm, if_false, hl0]
          rw [map_take_maxLen lines _ (Nat.le_refl _)]
        · simp only [hk, if_false]
          rw [hlk]
          simp [hk]
      · intro k lg h
        rw [lookup_put] at h
        split at h
        · injection h with h
          subst h
          intro l hl
          rcases List.mem_append.mp hl with hl | hl
          · have := hw1 name lg0 hlook l hl
            simp only
            omega
          · exact htake _ l hl
        · exact hw1 k lg h
    · simp only [hgt, if_false]
      refine ⟨?_, ?_⟩
      · intro k
        rw [lookup_put]
        by_cases hk : name = k
        · subst hk
          simp only [if_true, Option.map_some, Option.getD_some, hm, if_false, hl0]
          rw [map_take_maxLen lines _ (by omega)]
        · simp only [hk, if_false]
          rw [hlk]
          simp [hk]
      · intro k lg h
        rw [lookup_put] at h
        split at h
        · injection h with h
          subst h
          intro l hl
          rcases List.mem_append.mp hl with hl | hl
          · exact hw1 name lg0 hlook l hl
          · exact htake _ l hl
        · exact hw1 k lg h

/-- storing rows under `name` in a group of datasets (events or traces) -/
theorem store_rows (cb : Nat) (scalar : Bool) (esize : Nat) (mode : Mode) (name : String)
    (l : List (String × Dset)) (g : String → Option (List Tok))
    (hR : ∀ k, (lookup k l).map (·.rows) = g k) (data : List Tok) :
    (∀ k, (lookup k (if mode = .replace then erase name l else l)).map (·.rows) =
      upd g name (if mode = .replace then none else g name) k) ∧
    (∀ k, (lookup k (put name (writeNd cb scalar esize
        (lookup name (if mode = .replace then erase name l else l)) data)
        (if mode = .replace then erase name l else l))).map (·.rows) =
      upd g name (some ((if mode = .replace then none else g name).getD [] ++ data)) k) := by
  have h1 : ∀ k, (lookup k (if mode = .replace then erase name l else l)).map (·.rows) =
      upd g name (if mode = .replace then none else g name) k := by
    intro k
    unfold upd
    by_cases hm : mode = .replace
    · simp only [hm, if_true, lookup_erase]
      by_cases hk : name = k
      · simp [hk]
      · simp [hk, hR]
    · simp only [hm, if_false, hR]
      by_cases hk : name = k
      · simp [hk]
      · simp [hk]
  refine ⟨h1, ?_⟩
  intro k
  rw [lookup_put]
  by_cases hk : name = k
  · subst hk
    simp only [if_true, Option.map_some, writeNd_rows, h1, upd]
  · simp only [hk, if_false, h1]
    simp [upd, hk]

/-- simulation relation between the writer state and the specification state -/
structure Rel (s : St) (p : SpecSt) : Prop where
  mode : s.w.mode = p.mode
  feat : ∀ k, (lookup k s.f.events).map (·.rows) = p.feat k
  index : ∀ rows, p.feat "index" = some rows → rows = List.range' 1 rows.length
  tr : ∀ k, (lookup k s.f.traces).map (·.rows) = p.trace k
  contour : s.f.contour = p.contour.map (enum 0)
  gsize : ∀ n, s.w.gsize = some n → n = (p.contour.getD []).length
  log : ∀ k, ((lookup k s.f.logs).map (·.lines)).getD [] = p.log k
  logw : ∀ k lg, lookup k s.f.logs = some lg → ∀ l ∈ lg.lines, l.length ≤ lg.width
  table : ∀ k, lookup k s.f.tables = p.table k

theorem rel_init : Rel {} {} :=
  { mode := rfl, feat := fun _ => rfl, index := (by intro rows h; cases h),
    tr := fun _ => rfl, contour := rfl, gsize := (by intro n h; cases h),
    log := fun _ => rfl, logw := (by intro k lg h; cases h), table := fun _ => rfl }

theorem step_sim (cfg : Cfg) (hfix : cfg.text = .fixed) (s : St) (p : SpecSt) (h : Rel s p)
    (op : Op) : Rel (step cfg s op).1 (specStep p op) := by
  cases op with
  | openW m =>
    by_cases hm : m = .reset
    · subst hm
      simp only [step, specStep, if_true]
      exact { rel_init with mode := rfl }
    · simp only [step, specStep, hm, if_false]
      exact { h with mode := rfl, gsize := by intro n hn; cases hn }
  | close =>
    simp only [step, specStep]
    unfold rectify
    split
    · exact h
    · exact { h with }
  | table name t =>
    simp only [step, specStep]
    rw [← h.table name]
    cases hl : lookup name s.f.tables with
    | some _ => exact h
    | none =>
      simp only
      refine { h with table := ?_ }
      intro k
      simp only [lookup_put, upd]
      by_cases hk : name = k <;> simp [hk, h.table]
  | log name lines =>
    simp only [step, specStep, hfix]
    obtain ⟨h1, h2⟩ := writeText_spec s.w.mode s.f.logs name lines h.logw
    refine { h with log := ?_, logw := h2 }
    intro k
    rw [h1 k, h.mode, h.log]
    unfold upd
    by_cases hk : name = k
    · subst hk; simp
    · simp [hk, h.log]
  | contour rows =>
    simp only [step, specStep]
    rw [h.mode]
    by_cases hm : p.mode = .replace
    · simp only [hm, if_true, Option.getD_none, List.length_nil]
      have := addRagged_dense [] rows
      simp only [enum, List.length_nil, List.nil_append, Nat.zero_add] at this
      rw [this]
      exact { h with mode := rfl, contour := by simp, gsize := by intro n hn; simp at hn; simp [hn] }
    · simp only [hm, if_false]
      have hg : (s.f.contour.getD []) = enum 0 (p.contour.getD []) := by
        rw [h.contour]
        cases p.contour <;> simp [enum]
      have hc : s.w.gsize.getD (s.f.contour.getD []).length = (p.contour.getD []).length := by
        cases hgs : s.w.gsize with
        | none => simp [hg, enum_length]
        | some n => simp [h.gsize n hgs]
      rw [hc, hg, addRagged_dense]
      exact { h with mode := rfl, contour := by simp,
                     gsize := by intro n hn; simp at hn; simp [← hn] }
  | trace name esize rows =>
    simp only [step, specStep]
    rw [h.mode]
    obtain ⟨h1, h2⟩ := store_rows cfg.chunkBytes false esize p.mode name s.f.traces p.trace h.tr
      rows
    by_cases he : rows.isEmpty = true
    · simp only [he, if_true]
      refine { h with tr := ?_ }
      intro k
      rw [h1 k]
      simp [specRows, he]
    · have he' : rows.isEmpty = false := by simpa using he
      simp only [he', Bool.false_eq_true, if_false]
      refine { h with tr := ?_ }
      intro k
      rw [h2 k]
      simp [specRows, he]
  | feat name scalar esize rows =>
    simp only [step, specStep]
    rw [h.mode]
    by_cases hn : name = "index"
    · subst hn
      simp only [if_true]
      generalize hdata : List.range' _ rows.length = data
      obtain ⟨h1, h2⟩ := store_rows cfg.chunkBytes scalar esize p.mode "index" s.f.events p.feat
        h.feat data
      have hde : data.isEmpty = rows.isEmpty := by
        rw [← hdata]
        cases rows <;> simp [List.range'_succ]
      rw [hde]
      by_cases he : rows.isEmpty = true
      · simp only [he, if_true]
        refine { h with feat := ?_, index := ?_ }
        · intro k; rw [h1 k]
        · intro r hr
          simp only [upd, if_true] at hr
          split at hr
          · cases hr
          · exact h.index r hr
      · have he' : rows.isEmpty = false := by simpa using he
        simp only [he', Bool.false_eq_true, if_false]
        -- the rows before the call are `1..n0`
        have hold : (lookup "index" (if p.mode = .replace then erase "index" s.f.events
            else s.f.events)).map (·.rows) = if p.mode = .replace then none else p.feat "index" := by
          rw [h1 "index"]; simp [upd]
        have hval : (if p.mode = .replace then none else p.feat "index").getD [] ++ data =
            List.range' 1 ((if p.mode = .replace then 0
              else ((p.feat "index").map (·.length)).getD 0) + rows.length) := by
          rw [← hdata]
          by_cases hm : p.mode = .replace
          · simp [hm, lookup_erase]
          · simp only [hm, if_false]
            cases hpi : p.feat "index" with
            | none =>
              have := h.feat "index"
              rw [hpi] at this
              cases hl : lookup "index" s.f.events with
              | none => simp
              | some d => rw [hl] at this; cases this
            | some r =>
              have hr := h.index r hpi
              have := h.feat "index"
              rw [hpi] at this
              cases hl : lookup "index" s.f.events with
              | none => rw [hl] at this; cases this
              | some d =>
                rw [hl] at this
                simp only [Option.map_some, Option.some.injEq] at this
                simp only [Option.map_some, Option.getD_some, this]
                rw [hr, List.length_range', Nat.add_comm r.length 1, List.range'_append_1]
        refine { h with feat := ?_, index := ?_ }
        · intro k
          rw [h2 k, hval]
        · intro r hr
          simp only [upd, if_true] at hr
          injection hr with hr
          rw [← hr, List.length_range']
    · simp only [hn, if_false]
      obtain ⟨h1, h2⟩ := store_rows cfg.chunkBytes scalar esize p.mode name s.f.events p.feat
        h.feat rows
      have hidx : ∀ v r, upd p.feat name v "index" = some r → r = List.range' 1 r.length := by
        intro v r hr
        simp only [upd, hn, if_false] at hr
        exact h.index r hr
      by_cases he : rows.isEmpty = true
      · simp only [he, if_true]
        refine { h with feat := ?_, index := hidx _ }
        intro k
        rw [h1 k]
        simp [specRows, he]
      · have he' : rows.isEmpty = false := by simpa using he
        simp only [he', Bool.false_eq_true, if_false]
        refine { h with feat := ?_, index := hidx _ }
        intro k
        rw [h2 k]
        simp [specRows, he]

theorem run_sim (cfg : Cfg) (hfix : cfg.text = .fixed) (ops : List Op) :
    ∀ (s : St) (p : SpecSt), Rel s p → Rel (run cfg s ops) (specRun p ops) := by
  induction ops with
  | nil => intro s p h; exact h
  | cons op ops ih =>
    intro s p h
    exact ih _ _ (step_sim cfg hfix s p h op)

/-- under the relation the readers see exactly the specification's view -/
theorem read_of_rel (s : St) (p : SpecSt) (h : Rel s p) : read s.f = p.view := by
  unfold read SpecSt.view
  congr 1
  · funext k; exact h.feat k
  · funext k; exact h.tr k
  · rw [h.contour]
    cases p.contour with
    | none => rfl
    | some rows =>
      simp only [Option.map_some, enum_length, List.range_eq_range']
      rw [map_lookup_enum]
  · funext k; exact h.log k
  · funext k; exact h.table k

theorem minKey_mem (l : List String) (k : String) (h : minKey l = some k) : k ∈ l := by
  induction l generalizing k with
  | nil => cases h
  | cons a t ih =>
    simp only [minKey] at h
    cases hm : minKey t with
    | none =>
      rw [hm] at h
      injection h with h
      subst h
      exact List.mem_cons_self
    | some m =>
      rw [hm] at h
      simp only at h
      split at h
      · injection h with h
        subst h
        exact List.mem_cons_self
      · injection h with h
        subst h
        exact List.mem_cons_of_mem _ (ih m hm)

theorem minKey_some_of_ne_nil (l : List String) (h : l ≠ []) : ∃ k, minKey l = some k := by
  cases l with
  | nil => exact absurd rfl h
  | cons a t =>
    simp only [minKey]
    cases minKey t with
    | none => exact ⟨a, rfl⟩
    | some m =>
      simp only
      split
      · exact ⟨a, rfl⟩
      · exact ⟨m, rfl⟩

theorem lookup_of_mem_keys {α : Type} (k : String) (l : List (String × α))
    (h : k ∈ l.map Prod.fst) : ∃ v, lookup k l = some v := by
  induction l with
  | nil => cases h
  | cons hd t ih =>
    obtain ⟨k', v'⟩ := hd
    simp only [lookup]
    by_cases hk : k' = k
    · exact ⟨v', by simp [hk]⟩
    · simp only [hk, if_false]
      apply ih
      simp only [List.map_cons, List.mem_cons] at h
      rcases h with h | h
      · exact absurd h.symm hk
      · exact h

theorem brand_idem (d : String) (c : List String) : brand d (brand d c) = brand d c := by
  unfold brand
  by_cases h : c.getLast? = some d
  · simp [h]
  · simp [h]

theorem verRun_partial (d : String) (ops : List VerOp) :
    ∀ c, (∀ op ∈ ops, op = .store [] ∨ op = .close) →
      verRun d (brand d c) ops = brand d c := by
  induction ops with
  | nil => intro c _; rfl
  | cons op ops ih =>
    intro c h
    have h1 := h op List.mem_cons_self
    have h2 : ∀ o ∈ ops, o = .store [] ∨ o = .close := fun o ho => h o (List.mem_cons_of_mem _ ho)
    simp only [verRun]
    rcases h1 with rfl | rfl
    · simp only [verStep, List.isEmpty_nil, if_true, brand_idem]
      exact ih c h2
    · simp only [verStep, brand_idem]
      exact ih c h2

theorem accessRun_clean (data : List Tok) (convs : List (Tok → Tok)) :
    ∀ cache, (cache = none ∨ cache = some data) →
      accessRun .clean data cache convs = convs.map (fun c => data.map c) := by
  induction convs with
  | nil => intro _ _; rfl
  | cons c cs ih =>
    intro cache hc
    simp only [accessRun, List.map_cons]
    have harr : (accessStep .clean data cache c) = (some data, data.map c) := by
      rcases hc with rfl | rfl <;> rfl
    rw [harr]
    simp only
    rw [ih (some data) (Or.inr rfl)]

end DclabModel.Writer
